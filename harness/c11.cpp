/* C11 harness: what does ONE node do when it relays a cluster message?
 *
 * One process holds ONE topology (the ApiListener and the Zone/Endpoint registries are process-global): a zone
 * forest plus global zones, one or more endpoints per zone, a real started ApiListener.  The node identity is
 * switched with SetIdentity()+OnAllConfigLoaded() (all ApiListener::OnAllConfigLoaded does is to look the local
 * endpoint up).  Connectivity is what the production code reads: an endpoint is connected iff a JsonRpcConnection
 * is attached to it (Endpoint::AddClient / RemoveClient); connections are constructed but never started.  For every
 * case the public entry point ApiListener::RelayMessage is called with a constructed MessageOrigin and security
 * object, the relay work queue is joined, and every connection's outgoing queue is read behind a barrier on its
 * strand.
 *
 * Lines:
 *   T <self> <alloc>[/<fin>] <nz> <p0> .. <p(nz-1)> <nep> <z0> .. <z(nep-1)>
 *       | <order of zone 0> .. <order of zone nz-1> ; <all_parents of zone 0> .. <all_parents of zone nz-1>
 *       p: `-` root, `g` global zone, else index of the parent zone; z_k: zone of endpoint k.  Endpoint k is named
 *       e<kk> (two digits): the order of the indices is the order of the names, which is what GetMaster sorts.
 *       alloc: order in which the Endpoint objects are allocated (0 ascending, 1 descending, else seed of a
 *       shuffle) - it only influences the addresses and with them the iteration order of std::set<Endpoint::Ptr>.
 *       fin: order in which Zone::OnAllConfigLoaded is called for the zones (the order of finalisation is not fixed):
 *       absent = ascending index (parents first), `d` descending (children first), `p<digits>` that permutation.
 *       observation: for every zone the order in which Zone::GetEndpoints() iterates its endpoints in this process
 *       (`-` = no endpoints) - an oracle input of the model (DESIGN.md 0.3); after `;` for every zone what
 *       Zone::GetAllParents() returns (nearest first, `-` = none) - compared with the model's ancestor chain.
 *   R <conn> <client> <fromzone> <objzone> <kind> <log> | s=<eps> k=<eps> p=<0|1> oz=<zone|-> ts=<0|1> old=<n> bad=<n>
 *       conn    : one character per endpoint: 0 not connected, 1 one connection, 2 two connections (an older and a
 *                 newer one; which of the two lies first in memory alternates with the endpoint index), s / t = as 1 / 2 and
 *                 the endpoint is `syncing` (Endpoint::SetSyncing: the node is replaying its log to it); the character of
 *                 the node itself is ignored
 *       client  : `n` origin == nullptr, `-` origin without FromClient, `a` anonymous client (no Endpoint object),
 *                 else index of the endpoint whose connection is origin->FromClient
 *       fromzone: origin->FromZone (`-` null)
 *       objzone : zone of the security object (`-` none)
 *       kind    : `z` the security object is the Zone itself, `u` a User object with that zone attribute (objzone `-`:
 *                 a User without zone), `n` no security object (objzone `-` only)
 *       log     : the `log` argument
 *       observation: s = endpoints (with multiplicity) on whose newest connection the message was queued, k = endpoints
 *       whose local_log_position was advanced to the message's ts, p = the message was persisted (replay log message
 *       count grew), oz = the originZone field of the queued copies and of the message, ts = 1 iff the `ts` field equals
 *       the virtual clock, old = copies found on older connections, bad = queued texts that are not this message,
 *       m = what ApiListener::GetMaster() answers on the node in this state
 *   M <a> <b> <conn as node a sees it> <conn as node b sees it> | ma=<ep> mb=<ep>
 *       both node identities are asked for their zone master in the same scenario
 *
 *   D <conn> <from> <originzone> <objzone> <kind> | a=<0|1> s=<eps> p=<0|1> oz=<zone|-> ts=<0|1> old=<n> bad=<n>
 *       one NETWORK step: a raw JSON-RPC message `event::VerifC11` (field originZone as given, no ts) is handed to the
 *       REAL JsonRpcConnection::MessageHandler of endpoint <from>'s connection; the handler registered for it does what
 *       the cluster event handlers do (clusterevents.cpp: discard if origin->FromZone && !FromZone->CanAccessObject(obj),
 *       else process and RelayMessage(origin, obj, fresh message, true)).  a = the event was processed; the rest as for R.
 *       The model side is `deliver`: originOf, accept, relay.
 *
 *   E <conn> <from> <originzone> <objzone> <method> <var> | a=<0|1> s=<eps> p=<0|1> oz=<zone|-|!> ts=<0|1> old=<n> bad=<n> x=<n> m=<ep>
 *       one network step through a REAL cluster event handler (lib/icinga/clusterevents.cpp): the raw JSON-RPC message
 *       `event::<method>` about the Host / Service / Notification / Comment / Downtime object the node holds for zone <objzone>
 *       (`-`: the objects without zone attribute; var bit 0: service instead of host, SetRemovalInfo bit 1: downtime instead of
 *       comment) is handed to the real JsonRpcConnection::MessageHandler of endpoint <from>'s connection.  a = the node
 *       processed the event (state of the target objects changed or one of the notification signals fired), s / oz / ts / old =
 *       the copies of `event::<method>` the node queued (on EVERY connection, the sender's included), x = number of queued
 *       messages with another method (events the node generates itself while processing), p = the replay log grew.
 *   P <objzone> <kind> <del> <target> | p=<0|1> r=<0|1> x=<n>
 *       the REPLAY path: with nobody connected the node relays a local event about the object (kind as for R) - it is persisted
 *       when some entitled directly related endpoint exists -, then (del=1, kind u) the object is removed from the registry,
 *       endpoint <target> connects and the real ApiListener::ReplayLog runs for its connection.  r = the event was replayed to
 *       <target>, x = anything else queued anywhere.
 *   L <conn> <client> <fromzone> <objzone> <kind> <target> <pre> <post> | s=<eps> k=<eps> p=<0|1> lp=<z|offset> r=<n> x=<n>
 *       LOG POSITIONS across a reconnect: endpoint <target> reports the log position <pre> through the REAL handler of
 *       `log::SetLogPosition` (JsonRpcConnection::MessageHandler on its connection; `-` nothing, else a sequence of reports: `b` 60 s
 *       before the event, `e` the event's ts, `a` 1 s after it), the node relays an event exactly as in an R line (log = 1), <target> reports <post>, its
 *       connection is removed, a new one attached and the real ApiListener::ReplayLog runs for it.  s / k / p as for R,
 *       lp = <target>'s local_log_position when the replay starts (`z` zero, else its offset to the event's ts in seconds),
 *       r = copies of the event the replay queued for <target>, x = anything else queued anywhere (log::SetLogPosition apart).
 *   Q <a> <b> <objzone> <kind> <target> <conn a> <conn b> | sa=<eps> pa=<0|1> ra=<n> ab=<0|1> sb=<eps> pb=<0|1> rb=<n> x=<n>
 *       TWO NODES of one zone and one event: node <a> relays a local event about the object (conn a = what it is connected to),
 *       <target> - if it got the event - confirms it (log::SetLogPosition with the event's ts), reconnects and <a> replays its log
 *       for it (ra copies); if <a> sent the event to <b>, the identity is switched to <b> (conn b), the message is handed to the
 *       real MessageHandler of <a>'s connection (handler as for D lines: ab = accepted, re-relay with the origin), and the same
 *       happens there (sb, pb, rb).  What <target> receives from the two together is what the property's "no endpoint processes
 *       the same event twice" speaks about.
 *   N <orig> <objzone> <kind> <matrix> <mode> | proc=<eps> disc=<n> pers=<eps> sched=<to.from,..> left=<n> x=<n>
 *       a WHOLE PROPAGATION on the real code: <matrix> = one connectivity row per endpoint (joined by `/`); endpoint <orig> relays a
 *       local event about the object; every copy found on a connection's queue becomes an in-flight message (recipient, sender,
 *       originZone field); in-flight messages are delivered one by one (mode 0 oldest first, 1 newest first, else a seeded pick):
 *       the identity is switched to the recipient, its row of the matrix installed, and the raw message handed to the REAL
 *       MessageHandler of the sender's connection (handler as for D lines), until nothing is in flight.  proc = the endpoints that
 *       processed the event, in order; disc = messages discarded by the handler's CanAccessObject guard; pers = endpoints that
 *       logged it; sched = the deliveries made; left = messages still in flight when the step limit was hit.
 *
 * Modes: gen --seed S --tier quick|thorough [--work DIR]     enumeration + seeded sampling
 *        ops FILE [--work DIR]                               replay T/R lines (text after `|` ignored)
 *        node FILE --work DIR --id K                         (internal) one process = one topology
 */
#include "common.hpp"
#include "base/configuration.hpp"
#include "base/scriptglobal.hpp"
#include "base/tlsutility.hpp"
#include "base/io-engine.hpp"
#include "base/tlsstream.hpp"
#include "base/workqueue.hpp"
#include "remote/apilistener.hpp"
#include "remote/apifunction.hpp"
#include "remote/endpoint.hpp"
#include "remote/zone.hpp"
#include "remote/jsonrpcconnection.hpp"
#include "remote/messageorigin.hpp"
#include "remote/pkiutility.hpp"
#include "icinga/user.hpp"
#include "icinga/host.hpp"
#include "icinga/service.hpp"
#include "icinga/notification.hpp"
#include "icinga/comment.hpp"
#include "icinga/downtime.hpp"
#include "icinga/checkcommand.hpp"
#include "icinga/clusterevents.hpp"
#include "base/function.hpp"
#include "base/serializer.hpp"
#include "base/json.hpp"
#include <algorithm>
#include <filesystem>
#include <fstream>
#include <future>
#include <map>
#include <set>
#include <sys/stat.h>
#include <sys/wait.h>

using namespace icinga;
using namespace vh;
namespace fs = std::filesystem;

namespace vh {
VH_ROB_MEMBER(StrandTag, JsonRpcConnection, boost::asio::io_context::strand, m_IoStrand)
VH_ROB_MEMBER(OutQTag, JsonRpcConnection, std::vector<String>, m_OutgoingMessagesQueue)
VH_ROB_MEMBER(RelayQTag, ApiListener, WorkQueue, m_RelayQueue)
VH_ROB_MEMBER(SyncQTag, ApiListener, WorkQueue, m_SyncQueue)
VH_ROB_MEMBER(LogCountTag, ApiListener, size_t, m_LogMessageCount)
typedef void MhFn(const Dictionary::Ptr&);
VH_ROB_MEMBER(MhTag, JsonRpcConnection, MhFn, MessageHandler)
typedef void RlFn(const JsonRpcConnection::Ptr&);
VH_ROB_MEMBER(ReplayTag, ApiListener, RlFn, ReplayLog)
typedef void VoidFn();
VH_ROB_MEMBER(OpenTag, ApiListener, VoidFn, OpenLogFile)
VH_ROB_MEMBER(CloseTag, ApiListener, VoidFn, CloseLogFile)
}

static void Die(const std::string& msg)
{
	fprintf(stderr, "h_c11: %s\n", msg.c_str());
	fflush(stdout);
	_exit(2);
}

static std::vector<std::string> Words(const std::string& line)
{
	std::vector<std::string> w;
	std::istringstream is(line);
	std::string t;
	while (is >> t) {
		if (t == "|") break;
		w.push_back(t);
	}
	return w;
}

/* the real cluster events that are re-relayed by the node that processes them (lib/icinga/clusterevents.cpp).
 * sec: what the relaying signal handler passes to RelayMessage as security object: c the checkable, n the notification,
 * o the comment / downtime, - nothing (nullptr: the message goes to the node's own zone and its parents) */
struct EvMethod { const char *name; char sec; };
static const EvMethod kMethods[] = {
	{ "SetNextCheck", 'c' }, { "SetLastCheckStarted", 'c' }, { "SetStateBeforeSuppression", '-' },
	{ "SetSuppressedNotifications", '-' }, { "SetSuppressedNotificationTypes", '-' }, { "SetNextNotification", 'n' },
	{ "UpdateLastNotifiedStatePerUser", 'n' }, { "ClearLastNotifiedStatePerUser", 'n' }, { "SetForceNextCheck", 'c' },
	{ "SetForceNextNotification", 'c' }, { "SetAcknowledgement", 'c' }, { "ClearAcknowledgement", 'c' },
	{ "SendNotifications", '-' }, { "NotificationSentUser", '-' }, { "NotificationSentToAllUsers", '-' },
	{ "UpdateExecutions", 'c' }, { "SetRemovalInfo", 'o' }, { "CheckResult", 'c' },
};
static const EvMethod *FindMethod(const std::string& m)
{
	for (auto& e : kMethods) if (m == e.name) return &e;
	return nullptr;
}

/* ------------------------------------------------------------------------------------------- */
/* topology */

struct Topo {
	int self = 0;
	unsigned alloc = 0;
	std::string fin;           /* "" ascending, "d" descending, "p<digits>" explicit order of Zone::OnAllConfigLoaded */
	std::vector<int> parent;   /* -1 root, -2 global */
	std::vector<int> zoneOf;
	bool Global(int z) const { return parent[z] == -2; }
	std::string Body() const {
		std::string s = std::to_string(alloc) + (fin.empty() ? "" : "/" + fin) + " " + std::to_string(parent.size());
		for (int p : parent) s += p == -1 ? " -" : p == -2 ? " g" : " " + std::to_string(p);
		s += " " + std::to_string(zoneOf.size());
		for (int z : zoneOf) s += " " + std::to_string(z);
		return s;
	}
	std::string Line() const { return "T " + std::to_string(self) + " " + Body(); }
	std::vector<int> Eps(int z) const {
		std::vector<int> r;
		for (size_t e = 0; e < zoneOf.size(); e++) if (zoneOf[e] == z) r.push_back((int)e);
		return r;
	}
};

static bool ParseTopo(const std::vector<std::string>& w, Topo& t)
{
	if (w.size() < 5 || w[0] != "T") return false;
	t.self = atoi(w[1].c_str());
	t.alloc = (unsigned)strtoul(w[2].c_str(), nullptr, 10);
	t.fin = w[2].find('/') == std::string::npos ? "" : w[2].substr(w[2].find('/') + 1);
	size_t nz = (size_t)atoi(w[3].c_str());
	if (nz == 0 || nz > 16 || w.size() < 5 + nz) return false;
	t.parent.clear();
	for (size_t i = 0; i < nz; i++) {
		const std::string& p = w[4 + i];
		if (p == "-") t.parent.push_back(-1);
		else if (p == "g") t.parent.push_back(-2);
		else {
			int v = atoi(p.c_str());
			if (v < 0 || (size_t)v >= nz || (size_t)v == i) return false;
			t.parent.push_back(v);
		}
	}
	size_t nep = (size_t)atoi(w[4 + nz].c_str());
	if (nep == 0 || nep > 40 || w.size() != 5 + nz + nep) return false;
	t.zoneOf.clear();
	for (size_t i = 0; i < nep; i++) {
		int z = atoi(w[5 + nz + i].c_str());
		if (z < 0 || (size_t)z >= nz) return false;
		t.zoneOf.push_back(z);
	}
	if (t.self < 0 || (size_t)t.self >= nep) return false;
	for (size_t i = 0; i < nz; i++) {           /* parents are real zones, no cycles */
		int z = (int)i, steps = 0;
		while (t.parent[z] >= 0) { z = t.parent[z]; if (t.Global(z) || ++steps > 16) return false; }
	}
	return true;
}

/* ------------------------------------------------------------------------------------------- */
/* generation (pure text; never looks at the implementation) */

static int Depth(const std::vector<int>& parent, int z)
{
	int d = 1;
	while (parent[z] >= 0) { z = parent[z]; d++; }
	return d;
}

static std::string CanonNode(const std::vector<int>& parent, int z)
{
	std::vector<std::string> kids;
	for (size_t c = 0; c < parent.size(); c++) if (parent[c] == z) kids.push_back(CanonNode(parent, (int)c));
	std::sort(kids.begin(), kids.end());
	std::string s = "(";
	for (auto& k : kids) s += k;
	return s + ")";
}

static std::string CanonForest(const std::vector<int>& parent)
{
	std::vector<std::string> roots;
	for (size_t z = 0; z < parent.size(); z++) if (parent[z] == -1) roots.push_back(CanonNode(parent, (int)z));
	std::sort(roots.begin(), roots.end());
	std::string s;
	for (auto& r : roots) s += r;
	return s;
}

/* all forests with n zones and depth <= 3, one representative per isomorphism class */
static std::vector<std::vector<int>> Forests(int n)
{
	std::vector<std::vector<int>> out;
	std::set<std::string> seen;
	std::vector<int> p(n, -1);
	std::function<void(int)> rec = [&](int i) {
		if (i == n) {
			for (int z = 0; z < n; z++) if (Depth(p, z) > 3) return;
			if (seen.insert(CanonForest(p)).second) out.push_back(p);
			return;
		}
		for (int v = -1; v < i; v++) { p[i] = v; rec(i + 1); }
	};
	rec(0);
	return out;
}

struct GenCfg {
	size_t capPerSelf;
	int maxSelves;      /* per topology; 0 = all */
};

static std::string ListTok(std::vector<int> v)
{
	if (v.empty()) return "-";
	std::sort(v.begin(), v.end());
	std::string s;
	for (size_t i = 0; i < v.size(); i++) s += (i ? "," : "") + std::to_string(v[i]);
	return s;
}

static int evPerPoint = 2;
static int logPerPoint = 4;
static void GenCases(const Topo& t0, int self, Rng& rng, size_t cap, std::vector<std::string>& out, size_t& fullPairs)
{
	Topo t = t0;
	t.self = self;
	out.push_back(t.Line());
	int nz = (int)t.parent.size(), nep = (int)t.zoneOf.size();
	int lz = t.zoneOf[self];
	std::vector<int> related;
	for (int e = 0; e < nep; e++) {
		if (e == self) continue;
		int z = t.zoneOf[e];
		if (z == lz || t.parent[lz] == z || t.parent[z] == lz) related.push_back(e);
	}
	/* origins: (client, fromzone) */
	std::vector<std::pair<std::string, std::string>> natural, other;
	natural.push_back({ "n", "-" });
	natural.push_back({ "-", "-" });
	natural.push_back({ "a", "-" });
	for (int z = 0; z < nz; z++) { other.push_back({ "-", std::to_string(z) }); other.push_back({ "a", std::to_string(z) }); }
	for (int e = 0; e < nep; e++) {
		if (e == self) { other.push_back({ std::to_string(e), "-" }); continue; }
		std::string c = std::to_string(e);
		if (t.zoneOf[e] == lz) {
			natural.push_back({ c, "-" });
			for (int z = 0; z < nz; z++) natural.push_back({ c, std::to_string(z) });
		} else {
			natural.push_back({ c, std::to_string(t.zoneOf[e]) });
			other.push_back({ c, "-" });
			for (int z = 0; z < nz; z++) if (z != t.zoneOf[e]) other.push_back({ c, std::to_string(z) });
		}
	}
	/* objects */
	std::vector<std::pair<std::string, std::string>> objs;
	for (int z = 0; z < nz; z++) { objs.push_back({ std::to_string(z), "z" }); objs.push_back({ std::to_string(z), "u" }); }
	objs.push_back({ "-", "n" });
	objs.push_back({ "-", "u" });

	/* grid over the directly related endpoints: not connected / connected, zone peers additionally connected + syncing */
	std::vector<int> radix;
	uint64_t nconn = 1;
	for (int e : related) { radix.push_back(t.zoneOf[e] == lz ? 3 : 2); nconn *= (uint64_t)radix.back(); }
	auto connFor = [&](uint64_t idx) {
		std::string c(nep, '0');
		for (int e = 0; e < nep; e++) c[e] = rng.below(2) ? '1' : '0';
		for (size_t i = 0; i < related.size(); i++) {
			int d = (int)(idx % (uint64_t)radix[i]);
			idx /= (uint64_t)radix[i];
			c[related[i]] = d == 0 ? '0' : d == 1 ? '1' : 's';
		}
		for (int e = 0; e < nep; e++) {
			if (c[e] == '1' && t.zoneOf[e] != lz && rng.below(10) == 0) c[e] = 's';
			if (c[e] == '1' && rng.below(8) == 0) c[e] = '2';
			if (c[e] == 's' && rng.below(8) == 0) c[e] = 't';
		}
		c[self] = '.';
		return c;
	};
	auto emit = [&](const std::string& conn, const std::pair<std::string, std::string>& o, const std::pair<std::string, std::string>& ob) {
		out.push_back("R " + conn + " " + o.first + " " + o.second + " " + ob.first + " " + ob.second + " " + (rng.below(8) ? "1" : "0"));
	};
	/* the object kinds double the grid without touching the routing: the full grid takes kind z/n, kind u is sampled */
	size_t full = (size_t)nconn * natural.size() * (size_t)(nz + 1);
	if (full <= cap) {
		fullPairs++;
		for (uint64_t m = 0; m < nconn; m++)
			for (auto& o : natural)
				for (int z = 0; z <= nz; z++) {
					std::pair<std::string, std::string> ob;
					if (z == nz) ob = { "-", rng.below(2) ? "n" : "u" };
					else ob = { std::to_string(z), rng.below(4) ? "z" : "u" };
					emit(connFor(m), o, ob);
				}
		for (size_t i = 0; i < full / 8 + 8; i++)
			emit(connFor(rng.below(nconn)), other[rng.below(other.size())], objs[rng.below(objs.size())]);
	} else {
		for (size_t i = 0; i < cap; i++) {
			auto& o = rng.below(5) ? natural[rng.below(natural.size())] : other[rng.below(other.size())];
			emit(connFor(rng.below(nconn)), o, objs[rng.below(objs.size())]);
		}
	}
	/* network steps: every other endpoint as sender x originZone field x object zone, through the real MessageHandler */
	if (nep > 1) {
		std::vector<std::pair<std::string, std::string>> senders;
		for (int e = 0; e < nep; e++) {
			if (e == self) continue;
			senders.push_back({ std::to_string(e), "-" });
			if (t.zoneOf[e] == lz) for (int z = 0; z < nz; z++) senders.push_back({ std::to_string(e), std::to_string(z) });
			else senders.push_back({ std::to_string(e), std::to_string((int)rng.below((uint64_t)nz)) });
		}
		auto emitD = [&](uint64_t m, const std::pair<std::string, std::string>& sd, int z) {
			std::string conn = connFor(m);
			int from = atoi(sd.first.c_str());
			if (conn[from] == '0') conn[from] = rng.below(6) ? '1' : 's';
			out.push_back("D " + conn + " " + sd.first + " " + sd.second + " " + std::to_string(z) + " " + (rng.below(4) ? "z" : "u"));
		};
		size_t fullD = (size_t)nconn * senders.size() * (size_t)nz;
		if (fullD <= cap / 2) {
			for (uint64_t m = 0; m < nconn; m++) for (auto& sd : senders) for (int z = 0; z < nz; z++) emitD(m, sd, z);
		} else {
			for (size_t i = 0; i < cap / 2; i++) emitD(rng.below(nconn), senders[rng.below(senders.size())], (int)rng.below((uint64_t)nz));
		}
	}
	/* network steps through the REAL cluster event handlers (E lines): every other endpoint as sender x originZone field x
	 * object zone, the methods and their variants dealt round-robin (every variant is met many times per topology) */
	if (nep > 1) {
		struct Variant { const char *m; char sec; int var; };
		static std::vector<Variant> variants;
		if (variants.empty()) {
			for (auto& e : kMethods) {
				int nv = std::string(e.name) == "SetRemovalInfo" ? 4 : 2;
				for (int v = 0; v < nv; v++) variants.push_back({ e.name, e.sec, v });
			}
		}
		int perPoint = evPerPoint;
		for (int e = 0; e < nep; e++) {
			if (e == self) continue;
			std::vector<std::string> ozs;
			ozs.push_back("-");
			if (t.zoneOf[e] == lz) for (int z = 0; z < nz; z++) ozs.push_back(std::to_string(z));
			else ozs.push_back(std::to_string((int)rng.below((uint64_t)nz)));
			for (auto& ozf : ozs)
				for (int z = 0; z <= nz; z++)
					for (int k = 0; k < perPoint; k++) {
						Variant v = variants[rng.below(variants.size())];
						for (int tries = 0; tries < 40 && v.sec == 'c' && z < nz && t.Global(z); tries++) v = variants[rng.below(variants.size())];
						if (v.sec == 'c' && z < nz && t.Global(z)) continue;
						std::string conn = connFor(rng.below(nconn));
						if (conn[e] == '0') conn[e] = rng.below(6) ? '1' : 's';
						out.push_back("E " + conn + " " + std::to_string(e) + " " + ozf + " " + (z < nz ? std::to_string(z) : std::string("-")) + " " + v.m + " " + std::to_string(v.var));
					}
		}
		/* the replay path (P lines): every object zone x kind x present / deleted x every other endpoint as the one that connects */
		for (int e = 0; e < nep; e++) {
			if (e == self) continue;
			for (int z = 0; z <= nz; z++) {
				std::string zt = z < nz ? std::to_string(z) : std::string("-");
				if (z < nz) out.push_back("P " + zt + " z 0 " + std::to_string(e));
				else out.push_back("P - n 0 " + std::to_string(e));
				out.push_back("P " + zt + " u 0 " + std::to_string(e));
				out.push_back("P " + zt + " u 1 " + std::to_string(e));
			}
		}
		/* log positions across a reconnect (L lines): every directly related endpoint (and one in four of the others) as the one
		 * that reconnects x every object zone incl. none x {it was connected, it was not} x seeded connectivity of the others (each
		 * related endpoint missing with probability 0.4, so that something entitled is unreachable and the event is logged in most
		 * cases) x seeded origin (none / every shape MessageHandler produces for a connected sender) x positions reported before
		 * {none, older} and after {none, older, the event's ts, newer} the event */
		for (int e = 0; e < nep; e++) {
			if (e == self) continue;
			bool rel = std::find(related.begin(), related.end(), e) != related.end();
			if (!rel && rng.below(4) != 0) continue;
			for (int z = 0; z <= nz; z++) {
				for (int k = 0; k < logPerPoint; k++) {
					std::string conn(nep, '0');
					for (int x = 0; x < nep; x++) {
						if (x == self) continue;
						bool r = std::find(related.begin(), related.end(), x) != related.end();
						uint64_t d = rng.below(20);
						conn[x] = d < (r ? 8u : 14u) ? '0' : d < 17 ? '1' : d < 19 ? '2' : 's';
					}
					conn[e] = (k % 2 == 0) ? (rng.below(8) ? '1' : '2') : '0';
					std::string client = "n", fz = "-";
					if (rng.below(10) < 4) {
						std::vector<int> up;
						for (int x = 0; x < nep; x++) if (x != self && conn[x] != '0') up.push_back(x);
						if (!up.empty()) {
							int cl = up[rng.below(up.size())];
							client = std::to_string(cl);
							if (t.zoneOf[cl] != lz) fz = std::to_string(t.zoneOf[cl]);
							else if (rng.below(2)) fz = std::to_string((int)rng.below((uint64_t)nz));
						}
					}
					std::string zt = z < nz ? std::to_string(z) : std::string("-");
					std::string kind = z < nz ? (rng.below(2) ? "z" : "u") : (rng.below(2) ? "u" : "n");
					static const char *pres[] = { "-", "b", "-", "bb" }, *posts[] = { "-", "b", "e", "a", "b", "ab", "eb", "be" };
					out.push_back("L " + conn + " " + client + " " + fz + " " + zt + " " + kind + " " + std::to_string(e) + " "
						+ pres[rng.below(4)] + " " + posts[rng.below(8)]);
				}
			}
		}
	}
}

/* both members of every two-member zone are asked for their master: every combination of (not connected, connected,
 * connected + syncing) on either side, the rest of the cluster seeded */
static void GenMasterPairs(const Topo& t, Rng& rng, std::vector<std::string>& out)
{
	int nz = (int)t.parent.size(), nep = (int)t.zoneOf.size();
	const char st[3] = { '0', '1', 's' };
	for (int z = 0; z < nz; z++) {
		std::vector<int> ms = t.Eps(z);
		for (size_t i = 0; i < ms.size(); i++)
			for (size_t j = i + 1; j < ms.size(); j++)
				for (int sa = 0; sa < 3; sa++)
					for (int sb = 0; sb < 3; sb++) {
						std::string ca(nep, '0'), cb(nep, '0');
						for (int e = 0; e < nep; e++) { ca[e] = "01s2"[rng.below(4)]; cb[e] = "01s2"[rng.below(4)]; }
						ca[ms[j]] = st[sa]; cb[ms[i]] = st[sb];
						ca[ms[i]] = '.'; cb[ms[j]] = '.';
						out.push_back("M " + std::to_string(ms[i]) + " " + std::to_string(ms[j]) + " " + ca + " " + cb);
					}
	}
}

/* endpoint table for a forest: `counts[z]` endpoints per zone, indices (= name ranks) dealt by a seeded shuffle */
/* the two members of every two-member zone and one event (Q lines): every object zone x every endpoint of a parent / child zone
 * as the one that reconnects x {connected to both, to the first, to the second, to neither} x seeded rest, the two seeing each
 * other (3 of 4 cases) or not */
static void GenPairs(const Topo& t, Rng& rng, std::vector<std::string>& out)
{
	int nz = (int)t.parent.size(), nep = (int)t.zoneOf.size();
	for (int a = 0; a < nep; a++)
		for (int b = 0; b < nep; b++) {
			if (a == b || t.zoneOf[a] != t.zoneOf[b]) continue;
			int members = 0;
			for (int e = 0; e < nep; e++) if (t.zoneOf[e] == t.zoneOf[a]) members++;
			if (members != 2) continue;
			int lz = t.zoneOf[a];
			for (int x = 0; x < nep; x++) {
				int zx = t.zoneOf[x];
				if (x == a || x == b || !(t.parent[lz] == zx || t.parent[zx] == lz)) continue;
				for (int z = 0; z < nz; z++)
					for (int k = 0; k < 4; k++) {
						std::string ca(nep, '0'), cb(nep, '0');
						for (int e = 0; e < nep; e++) {
							ca[e] = rng.below(3) ? '1' : '0';
							cb[e] = rng.below(3) ? '1' : '0';
						}
						char ab = rng.below(4) ? '1' : '0';
						ca[b] = ab; cb[a] = ab;
						ca[x] = (k & 1) ? '0' : '1';
						cb[x] = (k & 2) ? '0' : '1';
						out.push_back("Q " + std::to_string(a) + " " + std::to_string(b) + " " + std::to_string(z) + " " + (rng.below(2) ? "z" : "u") + " "
							+ std::to_string(x) + " " + ca + " " + cb);
					}
			}
		}
}

/* whole propagations on the real code (N lines): every originator x every object zone x {everything connected, two seeded symmetric
 * connectivity matrices} with the delivery order rotating over oldest-first / newest-first / seeded */
static void GenNets(const Topo& t, Rng& rng, std::vector<std::string>& out)
{
	int nz = (int)t.parent.size(), nep = (int)t.zoneOf.size();
	if (nep < 2) return;
	int k = 0;
	for (int pat = 0; pat < 3; pat++) {
		std::vector<std::string> rows(nep, std::string(nep, '1'));
		for (int a = 0; a < nep; a++) {
			rows[a][a] = '0';
			for (int b = a + 1; b < nep && pat > 0; b++) {
				bool rel = t.zoneOf[a] == t.zoneOf[b] || t.parent[t.zoneOf[a]] == t.zoneOf[b] || t.parent[t.zoneOf[b]] == t.zoneOf[a];
				char v = rel ? (rng.below(4) ? '1' : '0') : (rng.below(4) ? '0' : '1');
				rows[a][b] = v; rows[b][a] = v;
			}
		}
		std::string m;
		for (auto& r : rows) m += (m.empty() ? "" : "/") + r;
		for (int o = 0; o < nep; o++)
			for (int z = 0; z < nz; z++) {
				int mode = k % 3 == 2 ? 2 + (int)rng.below(50) : k % 3;
				k++;
				out.push_back("N " + std::to_string(o) + " " + std::to_string(z) + " " + (rng.below(2) ? "z" : "u") + " " + m + " " + std::to_string(mode));
			}
	}
}

static Topo MakeTopo(const std::vector<int>& forest, const std::vector<int>& counts, int nGlobal, Rng& rng)
{
	Topo t;
	t.parent = forest;
	std::vector<int> slots;
	for (size_t z = 0; z < forest.size(); z++) for (int k = 0; k < counts[z]; k++) slots.push_back((int)z);
	for (int g = 0; g < nGlobal; g++) t.parent.push_back(-2);
	int mode = (int)rng.below(3);
	if (mode == 1) std::reverse(slots.begin(), slots.end());
	if (mode == 2) for (size_t i = slots.size(); i > 1; i--) std::swap(slots[i - 1], slots[rng.below(i)]);
	t.zoneOf = slots;
	unsigned a = (unsigned)rng.below(4);
	t.alloc = a < 2 ? a : 2 + (unsigned)rng.below(1000);
	/* order of finalisation of the zones: parents first, children first, or a seeded permutation */
	int f = (int)rng.below(3);
	if (f == 1) t.fin = "d";
	else if (f == 2 && t.parent.size() <= 10) {
		std::vector<int> perm;
		for (size_t z = 0; z < t.parent.size(); z++) perm.push_back((int)z);
		for (size_t i = perm.size(); i > 1; i--) std::swap(perm[i - 1], perm[rng.below(i)]);
		t.fin = "p";
		for (int z : perm) t.fin += (char)('0' + z);
	}
	return t;
}

static void GenAll(uint64_t seed, bool thorough, std::vector<std::vector<std::string>>& parts, size_t& fullPairs)
{
	Rng rng(seed * 0x9e3779b97f4a7c15ULL + 11);
	size_t cap = thorough ? 20000 : 2500;
	evPerPoint = thorough ? 6 : 2;
	logPerPoint = thorough ? 12 : 4;
	int maxZones = 5;
	for (int n = 1; n <= maxZones; n++) {
		for (auto& forest : Forests(n)) {
			std::vector<std::vector<int>> countSets;
			if (n <= (thorough ? 4 : 3)) {
				for (int m = 0; m < (1 << n); m++) {
					std::vector<int> c(n);
					for (int z = 0; z < n; z++) c[z] = 1 + ((m >> z) & 1);
					countSets.push_back(c);
				}
			} else {
				countSets.push_back(std::vector<int>(n, 2));
				int extra = thorough ? 4 : 1;
				for (int k = 0; k < extra; k++) {
					std::vector<int> c(n);
					for (int z = 0; z < n; z++) c[z] = 1 + (int)rng.below(2);
					countSets.push_back(c);
				}
			}
			for (auto& counts : countSets) {
				Topo t = MakeTopo(forest, counts, 1, rng);
				std::vector<std::string> part;
				int nep = (int)t.zoneOf.size();
				std::vector<int> selves;
				for (int e = 0; e < nep; e++) selves.push_back(e);
				if (!thorough && n >= 5) {
					for (size_t i = selves.size(); i > 1; i--) std::swap(selves[i - 1], selves[rng.below(i)]);
					selves.resize(std::min<size_t>(selves.size(), 5));
				}
				for (int s : selves) GenCases(t, s, rng, cap, part, fullPairs);
				GenMasterPairs(t, rng, part);
				GenPairs(t, rng, part);
				GenNets(t, rng, part);
				parts.push_back(part);
			}
		}
	}
	/* trees of depth 3 with every order of finalisation of the zones (all permutations up to 4 zones + the global one kept
	 * last / first alternately; seeded permutations above): Zone::OnAllConfigLoaded must give every zone its complete
	 * parent chain whatever the order */
	for (int n = 3; n <= (thorough ? 5 : 4); n++) {
		for (auto& forest : Forests(n)) {
			bool deep = false;
			for (int z = 0; z < n; z++) if (Depth(forest, z) == 3) deep = true;
			if (!deep) continue;
			std::vector<int> perm;
			for (int z = 0; z < n; z++) perm.push_back(z);
			int count = 0;
			do {
				count++;
				if (n >= 5 && rng.below(6) != 0) continue;
				Topo t = MakeTopo(forest, std::vector<int>(n, thorough ? 2 : 1 + (count % 2)), 1, rng);
				t.fin = "p";
				if (count % 2) t.fin += (char)('0' + n);
				for (int z : perm) t.fin += (char)('0' + z);
				if (!(count % 2)) t.fin += (char)('0' + n);
				std::vector<std::string> part;
				int nep = (int)t.zoneOf.size();
				for (int e = 0; e < nep; e++) GenCases(t, e, rng, thorough ? 400 : 120, part, fullPairs);
				parts.push_back(part);
			} while (std::next_permutation(perm.begin(), perm.end()));
		}
	}
	/* beyond the property's quantifier (the definitions are general): three endpoints in a zone, two global zones,
	 * a global zone that has endpoints and a parent-less chain of depth 4 */
	int nExtra = thorough ? 24 : 6;
	for (int i = 0; i < nExtra; i++) {
		int n = 2 + (int)rng.below(4);
		std::vector<int> forest(n, -1);
		for (int z = 1; z < n; z++) forest[z] = rng.below(4) ? (int)rng.below((uint64_t)z) : -1;
		std::vector<int> counts(n);
		for (int z = 0; z < n; z++) counts[z] = 1 + (int)rng.below(3);
		Topo t = MakeTopo(forest, counts, 1 + (int)rng.below(2), rng);
		if (rng.below(3) == 0) t.zoneOf.push_back((int)t.parent.size() - 1);       /* endpoint in a global zone */
		std::vector<std::string> part;
		int nep = (int)t.zoneOf.size();
		for (int k = 0; k < 3; k++) GenCases(t, (int)rng.below((uint64_t)nep), rng, cap, part, fullPairs);
		parts.push_back(part);
	}
}

/* ------------------------------------------------------------------------------------------- */
/* the node */

static Topo l_T;
static ApiListener::Ptr l_Listener;
static Shared<boost::asio::ssl::context>::Ptr l_Ssl;
static std::string l_Dir;
static std::vector<Zone::Ptr> l_Zones;
static std::vector<Endpoint::Ptr> l_Eps;
static std::vector<JsonRpcConnection::Ptr> l_Old, l_New;    /* per endpoint */
static JsonRpcConnection::Ptr l_Anon;
static std::vector<int> l_State;                             /* attached connections per endpoint: 0, 1, 2 */
static std::vector<User::Ptr> l_Users;                       /* per zone, + one without zone */
static double l_Now = 200000;
static int l_HandlerAccepted = 0;
static Dictionary::Ptr l_LastRelayed;
static long l_Tick = 0;

static int l_Signals = 0;                                    /* notification signals fired (events that change no attribute) */

static std::string ZoneName(int z) { return "z" + std::to_string(z); }
/* objects of zone z; z == number of zones: the objects without zone attribute */
static std::string HostName(int z) { return z < (int)l_T.parent.size() ? "h" + std::to_string(z) : std::string("hU"); }

static void SetF(const ConfigObject::Ptr& o, const char *field, const Value& v)
{
	int id = o->GetReflectionType()->GetFieldId(field);
	if (id < 0) { fprintf(stderr, "h_c11: no field %s\n", field); _exit(2); }
	o->SetField(id, v);
}

static void Bring(const ConfigObject::Ptr& p)
{
	p->Register();
	p->OnAllConfigLoaded();
	p->PreActivate();
	p->Activate();
	p->SetAuthority(true);
}

static void VExec(const Checkable::Ptr&, const CheckResult::Ptr&, const Dictionary::Ptr&, bool) { }
static std::string EpName(int e) { char b[16]; snprintf(b, sizeof b, "e%02d", e); return b; }

static void MkDirs(const std::string& p) { std::error_code ec; fs::create_directories(p, ec); }

static std::string ReadFile(const std::string& p)
{
	std::ifstream f(p, std::ios::binary);
	std::stringstream ss;
	ss << f.rdbuf();
	return ss.str();
}

static void Sync()
{
	ApiListener *l = l_Listener.get();
	(l->*get(RelayQTag())).Join();
	(l->*get(SyncQTag())).Join();
}

static void SetupPki(const std::string& work)
{
	/* RSA key generation is slow: one CA + node certificate, shared by all node processes */
	std::string pki = work + "/pki";
	if (!fs::exists(pki + "/done")) {
		std::string tmp = pki + ".tmp." + std::to_string(getpid());
		MkDirs(tmp + "/certs");
		Configuration::DataDir = tmp;
		if (PkiUtility::NewCa() > 0) Die("NewCa failed");
		String certs = ApiListener::GetCertsDir();
		if (PkiUtility::NewCert("vnode", certs + "/vnode.key", certs + "/vnode.csr", "") > 0) Die("NewCert failed");
		if (PkiUtility::SignCsr(certs + "/vnode.csr", certs + "/vnode.crt") > 0) Die("SignCsr failed");
		Utility::CopyFile(ApiListener::GetCaDir() + "/ca.crt", certs + "/ca.crt");
		std::ofstream(tmp + "/done") << "1";
		std::error_code ec;
		fs::rename(tmp, pki, ec);
		if (ec) fs::remove_all(tmp, ec);      /* somebody else was faster */
	}
}

static JsonRpcConnection::Ptr MkConn(const std::string& identity, bool auth)
{
	return JsonRpcConnection::Ptr(new JsonRpcConnection(String(identity), auth,
		Shared<AsioTlsStream>::Make(IoEngine::Get().GetIoContext(), *l_Ssl), RoleServer));
}

static void SwitchIdentity(int self)
{
	Sync();
	/* the node itself has no connection to itself */
	while (l_State[self] > 0) {
		l_Eps[self]->RemoveClient(l_State[self] == 2 ? l_Old[self] : l_New[self]);
		l_State[self]--;
	}
	l_Listener->SetIdentity(String(EpName(self)));
	static_pointer_cast<ConfigObject>(l_Listener)->OnAllConfigLoaded();
	if (Endpoint::GetLocalEndpoint() != l_Eps[self]) Die("local endpoint not switched");
	if (Zone::GetLocalZone() != l_Zones[l_T.zoneOf[self]]) Die("local zone not resolved");
	l_T.self = self;
}

static void BuildNode(const std::string& work, const std::string& id)
{
	l_Dir = work + "/node-" + id;
	std::error_code ec;
	fs::remove_all(l_Dir, ec);
	MkDirs(l_Dir);
	fs::copy(work + "/pki/certs", l_Dir + "/certs", fs::copy_options::recursive, ec);
	fs::copy(work + "/pki/ca", l_Dir + "/ca", fs::copy_options::recursive, ec);
	Configuration::DataDir = l_Dir;
	Configuration::CacheDir = l_Dir + "/cache";
	Configuration::LogDir = l_Dir + "/log";
	Configuration::ZonesDir = l_Dir + "/zones.d";
	Configuration::ConfigDir = l_Dir + "/etc";
	MkDirs(l_Dir + "/cache"); MkDirs(l_Dir + "/log"); MkDirs(l_Dir + "/zones.d"); MkDirs(l_Dir + "/etc");
	ScriptGlobal::Set("NodeName", "vnode");
	Application::SetStartTime(1000);
	SetNow(l_Now);

	ApiListener::Ptr l = new ApiListener();
	l->SetName("api");
	l->SetBindHost("127.0.0.1");
	l->SetBindPort("0");
	l->Register();
	static_pointer_cast<ConfigObject>(l)->OnConfigLoaded();
	l_Ssl = SetupSslContext(ApiListener::GetDefaultCertPath(), ApiListener::GetDefaultKeyPath(), ApiListener::GetDefaultCaPath(),
		"", l->GetCipherList(), l->GetTlsProtocolmin(), DebugInfo());
	l_Listener = l;

	int nz = (int)l_T.parent.size(), nep = (int)l_T.zoneOf.size();
	/* allocation order of the Endpoint objects (addresses decide the iteration order of std::set<Endpoint::Ptr>) */
	std::vector<int> order;
	for (int e = 0; e < nep; e++) order.push_back(e);
	if (l_T.alloc == 1) std::reverse(order.begin(), order.end());
	else if (l_T.alloc >= 2) {
		Rng r(l_T.alloc);
		for (size_t i = order.size(); i > 1; i--) std::swap(order[i - 1], order[r.below(i)]);
	}
	l_Eps.assign(nep, nullptr);
	for (int e : order) {
		Endpoint::Ptr ep = new Endpoint();
		ep->SetName(String(EpName(e)));
		ep->Register();
		l_Eps[e] = ep;
	}
	for (int z = 0; z < nz; z++) {
		Zone::Ptr zo = new Zone();
		zo->SetName(String(ZoneName(z)));
		if (l_T.Global(z)) zo->SetGlobal(true);
		else if (l_T.parent[z] >= 0) zo->SetParentRaw(String(ZoneName(l_T.parent[z])));
		Array::Ptr members = new Array();
		for (int e : l_T.Eps(z)) members->Add(String(EpName(e)));
		if (members->GetLength() > 0) zo->SetEndpointsRaw(members);
		zo->Register();
		l_Zones.push_back(zo);
	}
	{
		std::vector<int> fin;
		for (int z = 0; z < nz; z++) fin.push_back(z);
		if (l_T.fin == "d") std::reverse(fin.begin(), fin.end());
		else if (!l_T.fin.empty()) {
			if (l_T.fin[0] != 'p' || (int)l_T.fin.size() != nz + 1) Die("bad finalisation order " + l_T.fin);
			std::vector<bool> seen(nz, false);
			for (int i = 0; i < nz; i++) {
				int z = l_T.fin[1 + i] - '0';
				if (z < 0 || z >= nz || seen[z]) Die("bad finalisation order " + l_T.fin);
				seen[z] = true;
				fin[i] = z;
			}
		}
		for (int z : fin) static_pointer_cast<ConfigObject>(l_Zones[z])->OnAllConfigLoaded();
	}
	for (auto& e : l_Eps) static_pointer_cast<ConfigObject>(e)->OnAllConfigLoaded();
	l_Listener->SetIdentity(String(EpName(l_T.self)));
	static_pointer_cast<ConfigObject>(l_Listener)->OnAllConfigLoaded();
	l_Listener->PreActivate();
	l_Listener->Activate();
	for (auto& e : l_Eps) { e->PreActivate(); e->Activate(); }
	for (auto& z : l_Zones) { z->PreActivate(); z->Activate(); }

	/* connections: an older and a newer one per endpoint (SyncSendMessage uses the newest only), one anonymous */
	l_State.assign(nep, 0);
	l_Old.assign(nep, nullptr);
	l_New.assign(nep, nullptr);
	for (int e = 0; e < nep; e++) {
		/* which of the two is constructed (and with that, usually, lies in memory) first alternates: std::set<JsonRpcConnection::Ptr>
		 * iterates by address */
		for (int k = 0; k < 2; k++) {
			bool older = (k == 0) == (e % 2 == 0);
			SetNow(older ? l_Now - 1000 : l_Now - 500);
			(older ? l_Old : l_New)[e] = MkConn(EpName(e), true);
		}
	}
	l_Anon = MkConn("anonymous", false);
	SetNow(l_Now);
	for (int e = 0; e < nep; e++)
		if (l_New[e]->GetEndpoint() != l_Eps[e] || !(l_Old[e]->GetTimestamp() < l_New[e]->GetTimestamp())) Die("connection setup");
	if (l_Anon->GetEndpoint()) Die("anonymous connection has an endpoint");

	/* security objects: a User per zone and one without zone */
	for (int z = 0; z <= nz; z++) {
		User::Ptr u = new User();
		u->SetName(String(z < nz ? "u" + std::to_string(z) : std::string("uU")));
		if (z < nz) u->SetZoneName(String(ZoneName(z)));
		u->Register();
		static_pointer_cast<ConfigObject>(u)->OnAllConfigLoaded();
		if (z < nz && u->GetZone() != l_Zones[z]) Die("user zone not resolved");
		l_Users.push_back(u);
	}
	/* the objects the real cluster events are about: per zone (and without zone) a host, a service, a notification, a comment
	 * and a downtime for each.  A checkable cannot live in a global zone; there the host and service carry no zone attribute. */
	{
		CheckCommand::Ptr cmd = new CheckCommand();
		cmd->SetName("vcmd");
		cmd->SetExecute(new Function("vexec", VExec));
		Bring(cmd);
		User::Ptr user = new User();
		user->SetName("usr1");
		Bring(user);
		for (int z = 0; z <= nz; z++) {
			String zn = z < nz ? String(ZoneName(z)) : String();
			bool glob = z < nz && l_T.Global(z);
			String hn = String(HostName(z));
			Host::Ptr h = new Host();
			h->SetName(hn);
			SetF(h, "check_command", "vcmd");
			h->SetZoneName(glob ? String() : zn);
			Bring(h);
			Service::Ptr sv = new Service();
			SetF(sv, "host_name", hn);
			sv->SetShortName("s", true);
			sv->SetName(hn + "!s");
			SetF(sv, "check_command", "vcmd");
			sv->SetZoneName(glob ? String() : zn);
			Bring(sv);
			for (const char *suffix : { "!n", "!s!n" }) {
				Notification::Ptr nt = new Notification();
				SetF(nt, "host_name", hn);
				if (suffix[1] == 's') SetF(nt, "service_name", "s");
				nt->SetName(hn + suffix);
				nt->SetZoneName(zn);
				Bring(nt);
			}
			for (const char *suffix : { "!d", "!s!d" }) {
				Downtime::Ptr d = new Downtime();
				SetF(d, "host_name", hn);
				if (suffix[1] == 's') SetF(d, "service_name", "s");
				d->SetFixed(true);
				d->SetStartTime(4e9); d->SetEndTime(4e9 + 3600); d->SetEntryTime(1);
				d->SetAuthor("v"); d->SetComment("v");
				d->SetName(hn + suffix);
				d->SetZoneName(zn);
				Bring(d);
			}
			for (const char *suffix : { "!c", "!s!c" }) {
				Comment::Ptr c = new Comment();
				SetF(c, "host_name", hn);
				if (suffix[1] == 's') SetF(c, "service_name", "s");
				c->SetAuthor("v");
				c->SetText("v");
				c->SetName(hn + suffix);
				c->SetZoneName(zn);
				Bring(c);
			}
		}
		Checkable::OnNotificationsRequested.connect([](const Checkable::Ptr&, NotificationType, const CheckResult::Ptr&,
			const String&, const String&, const MessageOrigin::Ptr&) { l_Signals++; });
		Checkable::OnNotificationSentToUser.connect([](const Notification::Ptr&, const Checkable::Ptr&, const User::Ptr&,
			const NotificationType&, const CheckResult::Ptr&, const String&, const String&, const String&,
			const MessageOrigin::Ptr&) { l_Signals++; });
		Checkable::OnNotificationSentToAllUsers.connect([](const Notification::Ptr&, const Checkable::Ptr&, const std::set<User::Ptr>&,
			const NotificationType&, const CheckResult::Ptr&, const String&, const String&,
			const MessageOrigin::Ptr&) { l_Signals++; });
	}
	/* what a cluster event handler plus its signal handler do (clusterevents.cpp:97-183 and siblings) */
	ApiFunction::Register("event::VerifC11", new ApiFunction([](const MessageOrigin::Ptr& origin, const Dictionary::Ptr& params) -> Value {
		Endpoint::Ptr endpoint = origin->FromClient->GetEndpoint();
		if (!endpoint) return Empty;
		int z = (int)(double)params->Get("zone");
		String kind = params->Get("kind");
		ConfigObject::Ptr obj;
		if (kind == "z") obj = l_Zones[z]; else obj = l_Users[z];
		if (origin->FromZone && !origin->FromZone->CanAccessObject(obj)) return Empty;
		l_HandlerAccepted++;
		Dictionary::Ptr np = new Dictionary({ { "n", (double)l_Tick } });
		Dictionary::Ptr msg = new Dictionary({ { "jsonrpc", "2.0" }, { "method", "event::VerifC11" }, { "params", np } });
		l_LastRelayed = msg;
		ApiListener::GetInstance()->RelayMessage(origin, obj, msg, true);
		return Empty;
	}));
	Sync();
	SwitchIdentity(l_T.self);
}

static std::string OrderText()
{
	std::string s;
	for (size_t z = 0; z < l_Zones.size(); z++) {
		std::string o;
		for (const Endpoint::Ptr& ep : l_Zones[z]->GetEndpoints()) {
			int e = atoi(ep->GetName().CStr() + 1);
			o += (o.empty() ? "" : ",") + std::to_string(e);
		}
		s += (z ? " " : "") + (o.empty() ? std::string("-") : o);
	}
	return s;
}

static std::string ParentsText()
{
	std::string s;
	for (size_t z = 0; z < l_Zones.size(); z++) {
		std::string o;
		Array::Ptr ps = l_Zones[z]->GetAllParents();
		ObjectLock olock(ps);
		for (const String& name : ps) o += (o.empty() ? "" : ",") + std::string(name.CStr() + 1);
		s += (z ? " " : "") + (o.empty() ? std::string("-") : o);
	}
	return s;
}

static int MasterIndex()
{
	Endpoint::Ptr m = l_Listener->GetMaster();
	return m ? atoi(m->GetName().CStr() + 1) : -1;
}

static void SetConn(const std::string& conn)
{
	int nep = (int)l_T.zoneOf.size();
	for (int e = 0; e < nep; e++) {
		char ch = conn[e];
		int want = e == l_T.self ? 0 : (ch == '2' || ch == 't') ? 2 : (ch == '1' || ch == 's') ? 1 : 0;
		l_Eps[e]->SetSyncing(e != l_T.self && (ch == 's' || ch == 't'));
		/* state 1 = newest connection only, state 2 = newest + older */
		while (l_State[e] < want) { l_Eps[e]->AddClient(l_State[e] == 0 ? l_New[e] : l_Old[e]); l_State[e]++; }
		while (l_State[e] > want) { l_Eps[e]->RemoveClient(l_State[e] == 2 ? l_Old[e] : l_New[e]); l_State[e]--; }
	}
}

/* read and clear the outgoing queues of all connections behind a barrier on each strand */
static std::vector<std::vector<String>> DrainAll(const std::vector<JsonRpcConnection::Ptr>& conns)
{
	std::vector<std::promise<std::vector<String>>> proms(conns.size());
	std::vector<std::future<std::vector<String>>> futs;
	for (size_t i = 0; i < conns.size(); i++) {
		futs.push_back(proms[i].get_future());
		JsonRpcConnection *raw = conns[i].get();
		auto *pr = &proms[i];
		boost::asio::post(raw->*get(StrandTag()), [raw, pr]() {
			auto& q = raw->*get(OutQTag());
			std::vector<String> r;
			r.swap(q);
			pr->set_value(std::move(r));
		});
	}
	std::vector<std::vector<String>> res;
	for (auto& f : futs) res.push_back(f.get());
	return res;
}

struct Case {
	std::string conn, client, fromzone, objzone, kind;
	int log;
	bool deliver = false;      /* D line: client = sending endpoint, fromzone = the message's originZone field */
};

static bool ParseDeliver(const std::vector<std::string>& w, Case& c)
{
	if (w.size() != 6 || w[0] != "D") return false;
	c.deliver = true;
	c.conn = w[1]; c.client = w[2]; c.fromzone = w[3]; c.objzone = w[4]; c.kind = w[5];
	c.log = 1;
	int nz = (int)l_T.parent.size(), nep = (int)l_T.zoneOf.size();
	if ((int)c.conn.size() != nep) return false;
	auto isIdx = [](const std::string& s, int n) { return !s.empty() && s.find_first_not_of("0123456789") == std::string::npos && atoi(s.c_str()) < n; };
	if (!isIdx(c.client, nep) || atoi(c.client.c_str()) == l_T.self) return false;
	if (c.fromzone != "-" && !isIdx(c.fromzone, nz)) return false;
	if (!isIdx(c.objzone, nz)) return false;
	if (c.kind != "z" && c.kind != "u") return false;
	return true;
}

static bool ParseCase(const std::vector<std::string>& w, Case& c)
{
	if (w.size() != 7 || w[0] != "R") return false;
	c.conn = w[1]; c.client = w[2]; c.fromzone = w[3]; c.objzone = w[4]; c.kind = w[5];
	if (w[6] != "0" && w[6] != "1") return false;
	c.log = w[6] == "1";
	int nz = (int)l_T.parent.size(), nep = (int)l_T.zoneOf.size();
	if ((int)c.conn.size() != nep) return false;
	auto isIdx = [](const std::string& s, int n) { return !s.empty() && s.find_first_not_of("0123456789") == std::string::npos && atoi(s.c_str()) < n; };
	if (c.client != "n" && c.client != "-" && c.client != "a" && !isIdx(c.client, nep)) return false;
	if (c.fromzone != "-" && !isIdx(c.fromzone, nz)) return false;
	if (c.client == "n" && c.fromzone != "-") return false;
	if (c.objzone != "-" && !isIdx(c.objzone, nz)) return false;
	if (c.kind != "z" && c.kind != "u" && c.kind != "n") return false;
	if (c.objzone == "-" && c.kind == "z") return false;
	if (c.objzone != "-" && c.kind == "n") return false;
	return true;
}

static void RunCase(const Case& c)
{
	int nz = (int)l_T.parent.size(), nep = (int)l_T.zoneOf.size();
	l_Tick++;
	l_Now += 1;
	SetNow(l_Now);
	SetConn(c.conn);
	Sync();
	std::vector<JsonRpcConnection::Ptr> conns;
	for (int e = 0; e < nep; e++) { conns.push_back(l_New[e]); conns.push_back(l_Old[e]); }
	conns.push_back(l_Anon);
	DrainAll(conns);
	for (auto& ep : l_Eps) ep->SetLocalLogPosition(0);

	ApiListener *l = l_Listener.get();
	size_t before = l->*get(LogCountTag());
	Dictionary::Ptr message;
	l_HandlerAccepted = 0;
	l_LastRelayed = nullptr;
	if (c.deliver) {
		Dictionary::Ptr params = new Dictionary({ { "n", (double)l_Tick }, { "zone", (double)atoi(c.objzone.c_str()) }, { "kind", String(c.kind) } });
		Dictionary::Ptr raw = new Dictionary({ { "jsonrpc", "2.0" }, { "method", "event::VerifC11" }, { "params", params } });
		if (c.fromzone != "-") raw->Set("originZone", String(ZoneName(atoi(c.fromzone.c_str()))));
		JsonRpcConnection *conn = l_New[atoi(c.client.c_str())].get();
		(conn->*get(MhTag()))(raw);
		message = l_LastRelayed;
	} else {
		MessageOrigin::Ptr origin;
		if (c.client != "n") {
			origin = new MessageOrigin();
			if (c.client == "a") origin->FromClient = l_Anon;
			else if (c.client != "-") origin->FromClient = l_New[atoi(c.client.c_str())];
			if (c.fromzone != "-") origin->FromZone = l_Zones[atoi(c.fromzone.c_str())];
		}
		ConfigObject::Ptr secobj;
		if (c.kind == "z") secobj = l_Zones[atoi(c.objzone.c_str())];
		else if (c.kind == "u") secobj = c.objzone == "-" ? l_Users[nz] : l_Users[atoi(c.objzone.c_str())];

		Dictionary::Ptr params = new Dictionary({ { "n", (double)l_Tick } });
		message = new Dictionary({ { "jsonrpc", "2.0" }, { "method", "event::VerifC11" }, { "params", params } });
		l->RelayMessage(origin, secobj, message, c.log != 0);
	}
	Sync();
	size_t after = l->*get(LogCountTag());
	auto queues = DrainAll(conns);

	auto zoneTok = [](const Value& v) -> std::string {
		if (v.IsEmpty()) return "-";
		String s = v;
		if (s.GetLength() < 2 || s[0] != 'z') return "?";
		return std::string(s.CStr() + 1);
	};
	std::string oz = message ? zoneTok(message->Get("originZone")) : std::string("-");
	bool tsOk = !message || (message->Contains("ts") && (double)message->Get("ts") == l_Now);
	std::vector<int> sent, skipped;
	int old = 0, bad = 0;
	for (size_t i = 0; i < queues.size(); i++) {
		for (const String& text : queues[i]) {
			Dictionary::Ptr m;
			try { m = JsonDecode(text); } catch (...) { }
			if (!m || m->Get("method") != "event::VerifC11" || !m->Get("params").IsObjectType<Dictionary>()
				|| (double)Dictionary::Ptr(m->Get("params"))->Get("n") != (double)l_Tick) { bad++; continue; }
			if (zoneTok(m->Get("originZone")) != oz) oz = "!";
			if (!m->Contains("ts") || (double)m->Get("ts") != l_Now) tsOk = false;
			if (i == queues.size() - 1) { bad++; continue; }            /* the anonymous connection */
			if (i % 2 == 1) { old++; continue; }
			sent.push_back((int)(i / 2));
		}
	}
	for (int e = 0; e < nep; e++) {
		double p = l_Eps[e]->GetLocalLogPosition();
		if (p == l_Now) skipped.push_back(e);
		else if (p != 0) bad++;
	}
	int master = MasterIndex();
	if (c.deliver)
		printf("D %s %s %s %s %s | a=%d s=%s p=%d oz=%s ts=%d old=%d bad=%d m=%d\n", c.conn.c_str(), c.client.c_str(), c.fromzone.c_str(),
			c.objzone.c_str(), c.kind.c_str(), l_HandlerAccepted, ListTok(sent).c_str(), after > before ? 1 : 0,
			oz.c_str(), tsOk ? 1 : 0, old, bad, master);
	else
		printf("R %s %s %s %s %s %d | s=%s k=%s p=%d oz=%s ts=%d old=%d bad=%d m=%d\n", c.conn.c_str(), c.client.c_str(), c.fromzone.c_str(),
			c.objzone.c_str(), c.kind.c_str(), c.log, ListTok(sent).c_str(), ListTok(skipped).c_str(), after > before ? 1 : 0,
			oz.c_str(), tsOk ? 1 : 0, old, bad, master);
}

/* ------------------------------------------------------------------------------------------- */
/* E lines: one network step through a real cluster event handler */

struct ECase {
	std::string conn, from, originzone, objzone, method;
	int var = 0;
};

static bool ParseEvent(const std::vector<std::string>& w, ECase& c)
{
	if (w.size() != 7 || w[0] != "E") return false;
	c.conn = w[1]; c.from = w[2]; c.originzone = w[3]; c.objzone = w[4]; c.method = w[5];
	int nz = (int)l_T.parent.size(), nep = (int)l_T.zoneOf.size();
	auto isIdx = [](const std::string& s, int n) { return !s.empty() && s.size() < 4 && s.find_first_not_of("0123456789") == std::string::npos && atoi(s.c_str()) < n; };
	if ((int)c.conn.size() != nep) return false;
	if (!isIdx(c.from, nep) || atoi(c.from.c_str()) == l_T.self) return false;
	if (c.originzone != "-" && !isIdx(c.originzone, nz)) return false;
	if (c.objzone != "-" && !isIdx(c.objzone, nz)) return false;
	const EvMethod *m = FindMethod(c.method);
	if (!m) return false;
	if (!isIdx(w[6], 4)) return false;
	c.var = atoi(w[6].c_str());
	if (c.var >= 2 && c.method != "SetRemovalInfo") return false;
	/* a checkable has no global zone */
	if (m->sec == 'c' && c.objzone != "-" && l_T.Global(atoi(c.objzone.c_str()))) return false;
	return true;
}

static std::vector<ConfigObject::Ptr> GroupObjects(int z)
{
	std::vector<ConfigObject::Ptr> r;
	String hn = String(HostName(z));
	Host::Ptr h = Host::GetByName(hn);
	r.push_back(h);
	r.push_back(h->GetServiceByShortName("s"));
	for (const char *x : { "!n", "!s!n" }) r.push_back(Notification::GetByName(hn + x));
	for (const char *x : { "!c", "!s!c" }) r.push_back(Comment::GetByName(hn + x));
	for (const char *x : { "!d", "!s!d" }) r.push_back(Downtime::GetByName(hn + x));
	for (auto& o : r) if (!o) { fprintf(stderr, "h_c11: object group incomplete\n"); _exit(2); }
	return r;
}

static std::string Snapshot(const std::vector<ConfigObject::Ptr>& objs)
{
	std::string s;
	for (auto& o : objs) {
		s += std::string(JsonEncode(Serialize(o, FAState)).CStr()) + "\n";
		/* the removal information is neither config nor state */
		if (auto c = dynamic_pointer_cast<Comment>(o)) s += std::string(c->GetRemovedBy().CStr()) + "\n";
		if (auto d = dynamic_pointer_cast<Downtime>(o)) s += std::string(d->GetRemovedBy().CStr()) + "\n";
	}
	return s;
}

/* the parameters of the event, chosen such that processing it changes something on the node */
static Dictionary::Ptr EventParams(const ECase& c, int z)
{
	const std::string& m = c.method;
	bool svc = (c.var & 1) != 0;
	bool downtime = m == "SetRemovalInfo" && (c.var & 2);
	String hn = String(HostName(z));
	Host::Ptr host = Host::GetByName(hn);
	Checkable::Ptr chk = host;
	if (svc) chk = host->GetServiceByShortName("s");
	String nname = hn + (svc ? "!s!n" : "!n");
	String cname = hn + (svc ? "!s" : "") + (downtime ? "!d" : "!c");
	Notification::Ptr nt = Notification::GetByName(nname);
	Dictionary::Ptr p = new Dictionary();
	auto hostParams = [&]() { p->Set("host", hn); if (svc) p->Set("service", "s"); };
	double v = l_Now + 1000 + (double)l_Tick;

	if (m == "CheckResult") {
		hostParams();
		int state = 1 + (int)(l_Tick % 3);
		p->Set("cr", new Dictionary({ { "type", "CheckResult" }, { "state", state }, { "output", String("o" + std::to_string(l_Tick)) },
			{ "schedule_start", l_Now }, { "schedule_end", l_Now }, { "execution_start", l_Now }, { "execution_end", l_Now },
			{ "active", true }, { "exit_status", state }, { "performance_data", Array::Ptr(new Array()) } }));
	} else if (m == "SetNextCheck") {
		hostParams(); p->Set("next_check", v);
	} else if (m == "SetLastCheckStarted") {
		hostParams(); p->Set("last_check_started", v);
	} else if (m == "SetStateBeforeSuppression") {
		hostParams(); p->Set("state_before_suppression", ((int)chk->GetStateBeforeSuppression() + 1) % 4);
	} else if (m == "SetSuppressedNotifications") {
		hostParams(); p->Set("suppressed_notifications", (chk->GetSuppressedNotifications() + 1) % 64);
	} else if (m == "SetSuppressedNotificationTypes") {
		p->Set("notification", nname); p->Set("suppressed_notifications", (nt->GetSuppressedNotifications() + 1) % 64);
	} else if (m == "SetNextNotification") {
		p->Set("notification", nname); p->Set("next_notification", v);
	} else if (m == "UpdateLastNotifiedStatePerUser") {
		p->Set("notification", nname); p->Set("user", "usr1"); p->Set("state", (double)(l_Tick % 1000) + 5);
	} else if (m == "ClearLastNotifiedStatePerUser") {
		p->Set("notification", nname);
		nt->GetLastNotifiedStatePerUser()->Set("usr1", 2);
	} else if (m == "SetForceNextCheck") {
		hostParams(); p->Set("forced", !chk->GetForceNextCheck());
	} else if (m == "SetForceNextNotification") {
		hostParams(); p->Set("forced", !chk->GetForceNextNotification());
	} else if (m == "SetAcknowledgement") {
		hostParams();
		p->Set("author", "a"); p->Set("comment", "c"); p->Set("acktype", 1); p->Set("notify", false);
		p->Set("persistent", false); p->Set("expiry", 0); p->Set("change_time", l_Now);
		chk->SetAcknowledgementRaw(AcknowledgementNone); chk->SetAcknowledgementExpiry(0);
	} else if (m == "ClearAcknowledgement") {
		hostParams(); p->Set("author", "a"); p->Set("change_time", l_Now);
		chk->SetAcknowledgementRaw(AcknowledgementNormal);
	} else if (m == "SendNotifications") {
		hostParams(); p->Set("type", 32); p->Set("author", "a"); p->Set("text", "t");
	} else if (m == "NotificationSentUser") {
		hostParams(); p->Set("notification", nname); p->Set("user", "usr1"); p->Set("type", 32);
		p->Set("author", "a"); p->Set("text", "t"); p->Set("command", "nc");
	} else if (m == "NotificationSentToAllUsers") {
		hostParams(); p->Set("notification", nname); p->Set("users", Array::Ptr(new Array({ String("usr1") }))); p->Set("type", 32);
		p->Set("author", "a"); p->Set("text", "t"); p->Set("last_notification", v); p->Set("next_notification", v + 60);
		p->Set("notification_number", (double)(l_Tick % 1000)); p->Set("last_problem_notification", v);
		p->Set("no_more_notifications", false);
	} else if (m == "UpdateExecutions") {
		hostParams();
		p->Set("executions", new Dictionary({ { String("x" + std::to_string(l_Tick)), Dictionary::Ptr(new Dictionary({ { "pending", true } })) } }));
		chk->SetExecutions(new Dictionary());
	} else if (m == "SetRemovalInfo") {
		p->Set("object_type", downtime ? "Downtime" : "Comment"); p->Set("object_name", cname);
		p->Set("removed_by", String("r" + std::to_string(l_Tick))); p->Set("remove_time", v);
	} else {
		Die("no parameters for method " + m);
	}
	return p;
}

static std::string ZoneTok(const Value& v)
{
	if (v.IsEmpty()) return "-";
	String s = v;
	if (s.GetLength() < 2 || s[0] != 'z') return "?";
	return std::string(s.CStr() + 1);
}

static std::vector<JsonRpcConnection::Ptr> AllConns()
{
	std::vector<JsonRpcConnection::Ptr> conns;
	for (size_t e = 0; e < l_New.size(); e++) { conns.push_back(l_New[e]); conns.push_back(l_Old[e]); }
	conns.push_back(l_Anon);
	return conns;
}

static void RunEvent(const ECase& c)
{
	int nz = (int)l_T.parent.size(), nep = (int)l_T.zoneOf.size();
	l_Tick++;
	l_Now += 1;
	SetNow(l_Now);
	SetConn(c.conn);
	int z = c.objzone == "-" ? nz : atoi(c.objzone.c_str());
	Dictionary::Ptr params = EventParams(c, z);
	Sync();
	auto conns = AllConns();
	DrainAll(conns);
	for (auto& ep : l_Eps) ep->SetLocalLogPosition(0);
	auto objs = GroupObjects(z);
	std::string before = Snapshot(objs);
	l_Signals = 0;

	ApiListener *l = l_Listener.get();
	size_t logBefore = l->*get(LogCountTag());
	String method = String("event::" + c.method);
	Dictionary::Ptr raw = new Dictionary({ { "jsonrpc", "2.0" }, { "method", method }, { "params", params } });
	if (c.originzone != "-") raw->Set("originZone", String(ZoneName(atoi(c.originzone.c_str()))));
	JsonRpcConnection *conn = l_New[atoi(c.from.c_str())].get();
	(conn->*get(MhTag()))(raw);
	Sync();
	size_t logAfter = l->*get(LogCountTag());
	auto queues = DrainAll(conns);
	int applied = (Snapshot(objs) != before || l_Signals > 0) ? 1 : 0;

	std::string oz = "-";
	bool first = true, tsOk = true;
	std::vector<int> sent;
	int old = 0, bad = 0, others = 0;
	for (size_t i = 0; i < queues.size(); i++) {
		for (const String& text : queues[i]) {
			Dictionary::Ptr m;
			try { m = JsonDecode(text); } catch (...) { }
			if (!m) { bad++; continue; }
			if (m->Get("method") != method) { others++; continue; }
			std::string t = ZoneTok(m->Get("originZone"));
			if (first) { oz = t; first = false; } else if (t != oz) oz = "!";
			if (!m->Contains("ts") || (double)m->Get("ts") != l_Now) tsOk = false;
			if (i == queues.size() - 1) { bad++; continue; }            /* the anonymous connection */
			if (i % 2 == 1) { old++; continue; }
			sent.push_back((int)(i / 2));
		}
	}
	for (int e = 0; e < nep; e++) {
		double p = l_Eps[e]->GetLocalLogPosition();
		if (p != l_Now && p != 0) bad++;
	}
	printf("E %s %s %s %s %s %d | a=%d s=%s p=%d oz=%s ts=%d old=%d bad=%d x=%d m=%d\n", c.conn.c_str(), c.from.c_str(), c.originzone.c_str(),
		c.objzone.c_str(), c.method.c_str(), c.var, applied, ListTok(sent).c_str(), logAfter > logBefore ? 1 : 0, oz.c_str(), tsOk ? 1 : 0,
		old, bad, others, MasterIndex());
}

/* ------------------------------------------------------------------------------------------- */
/* P lines: what ApiListener::ReplayLog puts on the wire for an endpoint that (re)connects */

struct PCase {
	std::string objzone, kind;
	int del = 0, target = 0;
};

static bool ParseReplay(const std::vector<std::string>& w, PCase& c)
{
	if (w.size() != 5 || w[0] != "P") return false;
	c.objzone = w[1]; c.kind = w[2];
	int nz = (int)l_T.parent.size(), nep = (int)l_T.zoneOf.size();
	auto isIdx = [](const std::string& s, int n) { return !s.empty() && s.size() < 4 && s.find_first_not_of("0123456789") == std::string::npos && atoi(s.c_str()) < n; };
	if (c.objzone != "-" && !isIdx(c.objzone, nz)) return false;
	if (c.kind != "z" && c.kind != "u" && c.kind != "n") return false;
	if (c.objzone == "-" && c.kind == "z") return false;
	if (c.objzone != "-" && c.kind == "n") return false;
	if (w[3] != "0" && w[3] != "1") return false;
	c.del = w[3] == "1";
	if (c.del && c.kind != "u") return false;
	if (!isIdx(w[4], nep) || atoi(w[4].c_str()) == l_T.self) return false;
	c.target = atoi(w[4].c_str());
	return true;
}

static void RunReplay(const PCase& c)
{
	int nz = (int)l_T.parent.size(), nep = (int)l_T.zoneOf.size();
	l_Tick++;
	l_Now += 1;
	SetNow(l_Now);
	std::string none(nep, '0');
	SetConn(none);
	Sync();
	auto conns = AllConns();
	DrainAll(conns);
	for (auto& ep : l_Eps) ep->SetLocalLogPosition(0);

	ApiListener *l = l_Listener.get();
	/* start from an empty replay log (ReplayLog reads every record of every file) */
	{
		(l->*get(CloseTag()))();
		std::error_code ec;
		for (auto& e : fs::directory_iterator(l_Dir + "/api/log", ec)) fs::remove(e.path(), ec);
		(l->*get(OpenTag()))();
	}
	size_t logBefore = l->*get(LogCountTag());
	ConfigObject::Ptr secobj;
	if (c.kind == "z") secobj = l_Zones[atoi(c.objzone.c_str())];
	else if (c.kind == "u") secobj = c.objzone == "-" ? l_Users[nz] : l_Users[atoi(c.objzone.c_str())];
	Dictionary::Ptr params = new Dictionary({ { "n", (double)l_Tick } });
	Dictionary::Ptr message = new Dictionary({ { "jsonrpc", "2.0" }, { "method", "event::VerifC11" }, { "params", params } });
	l->RelayMessage(nullptr, secobj, message, true);
	Sync();
	size_t logAfter = l->*get(LogCountTag());
	DrainAll(conns);

	/* the object disappears (a comment, a downtime, any object created through the API can be deleted at runtime) */
	if (c.del) secobj->Unregister();
	/* the endpoint connects; everything older than this event counts as confirmed */
	std::string one = none;
	one[c.target] = '1';
	SetConn(one);
	l_Eps[c.target]->SetLocalLogPosition(l_Now - 0.5);
	(l->*get(ReplayTag()))(l_New[c.target]);
	Sync();
	if (c.del) secobj->Register();
	auto queues = DrainAll(conns);
	int replayed = 0, others = 0;
	for (size_t i = 0; i < queues.size(); i++) {
		for (const String& text : queues[i]) {
			Dictionary::Ptr m;
			try { m = JsonDecode(text); } catch (...) { }
			if (m && m->Get("method") == "log::SetLogPosition") continue;
			bool mine = m && m->Get("method") == "event::VerifC11" && m->Get("params").IsObjectType<Dictionary>()
				&& (double)Dictionary::Ptr(m->Get("params"))->Get("n") == (double)l_Tick;
			if (mine && i == (size_t)(2 * c.target)) replayed++; else others++;
		}
	}
	l_Eps[c.target]->SetSyncing(false);
	printf("P %s %s %d %d | p=%d r=%d x=%d\n", c.objzone.c_str(), c.kind.c_str(), c.del, c.target, logAfter > logBefore ? 1 : 0, replayed, others);
}

/* ------------------------------------------------------------------------------------------- */
/* L lines: log positions (SetLogPositionHandler + the skipped endpoints of RelayMessageOne) and the replay after a reconnect */

struct LCase {
	Case c;
	int target = 0;
	std::string pre = "-", post = "-";      /* sequences of reported positions */
};

static bool ParseLog(const std::vector<std::string>& w, LCase& c)
{
	if (w.size() != 9 || w[0] != "L") return false;
	std::vector<std::string> r = { "R", w[1], w[2], w[3], w[4], w[5], "1" };
	if (!ParseCase(r, c.c)) return false;
	if (c.c.client == "a") return false;
	int nep = (int)l_T.zoneOf.size();
	if (w[6].empty() || w[6].size() > 3 || w[6].find_first_not_of("0123456789") != std::string::npos) return false;
	c.target = atoi(w[6].c_str());
	if (c.target >= nep || c.target == l_T.self) return false;
	c.pre = w[7]; c.post = w[8];
	auto ok = [](const std::string& s) { return s == "-" || (!s.empty() && s.size() <= 4 && s.find_first_not_of("bea") == std::string::npos); };
	return ok(c.pre) && ok(c.post);
}

/* <target> tells the node how far it has read the node's log: the raw message goes through the real MessageHandler */
static void ReportPosition(int target, char what, double ts);
static void ReportPositions(int target, const std::string& seq, double ts)
{
	for (char ch : seq) ReportPosition(target, ch, ts);
}

static void ReportPosition(int target, char what, double ts)
{
	if (what == '-') return;
	double pos = what == 'b' ? ts - 60 : what == 'e' ? ts : ts + 1;
	Dictionary::Ptr raw = new Dictionary({ { "jsonrpc", "2.0" }, { "method", "log::SetLogPosition" },
		{ "params", new Dictionary({ { "log_position", pos } }) } });
	JsonRpcConnection *conn = l_New[target].get();
	(conn->*get(MhTag()))(raw);
}

static void RunLog(const LCase& lc)
{
	const Case& c = lc.c;
	int nz = (int)l_T.parent.size(), nep = (int)l_T.zoneOf.size();
	l_Tick++;
	l_Now += 100;
	SetNow(l_Now);
	SetConn(c.conn);
	Sync();
	auto conns = AllConns();
	DrainAll(conns);
	for (auto& ep : l_Eps) ep->SetLocalLogPosition(0);
	ApiListener *l = l_Listener.get();
	{
		(l->*get(CloseTag()))();
		std::error_code ec;
		for (auto& e : fs::directory_iterator(l_Dir + "/api/log", ec)) fs::remove(e.path(), ec);
		(l->*get(OpenTag()))();
	}
	ReportPositions(lc.target, lc.pre, l_Now);

	size_t before = l->*get(LogCountTag());
	MessageOrigin::Ptr origin;
	if (c.client != "n") {
		origin = new MessageOrigin();
		if (c.client != "-") origin->FromClient = l_New[atoi(c.client.c_str())];
		if (c.fromzone != "-") origin->FromZone = l_Zones[atoi(c.fromzone.c_str())];
	}
	ConfigObject::Ptr secobj;
	if (c.kind == "z") secobj = l_Zones[atoi(c.objzone.c_str())];
	else if (c.kind == "u") secobj = c.objzone == "-" ? l_Users[nz] : l_Users[atoi(c.objzone.c_str())];
	Dictionary::Ptr params = new Dictionary({ { "n", (double)l_Tick } });
	Dictionary::Ptr message = new Dictionary({ { "jsonrpc", "2.0" }, { "method", "event::VerifC11" }, { "params", params } });
	l->RelayMessage(origin, secobj, message, true);
	Sync();
	size_t after = l->*get(LogCountTag());
	auto isMine = [](const String& text) {
		Dictionary::Ptr m;
		try { m = JsonDecode(text); } catch (...) { }
		return m && m->Get("method") == "event::VerifC11" && m->Get("params").IsObjectType<Dictionary>()
			&& (double)Dictionary::Ptr(m->Get("params"))->Get("n") == (double)l_Tick;
	};
	std::vector<int> sent, skipped;
	int others = 0;
	{
		auto queues = DrainAll(conns);
		for (size_t i = 0; i < queues.size(); i++)
			for (const String& text : queues[i]) {
				if (isMine(text) && i % 2 == 0 && i / 2 < (size_t)nep) sent.push_back((int)(i / 2)); else others++;
			}
	}
	for (int e = 0; e < nep; e++)
		if (l_Eps[e]->GetLocalLogPosition() == l_Now) skipped.push_back(e);

	ReportPositions(lc.target, lc.post, l_Now);

	/* the connection drops, the endpoint connects again, the log is replayed for the new connection */
	l_Now += 2;
	SetNow(l_Now);
	std::string off = c.conn, on = c.conn;
	off[lc.target] = '0';
	on[lc.target] = '1';
	SetConn(off);
	SetConn(on);
	double lp = l_Eps[lc.target]->GetLocalLogPosition();
	(l->*get(ReplayTag()))(l_New[lc.target]);
	Sync();
	int replayed = 0;
	{
		auto queues = DrainAll(conns);
		for (size_t i = 0; i < queues.size(); i++)
			for (const String& text : queues[i]) {
				Dictionary::Ptr m;
				try { m = JsonDecode(text); } catch (...) { }
				if (m && m->Get("method") == "log::SetLogPosition") continue;
				if (isMine(text) && i / 2 == (size_t)lc.target) replayed++; else others++;
			}
	}
	l_Eps[lc.target]->SetSyncing(false);
	std::string lpTok = lp == 0 ? std::string("z") : std::to_string((long)(lp - (l_Now - 2)));
	printf("L %s %s %s %s %s %d %s %s | s=%s k=%s p=%d lp=%s r=%d x=%d\n", c.conn.c_str(), c.client.c_str(), c.fromzone.c_str(),
		c.objzone.c_str(), c.kind.c_str(), lc.target, lc.pre.c_str(), lc.post.c_str(), ListTok(sent).c_str(), ListTok(skipped).c_str(),
		after > before ? 1 : 0, lpTok.c_str(), replayed, others);
}

/* ------------------------------------------------------------------------------------------- */
/* Q lines: the two members of a zone, one event, one endpoint that reconnects to both */

struct QCase {
	int a = 0, b = 0, target = 0;
	std::string objzone, kind, connA, connB;
};

static bool ParsePair(const std::vector<std::string>& w, QCase& c)
{
	if (w.size() != 8 || w[0] != "Q") return false;
	int nz = (int)l_T.parent.size(), nep = (int)l_T.zoneOf.size();
	auto isIdx = [](const std::string& s, int n) { return !s.empty() && s.size() < 4 && s.find_first_not_of("0123456789") == std::string::npos && atoi(s.c_str()) < n; };
	if (!isIdx(w[1], nep) || !isIdx(w[2], nep) || !isIdx(w[3], nz) || !isIdx(w[5], nep)) return false;
	c.a = atoi(w[1].c_str()); c.b = atoi(w[2].c_str()); c.objzone = w[3]; c.kind = w[4]; c.target = atoi(w[5].c_str());
	if (c.kind != "z" && c.kind != "u") return false;
	if (c.a == c.b || c.target == c.a || c.target == c.b || l_T.zoneOf[c.a] != l_T.zoneOf[c.b]) return false;
	c.connA = w[6]; c.connB = w[7];
	if ((int)c.connA.size() != nep || (int)c.connB.size() != nep) return false;
	for (char ch : c.connA + c.connB) if (ch != '0' && ch != '1' && ch != '2') return false;
	return true;
}

struct QPhase { std::vector<int> sent; int persisted = 0, replayed = 0, accepted = 0, others = 0; };

/* one node's part: relay (from == -1: a local event; else the message arrives from endpoint <from>), confirmation, reconnect, replay */
static QPhase RunPairPhase(int node, const std::string& conn, int from, const QCase& c)
{
	QPhase ph;
	int nep = (int)l_T.zoneOf.size();
	SwitchIdentity(node);
	l_Now += 10;
	SetNow(l_Now);
	SetConn(conn);
	Sync();
	auto conns = AllConns();
	DrainAll(conns);
	for (auto& ep : l_Eps) ep->SetLocalLogPosition(0);
	ApiListener *l = l_Listener.get();
	{
		(l->*get(CloseTag()))();
		std::error_code ec;
		for (auto& e : fs::directory_iterator(l_Dir + "/api/log", ec)) fs::remove(e.path(), ec);
		(l->*get(OpenTag()))();
	}
	size_t before = l->*get(LogCountTag());
	int z = atoi(c.objzone.c_str());
	l_HandlerAccepted = 0;
	if (from < 0) {
		ConfigObject::Ptr secobj;
		if (c.kind == "z") secobj = l_Zones[z]; else secobj = l_Users[z];
		Dictionary::Ptr params = new Dictionary({ { "n", (double)l_Tick } });
		Dictionary::Ptr message = new Dictionary({ { "jsonrpc", "2.0" }, { "method", "event::VerifC11" }, { "params", params } });
		l->RelayMessage(nullptr, secobj, message, true);
	} else {
		Dictionary::Ptr params = new Dictionary({ { "n", (double)l_Tick }, { "zone", (double)z }, { "kind", String(c.kind) } });
		Dictionary::Ptr raw = new Dictionary({ { "jsonrpc", "2.0" }, { "method", "event::VerifC11" }, { "params", params } });
		JsonRpcConnection *cn = l_New[from].get();
		(cn->*get(MhTag()))(raw);
	}
	Sync();
	ph.accepted = l_HandlerAccepted;
	ph.persisted = (l->*get(LogCountTag())) > before ? 1 : 0;
	auto isMine = [](const String& text) {
		Dictionary::Ptr m;
		try { m = JsonDecode(text); } catch (...) { }
		return m && m->Get("method") == "event::VerifC11" && m->Get("params").IsObjectType<Dictionary>()
			&& (double)Dictionary::Ptr(m->Get("params"))->Get("n") == (double)l_Tick;
	};
	{
		auto queues = DrainAll(conns);
		for (size_t i = 0; i < queues.size(); i++)
			for (const String& text : queues[i]) {
				if (isMine(text) && i % 2 == 0 && i / 2 < (size_t)nep) ph.sent.push_back((int)(i / 2)); else ph.others++;
			}
	}
	/* an endpoint that received the event confirms it (its periodic log::SetLogPosition carries the ts of the last message) */
	if (std::find(ph.sent.begin(), ph.sent.end(), c.target) != ph.sent.end()) ReportPosition(c.target, 'e', l_Now);
	l_Now += 2;
	SetNow(l_Now);
	std::string off = conn, on = conn;
	off[c.target] = '0';
	on[c.target] = '1';
	SetConn(off);
	SetConn(on);
	(l->*get(ReplayTag()))(l_New[c.target]);
	Sync();
	{
		auto queues = DrainAll(conns);
		for (size_t i = 0; i < queues.size(); i++)
			for (const String& text : queues[i]) {
				Dictionary::Ptr m;
				try { m = JsonDecode(text); } catch (...) { }
				if (m && m->Get("method") == "log::SetLogPosition") continue;
				if (isMine(text) && i / 2 == (size_t)c.target) ph.replayed++; else ph.others++;
			}
	}
	l_Eps[c.target]->SetSyncing(false);
	return ph;
}

static void RunPair(const QCase& c)
{
	l_Tick++;
	QPhase pa = RunPairPhase(c.a, c.connA, -1, c), pb;
	if (std::find(pa.sent.begin(), pa.sent.end(), c.b) != pa.sent.end())
		pb = RunPairPhase(c.b, c.connB, c.a, c);
	printf("Q %d %d %s %s %d %s %s | sa=%s pa=%d ra=%d ab=%d sb=%s pb=%d rb=%d x=%d\n", c.a, c.b, c.objzone.c_str(), c.kind.c_str(), c.target,
		c.connA.c_str(), c.connB.c_str(), ListTok(pa.sent).c_str(), pa.persisted, pa.replayed, pb.accepted, ListTok(pb.sent).c_str(),
		pb.persisted, pb.replayed, pa.others + pb.others);
}

/* ------------------------------------------------------------------------------------------- */
/* N lines: a whole propagation, node by node, on the real code */

struct NCase {
	int orig = 0, mode = 0;
	std::string objzone, kind;
	std::vector<std::string> rows;
};

static bool ParseNet(const std::vector<std::string>& w, NCase& c)
{
	if (w.size() != 6 || w[0] != "N") return false;
	int nz = (int)l_T.parent.size(), nep = (int)l_T.zoneOf.size();
	auto isIdx = [](const std::string& s, int n) { return !s.empty() && s.size() < 4 && s.find_first_not_of("0123456789") == std::string::npos && atoi(s.c_str()) < n; };
	if (!isIdx(w[1], nep) || !isIdx(w[2], nz) || (w[3] != "z" && w[3] != "u") || !isIdx(w[5], 1000)) return false;
	c.orig = atoi(w[1].c_str()); c.objzone = w[2]; c.kind = w[3]; c.mode = atoi(w[5].c_str());
	std::string row;
	std::istringstream is(w[4]);
	while (std::getline(is, row, '/')) c.rows.push_back(row);
	if ((int)c.rows.size() != nep) return false;
	for (auto& r : c.rows) {
		if ((int)r.size() != nep) return false;
		for (char ch : r) if (ch != '0' && ch != '1') return false;
	}
	return true;
}

struct NMsg { int to, from; std::string oz; };

static void RunNet(const NCase& c)
{
	int nep = (int)l_T.zoneOf.size();
	int z = atoi(c.objzone.c_str());
	l_Tick++;
	std::vector<NMsg> inflight;
	std::vector<int> processed, persisted;
	int discarded = 0, others = 0;
	std::string sched;
	auto isMine = [](const Dictionary::Ptr& m) {
		return m && m->Get("method") == "event::VerifC11" && m->Get("params").IsObjectType<Dictionary>()
			&& (double)Dictionary::Ptr(m->Get("params"))->Get("n") == (double)l_Tick;
	};
	/* one node handles the event: from < 0 = it originates it; returns whether it processed it */
	auto node = [&](int self, int from, const std::string& ozField) -> bool {
		SwitchIdentity(self);
		l_Now += 1;
		SetNow(l_Now);
		SetConn(c.rows[self]);
		Sync();
		auto conns = AllConns();
		DrainAll(conns);
		ApiListener *l = l_Listener.get();
		size_t before = l->*get(LogCountTag());
		l_HandlerAccepted = 0;
		if (from < 0) {
			ConfigObject::Ptr secobj;
			if (c.kind == "z") secobj = l_Zones[z]; else secobj = l_Users[z];
			Dictionary::Ptr params = new Dictionary({ { "n", (double)l_Tick } });
			Dictionary::Ptr message = new Dictionary({ { "jsonrpc", "2.0" }, { "method", "event::VerifC11" }, { "params", params } });
			l->RelayMessage(nullptr, secobj, message, true);
		} else {
			Dictionary::Ptr params = new Dictionary({ { "n", (double)l_Tick }, { "zone", (double)z }, { "kind", String(c.kind) } });
			Dictionary::Ptr raw = new Dictionary({ { "jsonrpc", "2.0" }, { "method", "event::VerifC11" }, { "params", params } });
			if (ozField != "-") raw->Set("originZone", String(ZoneName(atoi(ozField.c_str()))));
			JsonRpcConnection *cn = l_New[from].get();
			(cn->*get(MhTag()))(raw);
		}
		Sync();
		bool accepted = from < 0 || l_HandlerAccepted > 0;
		if ((l->*get(LogCountTag())) > before) persisted.push_back(self);
		auto queues = DrainAll(conns);
		for (size_t i = 0; i < queues.size(); i++)
			for (const String& text : queues[i]) {
				Dictionary::Ptr m;
				try { m = JsonDecode(text); } catch (...) { }
				if (isMine(m) && i % 2 == 0 && i / 2 < (size_t)nep) inflight.push_back({ (int)(i / 2), self, ZoneTok(m->Get("originZone")) });
				else others++;
			}
		return accepted;
	};
	node(c.orig, -1, "-");
	processed.push_back(c.orig);
	int limit = 4 * nep + 8;
	for (int step = 0; step < limit && !inflight.empty(); step++) {
		size_t idx = c.mode == 0 ? 0 : c.mode == 1 ? inflight.size() - 1 : (size_t)((l_Tick * 7 + step * 13 + c.mode) % (long)inflight.size());
		NMsg m = inflight[idx];
		inflight.erase(inflight.begin() + idx);
		sched += (sched.empty() ? "" : ",") + std::to_string(m.to) + "." + std::to_string(m.from);
		if (node(m.to, m.from, m.oz)) processed.push_back(m.to); else discarded++;
	}
	std::sort(persisted.begin(), persisted.end());
	std::string proc;
	for (int e : processed) proc += (proc.empty() ? "" : ",") + std::to_string(e);
	std::string rows;
	for (auto& r : c.rows) rows += (rows.empty() ? "" : "/") + r;
	printf("N %d %s %s %s %d | proc=%s disc=%d pers=%s sched=%s left=%d x=%d\n", c.orig, c.objzone.c_str(), c.kind.c_str(), rows.c_str(), c.mode,
		proc.c_str(), discarded, ListTok(persisted).c_str(), sched.empty() ? "-" : sched.c_str(), (int)inflight.size(), others);
}

static int NodeMain(const std::string& file, const std::string& work, const std::string& id)
{
	std::ifstream in(file);
	if (!in) Die("cannot open " + file);
	std::string line, body;
	bool built = false;
	int lineSelf = 0;
	while (std::getline(in, line)) {
		auto w = Words(line);
		if (w.empty()) continue;
		if (w[0] == "T") {
			Topo t;
			if (!ParseTopo(w, t)) Die("bad T line: " + line);
			if (!built) {
				l_T = t;
				body = t.Body();
				InitIcinga();
				BuildNode(work, id);
				built = true;
			} else {
				if (t.Body() != body) Die("one topology per node process");
				SwitchIdentity(t.self);
			}
			lineSelf = l_T.self;
			printf("%s | %s ; %s\n", l_T.Line().c_str(), OrderText().c_str(), ParentsText().c_str());
		} else if (w[0] == "R") {
			Case c;
			if (!built || !ParseCase(w, c)) Die("bad R line: " + line);
			RunCase(c);
		} else if (w[0] == "M") {
			int nep = (int)l_T.zoneOf.size();
			if (!built || w.size() != 5 || (int)w[3].size() != nep || (int)w[4].size() != nep) Die("bad M line: " + line);
			int a = atoi(w[1].c_str()), b = atoi(w[2].c_str());
			if (a < 0 || a >= nep || b < 0 || b >= nep) Die("bad M line: " + line);
			SwitchIdentity(a);
			SetConn(w[3]);
			int ma = MasterIndex();
			SwitchIdentity(b);
			SetConn(w[4]);
			int mb = MasterIndex();
			SwitchIdentity(lineSelf);
			printf("M %d %d %s %s | ma=%d mb=%d\n", a, b, w[3].c_str(), w[4].c_str(), ma, mb);
		} else if (w[0] == "D") {
			Case c;
			if (!built || !ParseDeliver(w, c)) Die("bad D line: " + line);
			RunCase(c);
		} else if (w[0] == "E") {
			ECase c;
			if (!built || !ParseEvent(w, c)) Die("bad E line: " + line);
			RunEvent(c);
		} else if (w[0] == "P") {
			PCase c;
			if (!built || !ParseReplay(w, c)) Die("bad P line: " + line);
			RunReplay(c);
		} else if (w[0] == "L") {
			LCase c;
			if (!built || !ParseLog(w, c)) Die("bad L line: " + line);
			RunLog(c);
		} else if (w[0] == "Q") {
			QCase c;
			if (!built || !ParsePair(w, c)) Die("bad Q line: " + line);
			RunPair(c);
			SwitchIdentity(lineSelf);
		} else if (w[0] == "N") {
			NCase c;
			if (!built || !ParseNet(w, c)) Die("bad N line: " + line);
			RunNet(c);
			SwitchIdentity(lineSelf);
		} else {
			Die("bad line: " + line);
		}
	}
	fflush(stdout);
	std::error_code ec;
	fs::remove_all(l_Dir, ec);
	_exit(0);
}

/* ------------------------------------------------------------------------------------------- */
/* parent process: one part per topology, parts run as node processes in parallel */

static int RunParts(const char *self, const std::vector<std::vector<std::string>>& parts, const std::string& work)
{
	MkDirs(work);
	InitIcinga();
	SetupPki(work);
	size_t maxPar = 8;
	if (const char *e = getenv("VERIF_C11_JOBS")) maxPar = (size_t)std::max(1, atoi(e));
	std::vector<pid_t> pids(parts.size(), -1);
	std::vector<int> status(parts.size(), -1);
	size_t started = 0, finished = 0;
	auto partFile = [&](size_t i, const char *ext) { return work + "/part-" + std::to_string(i) + ext; };
	while (finished < parts.size()) {
		while (started < parts.size() && started - finished < maxPar) {
			size_t i = started++;
			{
				std::ofstream o(partFile(i, ".ops"));
				for (auto& l : parts[i]) o << l << "\n";
			}
			pid_t pid = fork();
			if (pid < 0) Die("fork failed");
			if (pid == 0) {
				if (!freopen(partFile(i, ".out").c_str(), "w", stdout)) _exit(3);
				std::string id = std::to_string(i);
				execl(self, self, "node", partFile(i, ".ops").c_str(), "--work", work.c_str(), "--id", id.c_str(), (char *)nullptr);
				_exit(3);
			}
			pids[i] = pid;
		}
		int st = 0;
		pid_t p = wait(&st);
		if (p < 0) Die("wait failed");
		for (size_t i = 0; i < parts.size(); i++) if (pids[i] == p) { status[i] = st; finished++; pids[i] = -1; }
	}
	int rc = 0;
	for (size_t i = 0; i < parts.size(); i++) {
		std::string out = ReadFile(partFile(i, ".out"));
		fwrite(out.data(), 1, out.size(), stdout);
		std::error_code ec;
		fs::remove(partFile(i, ".out"), ec);
		fs::remove(partFile(i, ".ops"), ec);
		if (!WIFEXITED(status[i]) || WEXITSTATUS(status[i]) != 0) {
			fprintf(stderr, "h_c11: node %zu failed (status %d)\n", i, status[i]);
			rc = 2;
		}
	}
	fflush(stdout);
	_exit(rc);
}

int main(int argc, char **argv)
{
	if (argc < 2) { fprintf(stderr, "usage: h_c11 gen|ops|node ...\n"); return 2; }
	std::string mode = argv[1];
	std::string work = argOr(argc, argv, "--work", "/verif/_work/c11/nodes");
	/* the harness re-executes itself: /proc/self/exe survives a relative argv[0] */
	char self[4096];
	ssize_t sl = readlink("/proc/self/exe", self, sizeof self - 1);
	if (sl <= 0) return 2;
	self[sl] = 0;

	if (mode == "node") {
		if (argc < 3) return 2;
		return NodeMain(argv[2], work, argOr(argc, argv, "--id", "0"));
	}
	std::vector<std::vector<std::string>> parts;
	if (mode == "gen") {
		uint64_t seed = strtoull(argOr(argc, argv, "--seed", "1"), nullptr, 10);
		bool thorough = std::string(argOr(argc, argv, "--tier", "quick")) == "thorough";
		size_t fullPairs = 0;
		GenAll(seed, thorough, parts, fullPairs);
		if (hasFlag(argc, argv, "--dry")) {
			size_t n = 0;
			for (auto& p : parts) n += p.size();
			printf("parts=%zu lines=%zu full=%zu\n", parts.size(), n, fullPairs);
			return 0;
		}
	} else if (mode == "ops") {
		if (argc < 3) return 2;
		std::ifstream in(argv[2]);
		if (!in) { perror("open"); return 2; }
		std::string line, body;
		while (std::getline(in, line)) {
			auto w = Words(line);
			if (w.empty()) continue;
			if (w[0] == "T") {
				Topo t;
				if (!ParseTopo(w, t)) { fprintf(stderr, "h_c11: bad T line: %s\n", line.c_str()); return 2; }
				if (parts.empty() || t.Body() != body) { parts.push_back({}); body = t.Body(); }
			}
			if (parts.empty()) { fprintf(stderr, "h_c11: R line before any T line\n"); return 2; }
			std::string clean;
			for (auto& t : w) clean += (clean.empty() ? "" : " ") + t;
			parts.back().push_back(clean);
		}
	} else {
		return 2;
	}
	return RunParts(self, parts, work);
}

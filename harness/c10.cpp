/* C10 harness: one process is ONE cluster node (the ApiListener is a singleton).  It drives the real
 * ApiListener::UpdateObjectAuthority (directly and through the authority timer registered by
 * ApiListener::Start), the real Endpoint::GetConnected (JsonRpcConnection objects attached to the peer
 * Endpoint), the real ConfigObject::SetAuthority / Pause / Resume and the real Utility::SDBM.
 *
 * Operation lines (names are hex encoded byte strings, `-` = empty):
 *   C <layout N|S|P> <nExtra> <nameA> <nameB> <zone1> <zone2> [<extra>...]
 *         N: no ApiListener at all.  S: A and B each alone in a zone of their own (zone1=[A], zone2=[B]).
 *         P: one zone zone1 = [A, B, extras...]; extras are further members that never run as a process.
 *   O <type> <ha 0|1> <active 0|1> <name>      object; type h Host, s Service, n Notification, d Downtime,
 *         c Comment, k CheckerComponent, f NotificationComponent (types e z a F K of older replays are ignored).
 *         ha 1 = HARunEverywhere.  Objects are numbered from 0 in the order of their O lines.
 *   H <name>                                    | <Utility::SDBM(name)>
 *   B <node> <start>                            (re)start of the process on <node> at time <start>
 *         (0 = Application start time not yet set): fresh objects, no connections.
 *   K <node> <peer> <0|1> [<conn#>]             connection number conn# (default 0) of <node> to endpoint #peer (0 = A, 1 = B, 2.. extras) is
 *         removed / attached: Endpoint::RemoveClient / AddClient with a JsonRpcConnection of its own per (peer, conn#).  An endpoint can
 *         hold several connections at a time (both members dial each other); it is connected while at least one is left.
 *   S <node> <start>                            the process on <node> dies without a clean shutdown and is started again at <start> THROUGH
 *         THE STATE FILE: ConfigObject::DumpObjects(file, FAState) on the running objects (the periodic dump), new objects as for B,
 *         ConfigObject::RestoreObjects(file, FAState) into them before they are activated (lib/cli/daemoncommand.cpp:289)
 *   U <node> <now>                              ApiListener::UpdateObjectAuthority() on <node> at time <now>
 *   X <node> <obj#> <now>                       two OVERLAPPING UpdateObjectAuthority() runs on <node>: the harness thread holds
 *         ObjectLock(object #obj) while two threads run UpdateObjectAuthority(); when both are blocked in that object's
 *         SetAuthority the lock is released.  Counts as ONE authority run.
 *   N <node> <now>                              a (forced, custom) notification is requested for the case's first host:
 *         Checkable::OnNotificationsRequested -> started NotificationComponent -> Checkable::SendNotifications
 *   D <node> <obj#> <now>                       object #obj (a Host/Service) becomes due for a check (SetNextCheck(now)); the
 *         started CheckerComponent's scheduler thread picks it up iff it is in its idle set
 *   F <node> <obj#> <now>                       like D, but the check command blocks: the check stays IN FLIGHT (the checkable sits in
 *         the scheduler's pending set) while the following lines run, until an R line, the next D/F line or the end of the case
 *   R <node> <now>                              release the check held by F and wait until its helper has finished
 *   A <node> <obj#> <now>                       object #obj (not the first host, not a feature) is deleted and CREATED AT RUNTIME on <node>: the old
 *         object is deactivated and unregistered, a new one of the same type and name is registered and activated the way
 *         ConfigItem::ActivateItems(.., runtimeCreated = true) does for ConfigObjectUtility::CreateObject (REST API, add-comment /
 *         schedule-downtime actions, cluster sync of such an object): PreActivate(); Activate(true).  The authority run that CreateObject
 *         issues afterwards for every type but Comment and Downtime is a U line of its own (the generator writes it).
 *   G <node> <obj#> <now> [<how>]               how = 0 (default): a suppressed Problem notification is pending on object #obj (a Host/Service other than the first
 *         host) of <node> -- the attributes as a downtime that ended / the cluster sync leave them: hard problem state, state before the
 *         suppression OK, suppressed_notifications = Problem, no check due soon -- and Checkable::FireSuppressedNotificationsTimer runs;
 *         afterwards the checkable's attributes are put back.  how = 1: Checkable::AcknowledgeProblem(.., notify = true) (then the
 *         acknowledgement is cleared again).  how = 2: a passive check result with a HARD state change OK -> CRITICAL is processed
 *         (Checkable::ProcessCheckResult, as for a result of its own and for one relayed by the other member; max_check_attempts 1 for
 *         the call; Hosts only, for a Service how = 2 is read as how = 1), then the checkable is put back into hard OK by a second result that is not counted.  In all three a notification
 *         is to be REQUESTED for the checkable by the member that is in charge of it and by no other.
 *   E <node> <peer> <bits>                      scramble the local state of <node>'s Endpoint object #peer that is not "connected":
 *         syncing, connecting, local/remote log position, capabilities, icinga_version, last message times (from the bits)
 *   T <node> <now>                              Timer::VerifFireDue(now) on <node>   | f=<seq> <obs>...
 *         seq: `a` authority timer ran, `n` notification timer ran, in firing order, `-` neither; one observation
 *         (taken right after that timer's production handler returned) per letter, one observation for `-`
 * Every B/K/U/X/N/D/A/G/T line is followed by ` | ` and this node's observation: for every object of the case, in
 * order, `<paused>:<#Pause() calls>:<#Resume() calls>:<#SetPaused calls>:<#command executions>:<#stashed>:<#requested>`, comma
 * separated (requested: OnNotificationsRequested signals for this checkable emitted while the suppressed-notifications timer ran;
 * command executions: of the recording NotificationCommand for a Notification, of the recording
 * CheckCommand for a Host/Service; stashed: length of a Notification's stashed_notifications).  The Endpoint/Zone/ApiListener objects and the node's started NotificationComponent `vnc` /
 * CheckerComponent `vcc` exist in every node process but are not observed (the property does not name them).
 *
 * Modes:  gen --seed S --tier quick|thorough [--node A|B]    ops FILE [--node A|B]
 * Without --node the process only spawns itself twice (node A, node B), reads both outputs in lockstep
 * and prints `<op> | <obs of A> | <obs of B>`.
 */
#include "common.hpp"
#include "base/configuration.hpp"
#include "base/scriptglobal.hpp"
#include "base/tlsutility.hpp"
#include "base/io-engine.hpp"
#include "base/tlsstream.hpp"
#include "remote/apilistener.hpp"
#include "remote/endpoint.hpp"
#include "remote/zone.hpp"
#include "remote/jsonrpcconnection.hpp"
#include "remote/pkiutility.hpp"
#include "icinga/notification.hpp"
#include "icinga/downtime.hpp"
#include "icinga/comment.hpp"
#include "icinga/notificationcommand.hpp"
#include "icinga/checkcommand.hpp"
#include "icinga/user.hpp"
#include "base/function.hpp"
#include "base/verif-hooks.hpp"
#include <condition_variable>
#include "checker/checkercomponent.hpp"
#include "notification/notificationcomponent.hpp"
#include <atomic>
#include <chrono>
#include <mutex>
#include <thread>
#include <map>
#include <set>
#include <sys/stat.h>
#include <sys/wait.h>

using namespace icinga;
using namespace vh;

namespace vh {
VH_ROB_STATIC(UoaTag, std::atomic<bool> *type, ApiListener, m_UpdatedObjectAuthority)
VH_ROB_MEMBER(RelayQTag, ApiListener, WorkQueue, m_RelayQueue)
VH_ROB_MEMBER(SyncQTag, ApiListener, WorkQueue, m_SyncQueue)
VH_ROB_MEMBER(AuthTimerTag, ApiListener, Timer::Ptr, m_AuthorityTimer)
VH_ROB_MEMBER(NotifTimerTag, NotificationComponent, Timer::Ptr, m_NotificationTimer)
VH_ROB_MEMBER(CcIdleTag, CheckerComponent, CheckerComponent::CheckableSet, m_IdleCheckables)
VH_ROB_MEMBER(CcPendTag, CheckerComponent, CheckerComponent::CheckableSet, m_PendingCheckables)
VH_ROB_MEMBER(CcMtxTag, CheckerComponent, std::mutex, m_Mutex)
VH_ROB_STATIC(FsnTimerTag, void (*type)(const Timer * const&), Checkable, FireSuppressedNotificationsTimer)
}

/* ------------------------------------------------------------------------------------------- */
/* scenario text */

static std::string Hex(const std::string& s)
{
	if (s.empty()) return "-";
	static const char *d = "0123456789abcdef";
	std::string r;
	for (unsigned char c : s) { r += d[c >> 4]; r += d[c & 15]; }
	return r;
}

static bool UnHex(const std::string& h, std::string& out)
{
	out.clear();
	if (h == "-") return true;
	if (h.size() % 2) return false;
	for (size_t i = 0; i < h.size(); i += 2) {
		int v = 0;
		for (int k = 0; k < 2; k++) {
			char c = h[i + k];
			int x = (c >= '0' && c <= '9') ? c - '0' : (c >= 'a' && c <= 'f') ? c - 'a' + 10 : -1;
			if (x < 0) return false;
			v = v * 16 + x;
		}
		out += (char)v;
	}
	return true;
}

static std::vector<std::string> Words(const std::string& line)
{
	std::vector<std::string> w;
	std::istringstream is(line);
	std::string t;
	while (is >> t) {
		if (t == "|") break;
		w.push_back(t);
	}
	return w;
}

/* ------------------------------------------------------------------------------------------- */
/* generator (pure: never looks at the implementation, so that node A and node B produce the same text) */

static std::string GenName(Rng& rng)
{
	int style = (int)rng.below(8);
	int len = 1 + (int)rng.below(style == 7 ? 40 : 12);
	std::string s;
	for (int i = 0; i < len; i++) {
		unsigned char c;
		switch (style) {
			case 0: case 1: case 2: c = "abcdefghijklmnopqrstuvwxyz0123456789-_.!"[rng.below(40)]; break;
			case 3: c = (unsigned char)(0x80 + rng.below(0x80)); break;                         /* only negative chars */
			case 4: c = rng.coin() ? (unsigned char)(0x80 + rng.below(0x80)) : (unsigned char)('a' + rng.below(26)); break;
			case 5: c = (unsigned char)rng.below(256); break;                                   /* anything incl. NUL */
			case 6: c = "ab"[rng.below(2)]; break;                                              /* near-equal names */
			default: c = (unsigned char)(0x20 + rng.below(0x5f)); break;
		}
		s += (char)c;
	}
	return s;
}

static std::string FreshName(Rng& rng, std::set<std::string>& used)
{
	for (;;) {
		std::string n = GenName(rng);
		if (used.insert(n).second) return n;
	}
}

static void GenCase(Rng& rng, std::vector<std::string>& out, bool thorough, long& clock, bool noListener)
{
	char buf[256];
	int lk = (int)rng.below(19);
	char layout = noListener ? 'N' : lk <= 1 ? 'S' : 'P';
	int nExtra = (layout == 'P' && rng.below(3) == 0) ? 1 + (int)rng.below(3) : 0;
	std::set<std::string> epNames, zoneNames;
	std::string nA = FreshName(rng, epNames), nB;
	/* near-miss endpoint names: prefix of each other, differ in the last byte, differ in sign of a byte */
	switch (rng.below(6)) {
		case 0: nB = nA + std::string(1, (char)rng.below(256)); break;
		case 1: nB = nA; nB[nB.size() - 1] = (char)(nB[nB.size() - 1] ^ 0x80); break;
		case 2: nB = nA; nB[0] = (char)(nB[0] + 1); break;
		default: nB = GenName(rng); break;
	}
	if (!epNames.insert(nB).second) nB = FreshName(rng, epNames);
	std::string z1 = FreshName(rng, zoneNames), z2 = FreshName(rng, zoneNames);
	std::string line = std::string("C ") + layout + " " + std::to_string(nExtra) + " " + Hex(nA) + " " + Hex(nB) + " " + Hex(z1) + " " + Hex(z2);
	for (int i = 0; i < nExtra; i++) line += " " + Hex(FreshName(rng, epNames));
	out.push_back(line);

	/* objects: the first one is always an active Host (Downtime/Comment/Notification/Service refer to it) */
	int nObj = 1 + (int)rng.below(thorough ? 40 : 24);
	std::map<char, std::set<std::string>> used;
	const char types[] = "hhssnnndckf";
	std::string shared = GenName(rng);
	/* object numbers as the harness sees them: derived objects first */
	int nDerived = 0;
	std::vector<int> checkables, creatable, laterCheckables;
	std::vector<char> typeOf;
	for (int i = 0; i < nObj; i++) {
		char t = i == 0 ? 'h' : types[rng.below(11)];
		if (t == 'h' || t == 's') checkables.push_back(nDerived + i);
		if ((t == 'h' || t == 's') && i > 0) laterCheckables.push_back(nDerived + i);
		if (i > 0 && t != 'k' && t != 'f') creatable.push_back(nDerived + i);
		typeOf.push_back(t);
		int ha = (i > 0 && rng.below(8) == 0) ? 1 : 0;
		int active = (i > 0 && rng.below(10) == 0) ? 0 : 1;
		std::string n;
		/* sometimes the same name for objects of different types (same hash, must land on the same node) */
		if (rng.below(5) == 0 && !used[t].count(shared)) { n = shared; used[t].insert(n); }
		else n = FreshName(rng, used[t]);
		snprintf(buf, sizeof buf, "O %c %d %d ", t, ha, active);
		out.push_back(buf + Hex(n));
		if (rng.below(4) == 0) out.push_back("H " + Hex(n));
	}

	/* events */
	long t0 = clock + 100 + (long)rng.below(1000);
	long start[2] = { t0, t0 + (long)rng.below(20) };
	if (rng.below(12) == 0) start[rng.below(2)] = 0;
	long now = t0;
	for (int k = 0; k < 2; k++) {
		snprintf(buf, sizeof buf, "B %c %ld", "AB"[k], start[k]);
		out.push_back(buf);
		if (start[k] > now) now = start[k];
	}
	int nEv = 4 + (int)rng.below(thorough ? 60 : 30);
	/* the connections each node holds to the other member, by number: an endpoint is connected while at least one is left */
	std::set<int> conns[2];
	auto isUp = [&](int k) { return !conns[k].empty(); };
	auto link = [&](int k, int peer, bool v, int c) {
		if (c) snprintf(buf, sizeof buf, "K %c %d %d %d", "AB"[k], peer, v ? 1 : 0, c);
		else snprintf(buf, sizeof buf, "K %c %d %d", "AB"[k], peer, v ? 1 : 0);
		out.push_back(buf);
		if (peer == 1 - k) { if (v) conns[k].insert(c); else conns[k].erase(c); }
	};
	/* node k's view of the other member flips: up = one connection (sometimes two) attached, down = all of them removed */
	auto setView = [&](int k, bool v) {
		if (v) { link(k, 1 - k, true, (int)rng.below(3)); if (rng.below(4) == 0) link(k, 1 - k, true, (int)rng.below(3)); }
		else { std::set<int> cs = conns[k]; for (int c : cs) link(k, 1 - k, false, c); if (cs.empty()) link(k, 1 - k, false, 0); }
	};
	int nAll = nDerived + nObj;
	bool racy = rng.below(3) == 0;    /* a share of the cases runs its authority updates as overlapping pairs */
	auto update = [&](int k) {
		if (racy && rng.below(3) != 0) snprintf(buf, sizeof buf, "X %c %d %ld", "AB"[k], (int)rng.below(nAll), now);
		else snprintf(buf, sizeof buf, "U %c %ld", "AB"[k], now);
		out.push_back(buf);
	};
	auto work = [&](int k, int r) {
		/* r: 0..2 notification request, 3 notification/authority timers, 4..5 due check */
		if (r <= 2) snprintf(buf, sizeof buf, "N %c %ld", "AB"[k], now);
		else if (r == 3) snprintf(buf, sizeof buf, "T %c %ld", "AB"[k], now);
		else snprintf(buf, sizeof buf, "D %c %d %ld", "AB"[k], checkables[rng.below(checkables.size())], now);
		out.push_back(buf);
	};
	/* an object is created at runtime -- on one member, or on both as the cluster sync does -- followed by what
	 * ConfigObjectUtility::CreateObject does next: an authority run for every type but Comment and Downtime (those wait for the timer) */
	auto create = [&](int k) {
		if (creatable.empty()) { update(k); return; }
		int obj = creatable[rng.below(creatable.size())];
		bool both = rng.below(3) != 0;
		bool direct = typeOf[obj] != 'c' && typeOf[obj] != 'd';
		for (int j = 0; j < 2; j++) {
			int node = j == 0 ? k : 1 - k;
			if (j == 1 && !both) break;
			snprintf(buf, sizeof buf, "A %c %d %ld", "AB"[node], obj, now); out.push_back(buf);
			if (direct) { snprintf(buf, sizeof buf, "U %c %ld", "AB"[node], now); out.push_back(buf); }
		}
		if (!direct || rng.below(3) == 0) {
			/* the authority timer (10 s) comes round on both */
			now += 10 + (long)rng.below(3);
			for (int j = 0; j < 2; j++) {
				if (rng.below(4) == 0) snprintf(buf, sizeof buf, "U %c %ld", "AB"[j], now);
				else snprintf(buf, sizeof buf, "T %c %ld", "AB"[j], now);
				out.push_back(buf);
			}
		}
		if (typeOf[obj] == 'h' || typeOf[obj] == 's')
			for (int j = 0; j < 2; j++) { snprintf(buf, sizeof buf, "D %c %d %ld", "AB"[j], obj, now); out.push_back(buf); }
	};
	/* the suppressed-notifications timer finds a pending notification: on both members (the attribute is synced), or on one */
	auto fire = [&](int k) {
		if (laterCheckables.empty()) { work(k, 0); return; }
		int obj = laterCheckables[rng.below(laterCheckables.size())];
		bool both = rng.below(3) != 0;
		int how = (int)rng.below(typeOf[obj] == 'h' ? 3 : 2);
		for (int j = 0; j < 2; j++) {
			int node = j == 0 ? k : 1 - k;
			if (j == 1 && !both) break;
			if (how) snprintf(buf, sizeof buf, "G %c %d %ld %d", "AB"[node], obj, now, how);
			else snprintf(buf, sizeof buf, "G %c %d %ld", "AB"[node], obj, now);
			out.push_back(buf);
		}
	};
	int nEp = layout == 'N' ? 0 : layout == 'S' ? 2 : 2 + nExtra;
	/* local endpoint state other than "connected" (syncing, connecting, log positions, ...): set independently on each node */
	auto scramble = [&](int k, int peer) {
		unsigned long bits = (unsigned long)rng.below(1UL << 31);
		if (rng.below(3) == 0) bits |= 1;   /* syncing: what a node sets on the peer while it replays its log to it */
		snprintf(buf, sizeof buf, "E %c %d %lu", "AB"[k], peer, bits); out.push_back(buf);
	};
	/* a check that is in flight while the authority moves: held, things happen, released, then due again twice */
	auto inflight = [&](int k) {
		int obj = checkables[rng.below(checkables.size())];
		snprintf(buf, sizeof buf, "F %c %d %ld", "AB"[k], obj, now); out.push_back(buf);
		int what = (int)rng.below(4);
		if (layout == 'P' && what <= 1) {
			bool v = !(isUp(0) && isUp(1));
			for (int j = 0; j < 2; j++) setView(j, v);
		} else if (layout == 'P' && what == 2) {
			setView(k, !isUp(k));
		}
		now += (long)rng.below(3) * 16;
		update(k);
		if (rng.coin()) update(1 - k);
		snprintf(buf, sizeof buf, "R %c %ld", "AB"[k], now); out.push_back(buf);
		for (int j = 0; j < 2; j++) { now += 1 + (long)rng.below(3); snprintf(buf, sizeof buf, "D %c %d %ld", "AB"[k], obj, now); out.push_back(buf); }
	};
	/* often: work right after the start, inside the cold-start window */
	if (rng.below(2) == 0) {
		int n = 1 + (int)rng.below(4);
		for (int i = 0; i < n; i++) { now += (long)rng.below(4); work((int)rng.below(2), (int)rng.below(6)); }
	}
	for (int i = 0; i < nEv; i++) {
		int r = (int)rng.below(100);
		/* time: small steps around the 30 s window, sometimes a jump */
		int dt = (int)rng.below(10);
		now += dt < 5 ? 0 : dt < 8 ? (long)rng.below(8) : dt == 8 ? (long)rng.below(40) : 25 + (long)rng.below(10);
		int node = (int)rng.below(2);
		if (layout == 'N' || layout == 'S') {
			if (r < 30) update(node);
			else if (r < 36) create(node);
			else if (r < 42) fire(node);
			else if (r < 70) work(node, (int)rng.below(6));
			else if (r < 75) inflight(node);
			else if (r < 78 && nEp) scramble(node, (int)rng.below(nEp));
			else if (r < 88 && layout == 'S') link(node, 1 - node, rng.below(2) != 0, (int)rng.below(3));
			else if (r < 93) { snprintf(buf, sizeof buf, "%c %c %ld", rng.coin() ? 'S' : 'B', "AB"[node], now); out.push_back(buf); conns[node].clear(); }
			continue;
		}
		if (r < 18) {
			/* symmetric link change: both views flip, then usually both update, then often both get the same work */
			bool v = !(isUp(0) && isUp(1));
			for (int k = 0; k < 2; k++) setView(k, v);
			for (int k = 0; k < 2; k++) if (rng.below(3) == 0) scramble(k, 1 - k);
			if (rng.below(4)) for (int k = 0; k < 2; k++) update(k);
			if (rng.below(2)) { int w = (int)rng.below(6); if (w == 3) w = 0; long save = (long)rng.s; for (int k = 0; k < 2; k++) { rng.s = (uint64_t)save; work(k, w); } }
		} else if (r < 23) {
			setView(node, !isUp(node));
		} else if (r < 29) {
			/* both members dialled each other: every side holds two connections to the other one for a while, then the redundant
			 * one is closed (any of the two, independently on each side) -- the endpoints still see each other */
			for (int k = 0; k < 2; k++) { link(k, 1 - k, true, 0); link(k, 1 - k, true, 1); }
			if (rng.below(3)) for (int k = 0; k < 2; k++) update(k);
			now += (long)rng.below(3) * 17;
			if (rng.below(4)) for (int k = 0; k < 2; k++) link(k, 1 - k, false, (int)rng.below(2));
			else link(node, 1 - node, false, (int)rng.below(2));
			if (rng.below(5)) for (int k = 0; k < 2; k++) update(k); else update(node);
			if (rng.below(2)) { int w = (int)rng.below(6); if (w == 3) w = 0; long save = (long)rng.s; for (int k = 0; k < 2; k++) { rng.s = (uint64_t)save; work(k, w); } }
		} else if (r < 32) {
			/* a single connection event with a random number: a further connection, one of several closed, a repeated event */
			link(node, 1 - node, rng.below(2) != 0, (int)rng.below(3));
		} else if (r < 35 && nExtra) {
			link(node, 2 + (int)rng.below(nExtra), rng.below(2) != 0, rng.below(3) ? 0 : (int)rng.below(3));
		} else if (r < 50) {
			update(node);
		} else if (r < 56) {
			create(node);
		} else if (r < 62) {
			fire(node);
		} else if (r < 80) {
			work(node, (int)rng.below(6));
		} else if (r < 85) {
			inflight(node);
		} else if (r < 90) {
			scramble(node, (int)rng.below(nEp));
		} else if (r < 95) {
			/* restart: with new objects only (B), or through the state file the old process wrote while it was running (S) */
			long st = rng.below(6) == 0 ? 0 : now;
			snprintf(buf, sizeof buf, "%c %c %ld", rng.coin() ? 'S' : 'B', "AB"[node], st); out.push_back(buf);
			conns[node].clear();
		} else {
			update(0);
			update(1);
		}
	}
	clock = now;
}

static std::vector<std::string> Generate(uint64_t seed, bool thorough)
{
	std::vector<std::string> out;
	Rng rng(seed * 0x100000001b3ULL + 17);
	long clock = 1000;
	int n = thorough ? 16000 : 3000;   /* cases; the scenarios got longer with the connection-set and state-file events */
	/* a block of pure hash ties, long names included */
	out.push_back("C N 0 61 62 7a 79");
	out.push_back("O h 0 1 68");
	for (int i = 0; i < (thorough ? 300000 : 30000); i++) {
		std::string s = GenName(rng);
		if (i % 50 == 0) for (int k = 0; k < 5; k++) s += GenName(rng);
		out.push_back("H " + Hex(s));
	}
	/* the cases without an ApiListener come first: the listener is a singleton that cannot be taken away again, and the
	 * virtual clock of the process only moves forward (the timers are process-global) */
	for (int i = 0; i < n / 20; i++)
		GenCase(rng, out, thorough, clock, true);
	for (int i = 0; i < n - n / 20; i++)
		GenCase(rng, out, thorough, clock, false);
	return out;
}

/* ------------------------------------------------------------------------------------------- */
/* the node */

struct Obj {
	char type;
	bool ha, active;
	std::string name;
	ConfigObject::Ptr ptr;
};

struct Counters { long pause = 0, resume = 0, setPaused = 0, execs = 0, reqs = 0; };
static bool l_InFire = false;                /* Checkable::FireSuppressedNotificationsTimer is running (on the harness thread) */
static std::mutex l_CountersMutex;           /* signals and commands also run on other threads (X, thread pool) */
static NotificationComponent::Ptr l_NC;
static CheckerComponent::Ptr l_CC;
static std::atomic<long> l_NotifQueued{0}, l_NotifDone{0}, l_NotifSignalled{0};
static std::string l_TimerSeq;               /* which of the two timers ran during the current pump, in order */
static std::vector<std::string> l_TimerObs;

static int l_Node = 0;                       /* 0 = A, 1 = B */
static ApiListener::Ptr l_Listener;
static bool l_ListenerStarted = false;
static Shared<boost::asio::ssl::context>::Ptr l_Ssl;
static std::map<ConfigObject *, Counters> l_Counters;
static std::string l_WorkDir;

/* case */
static char l_Layout = 0;
static std::vector<std::string> l_EpNames;   /* 0 = A, 1 = B, 2.. extras */
static std::string l_Zone1, l_Zone2;
static std::vector<Obj> l_Objs;              /* derived (e, z, a) first, then the O lines */
static size_t l_Derived = 0;
static std::vector<Endpoint::Ptr> l_Endpoints;
static std::vector<Zone::Ptr> l_Zones;
static std::map<std::pair<int, int>, JsonRpcConnection::Ptr> l_Clients;   /* (peer, connection number) */
static bool l_Built = false;

static void Die(const std::string& msg)
{
	fprintf(stderr, "h_c10[%c]: %s\n", "AB"[l_Node], msg.c_str());
	fflush(stdout);
	_exit(2);
}

static void MkDirs(const std::string& p)
{
	std::string cur;
	for (size_t i = 0; i <= p.size(); i++) {
		if (i == p.size() || p[i] == '/') { if (!cur.empty()) mkdir(cur.c_str(), 0700); }
		if (i < p.size()) cur += p[i];
	}
}

static void EnsureListener()
{
	if (l_Listener)
		return;
	std::string dir = l_WorkDir + "/node-" + "AB"[l_Node];
	MkDirs(dir + "/certs");
	Configuration::DataDir = dir;
	Configuration::CacheDir = dir + "/cache";
	Configuration::LogDir = dir + "/log";
	Configuration::ZonesDir = dir + "/zones.d";
	MkDirs(dir + "/cache"); MkDirs(dir + "/log"); MkDirs(dir + "/zones.d");
	ScriptGlobal::Set("NodeName", "vnode");
	String certs = ApiListener::GetCertsDir();
	if (!Utility::PathExists(certs + "/vnode.crt") || !Utility::PathExists(certs + "/ca.crt")) {
		if (PkiUtility::NewCa() > 0) Die("NewCa failed");
		if (PkiUtility::NewCert("vnode", certs + "/vnode.key", certs + "/vnode.csr", "") > 0) Die("NewCert failed");
		if (PkiUtility::SignCsr(certs + "/vnode.csr", certs + "/vnode.crt") > 0) Die("SignCsr failed");
		Utility::CopyFile(ApiListener::GetCaDir() + "/ca.crt", certs + "/ca.crt");
	}
	ApiListener::Ptr l = new ApiListener();
	l->SetName("api");
	l->SetBindHost("127.0.0.1");
	l->SetBindPort("0");
	l->Register();
	static_pointer_cast<ConfigObject>(l)->OnConfigLoaded();      /* installs the singleton, reads the certificate */
	l_Ssl = SetupSslContext(ApiListener::GetDefaultCertPath(), ApiListener::GetDefaultKeyPath(), ApiListener::GetDefaultCaPath(),
		"", l->GetCipherList(), l->GetTlsProtocolmin(), DebugInfo());
	l_Listener = l;
}

/* Cluster events enqueue relay messages on the listener's work queues whenever an object changes; their
 * worker threads read the object registry.  Join them before the registry is touched and before observing. */
static void WaitNotifs()
{
	/* both: the command has run, and the helper has emitted its last signal (whose cluster handlers enqueue relay messages) */
	for (int i = 0; l_NotifDone.load() < l_NotifQueued.load() || l_NotifSignalled.load() < l_NotifQueued.load(); i++) {
		if (i > 100000) Die("notification helpers did not finish");
		std::this_thread::sleep_for(std::chrono::microseconds(100));
	}
}

static void Sync()
{
	WaitNotifs();
	if (!l_Listener) return;
	ApiListener *l = l_Listener.get();
	(l->*get(RelayQTag())).Join();
	(l->*get(SyncQTag())).Join();
}

static void SetF(const ConfigObject::Ptr& o, const char *field, const Value& v)
{
	int id = o->GetReflectionType()->GetFieldId(field);
	if (id < 0) Die(std::string("no field ") + field);
	o->SetField(id, v);
}

static Value GetF(const ConfigObject::Ptr& o, const char *field)
{
	int id = o->GetReflectionType()->GetFieldId(field);
	if (id < 0) Die(std::string("no field ") + field);
	return o->GetField(id);
}

static void TimerRan(char which);
static void ReleaseHeldCheck();
static Value NotifExec(const std::vector<Value>& args);
static void CheckExec(const Checkable::Ptr& checkable, const CheckResult::Ptr& cr, const Dictionary::Ptr&, bool);

static ConfigObject::Ptr Create(const Obj& o, const std::string& baseHost)
{
	ConfigObject::Ptr p;
	String name = String(o.name);
	switch (o.type) {
		/* checkables: recording check command; never due unless a D line says so */
		case 'h': { Host::Ptr h = new Host(); h->SetCheckCommandRaw("vcmd"); h->SetCheckInterval(1e9); h->SetRetryInterval(1e9);
			h->SetNextCheck(4e9, true); p = h; break; }
		case 's': { Service::Ptr s = new Service(); SetF(s, "host_name", String(baseHost)); s->SetShortName(name, true);
			s->SetCheckCommandRaw("vcmd"); s->SetCheckInterval(1e9); s->SetRetryInterval(1e9); s->SetNextCheck(4e9, true); p = s; break; }
		/* notifications of the case's first host: recording command, one user */
		case 'n': { Notification::Ptr n = new Notification(); SetF(n, "host_name", String(baseHost));
			SetF(n, "command", String("vncmd")); n->SetUsersRaw(new Array({ String("vuser") })); p = n; break; }
		case 'd': { Downtime::Ptr d = new Downtime(); SetF(d, "host_name", String(baseHost)); d->SetFixed(true);
			d->SetStartTime(4e9); d->SetEndTime(4e9 + 3600); d->SetEntryTime(1); d->SetAuthor("v"); d->SetComment("v"); p = d; break; }
		case 'c': { Comment::Ptr c = new Comment(); SetF(c, "host_name", String(baseHost)); c->SetAuthor("v"); c->SetText("v"); p = c; break; }
		case 'k': p = new CheckerComponent(); break;
		case 'f': p = new NotificationComponent(); break;
		default: Die(std::string("unknown object type ") + o.type);
	}
	p->SetName(name);
	if (o.ha) p->SetHAMode(HARunEverywhere);
	p->Register();
	if (o.type != 'k' && o.type != 'f')
		p->OnAllConfigLoaded();
	return p;
}

/* second half of the start-up: ConfigItem::ActivateItems, after the state file has been restored */
static void ActivateObj(const Obj& o)
{
	const ConfigObject::Ptr& p = o.ptr;
	if (o.active) {
		if (o.type == 'k' || o.type == 'f') {
			/* features: active, but their Start() (scheduler thread, notification timer) is not run here;
			 * what Activate() does besides Start() is reproduced */
			p->PreActivate();
			if (o.ha) p->SetAuthority(true);
		} else {
			p->PreActivate();
			p->Activate();
		}
	}
}

static void TearDown()
{
	if (!l_Built) return;
	ReleaseHeldCheck();
	Sync();
	for (auto& kv : l_Clients)
		l_Endpoints[kv.first.first]->RemoveClient(kv.second);
	l_Clients.clear();
	Sync();
	for (size_t i = l_Objs.size(); i-- > 0;) {
		Obj& o = l_Objs[i];
		if (!o.ptr) continue;
		if (o.active && o.type != 'k' && o.type != 'f')
			o.ptr->Deactivate();
		Sync();
		o.ptr->Unregister();
		o.ptr = nullptr;
	}
	/* the infrastructure of the case (not observed: the property speaks of checkables, notifications, features, downtimes, comments) */
	for (auto& z : l_Zones) z->Unregister();
	for (auto& e : l_Endpoints) e->Unregister();
	l_Zones.clear();
	l_Endpoints.clear();
	{ std::unique_lock<std::mutex> lock(l_CountersMutex); l_Counters.clear(); }
	l_Built = false;
}

/* (Re)start of this node: fresh objects (paused by default), no connections, start time as given.
 * viaStateFile: the running process's state is dumped first (as the 5-minute timer of IcingaApplication does), the process "dies"
 * and the new one restores the file into its new objects between loading the configuration and activating it. */
static void Build(long start, bool viaStateFile = false)
{
	std::string stateFile;
	if (viaStateFile && l_Built) {
		ReleaseHeldCheck();
		Sync();
		stateFile = l_WorkDir + "/node-" + "AB"[l_Node] + ".state";
		MkDirs(l_WorkDir);
		ConfigObject::DumpObjects(String(stateFile), FAState);
	}
	TearDown();
	Application::SetStartTime((double)start);
	if (start > 0) SetNow((double)start);
	/* a fresh process has not run UpdateObjectAuthority yet (ApiListener::UpdatedObjectAuthority()) */
	get(UoaTag())->store(false);
	std::string baseHost;
	for (auto& o : l_Objs) if (o.type == 'h' && o.active) { baseHost = o.name; break; }
	if (l_Layout != 'N') {
		EnsureListener();
		/* endpoints, zones */
		for (size_t i = 0; i < l_EpNames.size(); i++) {
			Endpoint::Ptr e = new Endpoint();
			e->SetName(String(l_EpNames[i]));
			e->Register();
			l_Endpoints.push_back(e);
		}
		std::vector<Zone::Ptr> zones;
		auto mkZone = [&](const std::string& zn, const std::vector<size_t>& members) {
			Zone::Ptr z = new Zone();
			z->SetName(String(zn));
			Array::Ptr arr = new Array();
			for (size_t m : members) arr->Add(String(l_EpNames[m]));
			z->SetEndpointsRaw(arr);
			z->Register();
			zones.push_back(z);
		};
		if (l_Layout == 'P') {
			std::vector<size_t> all;
			for (size_t i = 0; i < l_EpNames.size(); i++) all.push_back(i);
			mkZone(l_Zone1, all);
		} else {
			mkZone(l_Zone1, {0});
			mkZone(l_Zone2, {1});
		}
		for (auto& z : zones) static_pointer_cast<ConfigObject>(z)->OnAllConfigLoaded();
		for (auto& e : l_Endpoints) static_pointer_cast<ConfigObject>(e)->OnAllConfigLoaded();
		/* production path that resolves the local endpoint: identity -> OnAllConfigLoaded */
		l_Listener->SetIdentity(String(l_EpNames[l_Node]));
		static_pointer_cast<ConfigObject>(l_Listener)->OnAllConfigLoaded();
		if (!l_ListenerStarted) {
			l_Listener->PreActivate();
			l_Listener->Activate();   /* ApiListener::Start(): registers the authority timer (10 s) among others */
			l_ListenerStarted = true;
			/* connected after the production handler: runs right after UpdateObjectAuthority() returned */
			(l_Listener.get()->*get(AuthTimerTag()))->OnTimerExpired.connect([](const Timer * const&) { TimerRan('a'); });
		}
		l_Zones = zones;
		for (auto& e : l_Endpoints) { e->PreActivate(); e->Activate(); }
		for (auto& z : zones) { z->PreActivate(); z->Activate(); }
		/* the listener object lives as long as the process: put it into the state of a fresh object */
		l_Listener->SetAuthority(false);
		Sync();
	}
	/* the node's started features live as long as the process, too */
	{
		l_NC->SetAuthority(false);
		l_CC->SetAuthority(false);
		Sync();
	}
	/* counters start here: what Activate() itself does (SetAuthority(true) for run-everywhere objects) is counted */
	{ std::unique_lock<std::mutex> lock(l_CountersMutex); l_Counters.clear(); }
	for (size_t i = l_Derived; i < l_Objs.size(); i++) {
		Obj& o = l_Objs[i];
		if ((o.type == 's' || o.type == 'n' || o.type == 'd' || o.type == 'c') && baseHost.empty())
			Die("object needs a host: the first O line must be an active Host");
		o.ptr = Create(o, baseHost);
		Sync();
	}
	if (!stateFile.empty()) {
		ConfigObject::RestoreObjects(String(stateFile), FAState);
		if (!getenv("VERIF_KEEP_STATE")) Utility::Remove(String(stateFile));
		Sync();
		/* Pause()/Resume() calls are counted from the activation on: whatever bookkeeping flags the state file carries, restoring
		 * them is not a call */
		std::unique_lock<std::mutex> lock(l_CountersMutex);
		l_Counters.clear();
	}
	for (size_t i = l_Derived; i < l_Objs.size(); i++) {
		ActivateObj(l_Objs[i]);
		Sync();
	}
	l_Built = true;
}

static std::string Observe()
{
	std::string s;
	char buf[128];
	if (!l_Built) return "-";
	std::unique_lock<std::mutex> lock(l_CountersMutex);
	for (size_t i = 0; i < l_Objs.size(); i++) {
		Obj& o = l_Objs[i];
		Counters c;
		auto it = l_Counters.find(o.ptr.get());
		if (it != l_Counters.end()) c = it->second;
		long stash = 0;
		if (o.type == 'n')
			stash = (long)static_pointer_cast<Notification>(o.ptr)->GetStashedNotifications()->GetLength();
		snprintf(buf, sizeof buf, "%s%d:%ld:%ld:%ld:%ld:%ld:%ld", i ? "," : "", o.ptr->IsPaused() ? 1 : 0, c.pause, c.resume, c.setPaused, c.execs, stash, c.reqs);
		s += buf;
	}
	if (l_Objs.empty()) s = "-";
	return s;
}

static void TimerRan(char which)
{
	Sync();
	l_TimerSeq += which;
	l_TimerObs.push_back(Observe());
}

static void DeriveObjects()
{
	/* Endpoint, Zone, ApiListener and the node's started components are config objects, too, and get an authority like
	 * everything else -- but the property does not speak about them, so they are not part of the observation */
	l_Objs.clear();
	l_Derived = 0;
}

static void Emit(const std::string& op, const std::string& obs)
{
	if (obs.empty()) printf("%s\n", op.c_str());
	else printf("%s | %s\n", op.c_str(), obs.c_str());
}

/* ---- checks: explicitly due, optionally held in flight ---- */
static std::mutex l_HoldMutex;
static std::condition_variable l_HoldCV;
static Checkable *l_HoldObj = nullptr;      /* the next execution of this checkable blocks inside the check command ... */
static bool l_HoldBlocked = false;          /* ... it is blocked now ... */
static bool l_HoldRelease = false;          /* ... until this is set */
static bool l_HoldDone = false;             /* the command has returned */
static std::atomic<long> l_HelperStarted{0}, l_HelperFinished{0};

static void CheckerWhere(const Checkable::Ptr& c, bool& idle, bool& pend)
{
	CheckerComponent *cc = l_CC.get();
	std::unique_lock<std::mutex> lock(cc->*get(CcMtxTag()));
	auto& i = cc->*get(CcIdleTag());
	auto& p = cc->*get(CcPendTag());
	idle = i.find(c) != i.end();
	pend = p.find(c) != p.end();
}

/* Wait until every ExecuteCheckHelper that has started has left its final lock-protected section (schedule points
 * helper.start / helper.finish of lib/base/verif-hooks.hpp) and the checkable is not pending any more. */
static void WaitHelpers(const Checkable::Ptr& c)
{
	for (int i = 0; ; i++) {
		bool idle, pend;
		CheckerWhere(c, idle, pend);
		if (!pend && l_HelperFinished.load() >= l_HelperStarted.load()) break;
		if (i > 100000) Die("check helper did not finish");
		std::this_thread::sleep_for(std::chrono::microseconds(100));
	}
}

static void ReleaseHeldCheck()
{
	Checkable::Ptr held;
	{
		std::unique_lock<std::mutex> lock(l_HoldMutex);
		if (!l_HoldObj) return;
		held = l_HoldObj;
		l_HoldRelease = true;
		l_HoldCV.notify_all();
		if (!l_HoldCV.wait_for(lock, std::chrono::seconds(20), [] { return l_HoldDone; })) Die("held check did not return");
		l_HoldObj = nullptr;
		l_HoldBlocked = l_HoldRelease = l_HoldDone = false;
	}
	WaitHelpers(held);
}

/* Object #idx (a Host/Service) becomes due at `now`.  hold: its check command blocks (the check stays in flight) until an
 * R line, the next D/F line or the end of the case on this node. */
static void DueCheck(size_t idx, double now, bool hold)
{
	ReleaseHeldCheck();
	if (!(idx < l_Objs.size() && l_Objs[idx].ptr && (l_Objs[idx].type == 'h' || l_Objs[idx].type == 's')))
		return;
	SetNow(now);
	Checkable::Ptr c = static_pointer_cast<Checkable>(l_Objs[idx].ptr);
	auto execs = [&c]() { std::unique_lock<std::mutex> lock(l_CountersMutex); return l_Counters[c.get()].execs; };
	long before = execs();
	if (hold) {
		std::unique_lock<std::mutex> lock(l_HoldMutex);
		l_HoldObj = c.get();
		l_HoldBlocked = l_HoldRelease = l_HoldDone = false;
	}
	c->SetNextCheck(now);   /* OnNextCheckChanged -> the checker re-indexes it and wakes its scheduler thread */
	bool idle, pend;
	CheckerWhere(c, idle, pend);
	if (idle || pend) {
		/* the scheduler knows the object: it must run the check now; wait for the command (and for the helper) */
		for (int i = 0; execs() == before; i++) {
			if (i > 100000) Die("due check of a scheduled object was not executed");
			std::this_thread::sleep_for(std::chrono::microseconds(100));
		}
		if (hold) {
			std::unique_lock<std::mutex> lock(l_HoldMutex);
			if (!l_HoldCV.wait_for(lock, std::chrono::seconds(20), [] { return l_HoldBlocked; })) Die("held check did not block");
		} else {
			WaitHelpers(c);
		}
	} else {
		/* not this node's business: the check does not run; take the due time back so that it is not
		 * run later at an unobserved moment when the node gains authority */
		if (hold) {
			std::unique_lock<std::mutex> lock(l_HoldMutex);
			l_HoldObj = nullptr;
		}
		std::this_thread::sleep_for(std::chrono::microseconds(300));
		c->SetNextCheck(4e9);
	}
}

/* Object #idx is deleted and created anew while the node is running (see the A line above). */
static void RuntimeCreate(size_t idx, double now)
{
	ReleaseHeldCheck();
	Sync();
	if (!(idx > 0 && idx < l_Objs.size() && l_Objs[idx].ptr))
		return;
	Obj& o = l_Objs[idx];
	if (o.type != 'h' && o.type != 's' && o.type != 'n' && o.type != 'd' && o.type != 'c')
		return;
	SetNow(now);
	std::string baseHost;
	for (auto& x : l_Objs) if (x.type == 'h' && x.active) { baseHost = x.name; break; }
	ConfigObject::Ptr old = o.ptr;
	if (o.active)
		old->Deactivate(true);
	else if (o.type == 'n') {
		/* never started, so Stop() does not take it off its checkable's list */
		Notification::Ptr n = static_pointer_cast<Notification>(old);
		if (n->GetCheckable()) n->GetCheckable()->UnregisterNotification(n);
	}
	Sync();
	old->Unregister();
	{ std::unique_lock<std::mutex> lock(l_CountersMutex); l_Counters.erase(old.get()); }
	o.ptr = nullptr;
	/* keep the old object alive until the new one exists: the counters are keyed by address */
	o.ptr = Create(o, baseHost);
	Sync();
	if (o.active) {
		o.ptr->PreActivate();
		o.ptr->Activate(true);
	}
	Sync();
	old = nullptr;
}

/* A suppressed Problem notification is pending on object #idx and the suppressed-notifications timer runs (see the G line above). */
static void FirePending(size_t idx, double now, int how)
{
	ReleaseHeldCheck();
	Sync();
	if (!(idx > 0 && idx < l_Objs.size() && l_Objs[idx].ptr && (l_Objs[idx].type == 'h' || l_Objs[idx].type == 's')))
		return;
	SetNow(now);
	Checkable::Ptr c = static_pointer_cast<Checkable>(l_Objs[idx].ptr);
	/* a state change of a Service reschedules its host (checkable-check.cpp:428-440), which is another object's check: hosts only */
	if (how == 2 && l_Objs[idx].type != 'h')
		how = 1;
	if (how == 1) {
		l_InFire = true;
		c->AcknowledgeProblem("v", "v", AcknowledgementNormal, true);
		l_InFire = false;
		Sync();
		c->ClearAcknowledgement("v");
		return;
	}
	if (how == 2) {
		int oldMax = c->GetMaxCheckAttempts();
		c->SetMaxCheckAttempts(1);
		c->SetStateRaw(ServiceOK);
		c->SetStateType(StateTypeHard);
		c->SetCheckAttempt(1);
		Sync();
		l_InFire = true;
		c->ProcessCheckResult(MakeCr(ServiceCritical, now, now, false));
		l_InFire = false;
		Sync();
		c->ProcessCheckResult(MakeCr(ServiceOK, now, now, false));
		Sync();
		c->SetMaxCheckAttempts(oldMax);
		return;
	}
	CheckResult::Ptr oldCr = c->GetLastCheckResult();
	ServiceState oldState = c->GetStateRaw(), oldBefore = c->GetStateBeforeSuppression();
	StateType oldType = c->GetStateType();
	int oldSupp = c->GetSuppressedNotifications();
	/* the check result is younger than every state change of the host / the parents ("no parent recovered recently") */
	c->SetLastCheckResult(MakeCr(ServiceCritical, now + 1, now + 1));
	c->SetStateRaw(ServiceCritical);
	c->SetStateType(StateTypeHard);
	c->SetStateBeforeSuppression(ServiceOK);
	c->SetSuppressedNotifications(NotificationProblem);
	Sync();
	l_InFire = true;
	get(FsnTimerTag())(nullptr);
	l_InFire = false;
	Sync();
	c->SetSuppressedNotifications(oldSupp);
	c->SetStateBeforeSuppression(oldBefore);
	c->SetStateType(oldType);
	c->SetStateRaw(oldState);
	c->SetLastCheckResult(oldCr);
}

static void RunLine(const std::string& line)
{
	std::vector<std::string> w = Words(line);
	if (w.empty()) return;
	const std::string& op = w[0];
	std::string opText;
	for (size_t i = 0; i < w.size(); i++) opText += (i ? " " : "") + w[i];

	if (op == "C") {
		if (w.size() < 7) Die("bad C line");
		TearDown();
		l_Layout = w[1][0];
		size_t nExtra = (size_t)atoi(w[2].c_str());
		if (w.size() != 7 + nExtra) Die("bad C line (extras)");
		if (l_Layout == 'N' && l_Listener) Die("layout N after a listener exists in this process: put N cases first / in a file of their own");
		l_EpNames.clear();
		std::string t;
		for (size_t i = 0; i < 2 + nExtra; i++) {
			size_t idx = i < 2 ? 3 + i : 7 + (i - 2);
			if (!UnHex(w[idx], t)) Die("bad hex");
			l_EpNames.push_back(t);
		}
		if (!UnHex(w[5], l_Zone1) || !UnHex(w[6], l_Zone2)) Die("bad hex");
		if (l_Layout != 'P') l_EpNames.resize(2);
		DeriveObjects();
		Emit(opText, "");
		for (size_t i = 0; i < l_Derived; i++) {
			char buf[32];
			snprintf(buf, sizeof buf, "O %c 0 1 ", l_Objs[i].type);
			Emit(buf + Hex(l_Objs[i].name), "");
		}
		return;
	}
	if (op == "O") {
		if (w.size() != 5) Die("bad O line");
		char t = w[1][0];
		if (t == 'e' || t == 'z' || t == 'a' || t == 'F' || t == 'K') return; /* derived from the C line */
		if (l_Built) Die("O line after the first B line");
		Obj o{t, w[2] == "1", w[3] == "1", "", nullptr};
		if (!UnHex(w[4], o.name)) Die("bad hex");
		l_Objs.push_back(o);
		Emit(opText, "");
		return;
	}
	if (op == "H") {
		std::string n;
		if (w.size() != 2 || !UnHex(w[1], n)) Die("bad H line");
		Emit(opText, std::to_string((unsigned long long)Utility::SDBM(String(n))));
		return;
	}
	if (w.size() < 3) Die("bad line: " + line);
	int node = w[1] == "A" ? 0 : w[1] == "B" ? 1 : -1;
	if (node < 0) Die("bad node");
	bool mine = node == l_Node;
	std::string extra;
	if (op == "B" || op == "S") {
		long start = atol(w[2].c_str());
		if (mine) Build(start, op == "S");
	} else {
		if (!l_Built && mine) Die("event before this node's B line");
		if (!l_Built) {
			/* this node has not been started yet */
		} else if (op == "K") {
			if (w.size() != 4 && w.size() != 5) Die("bad K line");
			int peer = atoi(w[2].c_str());
			bool upNow = w[3] == "1";
			int connNo = w.size() == 5 ? atoi(w[4].c_str()) : 0;
			if (mine && l_Layout != 'N' && peer >= 0 && peer < (int)l_Endpoints.size() && peer != l_Node) {
				auto key = std::make_pair(peer, connNo);
				auto it = l_Clients.find(key);
				if (upNow && it == l_Clients.end()) {
					/* odd connection numbers: the connection the peer dialled (we are the server side of it) */
					JsonRpcConnection::Ptr c = new JsonRpcConnection(String(l_EpNames[peer]), true,
						Shared<AsioTlsStream>::Make(IoEngine::Get().GetIoContext(), *l_Ssl), (connNo & 1) ? RoleServer : RoleClient);
					l_Endpoints[peer]->AddClient(c);
					l_Clients[key] = c;
				} else if (!upNow && it != l_Clients.end()) {
					l_Endpoints[peer]->RemoveClient(it->second);
					l_Clients.erase(it);
				}
			}
		} else if (op == "U") {
			if (mine) {
				SetNow((double)atol(w[2].c_str()));
				ApiListener::UpdateObjectAuthority();
			}
		} else if (op == "X") {
			if (w.size() != 4) Die("bad X line");
			size_t idx = (size_t)atol(w[2].c_str());
			if (mine) {
				SetNow((double)atol(w[3].c_str()));
				if (idx < l_Objs.size() && l_Objs[idx].ptr) {
					ConfigObject::Ptr obj = l_Objs[idx].ptr;
					std::atomic<int> entered{0};
					std::thread t1, t2;
					{
						ObjectLock olock(obj);
						auto body = [&entered]() { entered++; ApiListener::UpdateObjectAuthority(); };
						t1 = std::thread(body);
						t2 = std::thread(body);
						while (entered.load() < 2) std::this_thread::yield();
						/* both runs reach this object's SetAuthority within microseconds and block on the lock */
						std::this_thread::sleep_for(std::chrono::microseconds(1500));
					}
					t1.join();
					t2.join();
				} else {
					ApiListener::UpdateObjectAuthority();
				}
			}
		} else if (op == "N") {
			if (mine) {
				SetNow((double)atol(w[2].c_str()));
				Checkable::Ptr host;
				for (auto& o : l_Objs) if (o.type == 'h' && o.active && o.ptr) { host = static_pointer_cast<Checkable>(o.ptr); break; }
				if (host) {
					CheckResult::Ptr cr = MakeCr(ServiceOK, 1, 1);
					host->SetForceNextNotification(true);
					Checkable::OnNotificationsRequested(host, NotificationCustom, cr, "a", "t", nullptr);
				}
			}
		} else if (op == "D" || op == "F") {
			if (w.size() != 4) Die("bad D/F line");
			if (mine) DueCheck((size_t)atol(w[2].c_str()), (double)atol(w[3].c_str()), op == "F");
		} else if (op == "A" || op == "G") {
			if (w.size() != 4 && !(op == "G" && w.size() == 5)) Die("bad A/G line");
			if (mine) {
				if (op == "A") RuntimeCreate((size_t)atol(w[2].c_str()), (double)atol(w[3].c_str()));
				else FirePending((size_t)atol(w[2].c_str()), (double)atol(w[3].c_str()), w.size() == 5 ? atoi(w[4].c_str()) : 0);
			}
		} else if (op == "R") {
			if (mine) {
				SetNow((double)atol(w[2].c_str()));
				ReleaseHeldCheck();
			}
		} else if (op == "E") {
			/* local, per-endpoint state that is NOT "connected": must have no influence on the authority */
			if (w.size() != 4) Die("bad E line");
			int peer = atoi(w[2].c_str());
			unsigned long v = strtoul(w[3].c_str(), nullptr, 10);
			if (mine && peer >= 0 && peer < (int)l_Endpoints.size()) {
				Endpoint::Ptr e = l_Endpoints[peer];
				e->SetSyncing((v & 1) != 0);
				e->SetConnecting((v & 2) != 0);
				e->SetLocalLogPosition((double)((v >> 2) & 0xfff));
				e->SetRemoteLogPosition((double)((v >> 14) & 0xfff));
				e->SetCapabilities((v >> 26) & 0xf);
				e->SetIcingaVersion(((v >> 30) & 1) ? 21400 : 0);
				e->SetLastMessageSent((double)((v >> 4) & 0xffff));
				e->SetLastMessageReceived((double)((v >> 9) & 0xffff));
			}
		} else if (op == "T") {
			if (mine) {
				double now = (double)atol(w[2].c_str());
				SetNow(now);
				l_TimerSeq.clear();
				l_TimerObs.clear();
				Timer::VerifFireDue(now);
				Sync();
				if (l_TimerSeq.empty()) {
					extra = "f=- " + Observe();
				} else {
					extra = "f=" + l_TimerSeq;
					for (auto& o : l_TimerObs) extra += " " + o;
				}
			} else {
				Sync();
				extra = "f=- " + Observe();
			}
			Emit(opText, extra);
			return;
		} else {
			Die("unknown op " + op);
		}
	}
	Sync();
	Emit(opText, extra + Observe());
}

/* recording commands */
static Value NotifExec(const std::vector<Value>& args)
{
	/* {notification, user, cr, type, author, comment, resolvedMacros, useResolvedMacros} */
	if (!args.empty()) {
		Object::Ptr n = args[0];
		std::unique_lock<std::mutex> lock(l_CountersMutex);
		l_Counters[static_cast<ConfigObject *>(n.get())].execs++;
	}
	l_NotifDone++;
	return Empty;
}

static void CheckExec(const Checkable::Ptr& checkable, const CheckResult::Ptr& cr, const Dictionary::Ptr&, bool)
{
	{
		std::unique_lock<std::mutex> lock(l_CountersMutex);
		l_Counters[checkable.get()].execs++;
	}
	bool held = false;
	{
		std::unique_lock<std::mutex> lock(l_HoldMutex);
		if (l_HoldObj == checkable.get() && !l_HoldBlocked) {
			held = true;
			l_HoldBlocked = true;
			l_HoldCV.notify_all();
			l_HoldCV.wait(lock, [] { return l_HoldRelease; });
		}
	}
	double now = Utility::GetTime();
	cr->SetState(ServiceOK);
	cr->SetOutput("x");
	cr->SetExecutionEnd(now);
	cr->SetScheduleEnd(now);
	checkable->ProcessCheckResult(cr);
	if (held) {
		std::unique_lock<std::mutex> lock(l_HoldMutex);
		l_HoldDone = true;
		l_HoldCV.notify_all();
	}
}

/* ------------------------------------------------------------------------------------------- */

static int NodeMain(int argc, char **argv, const std::string& mode, char node)
{
	l_Node = node == 'B' ? 1 : 0;
	InitIcinga();
	SetNow(1000);
	VerifPointHook() = [](const char *name, const void *) {
		if (!strcmp(name, "helper.start")) l_HelperStarted++;
		else if (!strcmp(name, "helper.finish")) l_HelperFinished++;
	};

	ConfigObject::OnPausedChanged.connect([](const ConfigObject::Ptr& o, const Value&) {
		std::unique_lock<std::mutex> lock(l_CountersMutex);
		l_Counters[o.get()].setPaused++;
	});
	ConfigObject::OnPauseCalledChanged.connect([](const ConfigObject::Ptr& o, const Value&) {
		if (GetF(o, "pause_called").ToBool()) { std::unique_lock<std::mutex> lock(l_CountersMutex); l_Counters[o.get()].pause++; }
	});
	ConfigObject::OnResumeCalledChanged.connect([](const ConfigObject::Ptr& o, const Value&) {
		if (GetF(o, "resume_called").ToBool()) { std::unique_lock<std::mutex> lock(l_CountersMutex); l_Counters[o.get()].resume++; }
	});

	/* requests that come out of the suppressed-notifications timer (emitted synchronously on the harness thread) */
	Checkable::OnNotificationsRequested.connect([](const Checkable::Ptr& checkable, NotificationType, const CheckResult::Ptr&,
		const String&, const String&, const MessageOrigin::Ptr&) {
		if (l_InFire) { std::unique_lock<std::mutex> lock(l_CountersMutex); l_Counters[checkable.get()].reqs++; }
	});

	/* notification helpers run on the thread pool: queued (synchronous signal at the end of BeginExecuteNotification)
	 * vs. done (counted by the recording command itself AND by the helper's last signal, whichever comes later) */
	Checkable::OnNotificationSentToAllUsers.connect([](const Notification::Ptr&, const Checkable::Ptr&, const std::set<User::Ptr>& users,
		const NotificationType&, const CheckResult::Ptr&, const String&, const String&, const MessageOrigin::Ptr&) {
		l_NotifQueued += (long)users.size();
	});

	Checkable::OnNotificationSentToUser.connect([](const Notification::Ptr&, const Checkable::Ptr&, const User::Ptr&,
		const NotificationType&, const CheckResult::Ptr&, const String&, const String&, const String&, const MessageOrigin::Ptr&) {
		l_NotifSignalled++;
	});

	NotificationCommand::Ptr ncmd = new NotificationCommand();
	ncmd->SetName("vncmd");
	ncmd->SetExecute(new Function("vnexec", NotifExec, { "notification", "user", "cr", "itype", "author", "comment", "resolvedMacros", "useResolvedMacros" }));
	ncmd->Register();
	CheckCommand::Ptr ccmd = new CheckCommand();
	ccmd->SetName("vcmd");
	ccmd->SetExecute(new Function("vexec", CheckExec, { "checkable", "cr", "resolvedMacros", "useResolvedMacros" }));
	ccmd->Register();
	User::Ptr user = new User();
	user->SetName("vuser");
	user->Register();

	/* the node's real, started features: NotificationComponent::Start() connects OnNotificationsRequested -> SendNotifications
	 * and creates the 5 s notification timer; CheckerComponent::OnConfigLoaded()/Start() connect ObjectHandler and run the
	 * scheduler thread */
	l_NC = new NotificationComponent();
	l_NC->SetName("vnc");
	l_NC->Register();
	l_NC->PreActivate();
	l_NC->Activate();
	(l_NC.get()->*get(NotifTimerTag()))->OnTimerExpired.connect([](const Timer * const&) { TimerRan('n'); });
	l_CC = new CheckerComponent();
	l_CC->SetName("vcc");
	l_CC->Register();
	static_pointer_cast<ConfigObject>(l_CC)->OnConfigLoaded();
	l_CC->PreActivate();
	l_CC->Activate();

	std::vector<std::string> lines;
	if (mode == "gen") {
		uint64_t seed = strtoull(argOr(argc, argv, "--seed", "1"), nullptr, 10);
		lines = Generate(seed, std::string(argOr(argc, argv, "--tier", "quick")) == "thorough");
	} else {
		FILE *f = fopen(argv[2], "r");
		if (!f) { perror("open"); return 2; }
		char buf[1 << 16];
		while (fgets(buf, sizeof buf, f)) {
			std::string s = buf;
			while (!s.empty() && (s.back() == '\n' || s.back() == '\r')) s.pop_back();
			lines.push_back(s);
		}
		fclose(f);
	}
	try {
		for (auto& l : lines)
			RunLine(l);
	} catch (const std::exception& ex) {
		Die(std::string("exception: ") + DiagnosticInformation(ex, false).CStr());
	}
	fflush(stdout);
	_exit(0);
}

/* Parent: run node A and node B as two processes of this binary and join their lines. */
static int JoinMain(int argc, char **argv)
{
	std::string self = argv[0];
	char exe[4096];
	ssize_t n = readlink("/proc/self/exe", exe, sizeof exe - 1);
	if (n > 0) { exe[n] = 0; self = exe; }
	FILE *p[2];
	for (int k = 0; k < 2; k++) {
		std::string cmd = "'" + self + "'";
		for (int i = 1; i < argc; i++) cmd += std::string(" '") + argv[i] + "'";
		cmd += std::string(" --node ") + "AB"[k];
		p[k] = popen(cmd.c_str(), "r");
		if (!p[k]) { perror("popen"); return 2; }
	}
	static char ba[1 << 20], bb[1 << 20];
	int rc = 0;
	for (;;) {
		char *a = fgets(ba, sizeof ba, p[0]);
		char *b = fgets(bb, sizeof bb, p[1]);
		if (!a && !b) break;
		if (!a || !b) { fprintf(stderr, "h_c10: node outputs differ in length\n"); rc = 2; break; }
		std::string la = a, lb = b;
		while (!la.empty() && la.back() == '\n') la.pop_back();
		while (!lb.empty() && lb.back() == '\n') lb.pop_back();
		size_t ia = la.find(" | "), ib = lb.find(" | ");
		std::string oa = la.substr(0, ia), ob = lb.substr(0, ib);
		if (oa != ob) { fprintf(stderr, "h_c10: node outputs out of step:\n  %s\n  %s\n", oa.c_str(), ob.c_str()); rc = 2; break; }
		if (ia == std::string::npos) printf("%s\n", oa.c_str());
		else printf("%s | %s | %s\n", oa.c_str(), la.substr(ia + 3).c_str(), ib == std::string::npos ? "?" : lb.substr(ib + 3).c_str());
	}
	for (int k = 0; k < 2; k++) {
		int st = pclose(p[k]);
		if (st != 0) { fprintf(stderr, "h_c10: node %c exited with status %d\n", "AB"[k], st); rc = 2; }
	}
	fflush(stdout);
	return rc;
}

int main(int argc, char **argv)
{
	if (argc < 2) { fprintf(stderr, "usage: h_c10 gen --seed S --tier T | ops FILE   [--node A|B]\n"); return 2; }
	std::string mode = argv[1];
	if (mode != "gen" && mode != "ops") return 2;
	if (mode == "ops" && argc < 3) return 2;
	const char *node = argOr(argc, argv, "--node", "");
	if (!*node)
		return JoinMain(argc, argv);
	/* scratch directory: <work>/c10 where the binary lives in <work>/bin */
	{
		char exe[4096];
		ssize_t n = readlink("/proc/self/exe", exe, sizeof exe - 1);
		std::string base = "/tmp";
		if (n > 0) {
			exe[n] = 0;
			base = exe;
			for (int k = 0; k < 2; k++) { size_t p = base.rfind('/'); if (p != std::string::npos) base.resize(p); }
		}
		const char *wd = getenv("VERIF_WORK");
		l_WorkDir = std::string(wd ? wd : base.c_str()) + "/c10";
	}
	MkDirs(l_WorkDir);
	return NodeMain(argc, argv, mode, node[0]);
}

/* C01 harness: drives the real Checkable::ProcessCheckResult on real Host/Service objects and prints
 * one line per result: the operation, then what the implementation did.
 *
 *   C <kind h|s> <max> <volatile> <flapping>
 *   R <state> <execStart> <now> <active> | <accepted> <state> <stype> <attempt> <lastHard> <ev>
 *
 * Modes:  gen --seed S --tier quick|thorough      internal enumeration + seeded random histories
 *         ops FILE                                 replay the C/R lines of FILE (text after '|' ignored)
 */
#include "common.hpp"

using namespace icinga;
using namespace vh;

static int l_Event = 0; /* 0 none, 1 soft, 2 hard */
static int l_EventCount = 0;

struct Case {
	Checkable::Ptr obj;
	bool host;
};

static Checkable::Ptr MakeObject(bool host, int maxAttempts, bool isVolatile, bool flapping)
{
	Checkable::Ptr c;
	if (host)
		c = new Host();
	else
		c = new Service();
	c->SetActive(true);
	c->SetMaxCheckAttempts(maxAttempts);
	c->SetVolatile(isVolatile);
	c->SetEnableFlapping(flapping);
	c->Activate();
	c->SetAuthority(true);
	return c;
}

static void DoResult(const Checkable::Ptr& c, int state, long long execStart, long long now, int active)
{
	SetNow((double)now);
	l_Event = 0;
	l_EventCount = 0;
	CheckResult::Ptr cr = MakeCr((ServiceState)state, (double)execStart, (double)execStart, active != 0);
	auto res = c->ProcessCheckResult(cr);
	int accepted = (res == Checkable::ProcessingResult::Ok) ? 1 : 0;
	if (l_EventCount > 1)
		l_Event = 9; /* more than one OnStateChange for one result: never valid */
	printf("R %d %lld %lld %d | %d %d %d %ld %d %d\n", state, execStart, now, active, accepted,
		(int)c->GetStateRaw(), (int)c->GetStateType(), (long)c->GetCheckAttempt(), (int)c->GetLastHardStateRaw(), l_Event);
}

static void Finish(const Checkable::Ptr& c)
{
	c->SetActive(false);
}

static void RunSeq(bool host, int mx, bool vol, bool flap, const std::vector<int>& states, Rng *rng, int tsMode)
{
	printf("C %c %d %d %d\n", host ? 'h' : 's', mx, vol ? 1 : 0, flap ? 1 : 0);
	Checkable::Ptr c = MakeObject(host, mx, vol, flap);
	long long t = 1000;
	long long lastExec = t;
	for (size_t i = 0; i < states.size(); i++) {
		long long exec, now;
		if (tsMode == 0 || !rng) {
			t += 10; exec = t; now = t;
		} else {
			/* timestamps: mostly increasing, sometimes equal, sometimes older (stale), sometimes in the future */
			int k = (int)rng->below(10);
			t += (long long)rng->below(20);
			now = t;
			if (k < 6) exec = t;
			else if (k == 6) exec = lastExec;            /* equal */
			else if (k == 7) exec = lastExec - 1 - (long long)rng->below(5); /* older */
			else if (k == 8) exec = t + 50 + (long long)rng->below(50);      /* from the future */
			else exec = t - (long long)rng->below(3);
			if (exec < 1) exec = 1;
		}
		int active = rng ? (int)rng->below(2) : 1;
		DoResult(c, states[i], exec, now, active);
		if ((int)c->GetStateRaw() == states[i]) lastExec = exec;
	}
	Finish(c);
}

static void Enumerate(int len, int maxMax)
{
	std::vector<int> states(len);
	long total = 1;
	for (int i = 0; i < len; i++) total *= 4;
	for (int host = 0; host < 2; host++)
	for (int mx = 1; mx <= maxMax; mx++)
	for (int vol = 0; vol < 2; vol++)
	for (int flap = 0; flap < 2; flap++)
	for (long code = 0; code < total; code++) {
		long c = code;
		for (int i = 0; i < len; i++) { states[i] = (int)(c % 4); c /= 4; }
		RunSeq(host, mx, vol, flap, states, nullptr, 0);
	}
}

int main(int argc, char **argv)
{
	if (argc < 2) { fprintf(stderr, "usage: h_c01 gen|ops ...\n"); return 2; }
	InitIcinga();

	Checkable::OnStateChange.connect([](const Checkable::Ptr&, const CheckResult::Ptr&, StateType type, const MessageOrigin::Ptr&) {
		l_Event = (type == StateTypeHard) ? 2 : 1;
		l_EventCount++;
	});

	std::string mode = argv[1];
	if (mode == "gen") {
		uint64_t seed = strtoull(argOr(argc, argv, "--seed", "1"), nullptr, 10);
		std::string tier = argOr(argc, argv, "--tier", "quick");
		bool thorough = tier == "thorough";
		/* exhaustive part: every result sequence of the given length from the pending state */
		Enumerate(thorough ? 7 : 5, 4);
		/* random part: long histories, larger max_check_attempts, arbitrary timestamps */
		Rng rng(seed);
		int n = thorough ? 20000 : 2000;
		int maxLen = thorough ? 1000 : 200;
		for (int i = 0; i < n; i++) {
			bool host = rng.coin();
			int mx = 1 + (int)rng.below(12);
			bool vol = rng.below(4) == 0;
			bool flap = rng.coin();
			int len = 1 + (int)rng.below(maxLen);
			/* bias: long runs of non-OK so that large max values are reached */
			int pOk = 1 + (int)rng.below(6);
			std::vector<int> states(len);
			for (int j = 0; j < len; j++)
				states[j] = (rng.below(10) < (uint64_t)pOk) ? (int)rng.below(2) : 2 + (int)rng.below(2);
			RunSeq(host, mx, vol, flap, states, &rng, (int)rng.below(2));
		}
	} else if (mode == "ops") {
		if (argc < 3) return 2;
		FILE *f = fopen(argv[2], "r");
		if (!f) { perror("open"); return 2; }
		char line[512];
		Checkable::Ptr c;
		while (fgets(line, sizeof line, f)) {
			if (line[0] == 'C') {
				char k; int mx, vol, flap;
				if (sscanf(line, "C %c %d %d %d", &k, &mx, &vol, &flap) != 4) { fprintf(stderr, "bad C line\n"); return 2; }
				if (c) Finish(c);
				printf("C %c %d %d %d\n", k, mx, vol, flap);
				c = MakeObject(k == 'h', mx, vol != 0, flap != 0);
			} else if (line[0] == 'R') {
				int st, active; long long exec, now;
				if (sscanf(line, "R %d %lld %lld %d", &st, &exec, &now, &active) != 4 || !c) { fprintf(stderr, "bad R line\n"); return 2; }
				DoResult(c, st, exec, now, active);
			}
		}
		fclose(f);
	} else {
		return 2;
	}
	fflush(stdout);
	_exit(0);
}

/* C01 harness: drives the real Checkable::ProcessCheckResult (directly, or through the production entry
 * point ApiActions::ProcessCheckResult) on real Host/Service objects — stand-alone, or placed below a
 * parent (the service's own host, or a Dependency object) that goes down and up, acknowledged, in a
 * downtime, with notifications/active checks switched off — and prints one line per operation: the
 * operation, then what the implementation shows afterwards.
 *
 *   C <kind h|s> <max> <volatile> <flapping> <topology> [<paused>]
 *        paused 1: the object is activated but never gets authority (`paused` stays true): the HA node that does
 *                  not own the checkable, or an object between Activate() and SetAuthority(true); results are
 *                  processed there all the same (event::CheckResult) and the property makes no exception for it
 *        topology 0: stand-alone, unregistered object (as test/icinga-checkresult.cpp builds them)
 *                 1: service on a parent host (implicit host dependency) / host with a Dependency on a parent host
 *                 2: explicit Dependency on a parent host that counts soft states too (ignore_soft_states = false,
 *                    parent max_check_attempts 3); a service additionally has its own (never checked) host
 *   S <state> <stype> <attempt> <lastHard> <prevHard> <exec> | <obs>     start state as restored from a state file
 *   R <state> <execStart> <now> <via> [<execEnd>] | <obs> ; <reachable> <acknowledged> <flapping> <inDowntime>
 *        execEnd (default execStart): the plugin ran from execStart to execEnd; results are ordered by execStart
 *        via 0: passive result, ProcessCheckResult   1: active result, ProcessCheckResult
 *            2: passive result through ApiActions::ProcessCheckResult (exit_status; hosts: 0 = Up, 1 = Down)
 *            3: passive result through the external command PROCESS_HOST_/PROCESS_SERVICE_CHECK_RESULT (registered
 *               objects only, i.e. topology 1, 2; else as 0); its timestamp is the execution start
 *            4: active result handed to ProcessCheckResult with a (local) MessageOrigin, as a cluster peer's handler does
 *   P <state> <now>        the parent gets a result (topology 1, 2)
 *   A <0|1|2> <now>        acknowledgement cleared / normal / sticky
 *   D <0|1> <now>          fixed downtime removed / added and triggered (topology 1, 2)
 *   F <notifications> <activeChecks>      enable_notifications / enable_active_checks
 *   U <0|1>                the object loses / gets authority (Pause / Resume), as on HA failover
 *   X <stateA> <stateB> <execStart> <now> | <acceptedA> <acceptedB> <state> <stype> <attempt> <lastHard> <hardA> <hardB>
 *        two results processed CONCURRENTLY: A on a second thread, B on the main thread while A is inside its
 *        update section (A is held in the first attribute-change signal it raises, object lock taken, until B has
 *        been started and sleeps).  Observed after both returned: the object's state and, per result, whether
 *        exactly one hard event was reported for it (0 none, 1 one, 9 more than one event of any kind).  What
 *   Y <stateA> <stateB> <execStart> <now> | <obs of A> ;; <obs of B> ; <env>
 *        result A is held in a subscriber of its OnNewCheckResult signal (all attributes written, no lock held) while
 *        result B is processed completely on the main thread; then A goes on and reports its state change.  Everything
 *        is deterministic here: the observation of A is taken inside the subscriber, its event afterwards.
 *   (X:) what
 *        is read outside the object lock (soft-vs-no event, vars_after, which result ends up as
 *        last_check_result) is not observed.  Last operation of a case.
 *   <obs> = <accepted> <state> <stype> <attempt> <lastHard> <ev> <prevHard> <vaState> <vaType> <vaAttempt>
 *           <apiState> <apiLastState> <apiLastHard>
 *
 * Modes:  gen --seed S --tier quick|thorough      internal enumeration + seeded random histories
 *         ops FILE                                 replay the operation lines of FILE (text after '|' ignored)
 */
#include "common.hpp"
#include "base/dictionary.hpp"
#include "icinga/apiactions.hpp"
#include "icinga/dependency.hpp"
#include "icinga/downtime.hpp"
#include "icinga/externalcommandprocessor.hpp"
#include "remote/messageorigin.hpp"
#include <atomic>
#include <chrono>
#include <mutex>
#include <thread>
#include <sys/syscall.h>
#include <unistd.h>

using namespace icinga;
using namespace vh;

static int l_Event = 0; /* 0 none, 1 soft, 2 hard */
static int l_EventCount = 0;
static int l_CaseNo = 0;
/* concurrent pair (X) */
static std::mutex l_EvMutex;
static const CheckResult *l_CrA = nullptr, *l_CrB = nullptr;
static int l_HardA = 0, l_HardB = 0, l_CntA = 0, l_CntB = 0, l_KindA = 0, l_KindB = 0;
/* overtaken result (Y) */
static std::atomic<int> l_YPhase{0}; /* 0 idle, 1 armed, 2 A waits in its OnNewCheckResult handler, 3 released */
static std::atomic<int> l_Phase{0}; /* 0 idle, 1 armed, 2 A is inside its update section, 3 B has been started */
static std::thread::id l_ThreadA;
static long l_TidB = 0;

struct World {
	Host::Ptr parent;      /* the host that P drives */
	Host::Ptr ownHost;     /* topology 2, service: its own host */
	Checkable::Ptr obj;
	Dependency::Ptr dep;
	Downtime::Ptr dt;
	bool host = false;
	int topo = 0;
	bool paused = false;
};

static World l_W;

static void Teardown()
{
	if (!l_W.obj)
		return;
	if (l_W.dt) {
		l_W.obj->UnregisterDowntime(l_W.dt);
		l_W.dt->Unregister();
		l_W.dt = nullptr;
	}
	if (l_W.dep) {
		l_W.dep->GetChild()->RemoveDependency(l_W.dep);
		l_W.dep->GetParent()->RemoveReverseDependency(l_W.dep);
		l_W.dep = nullptr;
	}
	l_W.obj->SetActive(false);
	if (l_W.topo != 0) {
		l_W.obj->Unregister();
		if (l_W.ownHost) { l_W.ownHost->SetActive(false); l_W.ownHost->Unregister(); }
		if (l_W.parent) { l_W.parent->SetActive(false); l_W.parent->Unregister(); }
	}
	l_W = World();
}

static Host::Ptr MakeHost(const std::string& name, int maxAttempts)
{
	Host::Ptr h = new Host();
	h->SetName(name);
	h->SetActive(true);
	h->SetMaxCheckAttempts(maxAttempts);
	h->Register();
	h->Activate();
	h->SetAuthority(true);
	static_pointer_cast<ConfigObject>(h)->OnAllConfigLoaded();
	return h;
}

static void Setup(bool host, int maxAttempts, bool isVolatile, bool flapping, int topo, bool paused = false)
{
	Teardown();
	l_CaseNo++;
	l_W.host = host;
	l_W.topo = topo;
	l_W.paused = paused;
	std::string sfx = std::to_string(l_CaseNo);

	Checkable::Ptr c;
	if (topo == 0) {
		if (host)
			c = new Host();
		else
			c = new Service();
	} else {
		l_W.parent = MakeHost("c01-parent-" + sfx, topo == 2 ? 3 : 1);
		if (host) {
			Host::Ptr h = new Host();
			h->SetName("c01-host-" + sfx);
			c = h;
		} else {
			Host::Ptr own = l_W.parent;
			if (topo == 2) {
				l_W.ownHost = MakeHost("c01-own-" + sfx, 1);
				own = l_W.ownHost;
			}
			Service::Ptr s = new Service();
			s->SetHostName(own->GetName());
			s->SetName(own->GetName() + "!svc");
			s->SetShortName("svc");
			c = s;
		}
	}
	c->SetActive(true);
	c->SetMaxCheckAttempts(maxAttempts);
	c->SetVolatile(isVolatile);
	c->SetEnableFlapping(flapping);
	if (topo != 0)
		c->Register();
	c->Activate();
	if (!paused)
		c->SetAuthority(true);
	if (topo != 0)
		static_pointer_cast<ConfigObject>(c)->OnAllConfigLoaded();
	l_W.obj = c;

	if (topo == 2 || (topo == 1 && host)) {
		l_W.dep = new Dependency();
		l_W.dep->SetParent(l_W.parent);
		l_W.dep->SetChild(c);
		l_W.dep->SetName("c01-dep-" + sfx + "!" + c->GetName());
		l_W.dep->SetStateFilter(StateFilterUp);
		l_W.dep->SetIgnoreSoftStates(topo != 2);
		l_W.dep->SetRedundancyGroup("");
		/* the checkable is not Start()ed: do the one thing Checkable::Start does for dependencies, else
		 * AddDependency only parks the dependency and IsReachable ignores it */
		c->PushDependencyGroupsToRegistry();
		c->AddDependency(l_W.dep);
		l_W.parent->AddReverseDependency(l_W.dep);
	}
}

struct ObsVals { int st, ty; long at; int lh, ph, vs, vt; long va; int as, als, alh; };

static ObsVals Capture()
{
	const Checkable::Ptr& c = l_W.obj;
	CheckResult::Ptr lcr = c->GetLastCheckResult();
	ObsVals v;
	v.ph = 99; v.vs = 9; v.vt = 9; v.va = 0;
	if (lcr) {
		v.ph = (int)lcr->GetPreviousHardState();
		Dictionary::Ptr va = lcr->GetVarsAfter();
		if (va) {
			v.vs = (int)(double)va->Get("state");
			v.vt = (int)(double)va->Get("state_type");
			v.va = (long)(double)va->Get("attempt");
		}
	}
	if (l_W.host) {
		Host::Ptr h = static_pointer_cast<Host>(c);
		v.as = (int)h->GetState(); v.als = (int)h->GetLastState(); v.alh = (int)h->GetLastHardState();
	} else {
		Service::Ptr s = static_pointer_cast<Service>(c);
		v.as = (int)s->GetState(); v.als = (int)s->GetLastState(); v.alh = (int)s->GetLastHardState();
	}
	v.st = (int)c->GetStateRaw(); v.ty = (int)c->GetStateType(); v.at = (long)c->GetCheckAttempt();
	v.lh = (int)c->GetLastHardStateRaw();
	return v;
}

static void PrintVals(int accepted, const ObsVals& v, int ev)
{
	printf("%d %d %d %ld %d %d %d %d %d %ld %d %d %d", accepted, v.st, v.ty, v.at, v.lh, ev, v.ph, v.vs, v.vt, v.va, v.as, v.als, v.alh);
}

static void PrintObs(int accepted)
{
	PrintVals(accepted, Capture(), l_Event);
}

static void DoStart(int state, int stype, long attempt, int lastHard, int prevHard, long long exec)
{
	const Checkable::Ptr& c = l_W.obj;
	l_Event = 0;
	l_EventCount = 0;
	/* what the state file / a cluster sync restores: the [state] attributes and the last check result */
	c->SetStateRaw((ServiceState)state);
	c->SetStateType((StateType)stype);
	c->SetCheckAttempt(attempt);
	c->SetLastStateRaw((ServiceState)state);
	c->SetLastStateType((StateType)stype);
	c->SetLastHardStateRaw((ServiceState)lastHard);
	c->SetLastHardStatesRaw((unsigned short)(lastHard * 100 + prevHard));
	CheckResult::Ptr cr = MakeCr((ServiceState)state, (double)exec, (double)exec, true);
	cr->SetPreviousHardState((ServiceState)prevHard);
	cr->SetVarsAfter(new Dictionary({
		{ "state", state }, { "state_type", stype }, { "attempt", attempt }, { "reachable", true }
	}));
	c->SetLastCheckResult(cr);
	printf("S %d %d %ld %d %d %lld | ", state, stype, attempt, lastHard, prevHard, exec);
	PrintObs(1);
	printf("\n");
}

static void DoResult(int state, long long execStart, long long now, int via, long long execEnd = -1)
{
	if (execEnd < execStart)
		execEnd = execStart;
	const Checkable::Ptr& c = l_W.obj;
	SetNow((double)now);
	l_Event = 0;
	l_EventCount = 0;
	if (via == 3 && l_W.topo == 0)
		via = 0;
	if ((via == 2 || via == 3) && l_W.host)
		state = (state == 0 || state == 1) ? 0 : 2; /* the API and the external command know Up and Down only for hosts */
	int reach = c->IsReachable() ? 1 : 0;
	int acked = c->IsAcknowledged() ? 1 : 0;
	int indt = c->IsInDowntime() ? 1 : 0;
	int accepted;
	if (via == 2) {
		CheckResult::Ptr before = c->GetLastCheckResult();
		Dictionary::Ptr params = new Dictionary({
			{ "exit_status", l_W.host ? (state == 0 ? 0 : 1) : state },
			{ "plugin_output", "harness" },
			{ "execution_start", (double)execStart },
			{ "execution_end", (double)execEnd }
		});
		Dictionary::Ptr res = ApiActions::ProcessCheckResult(c, params);
		accepted = (c->GetLastCheckResult() != before) ? 1 : 0;
		(void)res;
	} else if (via == 3) {
		CheckResult::Ptr before = c->GetLastCheckResult();
		if (l_W.host) {
			ExternalCommandProcessor::Execute((double)execStart, "PROCESS_HOST_CHECK_RESULT",
				{ c->GetName(), state == 0 ? "0" : "1", "harness" });
		} else {
			Service::Ptr s = static_pointer_cast<Service>(c);
			ExternalCommandProcessor::Execute((double)execStart, "PROCESS_SERVICE_CHECK_RESULT",
				{ s->GetHostName(), "svc", Convert::ToString(state), "harness" });
		}
		accepted = (c->GetLastCheckResult() != before) ? 1 : 0;
	} else {
		CheckResult::Ptr cr = MakeCr((ServiceState)state, (double)execStart, (double)execEnd, via != 0);
		/* four different timestamps: the order of results is that of their execution start, nothing else */
		cr->SetScheduleStart((double)execStart - 7);
		cr->SetScheduleEnd((double)execEnd + 7);
		MessageOrigin::Ptr origin;
		if (via == 4)
			origin = new MessageOrigin();
		auto res = c->ProcessCheckResult(cr, origin);
		accepted = (res == Checkable::ProcessingResult::Ok) ? 1 : 0;
	}
	if (l_EventCount > 1)
		l_Event = 9; /* more than one OnStateChange for one result: never valid */
	printf("R %d %lld %lld %d %lld | ", state, execStart, now, via, execEnd);
	PrintObs(accepted);
	printf(" ; %d %d %d %d\n", reach, acked, c->IsFlapping() ? 1 : 0, indt);
}

static void DoParent(int state, long long now)
{
	printf("P %d %lld |\n", state, now);
	if (!l_W.parent)
		return;
	SetNow((double)now);
	l_W.parent->ProcessCheckResult(MakeCr((ServiceState)state, (double)now, (double)now, true));
}

static void DoAck(int mode, long long now)
{
	const Checkable::Ptr& c = l_W.obj;
	printf("A %d %lld |\n", mode, now);
	SetNow((double)now);
	if (mode == 0) {
		c->ClearAcknowledgement("harness");
	} else if (!c->IsStateOK(c->GetStateRaw()) && !c->IsAcknowledged()) {
		/* as the API action does: only problems that are not acknowledged yet */
		c->AcknowledgeProblem("harness", "ack", mode == 2 ? AcknowledgementSticky : AcknowledgementNormal, false, false,
			(double)now, 0);
	}
}

static void DoDowntime(int add, long long now)
{
	const Checkable::Ptr& c = l_W.obj;
	printf("D %d %lld |\n", add, now);
	if (l_W.topo == 0)
		return;
	SetNow((double)now);
	if (add) {
		if (l_W.dt)
			return;
		Downtime::Ptr d = new Downtime();
		if (l_W.host) {
			d->SetHostName(c->GetName());
		} else {
			Service::Ptr s = static_pointer_cast<Service>(c);
			d->SetHostName(s->GetHostName());
			d->SetServiceName("svc");
		}
		d->SetName(c->GetName() + "!dt");
		d->SetFixed(true);
		d->SetStartTime((double)now - 3600);
		d->SetEndTime((double)now + 100000000.0);
		c->RegisterDowntime(d);
		d->Register();
		d->OnAllConfigLoaded();
		d->TriggerDowntime((double)now);
		l_W.dt = d;
	} else if (l_W.dt) {
		c->UnregisterDowntime(l_W.dt);
		l_W.dt->Unregister();
		l_W.dt = nullptr;
	}
}

static void DoFlags(int notif, int active)
{
	printf("F %d %d |\n", notif, active);
	l_W.obj->SetEnableNotifications(notif != 0);
	l_W.obj->SetEnableActiveChecks(active != 0);
}

static void DoAuthority(int auth)
{
	printf("U %d |\n", auth);
	l_W.obj->SetAuthority(auth != 0);
}

static char TaskState(long tid)
{
	char path[64], buf[256];
	snprintf(path, sizeof path, "/proc/self/task/%ld/stat", tid);
	FILE *f = fopen(path, "r");
	if (!f)
		return '?';
	size_t n = fread(buf, 1, sizeof buf - 1, f);
	fclose(f);
	buf[n] = 0;
	const char *p = strrchr(buf, ')');
	return (p && p[1] == ' ') ? p[2] : '?';
}

/* runs on thread A, inside ProcessCheckResult, object lock held: wait until B has been started and went to sleep */
static void StallA()
{
	using namespace std::chrono;
	l_Phase = 2;
	auto t0 = steady_clock::now();
	while (l_Phase.load() != 3 && steady_clock::now() - t0 < seconds(5))
		std::this_thread::sleep_for(microseconds(100));
	t0 = steady_clock::now();
	int asleep = 0;
	while (asleep < 2 && steady_clock::now() - t0 < milliseconds(200)) {
		asleep = (TaskState(l_TidB) == 'S') ? asleep + 1 : 0;
		std::this_thread::sleep_for(microseconds(300));
	}
	std::this_thread::sleep_for(milliseconds(1));
}

static void DoConcurrent(int stateA, int stateB, long long execStart, long long now)
{
	const Checkable::Ptr c = l_W.obj;
	SetNow((double)now);
	CheckResult::Ptr crA = MakeCr((ServiceState)stateA, (double)execStart, (double)execStart, true);
	CheckResult::Ptr crB = MakeCr((ServiceState)stateB, (double)execStart, (double)execStart, false);
	{
		std::unique_lock<std::mutex> lock(l_EvMutex);
		l_CrA = crA.get(); l_CrB = crB.get();
		l_HardA = l_HardB = l_CntA = l_CntB = l_KindA = l_KindB = 0;
	}
	l_TidB = (long)syscall(SYS_gettid);
	std::atomic<int> resA{-1};
	std::atomic<bool> armed{false};
	std::thread first([&]() {
		l_ThreadA = std::this_thread::get_id();
		l_Phase = 1;
		armed = true;
		resA = (c->ProcessCheckResult(crA) == Checkable::ProcessingResult::Ok) ? 1 : 0;
	});
	while (!armed.load() || (l_Phase.load() != 2 && resA.load() < 0))
		std::this_thread::sleep_for(std::chrono::microseconds(100));
	l_Phase = 3;
	int accB = (c->ProcessCheckResult(crB) == Checkable::ProcessingResult::Ok) ? 1 : 0;
	first.join();
	l_Phase = 0;
	int hardA, hardB;
	{
		std::unique_lock<std::mutex> lock(l_EvMutex);
		hardA = l_CntA > 1 ? 9 : l_HardA;
		hardB = l_CntB > 1 ? 9 : l_HardB;
		l_CrA = l_CrB = nullptr;
	}
	if (getenv("C01_DEBUG_PAIR")) {
		Dictionary::Ptr va = crA->GetVarsAfter();
		fprintf(stderr, "pair cntA=%d cntB=%d vaA=%d/%d final=%d/%ld lcr=%s\n", l_CntA, l_CntB,
			va ? (int)(double)va->Get("state_type") : -1, va ? (int)(double)va->Get("attempt") : -1,
			(int)c->GetStateType(), (long)c->GetCheckAttempt(), c->GetLastCheckResult() == crA ? "A" : "B");
	}
	printf("X %d %d %lld %lld | %d %d %d %d %ld %d %d %d\n", stateA, stateB, execStart, now, resA.load(), accB,
		(int)c->GetStateRaw(), (int)c->GetStateType(), (long)c->GetCheckAttempt(), (int)c->GetLastHardStateRaw(), hardA, hardB);
}

static ObsVals l_SnapA;

/* Y <stateA> <stateB> <execStart> <now> | <obs of A> ;; <obs of B>
 * Result A (active, second thread) is processed up to and including its OnNewCheckResult signal - every attribute is
 * written, both locked sections are over - and is held in a handler of that signal, as a slow subscriber (database
 * writer, event stream) holds it; meanwhile result B (passive, main thread) is processed completely; then A goes on
 * and reports its state change.  The observation of A is taken inside the handler, its event afterwards. */
static void DoOvertaken(int stateA, int stateB, long long execStart, long long now)
{
	const Checkable::Ptr c = l_W.obj;
	SetNow((double)now);
	CheckResult::Ptr crA = MakeCr((ServiceState)stateA, (double)execStart, (double)execStart, true);
	CheckResult::Ptr crB = MakeCr((ServiceState)stateB, (double)execStart, (double)execStart, false);
	{
		std::unique_lock<std::mutex> lock(l_EvMutex);
		l_CrA = crA.get(); l_CrB = crB.get();
		l_HardA = l_HardB = l_CntA = l_CntB = l_KindA = l_KindB = 0;
	}
	int reach = c->IsReachable() ? 1 : 0, acked = c->IsAcknowledged() ? 1 : 0, indt = c->IsInDowntime() ? 1 : 0;
	std::atomic<int> resA{-1};
	l_YPhase = 1;
	std::thread first([&]() {
		resA = (c->ProcessCheckResult(crA) == Checkable::ProcessingResult::Ok) ? 1 : 0;
	});
	while (l_YPhase.load() != 2 && resA.load() < 0)
		std::this_thread::sleep_for(std::chrono::microseconds(50));
	bool held = l_YPhase.load() == 2;
	if (!held) {
		/* A was not processed (no signal): nothing overlaps */
		first.join();
		l_SnapA = Capture();
	}
	int accB = (c->ProcessCheckResult(crB) == Checkable::ProcessingResult::Ok) ? 1 : 0;
	ObsVals snapB = Capture();
	int flapB = c->IsFlapping() ? 1 : 0;
	l_YPhase = 3;
	if (held)
		first.join();
	l_YPhase = 0;
	int evA, evB;
	{
		std::unique_lock<std::mutex> lock(l_EvMutex);
		evA = l_CntA > 1 ? 9 : l_KindA;
		evB = l_CntB > 1 ? 9 : l_KindB;
		l_CrA = l_CrB = nullptr;
	}
	printf("Y %d %d %lld %lld | ", stateA, stateB, execStart, now);
	PrintVals(resA.load(), l_SnapA, evA);
	printf(" ;; ");
	PrintVals(accB, snapB, evB);
	printf(" ; %d %d %d %d\n", reach, acked, flapB, indt);
}

static void Header(bool host, int mx, bool vol, bool flap, int topo, bool paused = false)
{
	printf("C %c %d %d %d %d %d\n", host ? 'h' : 's', mx, vol ? 1 : 0, flap ? 1 : 0, topo, paused ? 1 : 0);
	Setup(host, mx, vol, flap, topo, paused);
}

/* ---- generators ---- */

/* every result sequence of the given length from the pending state, stand-alone object */
static void EnumeratePending(int len, int maxMax)
{
	std::vector<int> states(len);
	long total = 1;
	for (int i = 0; i < len; i++) total *= 4;
	for (int host = 0; host < 2; host++)
	for (int mx = 1; mx <= maxMax; mx++)
	for (int vol = 0; vol < 2; vol++)
	for (int flap = 0; flap < 2; flap++)
	for (long code = 0; code < total; code++) {
		long c = code;
		Header(host, mx, vol, flap, 0);
		long long t = 1000;
		for (int i = 0; i < len; i++) { t += 10; DoResult((int)(c % 4), t, t, 1); c /= 4; }
	}
}

/* every result sequence of the given length from every start state (state, type, attempt 1..3, last hard
 * state, previous hard state) — what a state file written by this or an older version, or a cluster sync, may hold */
static void EnumerateStarts(int len, int maxMax)
{
	long total = 1;
	for (int i = 0; i < len; i++) total *= 4;
	static const int prevs[2] = { 99, 1 };
	for (int host = 0; host < 2; host++)
	for (int mx = 1; mx <= maxMax; mx++)
	for (int vol = 0; vol < 2; vol++)
	for (int st = 0; st < 4; st++)
	for (int ty = 0; ty < 2; ty++)
	for (int at = 1; at <= 3; at++)
	for (int lh = 0; lh < 4; lh++)
	for (int pi = 0; pi < 2; pi++)
	for (long code = 0; code < total; code++) {
		/* thin out: the last/previous hard state matter to the bookkeeping clauses only */
		if ((lh == 1 || lh == 3) && pi == 1)
			continue;
		long c = code;
		Header(host, mx, vol, false, 0);
		long long t = 1000;
		DoStart(st, ty, at, lh, prevs[pi], t);
		for (int i = 0; i < len; i++) { t += 10; DoResult((int)(c % 4), t, t, i % 2); c /= 4; }
	}
}

/* every result sequence of the given length on an object whose parent goes down before result number `downAt`
 * (and, in half of the cases, up again two results later) */
static void EnumerateUnreachable(int len, int maxMax)
{
	long total = 1;
	for (int i = 0; i < len; i++) total *= 4;
	for (int host = 0; host < 2; host++)
	for (int topo = 1; topo <= 2; topo++)
	for (int mx = 1; mx <= maxMax; mx++)
	for (int vol = 0; vol < 2; vol++)
	for (int downAt = 0; downAt < 2; downAt++)
	for (int upAgain = 0; upAgain < 2; upAgain++)
	for (long code = 0; code < total; code++) {
		long c = code;
		Header(host, mx, vol, false, topo);
		long long t = 1000;
		for (int i = 0; i < len; i++) {
			t += 10;
			if (i == downAt) {
				/* topology 2 counts soft states, one result is enough there too */
				DoParent(2, t - 1);
			}
			if (upAgain && i == downAt + 2)
				DoParent(0, t - 1);
			DoResult((int)(c % 4), t, t, 1);
			c /= 4;
		}
	}
}

/* every result sequence of the given length on an object that never got authority (paused), stand-alone and
 * below a parent; in a third of the cases authority arrives / is lost again in the middle */
static void EnumeratePaused(int len, int maxMax)
{
	long total = 1;
	for (int i = 0; i < len; i++) total *= 4;
	for (int host = 0; host < 2; host++)
	for (int topo = 0; topo < 2; topo++)
	for (int mx = 1; mx <= maxMax; mx++)
	for (int vol = 0; vol < 2; vol++)
	for (int flip = 0; flip < 3; flip++)
	for (long code = 0; code < total; code++) {
		long c = code;
		Header(host, mx, vol, false, topo, flip != 2);
		long long t = 1000;
		for (int i = 0; i < len; i++) {
			t += 10;
			if (flip != 0 && i == len / 2)
				DoAuthority(flip == 1 ? 1 : 0);
			DoResult((int)(c % 4), t, t, i % 2);
			c /= 4;
		}
	}
}

/* every sequence of the given length of (state, timing): checks that run for a while and results whose execution
 * starts while the previous check was still running (passive result during a long-running plugin, overlapping
 * executions through command_endpoint), processed after the previous one ended.  Results are ordered by their
 * execution START (checkable-check.cpp:184-185); none of these is older than its predecessor. */
static void EnumerateOverlap(int len, int maxMax)
{
	long total = 1;
	for (int i = 0; i < len; i++) total *= 16;
	for (int host = 0; host < 2; host++)
	for (int mx = 2; mx <= maxMax; mx++)
	for (long code = 0; code < total; code++) {
		long c = code;
		Header(host, mx, false, false, 0);
		long long clock = 1000, prevStart = 0, prevEnd = 0;
		for (int i = 0; i < len; i++) {
			int state = (int)(c % 4), timing = (int)((c / 4) % 4);
			c /= 16;
			long long s, e;
			bool inside = (timing == 1 || timing == 2) && i > 0;
			if (inside)
				s = (prevEnd > prevStart) ? prevStart + 3 : prevStart;
			else
				s = clock + 2;
			e = (timing == 0 || timing == 2) ? s + 8 : s;
			if (e > clock) clock = e;
			DoResult(state, s, clock, (timing == 1) ? 0 : 1, e);
			prevStart = s; prevEnd = e;
		}
	}
}

/* two results processed concurrently after every short prefix */
static void EnumerateConcurrent(int maxMax)
{
	static const int prefixes[7][4] = {
		{ -1, -1, -1, -1 }, { 0, -1, -1, -1 }, { 0, 2, -1, -1 }, { 0, 2, 2, -1 }, { 2, -1, -1, -1 }, { 0, 1, 3, -1 }, { 0, 2, 2, 2 }
	};
	for (int host = 0; host < 2; host++)
	for (int mx = 1; mx <= maxMax; mx++)
	for (int vol = 0; vol < 2; vol++)
	for (int pi = 0; pi < 7; pi++)
	for (int a = 0; a < 4; a++)
	for (int b = 0; b < 4; b++) {
		if (vol && (pi == 5 || pi == 6))
			continue;
		Header(host, mx, vol, false, 0);
		long long t = 1000;
		for (int i = 0; i < 4 && prefixes[pi][i] >= 0; i++) { t += 10; DoResult(prefixes[pi][i], t, t, 1); }
		t += 10;
		DoConcurrent(a, b, t, t);
	}
}

/* an overtaken result after every short prefix, followed by one more result */
static void EnumerateOvertaken(int maxMax)
{
	static const int prefixes[6][4] = {
		{ 0, -1, -1, -1 }, { 0, 2, -1, -1 }, { 0, 2, 2, -1 }, { 2, -1, -1, -1 }, { 0, 1, 3, -1 }, { 0, 2, 2, 2 }
	};
	for (int host = 0; host < 2; host++)
	for (int mx = 1; mx <= maxMax; mx++)
	for (int vol = 0; vol < 2; vol++)
	for (int pi = 0; pi < 6; pi++)
	for (int a = 0; a < 4; a++)
	for (int b = 0; b < 4; b++) {
		if (vol && pi >= 4)
			continue;
		Header(host, mx, vol, false, 0);
		long long t = 1000;
		for (int i = 0; i < 4 && prefixes[pi][i] >= 0; i++) { t += 10; DoResult(prefixes[pi][i], t, t, 1); }
		t += 10;
		DoOvertaken(a, b, t, t);
		t += 10;
		DoResult((a + b) % 4, t, t, 1);
	}
}

static void RandomCase(Rng& rng, int maxLen)
{
	bool host = rng.coin();
	int mx = 1 + (int)rng.below(12);
	bool vol = rng.below(4) == 0;
	bool flap = rng.coin();
	int topo = rng.below(3) == 0 ? 0 : 1 + (int)rng.below(2);
	int len = 1 + (int)rng.below(maxLen);
	int tsMode = (int)rng.below(3);
	bool paused = rng.below(5) == 0;
	bool concurrentEnd = rng.below(8) == 0;
	int envRate = (int)rng.below(3) == 0 ? 0 : 2 + (int)rng.below(8); /* one environment op every envRate results */
	bool useApi = rng.below(3) == 0;
	/* bias: long runs of non-OK so that large max values are reached */
	int pOk = 1 + (int)rng.below(6);
	Header(host, mx, vol, flap, topo, paused);
	long long t = 1000;
	long long lastExec = t, lastEnd = t;
	if (rng.below(4) == 0) {
		int st = (int)rng.below(4);
		int lh = vol && rng.below(4) != 0 ? st : (int)rng.below(4);
		DoStart(st, (int)rng.below(2), 1 + (long)rng.below(mx + 1), lh, rng.coin() ? 99 : (int)rng.below(4), t);
	}
	for (int j = 0; j < len; j++) {
		if (envRate && rng.below(envRate) == 0) {
			t += 1;
			switch (rng.below(paused ? 5 : 4)) {
				case 4: DoAuthority((int)rng.below(2)); break;
				case 0: DoParent(rng.below(3) == 0 ? 0 : 2 + (int)rng.below(2), t); break;
				case 1: DoAck((int)rng.below(3), t); break;
				case 2: DoDowntime((int)rng.below(2), t); break;
				default: DoFlags((int)rng.below(2), (int)rng.below(2)); break;
			}
		}
		int state = (rng.below(10) < (uint64_t)pOk) ? (int)rng.below(2) : 2 + (int)rng.below(2);
		long long exec, now, end = -1;
		if (tsMode == 0) {
			t += 10; exec = t; now = t;
		} else if (tsMode == 2) {
			/* checks that take a while; some start while the previous one was still running */
			int k = (int)rng.below(4);
			if (k == 0 && lastEnd > lastExec)
				exec = lastExec + (long long)rng.below((uint64_t)(lastEnd - lastExec));
			else
				exec = t + 1 + (long long)rng.below(5);
			end = exec + (rng.coin() ? 0 : (long long)rng.below(30));
			if (end > t) t = end;
			now = t;
		} else {
			/* timestamps: mostly increasing, sometimes equal, sometimes older (stale), sometimes in the future */
			int k = (int)rng.below(10);
			t += (long long)rng.below(20);
			now = t;
			if (k < 6) exec = t;
			else if (k == 6) exec = lastExec;            /* equal */
			else if (k == 7) exec = lastExec - 1 - (long long)rng.below(5); /* older */
			else if (k == 8) exec = t + 50 + (long long)rng.below(50);      /* from the future */
			else exec = t - (long long)rng.below(3);
			if (exec < 1) exec = 1;
		}
		int via = (useApi && rng.below(3) == 0) ? 2 + (int)rng.below(3) : (int)rng.below(2);
		CheckResult::Ptr before = l_W.obj->GetLastCheckResult();
		DoResult(state, exec, now, via, end);
		if (l_W.obj->GetLastCheckResult() != before) { lastExec = exec; lastEnd = end < exec ? exec : end; }
	}
	if (concurrentEnd) {
		/* not older than anything accepted so far, whatever the timestamp mode */
		long long exec = (lastExec > t ? lastExec : t) + 1;
		DoConcurrent((int)rng.below(4), (int)rng.below(4), exec, exec > t ? exec : t);
	}
}

int main(int argc, char **argv)
{
	if (argc < 2) { fprintf(stderr, "usage: h_c01 gen|ops ...\n"); return 2; }
	InitIcinga();

	Checkable::OnStateChange.connect([](const Checkable::Ptr& obj, const CheckResult::Ptr& cr, StateType type, const MessageOrigin::Ptr&) {
		if (obj != l_W.obj)
			return; /* the parent's own state changes */
		std::unique_lock<std::mutex> lock(l_EvMutex);
		if (cr && cr.get() == l_CrA) { l_CntA++; l_KindA = (type == StateTypeHard) ? 2 : 1; if (type == StateTypeHard) l_HardA = 1; return; }
		if (cr && cr.get() == l_CrB) { l_CntB++; l_KindB = (type == StateTypeHard) ? 2 : 1; if (type == StateTypeHard) l_HardB = 1; return; }
		l_Event = (type == StateTypeHard) ? 2 : 1;
		l_EventCount++;
	});
	Checkable::OnNewCheckResult.connect([](const Checkable::Ptr& obj, const CheckResult::Ptr& cr, const MessageOrigin::Ptr&) {
		if (l_YPhase.load() != 1 || obj != l_W.obj || !cr || cr.get() != l_CrA)
			return;
		l_SnapA = Capture();
		l_YPhase = 2;
		auto t0 = std::chrono::steady_clock::now();
		while (l_YPhase.load() != 3 && std::chrono::steady_clock::now() - t0 < std::chrono::seconds(10))
			std::this_thread::sleep_for(std::chrono::microseconds(50));
	});
	Checkable::OnLastStateRawChanged.connect([](const Checkable::Ptr& obj, const Value&) {
		if (l_Phase.load() == 1 && obj == l_W.obj && std::this_thread::get_id() == l_ThreadA)
			StallA();
	});

	std::string mode = argv[1];
	if (mode == "gen") {
		uint64_t seed = strtoull(argOr(argc, argv, "--seed", "1"), nullptr, 10);
		std::string tier = argOr(argc, argv, "--tier", "quick");
		bool thorough = tier == "thorough";
		EnumeratePending(thorough ? 7 : 5, 4);
		EnumerateStarts(thorough ? 4 : 3, 3);
		EnumerateUnreachable(thorough ? 5 : 4, 3);
		EnumeratePaused(thorough ? 5 : 4, 3);
		EnumerateOverlap(thorough ? 4 : 3, 3);
		EnumerateConcurrent(thorough ? 4 : 3);
		EnumerateOvertaken(thorough ? 4 : 3);
		/* random part: long histories, larger max_check_attempts, arbitrary timestamps, environment changes */
		Rng rng(seed);
		int n = thorough ? 20000 : 2000;
		int maxLen = thorough ? 1000 : 200;
		for (int i = 0; i < n; i++)
			RandomCase(rng, maxLen);
		Teardown();
	} else if (mode == "ops") {
		if (argc < 3) return 2;
		FILE *f = fopen(argv[2], "r");
		if (!f) { perror("open"); return 2; }
		char line[512];
		while (fgets(line, sizeof line, f)) {
			if (line[0] == 'C') {
				char k; int mx, vol, flap, topo = 0, paused = 0;
				if (sscanf(line, "C %c %d %d %d %d %d", &k, &mx, &vol, &flap, &topo, &paused) < 4) { fprintf(stderr, "bad C line\n"); return 2; }
				Header(k == 'h', mx, vol != 0, flap != 0, topo, paused != 0);
				continue;
			}
			if (!l_W.obj) {
				if (line[0] != '\n' && line[0] != '#') { fprintf(stderr, "operation before the C line\n"); return 2; }
				continue;
			}
			if (line[0] == 'R') {
				int st, via; long long exec, now, end = -1;
				if (sscanf(line, "R %d %lld %lld %d %lld", &st, &exec, &now, &via, &end) < 4) { fprintf(stderr, "bad R line\n"); return 2; }
				DoResult(st, exec, now, via, end);
			} else if (line[0] == 'S') {
				int st, ty, lh, ph; long at; long long exec;
				if (sscanf(line, "S %d %d %ld %d %d %lld", &st, &ty, &at, &lh, &ph, &exec) != 6) { fprintf(stderr, "bad S line\n"); return 2; }
				DoStart(st, ty, at, lh, ph, exec);
			} else if (line[0] == 'P') {
				int st; long long now;
				if (sscanf(line, "P %d %lld", &st, &now) != 2) { fprintf(stderr, "bad P line\n"); return 2; }
				DoParent(st, now);
			} else if (line[0] == 'A') {
				int m; long long now;
				if (sscanf(line, "A %d %lld", &m, &now) != 2) { fprintf(stderr, "bad A line\n"); return 2; }
				DoAck(m, now);
			} else if (line[0] == 'D') {
				int m; long long now;
				if (sscanf(line, "D %d %lld", &m, &now) != 2) { fprintf(stderr, "bad D line\n"); return 2; }
				DoDowntime(m, now);
			} else if (line[0] == 'U') {
				int a;
				if (sscanf(line, "U %d", &a) != 1) { fprintf(stderr, "bad U line\n"); return 2; }
				DoAuthority(a);
			} else if (line[0] == 'X') {
				int a, b; long long exec, now;
				if (sscanf(line, "X %d %d %lld %lld", &a, &b, &exec, &now) != 4) { fprintf(stderr, "bad X line\n"); return 2; }
				DoConcurrent(a, b, exec, now);
			} else if (line[0] == 'Y') {
				int a, b; long long exec, now;
				if (sscanf(line, "Y %d %d %lld %lld", &a, &b, &exec, &now) != 4) { fprintf(stderr, "bad Y line\n"); return 2; }
				DoOvertaken(a, b, exec, now);
			} else if (line[0] == 'F') {
				int a, b;
				if (sscanf(line, "F %d %d", &a, &b) != 2) { fprintf(stderr, "bad F line\n"); return 2; }
				DoFlags(a, b);
			}
		}
		fclose(f);
		Teardown();
	} else {
		return 2;
	}
	fflush(stdout);
	_exit(0);
}

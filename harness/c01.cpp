/* C01 harness: drives the real Checkable::ProcessCheckResult (directly, or through the production entry
 * point ApiActions::ProcessCheckResult) on real Host/Service objects — stand-alone, or placed below a
 * parent (the service's own host, or a Dependency object) that goes down and up, acknowledged, in a
 * downtime, with notifications/active checks switched off — and prints one line per operation: the
 * operation, then what the implementation shows afterwards.
 *
 *   C <kind h|s> <max> <volatile> <flapping> <topology>
 *        topology 0: stand-alone, unregistered object (as test/icinga-checkresult.cpp builds them)
 *                 1: service on a parent host (implicit host dependency) / host with a Dependency on a parent host
 *                 2: explicit Dependency on a parent host that counts soft states too (ignore_soft_states = false,
 *                    parent max_check_attempts 3); a service additionally has its own (never checked) host
 *   S <state> <stype> <attempt> <lastHard> <prevHard> <exec> | <obs>     start state as restored from a state file
 *   R <state> <execStart> <now> <via> | <obs> ; <reachable> <acknowledged> <flapping> <inDowntime>
 *        via 0: passive result, ProcessCheckResult   1: active result, ProcessCheckResult
 *            2: passive result through ApiActions::ProcessCheckResult (exit_status; hosts: 0 = Up, 1 = Down)
 *            3: passive result through the external command PROCESS_HOST_/PROCESS_SERVICE_CHECK_RESULT (registered
 *               objects only, i.e. topology 1, 2; else as 0); its timestamp is the execution start
 *            4: active result handed to ProcessCheckResult with a (local) MessageOrigin, as a cluster peer's handler does
 *   P <state> <now>        the parent gets a result (topology 1, 2)
 *   A <0|1|2> <now>        acknowledgement cleared / normal / sticky
 *   D <0|1> <now>          fixed downtime removed / added and triggered (topology 1, 2)
 *   F <notifications> <activeChecks>      enable_notifications / enable_active_checks
 *   <obs> = <accepted> <state> <stype> <attempt> <lastHard> <ev> <prevHard> <vaState> <vaType> <vaAttempt>
 *           <apiState> <apiLastState> <apiLastHard>
 *
 * Modes:  gen --seed S --tier quick|thorough      internal enumeration + seeded random histories
 *         ops FILE                                 replay the operation lines of FILE (text after '|' ignored)
 */
#include "common.hpp"
#include "base/dictionary.hpp"
#include "icinga/apiactions.hpp"
#include "icinga/dependency.hpp"
#include "icinga/downtime.hpp"
#include "icinga/externalcommandprocessor.hpp"
#include "remote/messageorigin.hpp"

using namespace icinga;
using namespace vh;

static int l_Event = 0; /* 0 none, 1 soft, 2 hard */
static int l_EventCount = 0;
static int l_CaseNo = 0;

struct World {
	Host::Ptr parent;      /* the host that P drives */
	Host::Ptr ownHost;     /* topology 2, service: its own host */
	Checkable::Ptr obj;
	Dependency::Ptr dep;
	Downtime::Ptr dt;
	bool host = false;
	int topo = 0;
};

static World l_W;

static void Teardown()
{
	if (!l_W.obj)
		return;
	if (l_W.dt) {
		l_W.obj->UnregisterDowntime(l_W.dt);
		l_W.dt->Unregister();
		l_W.dt = nullptr;
	}
	if (l_W.dep) {
		l_W.dep->GetChild()->RemoveDependency(l_W.dep);
		l_W.dep->GetParent()->RemoveReverseDependency(l_W.dep);
		l_W.dep = nullptr;
	}
	l_W.obj->SetActive(false);
	if (l_W.topo != 0) {
		l_W.obj->Unregister();
		if (l_W.ownHost) { l_W.ownHost->SetActive(false); l_W.ownHost->Unregister(); }
		if (l_W.parent) { l_W.parent->SetActive(false); l_W.parent->Unregister(); }
	}
	l_W = World();
}

static Host::Ptr MakeHost(const std::string& name, int maxAttempts)
{
	Host::Ptr h = new Host();
	h->SetName(name);
	h->SetActive(true);
	h->SetMaxCheckAttempts(maxAttempts);
	h->Register();
	h->Activate();
	h->SetAuthority(true);
	static_pointer_cast<ConfigObject>(h)->OnAllConfigLoaded();
	return h;
}

static void Setup(bool host, int maxAttempts, bool isVolatile, bool flapping, int topo)
{
	Teardown();
	l_CaseNo++;
	l_W.host = host;
	l_W.topo = topo;
	std::string sfx = std::to_string(l_CaseNo);

	Checkable::Ptr c;
	if (topo == 0) {
		if (host)
			c = new Host();
		else
			c = new Service();
	} else {
		l_W.parent = MakeHost("c01-parent-" + sfx, topo == 2 ? 3 : 1);
		if (host) {
			Host::Ptr h = new Host();
			h->SetName("c01-host-" + sfx);
			c = h;
		} else {
			Host::Ptr own = l_W.parent;
			if (topo == 2) {
				l_W.ownHost = MakeHost("c01-own-" + sfx, 1);
				own = l_W.ownHost;
			}
			Service::Ptr s = new Service();
			s->SetHostName(own->GetName());
			s->SetName(own->GetName() + "!svc");
			s->SetShortName("svc");
			c = s;
		}
	}
	c->SetActive(true);
	c->SetMaxCheckAttempts(maxAttempts);
	c->SetVolatile(isVolatile);
	c->SetEnableFlapping(flapping);
	if (topo != 0)
		c->Register();
	c->Activate();
	c->SetAuthority(true);
	if (topo != 0)
		static_pointer_cast<ConfigObject>(c)->OnAllConfigLoaded();
	l_W.obj = c;

	if (topo == 2 || (topo == 1 && host)) {
		l_W.dep = new Dependency();
		l_W.dep->SetParent(l_W.parent);
		l_W.dep->SetChild(c);
		l_W.dep->SetName("c01-dep-" + sfx + "!" + c->GetName());
		l_W.dep->SetStateFilter(StateFilterUp);
		l_W.dep->SetIgnoreSoftStates(topo != 2);
		l_W.dep->SetRedundancyGroup("");
		/* the checkable is not Start()ed: do the one thing Checkable::Start does for dependencies, else
		 * AddDependency only parks the dependency and IsReachable ignores it */
		c->PushDependencyGroupsToRegistry();
		c->AddDependency(l_W.dep);
		l_W.parent->AddReverseDependency(l_W.dep);
	}
}

static void PrintObs(int accepted)
{
	const Checkable::Ptr& c = l_W.obj;
	CheckResult::Ptr lcr = c->GetLastCheckResult();
	int prevHard = 99, vaS = 9, vaT = 9;
	long vaA = 0;
	if (lcr) {
		prevHard = (int)lcr->GetPreviousHardState();
		Dictionary::Ptr va = lcr->GetVarsAfter();
		if (va) {
			vaS = (int)(double)va->Get("state");
			vaT = (int)(double)va->Get("state_type");
			vaA = (long)(double)va->Get("attempt");
		}
	}
	int apiS, apiLS, apiLH;
	if (l_W.host) {
		Host::Ptr h = static_pointer_cast<Host>(c);
		apiS = (int)h->GetState(); apiLS = (int)h->GetLastState(); apiLH = (int)h->GetLastHardState();
	} else {
		Service::Ptr s = static_pointer_cast<Service>(c);
		apiS = (int)s->GetState(); apiLS = (int)s->GetLastState(); apiLH = (int)s->GetLastHardState();
	}
	printf("%d %d %d %ld %d %d %d %d %d %ld %d %d %d", accepted,
		(int)c->GetStateRaw(), (int)c->GetStateType(), (long)c->GetCheckAttempt(), (int)c->GetLastHardStateRaw(), l_Event,
		prevHard, vaS, vaT, vaA, apiS, apiLS, apiLH);
}

static void DoStart(int state, int stype, long attempt, int lastHard, int prevHard, long long exec)
{
	const Checkable::Ptr& c = l_W.obj;
	l_Event = 0;
	l_EventCount = 0;
	/* what the state file / a cluster sync restores: the [state] attributes and the last check result */
	c->SetStateRaw((ServiceState)state);
	c->SetStateType((StateType)stype);
	c->SetCheckAttempt(attempt);
	c->SetLastStateRaw((ServiceState)state);
	c->SetLastStateType((StateType)stype);
	c->SetLastHardStateRaw((ServiceState)lastHard);
	c->SetLastHardStatesRaw((unsigned short)(lastHard * 100 + prevHard));
	CheckResult::Ptr cr = MakeCr((ServiceState)state, (double)exec, (double)exec, true);
	cr->SetPreviousHardState((ServiceState)prevHard);
	cr->SetVarsAfter(new Dictionary({
		{ "state", state }, { "state_type", stype }, { "attempt", attempt }, { "reachable", true }
	}));
	c->SetLastCheckResult(cr);
	printf("S %d %d %ld %d %d %lld | ", state, stype, attempt, lastHard, prevHard, exec);
	PrintObs(1);
	printf("\n");
}

static void DoResult(int state, long long execStart, long long now, int via)
{
	const Checkable::Ptr& c = l_W.obj;
	SetNow((double)now);
	l_Event = 0;
	l_EventCount = 0;
	if (via == 3 && l_W.topo == 0)
		via = 0;
	if ((via == 2 || via == 3) && l_W.host)
		state = (state == 0 || state == 1) ? 0 : 2; /* the API and the external command know Up and Down only for hosts */
	int reach = c->IsReachable() ? 1 : 0;
	int acked = c->IsAcknowledged() ? 1 : 0;
	int indt = c->IsInDowntime() ? 1 : 0;
	int accepted;
	if (via == 2) {
		CheckResult::Ptr before = c->GetLastCheckResult();
		Dictionary::Ptr params = new Dictionary({
			{ "exit_status", l_W.host ? (state == 0 ? 0 : 1) : state },
			{ "plugin_output", "harness" },
			{ "execution_start", (double)execStart },
			{ "execution_end", (double)execStart }
		});
		Dictionary::Ptr res = ApiActions::ProcessCheckResult(c, params);
		accepted = (c->GetLastCheckResult() != before) ? 1 : 0;
		(void)res;
	} else if (via == 3) {
		CheckResult::Ptr before = c->GetLastCheckResult();
		if (l_W.host) {
			ExternalCommandProcessor::Execute((double)execStart, "PROCESS_HOST_CHECK_RESULT",
				{ c->GetName(), state == 0 ? "0" : "1", "harness" });
		} else {
			Service::Ptr s = static_pointer_cast<Service>(c);
			ExternalCommandProcessor::Execute((double)execStart, "PROCESS_SERVICE_CHECK_RESULT",
				{ s->GetHostName(), "svc", Convert::ToString(state), "harness" });
		}
		accepted = (c->GetLastCheckResult() != before) ? 1 : 0;
	} else {
		CheckResult::Ptr cr = MakeCr((ServiceState)state, (double)execStart, (double)execStart, via != 0);
		MessageOrigin::Ptr origin;
		if (via == 4)
			origin = new MessageOrigin();
		auto res = c->ProcessCheckResult(cr, origin);
		accepted = (res == Checkable::ProcessingResult::Ok) ? 1 : 0;
	}
	if (l_EventCount > 1)
		l_Event = 9; /* more than one OnStateChange for one result: never valid */
	printf("R %d %lld %lld %d | ", state, execStart, now, via);
	PrintObs(accepted);
	printf(" ; %d %d %d %d\n", reach, acked, c->IsFlapping() ? 1 : 0, indt);
}

static void DoParent(int state, long long now)
{
	printf("P %d %lld |\n", state, now);
	if (!l_W.parent)
		return;
	SetNow((double)now);
	l_W.parent->ProcessCheckResult(MakeCr((ServiceState)state, (double)now, (double)now, true));
}

static void DoAck(int mode, long long now)
{
	const Checkable::Ptr& c = l_W.obj;
	printf("A %d %lld |\n", mode, now);
	SetNow((double)now);
	if (mode == 0) {
		c->ClearAcknowledgement("harness");
	} else if (!c->IsStateOK(c->GetStateRaw()) && !c->IsAcknowledged()) {
		/* as the API action does: only problems that are not acknowledged yet */
		c->AcknowledgeProblem("harness", "ack", mode == 2 ? AcknowledgementSticky : AcknowledgementNormal, false, false,
			(double)now, 0);
	}
}

static void DoDowntime(int add, long long now)
{
	const Checkable::Ptr& c = l_W.obj;
	printf("D %d %lld |\n", add, now);
	if (l_W.topo == 0)
		return;
	SetNow((double)now);
	if (add) {
		if (l_W.dt)
			return;
		Downtime::Ptr d = new Downtime();
		if (l_W.host) {
			d->SetHostName(c->GetName());
		} else {
			Service::Ptr s = static_pointer_cast<Service>(c);
			d->SetHostName(s->GetHostName());
			d->SetServiceName("svc");
		}
		d->SetName(c->GetName() + "!dt");
		d->SetFixed(true);
		d->SetStartTime((double)now - 3600);
		d->SetEndTime((double)now + 100000000.0);
		c->RegisterDowntime(d);
		d->Register();
		d->OnAllConfigLoaded();
		d->TriggerDowntime((double)now);
		l_W.dt = d;
	} else if (l_W.dt) {
		c->UnregisterDowntime(l_W.dt);
		l_W.dt->Unregister();
		l_W.dt = nullptr;
	}
}

static void DoFlags(int notif, int active)
{
	printf("F %d %d |\n", notif, active);
	l_W.obj->SetEnableNotifications(notif != 0);
	l_W.obj->SetEnableActiveChecks(active != 0);
}

static void Header(bool host, int mx, bool vol, bool flap, int topo)
{
	printf("C %c %d %d %d %d\n", host ? 'h' : 's', mx, vol ? 1 : 0, flap ? 1 : 0, topo);
	Setup(host, mx, vol, flap, topo);
}

/* ---- generators ---- */

/* every result sequence of the given length from the pending state, stand-alone object */
static void EnumeratePending(int len, int maxMax)
{
	std::vector<int> states(len);
	long total = 1;
	for (int i = 0; i < len; i++) total *= 4;
	for (int host = 0; host < 2; host++)
	for (int mx = 1; mx <= maxMax; mx++)
	for (int vol = 0; vol < 2; vol++)
	for (int flap = 0; flap < 2; flap++)
	for (long code = 0; code < total; code++) {
		long c = code;
		Header(host, mx, vol, flap, 0);
		long long t = 1000;
		for (int i = 0; i < len; i++) { t += 10; DoResult((int)(c % 4), t, t, 1); c /= 4; }
	}
}

/* every result sequence of the given length from every start state (state, type, attempt 1..3, last hard
 * state, previous hard state) — what a state file written by this or an older version, or a cluster sync, may hold */
static void EnumerateStarts(int len, int maxMax)
{
	long total = 1;
	for (int i = 0; i < len; i++) total *= 4;
	static const int prevs[2] = { 99, 1 };
	for (int host = 0; host < 2; host++)
	for (int mx = 1; mx <= maxMax; mx++)
	for (int vol = 0; vol < 2; vol++)
	for (int st = 0; st < 4; st++)
	for (int ty = 0; ty < 2; ty++)
	for (int at = 1; at <= 3; at++)
	for (int lh = 0; lh < 4; lh++)
	for (int pi = 0; pi < 2; pi++)
	for (long code = 0; code < total; code++) {
		/* thin out: the last/previous hard state matter to the bookkeeping clauses only */
		if ((lh == 1 || lh == 3) && pi == 1)
			continue;
		long c = code;
		Header(host, mx, vol, false, 0);
		long long t = 1000;
		DoStart(st, ty, at, lh, prevs[pi], t);
		for (int i = 0; i < len; i++) { t += 10; DoResult((int)(c % 4), t, t, i % 2); c /= 4; }
	}
}

/* every result sequence of the given length on an object whose parent goes down before result number `downAt`
 * (and, in half of the cases, up again two results later) */
static void EnumerateUnreachable(int len, int maxMax)
{
	long total = 1;
	for (int i = 0; i < len; i++) total *= 4;
	for (int host = 0; host < 2; host++)
	for (int topo = 1; topo <= 2; topo++)
	for (int mx = 1; mx <= maxMax; mx++)
	for (int vol = 0; vol < 2; vol++)
	for (int downAt = 0; downAt < 2; downAt++)
	for (int upAgain = 0; upAgain < 2; upAgain++)
	for (long code = 0; code < total; code++) {
		long c = code;
		Header(host, mx, vol, false, topo);
		long long t = 1000;
		for (int i = 0; i < len; i++) {
			t += 10;
			if (i == downAt) {
				/* topology 2 counts soft states, one result is enough there too */
				DoParent(2, t - 1);
			}
			if (upAgain && i == downAt + 2)
				DoParent(0, t - 1);
			DoResult((int)(c % 4), t, t, 1);
			c /= 4;
		}
	}
}

static void RandomCase(Rng& rng, int maxLen)
{
	bool host = rng.coin();
	int mx = 1 + (int)rng.below(12);
	bool vol = rng.below(4) == 0;
	bool flap = rng.coin();
	int topo = rng.below(3) == 0 ? 0 : 1 + (int)rng.below(2);
	int len = 1 + (int)rng.below(maxLen);
	int tsMode = (int)rng.below(2);
	int envRate = (int)rng.below(3) == 0 ? 0 : 2 + (int)rng.below(8); /* one environment op every envRate results */
	bool useApi = rng.below(3) == 0;
	/* bias: long runs of non-OK so that large max values are reached */
	int pOk = 1 + (int)rng.below(6);
	Header(host, mx, vol, flap, topo);
	long long t = 1000;
	long long lastExec = t;
	if (rng.below(4) == 0) {
		int st = (int)rng.below(4);
		int lh = vol && rng.below(4) != 0 ? st : (int)rng.below(4);
		DoStart(st, (int)rng.below(2), 1 + (long)rng.below(mx + 1), lh, rng.coin() ? 99 : (int)rng.below(4), t);
	}
	for (int j = 0; j < len; j++) {
		if (envRate && rng.below(envRate) == 0) {
			t += 1;
			switch (rng.below(4)) {
				case 0: DoParent(rng.below(3) == 0 ? 0 : 2 + (int)rng.below(2), t); break;
				case 1: DoAck((int)rng.below(3), t); break;
				case 2: DoDowntime((int)rng.below(2), t); break;
				default: DoFlags((int)rng.below(2), (int)rng.below(2)); break;
			}
		}
		int state = (rng.below(10) < (uint64_t)pOk) ? (int)rng.below(2) : 2 + (int)rng.below(2);
		long long exec, now;
		if (tsMode == 0) {
			t += 10; exec = t; now = t;
		} else {
			/* timestamps: mostly increasing, sometimes equal, sometimes older (stale), sometimes in the future */
			int k = (int)rng.below(10);
			t += (long long)rng.below(20);
			now = t;
			if (k < 6) exec = t;
			else if (k == 6) exec = lastExec;            /* equal */
			else if (k == 7) exec = lastExec - 1 - (long long)rng.below(5); /* older */
			else if (k == 8) exec = t + 50 + (long long)rng.below(50);      /* from the future */
			else exec = t - (long long)rng.below(3);
			if (exec < 1) exec = 1;
		}
		int via = (useApi && rng.below(3) == 0) ? 2 + (int)rng.below(3) : (int)rng.below(2);
		CheckResult::Ptr before = l_W.obj->GetLastCheckResult();
		DoResult(state, exec, now, via);
		if (l_W.obj->GetLastCheckResult() != before) lastExec = exec;
	}
}

int main(int argc, char **argv)
{
	if (argc < 2) { fprintf(stderr, "usage: h_c01 gen|ops ...\n"); return 2; }
	InitIcinga();

	Checkable::OnStateChange.connect([](const Checkable::Ptr& obj, const CheckResult::Ptr&, StateType type, const MessageOrigin::Ptr&) {
		if (obj != l_W.obj)
			return; /* the parent's own state changes */
		l_Event = (type == StateTypeHard) ? 2 : 1;
		l_EventCount++;
	});

	std::string mode = argv[1];
	if (mode == "gen") {
		uint64_t seed = strtoull(argOr(argc, argv, "--seed", "1"), nullptr, 10);
		std::string tier = argOr(argc, argv, "--tier", "quick");
		bool thorough = tier == "thorough";
		EnumeratePending(thorough ? 7 : 5, 4);
		EnumerateStarts(thorough ? 4 : 3, 3);
		EnumerateUnreachable(thorough ? 5 : 4, 3);
		/* random part: long histories, larger max_check_attempts, arbitrary timestamps, environment changes */
		Rng rng(seed);
		int n = thorough ? 20000 : 2000;
		int maxLen = thorough ? 1000 : 200;
		for (int i = 0; i < n; i++)
			RandomCase(rng, maxLen);
		Teardown();
	} else if (mode == "ops") {
		if (argc < 3) return 2;
		FILE *f = fopen(argv[2], "r");
		if (!f) { perror("open"); return 2; }
		char line[512];
		while (fgets(line, sizeof line, f)) {
			if (line[0] == 'C') {
				char k; int mx, vol, flap, topo = 0;
				if (sscanf(line, "C %c %d %d %d %d", &k, &mx, &vol, &flap, &topo) < 4) { fprintf(stderr, "bad C line\n"); return 2; }
				Header(k == 'h', mx, vol != 0, flap != 0, topo);
				continue;
			}
			if (!l_W.obj) {
				if (line[0] != '\n' && line[0] != '#') { fprintf(stderr, "operation before the C line\n"); return 2; }
				continue;
			}
			if (line[0] == 'R') {
				int st, via; long long exec, now;
				if (sscanf(line, "R %d %lld %lld %d", &st, &exec, &now, &via) != 4) { fprintf(stderr, "bad R line\n"); return 2; }
				DoResult(st, exec, now, via);
			} else if (line[0] == 'S') {
				int st, ty, lh, ph; long at; long long exec;
				if (sscanf(line, "S %d %d %ld %d %d %lld", &st, &ty, &at, &lh, &ph, &exec) != 6) { fprintf(stderr, "bad S line\n"); return 2; }
				DoStart(st, ty, at, lh, ph, exec);
			} else if (line[0] == 'P') {
				int st; long long now;
				if (sscanf(line, "P %d %lld", &st, &now) != 2) { fprintf(stderr, "bad P line\n"); return 2; }
				DoParent(st, now);
			} else if (line[0] == 'A') {
				int m; long long now;
				if (sscanf(line, "A %d %lld", &m, &now) != 2) { fprintf(stderr, "bad A line\n"); return 2; }
				DoAck(m, now);
			} else if (line[0] == 'D') {
				int m; long long now;
				if (sscanf(line, "D %d %lld", &m, &now) != 2) { fprintf(stderr, "bad D line\n"); return 2; }
				DoDowntime(m, now);
			} else if (line[0] == 'F') {
				int a, b;
				if (sscanf(line, "F %d %d", &a, &b) != 2) { fprintf(stderr, "bad F line\n"); return 2; }
				DoFlags(a, b);
			}
		}
		fclose(f);
		Teardown();
	} else {
		return 2;
	}
	fflush(stdout);
	_exit(0);
}

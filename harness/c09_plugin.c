/* C09 recording plugin.  Compiled once by checks/c09.py into $VERIF_WORK/c09/plugin.
 *
 *   C09_OUT       file that receives argv[0..] NUL-terminated one after the other; "<file>.pid" receives the pid
 *   C09_PRINT     hex of the bytes to print on stdout
 *   C09_EXIT      exit status
 *   C09_SLEEP_DS  tenths of a second to sleep before exiting (timeout test)
 *   C09_TERM      what to do on SIGTERM: "t0".."t3" = catch it and exit 0..3 at once, "ti" = ignore it, else default action;
 *                 "r<n>" = after printing, die by signal <n> (no exit code at all);
 *                 "fk" = a script plugin blocked in an external command: fork a child that inherits stdout, records ITS pid in
 *                 "<file>.pid" and sleeps; the parent waits for it (default action on SIGTERM)
 *   every environment variable whose name begins with "C09E_" is written as NAME=VALUE, NUL-terminated, to "<file>.env"
 */
#include <stdio.h>
#include <stdlib.h>
#include <string.h>
#include <unistd.h>
#include <signal.h>
#include <sys/resource.h>
#include <sys/wait.h>

extern char **environ;

static int l_TermExit = 0;

static void OnTerm(int sig)
{
	(void)sig;
	_exit(l_TermExit);
}

static int nib(char c)
{
	if (c >= '0' && c <= '9') return c - '0';
	if (c >= 'a' && c <= 'f') return c - 'a' + 10;
	return -1;
}

int main(int argc, char **argv)
{
	const char *out = getenv("C09_OUT");
	const char *print = getenv("C09_PRINT");
	const char *ex = getenv("C09_EXIT");
	const char *sl = getenv("C09_SLEEP_DS");

	const char *term = getenv("C09_TERM");
	if (term && term[0] == 't' && term[1] >= '0' && term[1] <= '3') {
		l_TermExit = term[1] - '0';
		signal(SIGTERM, OnTerm);
	} else if (term && !strcmp(term, "ti")) {
		signal(SIGTERM, SIG_IGN);
	}

	if (out) {
		char tmp[4096];
		snprintf(tmp, sizeof tmp, "%s.pid", out);
		FILE *p = fopen(tmp, "w");
		if (p) { fprintf(p, "%ld\n", (long)getpid()); fclose(p); }
		snprintf(tmp, sizeof tmp, "%s.env", out);
		FILE *e = fopen(tmp, "w");
		if (e) {
			for (char **ep = environ; *ep; ep++)
				if (!strncmp(*ep, "C09E_", 5))
					fwrite(*ep, 1, strlen(*ep) + 1, e);
			fclose(e);
		}
		snprintf(tmp, sizeof tmp, "%s.tmp", out);
		FILE *f = fopen(tmp, "w");
		if (f) {
			for (int i = 0; i < argc; i++)
				fwrite(argv[i], 1, strlen(argv[i]) + 1, f);
			fclose(f);
			rename(tmp, out);
		}
	}
	if (print) {
		size_t n = strlen(print);
		for (size_t i = 0; i + 1 < n; i += 2) {
			int a = nib(print[i]), b = nib(print[i + 1]);
			if (a < 0 || b < 0) break;
			putchar(a * 16 + b);
		}
		fflush(stdout);
	}
	if (term && term[0] == 'r' && term[1] >= '0' && term[1] <= '9') {
		int sig = atoi(term + 1);
		struct rlimit rl = { 0, 0 };
		setrlimit(RLIMIT_CORE, &rl);
		signal(sig, SIG_DFL);
		raise(sig);
		pause();
	}
	if (term && !strcmp(term, "fk") && out) {
		pid_t c = fork();
		if (c == 0) {
			char tmp[4096];
			snprintf(tmp, sizeof tmp, "%s.pid", out);
			FILE *p = fopen(tmp, "w");
			if (p) { fprintf(p, "%ld\n", (long)getpid()); fclose(p); }
			long ds = sl ? atol(sl) : 0;
			for (long k = 0; k < ds; k++)
				usleep(100000);
			_exit(0);
		}
		int st;
		while (waitpid(c, &st, 0) < 0) { }
		return ex ? atoi(ex) : 0;
	}
	if (sl) {
		long ds = atol(sl);
		/* sleep in slices: an ignored/handled signal interrupts usleep */
		for (long k = 0; k < ds; k++)
			usleep(100000);
	}
	return ex ? atoi(ex) : 0;
}

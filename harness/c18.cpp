/* C18 harness: drives the real FilterUtility::HasPermission / GetFilterTargets / EvaluateFilter with real
 * ApiUser, Host and Service objects and prints one operation per line, then ` | `, then what the
 * implementation did (plus the oracle inputs the property does not define: truth tables of the filters,
 * whether the name-index fast path recognised the user filter, whether a type name is a config type).
 *
 *   M <pattern> <required> <form s|d>                       | <granted 0|1>
 *       one-entry user, FilterUtility::HasPermission(user, required)        (glob semantics)
 *   C <inventory>                                           inventory = T:name:mask[:ce[:cp]],... (T = H|S|E|T: host, service,
 *       endpoint, time period; objects of different types may share a name) or -
 *       start of a case: exactly these objects are registered, in this order; vars.b0..b3 = bits of mask, vars.n = mask;
 *       ce = command_endpoint (e1|e2|-), cp = check_period (tp1|tp2|-): nullable navigation fields (joins)
 *   P <pattern> <filter|-> <form s|d>                       | <truth table over the inventory (e = raises) | ->
 *       if the filter reads `service`: further rows /<row> per service of the inventory = values with `service` bound to it
 *       appends one entry to the case's ApiUser (s = plain string, d = {permission, filter} dictionary)
 *   Q <perm> <types> <prov c|l> [n:T=a[,b..]] [p:T=a,b] [t=Type] [f=<filter>]
 *                                                           | ok <T/name,..|-> | err <exception class>   log=<..|?> ft=<truth, e = raises|-> fast=<-|[a,b]> tv=<0|1>
 *       FilterUtility::GetFilterTargets(qd{types, perm, provider}, query, user)
 *       prov c = default ConfigObjectTargetProvider, l = delegating provider that logs every call
 *   A <perm> <types>                                        | <granted> <bits over the inventory, x = other type>
 *       HasPermission(user, perm, &filter) then EvaluateFilter(filter, obj) for every inventory object of
 *       the given types - what ObjectQueryHandler does for joined objects
 *
 *   H <q|m> <Host|Service> [n=name] [p=a,b] [f=<filter>] [j]  | <http status> <T/name,..|-> cnt=<results> jn=<names|-> ft=.. fast=..
 *       a whole request through the production dispatcher HttpHandler::ProcessRequest:
 *       q = GET /v1/objects/<plural>[/name] (ObjectQueryHandler, attrs=[name]; j adds joins=[command_endpoint.name,
 *       check_period.name(, host.name)] and jn lists <object>><field> for every joined object that was serialized, among
 *       those that are inventory objects),
 *       m = POST /v1/objects/<plural>[/name] with attrs={} (ModifyObjectHandler).  Plural names travel as URL parameters,
 *       filter and filter_vars in the JSON body.
 *
 *       Further verbs: d = DELETE /v1/objects/.. (DeleteObjectHandler; refused with 500 per object because the objects were
 *       not created through the API), a:<action> = POST /v1/actions/<action>?type=<Type>[&host=..] (ActionsHandler;
 *       sn=<service> adds &service=<service> whatever the type).
 *   G <templates|variables|types|status|console>             | <http status> <number of results>
 *       handlers whose targets are not config objects (permission strings templates/query/Host, variables, types,
 *       status/query, console)
 *
 *       Further verbs (round 3): c = PUT /v1/objects/hosts/<name> with attrs {check_command, vars from k=<mask>} (CreateObjectHandler,
 *       permission objects/create/Host; observed: status, cr=<0|1> whether the object exists afterwards, nt=.<value of every user
 *       entry's filter on the NEW object, '-' = entry without filter>; the object is deleted again), m now sends
 *       attrs={notes: "vtouched"} and reports ch=<objects of the WHOLE inventory whose notes changed>; a:<action> accepts every
 *       registered action with types (the registered callbacks are wrapped: the objects the handler invokes the action on are
 *       recorded; only reschedule-check / remove-acknowledgement run the original callback and are read off the objects), ty=<the
 *       action's registered types>.
 *   G act:<shutdown-process|restart-process|generate-ticket>  | <http status> <results> inv=<0|1 the callback was invoked>
 *   G cfgpackages | debug | cfgcreate                         | <http status> <results> [chg=<0|1 the package exists afterwards>]
 *       GET /v1/config/packages (config/query), GET /v1/debug/malloc_info (debug), POST /v1/config/packages/vpkg (config/modify)
 *   X <Type> <name>                                          | ok <T/name> | none
 *       ApiActions::GetSingleObjectByNameUsingPermissions(Type, name, user): the by-name lookup execute-command uses for the
 *       endpoint, command, user and notification it is told to use (permission objects/query/<Type> and its filter)
 *
 *   Round 4 - an inventory created THROUGH THE API (objects that really can be deleted, downtimes that really can be scheduled):
 *   C <inventory> api                                       hosts and services only (no joins), every service's host is part of the
 *       inventory; the objects are created with ConfigObjectUtility::CreateObject in the scratch _api package
 *   H d <Host|Service> .. [cs=1]                            | .. gone=<objects of the WHOLE inventory that no longer exist|->
 *       on such an inventory DELETE really deletes (cs=1: cascade=1, dependent services go too); the objects are re-created afterwards
 *   H a:schedule-downtime <Host|Service> .. as=1            | .. dt=<objects of the WHOLE inventory that have a downtime now|->
 *       on such an inventory the REAL schedule-downtime callback runs with all_services=1 (fixed, one hour); the downtimes are removed again
 *
 *   K <users>                                               users = name:<password hex|->:<client_cn hex|->,... or -
 *       registers exactly these ApiUser objects (authentication inventory; names are unique, passwords and CNs need not be)
 *   B <Authorization header, hex|->                        | <user name|none|throw> dec=<hex|throw|->
 *       ApiUser::GetByAuthHeader(header); dec = what Base64::Decode makes of the text after the first blank (oracle: OpenSSL)
 *   N <client CN, hex|->                                   | <user name|none>
 *       ApiUser::GetByClientCN(cn)
 *
 * Filter syntax (prefix, no blanks; V = o|h|s for obj/host/service):
 *   T F | v<K><V> (V.vars.b<K>) | c<K><V> (V.vars.n == K) | n<V>=<name>; (V.name == "name") | q<V>=<name>; ("name" == V.name)
 *   | x<V>=<name>; (V.name == fvI, filter_vars{fvI: name}) | m<V>~<pat>; (match("pat", V.name))
 *   | je=<name>; (command_endpoint.name == "name") | jp=<name>; (check_period.name == "name")   top-level joins of the target, may be null
 *   | !A | &AB | |AB | E (text that does not compile: raises when evaluated)
 *
 * Modes:  gen --seed S --tier quick|thorough     |     ops FILE  (text after ' | ' ignored)
 */
#include "common.hpp"
#include "remote/apiuser.hpp"
#include "remote/endpoint.hpp"
#include "icinga/timeperiod.hpp"
#include "remote/filterutility.hpp"
#include "config/configcompiler.hpp"
#include "config/expression.hpp"
#include "config/applyrule.hpp"
#include "base/scriptframe.hpp"
#include "base/namespace.hpp"
#include "base/exception.hpp"
#include "base/base64.hpp"
#include "base/io-engine.hpp"
#include "base/tlsstream.hpp"
#include "remote/httphandler.hpp"
#include "remote/httpserverconnection.hpp"
#include "remote/apiaction.hpp"
#include "remote/configobjectutility.hpp"
#include "remote/configpackageutility.hpp"
#include "icinga/apiactions.hpp"
#include "icinga/checkcommand.hpp"
#include "config/configitem.hpp"
#include "config/activationcontext.hpp"
#include "base/workqueue.hpp"
#include "base/configuration.hpp"
#include "icinga/downtime.hpp"
#include <boost/asio/spawn.hpp>
#include <boost/beast/http.hpp>
#include <algorithm>
#include <map>
#include <memory>
#include <set>

using namespace icinga;
using namespace vh;

typedef Value (*LookupFn)(const String&, const String&, const ApiUser::Ptr&);
namespace vh {
VH_ROB_MEMBER(ConnUserTag, HttpServerConnection, ApiUser::Ptr, m_ApiUser)
VH_ROB_STATIC(LookupTag, LookupFn type, ApiActions, GetSingleObjectByNameUsingPermissions)
}


/* ------------------------------------------------------------------------------------------ strings */

static std::string Enc(const std::string& s) { return s.empty() ? "%e" : s; }
static std::string Dec(const std::string& s) { return s == "%e" ? "" : s; }

static std::vector<std::string> Split(const std::string& s, char sep)
{
	std::vector<std::string> out;
	std::string cur;
	for (char c : s) {
		if (c == sep) { out.push_back(cur); cur.clear(); } else cur += c;
	}
	out.push_back(cur);
	return out;
}

static std::vector<std::string> Words(const std::string& s)
{
	std::vector<std::string> out;
	std::istringstream is(s);
	std::string w;
	while (is >> w) out.push_back(w);
	return out;
}

/* ------------------------------------------------------------------------------------------ inventory */

struct Item {
	std::string type;      /* Host, Service, Endpoint, TimePeriod */
	bool host;             /* type == "Host" */
	bool checkable;        /* Host or Service */
	std::string name;      /* full name */
	int mask;
	std::string ce, cp;    /* command_endpoint / check_period, empty = null join */
	ConfigObject::Ptr obj;
};

static std::map<std::string, Host::Ptr> l_Hosts;
static std::map<std::string, Service::Ptr> l_Services;
static std::map<std::string, Endpoint::Ptr> l_Endpoints;
static std::map<std::string, TimePeriod::Ptr> l_Periods;
static std::map<ConfigObject *, int> l_Mask;
static std::vector<Item> l_Inv;
static std::vector<ConfigObject::Ptr> l_Registered;

static std::map<ConfigObject *, std::pair<std::string, std::string>> l_Joins;

static void SetJoins(const ConfigObject::Ptr& o, const std::string& ce, const std::string& cp)
{
	Checkable::Ptr c = static_pointer_cast<Checkable>(o);
	c->SetCommandEndpointRaw(String(ce));
	c->SetCheckPeriodRaw(String(cp));
	l_Joins[o.get()] = { ce, cp };
}

static void InitJoinTargets()
{
	for (const char *n : { "e1", "e2" }) { Endpoint::Ptr e = new Endpoint(); e->SetName(n); e->Register(); }
	for (const char *n : { "tp1", "tp2" }) { TimePeriod::Ptr t = new TimePeriod(); t->SetName(n); t->Register(); }
}

static void SetMask(const ConfigObject::Ptr& o, int mask)
{
	Dictionary::Ptr vars = new Dictionary();
	for (int k = 0; k < 4; k++)
		vars->Set("b" + Convert::ToString(k), (mask >> k & 1) != 0);
	vars->Set("n", mask);
	static_pointer_cast<CustomVarObject>(o)->SetVars(vars);
	l_Mask[o.get()] = mask;
}

static Host::Ptr GetHost(const std::string& name)
{
	auto it = l_Hosts.find(name);
	if (it != l_Hosts.end()) return it->second;
	Host::Ptr h = new Host();
	h->SetName(name);
	SetMask(h, 0);
	l_Hosts[name] = h;
	return h;
}

static Service::Ptr GetService(const std::string& full)
{
	auto it = l_Services.find(full);
	if (it != l_Services.end()) return it->second;
	auto pos = full.find('!');
	std::string hn = pos == std::string::npos ? full : full.substr(0, pos);
	std::string sn = pos == std::string::npos ? full : full.substr(pos + 1);
	Service::Ptr s = new Service();
	s->SetName(full);
	s->SetHostName(hn);
	s->SetShortName(sn);
	/* the service learns its host the way the daemon does it (public API only): OnAllConfigLoaded() looks the
	 * host up by name, so the host is registered for the duration of the call */
	Host::Ptr h = GetHost(hn);
	bool registered = ConfigObject::GetObject("Host", hn) != nullptr;
	if (!registered) h->Register();
	static_pointer_cast<ConfigObject>(s)->OnAllConfigLoaded();
	if (!registered) h->Unregister();
	if (s->GetHost() != h) { fprintf(stderr, "service %s did not find its host\n", full.c_str()); _exit(4); }
	SetMask(s, 0);
	l_Services[full] = s;
	return s;
}

static Endpoint::Ptr GetEndpointObj(const std::string& name)
{
	auto it = l_Endpoints.find(name);
	if (it != l_Endpoints.end()) return it->second;
	Endpoint::Ptr e = new Endpoint();
	e->SetName(name);
	l_Endpoints[name] = e;
	return e;
}

static TimePeriod::Ptr GetPeriodObj(const std::string& name)
{
	auto it = l_Periods.find(name);
	if (it != l_Periods.end()) return it->second;
	TimePeriod::Ptr t = new TimePeriod();
	t->SetName(name);
	SetMask(t, 0);
	l_Periods[name] = t;
	return t;
}

/* round 4: inventories created through the API */
static bool l_ApiInv = false;
static std::vector<std::pair<std::string, std::string>> l_ApiObjs;   /* (type, name), hosts before services */
static ConfigObject::Ptr ApiCreate(const std::string& type, const std::string& name, int mask);
static void ApiCleanup();

static bool SetInventory(const std::string& spec, bool api = false)
{
	ApiCleanup();
	l_ApiInv = api;
	for (auto& o : l_Registered) o->Unregister();
	l_Registered.clear();
	l_Inv.clear();
	for (auto& kv : l_Hosts) { SetMask(kv.second, 0); SetJoins(kv.second, "", ""); }
	for (auto& kv : l_Services) { SetMask(kv.second, 0); SetJoins(kv.second, "", ""); }
	for (auto& kv : l_Periods) SetMask(kv.second, 0);
	if (spec == "-") return true;
	std::set<std::string> seen;
	for (auto& part : Split(spec, ',')) {
		auto f = Split(part, ':');
		if (f.size() < 3 || f.size() > 5 || f[1].empty()) return false;
		if (f[0] != "H" && f[0] != "S" && f[0] != "E" && f[0] != "T") return false;
		if (!seen.insert(f[0] + ":" + f[1]).second) return false;
		Item it;
		it.type = f[0] == "H" ? "Host" : f[0] == "S" ? "Service" : f[0] == "E" ? "Endpoint" : "TimePeriod";
		it.host = f[0] == "H";
		it.checkable = f[0] == "H" || f[0] == "S";
		it.name = f[1];
		it.mask = atoi(f[2].c_str()) & 15;
		if (!it.checkable && (it.name == "e1" || it.name == "e2" || it.name == "tp1" || it.name == "tp2")) return false; /* always registered */
		if (api) {
			if (!it.checkable || f.size() != 3) return false;
			if (f[0] == "S") {
				auto pos = it.name.find('!');
				if (pos == std::string::npos || !seen.count("H:" + it.name.substr(0, pos))) return false;
			} else if (it.name.find('!') != std::string::npos) return false;
			it.obj = ApiCreate(it.type, it.name, it.mask);
			if (!it.obj) return false;
			l_ApiObjs.emplace_back(it.type, it.name);
			l_Mask[it.obj.get()] = it.mask;
			l_Inv.push_back(it);
			continue;
		}
		if (f[0] == "H") it.obj = GetHost(it.name);
		else if (f[0] == "S") it.obj = GetService(it.name);
		else if (f[0] == "E") it.obj = GetEndpointObj(it.name);
		else it.obj = GetPeriodObj(it.name);
		it.obj->Register();
		l_Registered.push_back(it.obj);
		if (f[0] == "E") it.mask = 0; else SetMask(it.obj, it.mask);
		it.ce = it.checkable && f.size() > 3 && f[3] != "-" ? f[3] : "";
		it.cp = it.checkable && f.size() > 4 && f[4] != "-" ? f[4] : "";
		if (it.checkable) SetJoins(it.obj, it.ce, it.cp);
		l_Inv.push_back(it);
	}
	return true;
}

/* ------------------------------------------------------------------------------------------ filters */

struct F {
	char kind = 'T';
	int k = 0;
	char v = 'o';
	std::string s;
	std::unique_ptr<F> a, b;
};

static std::unique_ptr<F> ParseF(const std::string& t, size_t& i)
{
	if (i >= t.size()) return nullptr;
	auto f = std::make_unique<F>();
	f->kind = t[i++];
	auto isV = [](char c) { return c == 'o' || c == 'h' || c == 's'; };
	switch (f->kind) {
	case 'T': case 'F': case 'E':
		return f;
	case 'v': case 'c':
		if (i + 1 >= t.size() || !isdigit((unsigned char)t[i]) ) return nullptr;
		f->k = 0;
		while (i < t.size() && isdigit((unsigned char)t[i])) f->k = f->k * 10 + (t[i++] - '0');
		if (i >= t.size() || !isV(t[i])) return nullptr;
		f->v = t[i++];
		return f;
	case 'n': case 'q': case 'x': case 'm': {
		if (i + 1 >= t.size() || !isV(t[i])) return nullptr;
		f->v = t[i++];
		if (t[i] != '=' && t[i] != '~') return nullptr;
		i++;
		auto e = t.find(';', i);
		if (e == std::string::npos) return nullptr;
		f->s = t.substr(i, e - i);
		for (char c : f->s) if (c == '"' || c == '\\') return nullptr;
		i = e + 1;
		return f;
	}
	case 'j': {
		if (i + 1 >= t.size() || (t[i] != 'e' && t[i] != 'p') || t[i + 1] != '=') return nullptr;
		f->v = t[i];
		i += 2;
		auto e = t.find(';', i);
		if (e == std::string::npos) return nullptr;
		f->s = t.substr(i, e - i);
		if (f->s.empty()) return nullptr;
		for (char c : f->s) if (c == '"' || c == '\\') return nullptr;
		i = e + 1;
		return f;
	}
	case '!':
		f->a = ParseF(t, i);
		return f->a ? std::move(f) : nullptr;
	case '&': case '|':
		f->a = ParseF(t, i);
		if (!f->a) return nullptr;
		f->b = ParseF(t, i);
		return f->b ? std::move(f) : nullptr;
	default:
		return nullptr;
	}
}

static std::unique_ptr<F> ParseFilter(const std::string& t)
{
	size_t i = 0;
	auto f = ParseF(t, i);
	if (!f || i != t.size()) return nullptr;
	return f;
}

static const char *VarName(char v) { return v == 'o' ? "obj" : v == 'h' ? "host" : "service"; }

static void Dsl(const F& f, std::string& out, Dictionary::Ptr& fvars)
{
	switch (f.kind) {
	case 'T': out += "true"; break;
	case 'F': out += "false"; break;
	case 'E': out += "host.name == "; break;
	case 'v': out += std::string(VarName(f.v)) + ".vars.b" + std::to_string(f.k); break;
	case 'c': out += std::string(VarName(f.v)) + ".vars.n == " + std::to_string(f.k); break;
	case 'n': out += std::string(VarName(f.v)) + ".name == \"" + f.s + "\""; break;
	case 'q': out += "\"" + f.s + "\" == " + VarName(f.v) + ".name"; break;
	case 'm': out += "match(\"" + f.s + "\", " + VarName(f.v) + ".name)"; break;
	case 'j': out += std::string(f.v == 'e' ? "command_endpoint" : "check_period") + ".name == \"" + f.s + "\""; break;
	case 'x': {
		if (!fvars) fvars = new Dictionary();
		std::string key = "fv" + std::to_string(fvars->GetLength());
		fvars->Set(key, String(f.s));
		out += std::string(VarName(f.v)) + ".name == " + key;
		break;
	}
	case '!': out += "!("; Dsl(*f.a, out, fvars); out += ")"; break;
	case '&': out += "("; Dsl(*f.a, out, fvars); out += " && "; Dsl(*f.b, out, fvars); out += ")"; break;
	case '|': out += "("; Dsl(*f.a, out, fvars); out += " || "; Dsl(*f.b, out, fvars); out += ")"; break;
	}
}

static bool HasKind(const F& f, const char *kinds)
{
	if (strchr(kinds, f.kind)) return true;
	return (f.a && HasKind(*f.a, kinds)) || (f.b && HasKind(*f.b, kinds));
}

static bool UsesVar(const F& f, char v)
{
	if (strchr("vcnqxm", f.kind) && f.v == v) return true;
	return (f.a && UsesVar(*f.a, v)) || (f.b && UsesVar(*f.b, v));
}

/* The harness's own evaluation of a filter on an object: 1/0, or -1 when the DSL would raise an error
 * (variable `service` on a host when nothing bound it). Independent of FilterUtility.  `svc`: what the name
 * `service` is bound to when the target is a host (nullptr: unbound - the object evaluated alone). */
static int Eval(const F& f, const Item& it, const Item *svc = nullptr)
{
	auto resolve = [&](char v, ConfigObject *& o, bool& isHost) -> bool {
		if (v == 'o') { o = it.obj.get(); isHost = it.host || !it.checkable; return true; }
		if (!it.checkable) return false;   /* an endpoint or time period binds neither `host` nor `service` */
		if (v == 'h') {
			if (it.host) { o = it.obj.get(); isHost = true; return true; }
			o = static_cast<Service *>(it.obj.get())->GetHost().get(); isHost = true; return o != nullptr;
		}
		if (it.host) {
			if (!svc) return false;
			o = svc->obj.get(); isHost = false; return true;
		}
		o = it.obj.get(); isHost = false; return true;
	};
	auto nameOf = [&](ConfigObject *o, bool isHost) -> std::string {
		return isHost ? std::string(o->GetName().GetData()) : std::string(static_cast<Service *>(o)->GetShortName().GetData());
	};
	ConfigObject *o; bool isHost;
	switch (f.kind) {
	case 'T': return 1;
	case 'F': return 0;
	case 'E': return -1;
	case 'v': if (!resolve(f.v, o, isHost) || (o == it.obj.get() && it.type == "Endpoint")) return -1; return f.k < 4 ? (l_Mask[o] >> f.k & 1) : 0;
	case 'c': if (!resolve(f.v, o, isHost) || (o == it.obj.get() && it.type == "Endpoint")) return -1; return l_Mask[o] == f.k;
	case 'n': case 'q': case 'x': if (!resolve(f.v, o, isHost)) return -1; return nameOf(o, isHost) == f.s;
	case 'm': if (!resolve(f.v, o, isHost)) return -1; return Utility::Match(f.s, nameOf(o, isHost)) ? 1 : 0;
	case 'j':
		if (!it.checkable) return -1;   /* no such name in the frame of an endpoint or time period */
		if (f.v == 'e') return it.ce == f.s && Endpoint::GetByName(String(f.s)) != nullptr;
		return it.cp == f.s && TimePeriod::GetByName(String(f.s)) != nullptr;
	case '!': { int a = Eval(*f.a, it, svc); return a < 0 ? -1 : !a; }
	case '&': { int a = Eval(*f.a, it, svc); if (a <= 0) return a; return Eval(*f.b, it, svc); }
	case '|': { int a = Eval(*f.a, it, svc); if (a != 0) return a; return Eval(*f.b, it, svc); }
	}
	return -1;
}

/* Truth table over the inventory. `onlyType` (user filters): objects of another type are never shown to
 * the filter ('0'); 'e' marks an object on which the DSL would raise an error (generator bug if consulted). */
static std::string Truth(const F& f, const char *onlyType = nullptr)
{
	if (l_Inv.empty()) return "-";
	std::string t;
	for (auto& it : l_Inv) {
		if (onlyType && std::string(onlyType) != it.type) { t += '0'; continue; }
		int r = Eval(f, it);
		t += r < 0 ? 'e' : r > 0 ? '1' : '0';
	}
	return t;
}

/* Truth table of a permission filter: first row = every object evaluated alone; if the filter reads `service`,
 * one more row per service of the inventory (in inventory order) = the hosts evaluated with `service` bound to
 * that service (columns of services repeat the first row: a service always binds `service` to itself). */
static std::string PermTruth(const F& f)
{
	if (l_Inv.empty()) return "-";
	std::string t = Truth(f);
	if (!UsesVar(f, 's')) return t;
	for (auto& s : l_Inv) {
		if (s.type != "Service") continue;
		t += '/';
		for (auto& it : l_Inv) {
			int r = it.host ? Eval(f, it, &s) : Eval(f, it);
			t += r < 0 ? 'e' : r > 0 ? '1' : '0';
		}
	}
	return t;
}

/* ------------------------------------------------------------------------------------------ user */

static Array::Ptr l_Perms;
static ApiUser::Ptr l_User;
static std::vector<std::shared_ptr<F>> l_PermF;   /* per entry: its filter (null = none) */

static void ResetUser()
{
	l_PermF.clear();
	l_Perms = new Array();
	l_User = new ApiUser();
	l_User->SetName("u");
	l_User->SetPermissions(l_Perms);
}

static Value MakeEntry(const std::string& pattern, const F *filter, bool dict)
{
	if (!dict && !filter)
		return String(pattern);
	Dictionary::Ptr d = new Dictionary();
	d->Set("permission", String(pattern));
	if (filter) {
		std::string text;
		Dictionary::Ptr none;
		Dsl(*filter, text, none);
		std::unique_ptr<Expression> e = ConfigCompiler::CompileText("<perm>", "{{ " + text + " }}");
		ScriptFrame frame(true);
		Value fn = e->Evaluate(frame);
		d->Set("filter", fn);
	}
	return d;
}

/* ------------------------------------------------------------------------------------------ provider */

class LoggingProvider final : public TargetProvider
{
public:
	DECLARE_PTR_TYPEDEFS(LoggingProvider);
	mutable std::vector<std::string> Log;
	ConfigObjectTargetProvider::Ptr Inner = new ConfigObjectTargetProvider();

	void FindTargets(const String& type, const std::function<void (const Value&)>& addTarget) const override
	{
		Log.push_back("f." + std::string(type.GetData()));
		Inner->FindTargets(type, addTarget);
	}
	Value GetTargetByName(const String& type, const String& name) const override
	{
		Log.push_back("n." + std::string(type.GetData()) + "." + Enc(name.GetData()));
		return Inner->GetTargetByName(type, name);
	}
	bool IsValidType(const String& type) const override
	{
		Log.push_back("v." + std::string(type.GetData()));
		return Inner->IsValidType(type);
	}
	String GetPluralName(const String& type) const override
	{
		Log.push_back("p." + std::string(type.GetData()));
		return Inner->GetPluralName(type);
	}
};

/* ------------------------------------------------------------------------------------------ operations */

static std::string TypeOf(const std::string& t) { return t == "H" ? "Host" : t == "S" ? "Service" : t; }

static bool DoM(const std::vector<std::string>& w)
{
	if (w.size() < 4) return false;
	std::string pat = Dec(w[1]), req = Dec(w[2]);
	bool dict = w[3] == "d";
	ApiUser::Ptr u = new ApiUser();
	u->SetPermissions(new Array({ MakeEntry(pat, nullptr, dict) }));
	bool g = FilterUtility::HasPermission(u, req);
	printf("M %s %s %s | %d\n", w[1].c_str(), w[2].c_str(), w[3].c_str(), g ? 1 : 0);
	return true;
}

static bool DoP(const std::vector<std::string>& w)
{
	if (w.size() < 4) return false;
	std::string pat = Dec(w[1]);
	std::unique_ptr<F> f;
	if (w[2] != "-") {
		f = ParseFilter(w[2]);
		if (!f || HasKind(*f, "xE")) return false;
	}
	bool dict = w[3] == "d" || f;
	l_Perms->Add(MakeEntry(pat, f.get(), dict));
	printf("P %s %s %s | %s\n", w[1].c_str(), w[2].c_str(), dict ? "d" : "s", f ? PermTruth(*f).c_str() : "-");
	l_PermF.push_back(std::shared_ptr<F>(f.release()));
	return true;
}

/* Oracle inputs for a user filter: its truth table over the inventory and what the name-index recogniser
 * (ApplyRule::GetTargetHosts/GetTargetServices, the C16 fast path) makes of it for this type. */
static void Oracles(const std::unique_ptr<F>& uf, const std::string& type, const std::string& text, const Dictionary::Ptr& fvars,
	std::string& ft, std::string& fast)
{
	ft = Truth(*uf, type.c_str());
	/* oracle: does the name-index fast path (C16) recognise this filter for this type? */
	if (type == "Host" || type == "Service") {
		try {
			std::unique_ptr<Expression> e = ConfigCompiler::CompileText("<oracle>", text);
			auto dict = dynamic_cast<DictExpression *>(e.get());
			if (dict && dict->GetExpressions().size() == 1u) {
				std::vector<std::string> names;
				bool ok = false;
				if (type == "Host") {
					std::vector<const String *> t;
					ok = ApplyRule::GetTargetHosts(dict->GetExpressions().at(0).get(), t, fvars);
					for (auto n : t) names.push_back(n->GetData());
				} else {
					std::vector<std::pair<const String *, const String *>> t;
					ok = ApplyRule::GetTargetServices(dict->GetExpressions().at(0).get(), t, fvars);
					for (auto n : t) names.push_back(std::string(n.first->GetData()) + "!" + n.second->GetData());
				}
				if (ok) {
					fast = "[";
					for (size_t i = 0; i < names.size(); i++) fast += (i ? "," : "") + Enc(names[i]);
					fast += "]";
				}
			}
		} catch (const std::exception&) { }
	}
}

static bool DoQ(const std::vector<std::string>& w)
{
	if (w.size() < 4) return false;
	QueryDescription qd;
	qd.Permission = Dec(w[1]);
	for (auto& t : Split(w[2], ',')) {
		if (t != "Host" && t != "Service") return false;
		qd.Types.insert(t);
	}
	LoggingProvider::Ptr lp;
	if (w[3] == "l") { lp = new LoggingProvider(); qd.Provider = lp; }
	else if (w[3] != "c") return false;

	Dictionary::Ptr query = new Dictionary();
	std::unique_ptr<F> uf;
	std::string type;
	bool hasType = false;
	for (size_t i = 4; i < w.size(); i++) {
		const std::string& tok = w[i];
		if (tok.compare(0, 2, "n:") == 0 || tok.compare(0, 2, "p:") == 0) {
			auto eq = tok.find('=');
			if (eq == std::string::npos) return false;
			std::string t = tok.substr(2, eq - 2);
			if (t != "Host" && t != "Service") return false;
			std::string rest = tok.substr(eq + 1);
			std::vector<std::string> names;
			if (!rest.empty()) names = Split(rest, ',');
			if (tok[0] == 'n') {
				String key = String(t).ToLower();
				if (names.size() <= 1)
					query->Set(key, String(names.empty() ? "" : Dec(names[0])));
				else {
					ArrayData ad;
					for (auto& n : names) ad.emplace_back(String(Dec(n)));
					query->Set(key, new Array(std::move(ad)));
				}
			} else {
				ArrayData ad;
				for (auto& n : names) ad.emplace_back(String(Dec(n)));
				query->Set(t == "Host" ? "hosts" : "services", new Array(std::move(ad)));
			}
		} else if (tok.compare(0, 2, "t=") == 0) {
			type = tok.substr(2);
			hasType = true;
			query->Set("type", String(type));
		} else if (tok.compare(0, 2, "f=") == 0) {
			uf = ParseFilter(tok.substr(2));
			if (!uf) return false;
		} else
			return false;
	}

	std::string ft = "-", fast = "-";
	if (uf) {
		std::string text;
		Dictionary::Ptr fvars;
		Dsl(*uf, text, fvars);
		query->Set("filter", String(text));
		if (fvars) query->Set("filter_vars", fvars);
		Oracles(uf, type, text, fvars, ft, fast);
	}
	int tv = 0;
	if (hasType) tv = ConfigObjectTargetProvider().IsValidType(type) ? 1 : 0;

	std::string obs;
	try {
		std::vector<Value> objs = FilterUtility::GetFilterTargets(qd, query, l_User);
		std::vector<std::string> names;
		for (const Value& v : objs) {
			ConfigObject::Ptr o = v;
			names.push_back(std::string(o->GetReflectionType()->GetName().GetData()) + "/" + o->GetName().GetData());
		}
		std::sort(names.begin(), names.end());
		obs = "ok ";
		if (names.empty()) obs += "-";
		for (size_t i = 0; i < names.size(); i++) obs += (i ? "," : "") + names[i];
	} catch (const ScriptError&) {
		obs = "err script";   /* informative only: the driver compares success against failure, never the kind or the text */
	} catch (const std::invalid_argument&) {
		obs = "err arg";
	} catch (const std::exception&) {
		obs = "err other";
	}
	std::string log = "?";
	if (lp) {
		log = lp->Log.empty() ? "-" : "";
		for (size_t i = 0; i < lp->Log.size(); i++) log += (i ? ";" : "") + lp->Log[i];
	}
	std::string pre;
	for (size_t i = 0; i < w.size(); i++) pre += (i ? " " : "") + w[i];
	printf("%s | %s log=%s ft=%s fast=%s tv=%d\n", pre.c_str(), obs.c_str(), log.c_str(), ft.c_str(), fast.c_str(), tv);
	return true;
}

static bool DoA(const std::vector<std::string>& w)
{
	if (w.size() < 3) return false;
	std::set<std::string> types;
	for (auto& t : Split(w[2], ',')) types.insert(t);
	std::unique_ptr<Expression> pf;
	bool g = FilterUtility::HasPermission(l_User, Dec(w[1]), &pf);
	std::string bits;
	for (auto& it : l_Inv) {
		if (!types.count(it.type)) { bits += 'x'; continue; }
		if (!g) { bits += '0'; continue; }
		ScriptFrame frame(false, new Namespace());
		bool ok;
		/* like objectqueryhandler.cpp:284-288: an error raised by the filter counts as "not allowed" */
		try { ok = FilterUtility::EvaluateFilter(frame, pf.get(), it.obj); } catch (const ScriptError&) { ok = false; }
		bits += ok ? '1' : '0';
	}
	if (bits.empty()) bits = "-";
	printf("A %s %s | %d %s\n", w[1].c_str(), w[2].c_str(), g ? 1 : 0, bits.c_str());
	return true;
}


/* ------------------------------------------------------------------------------------------ HTTP layer */

static boost::asio::io_context l_Io;
static Shared<AsioTlsStream>::Ptr l_Stream;
static HttpServerConnection::Ptr l_Conn;
static bool l_HttpOk = false;

static bool InitHttp()
{
	namespace asio = boost::asio;
	using tcp = asio::ip::tcp;
	try {
		static asio::ssl::context ssl(asio::ssl::context::tls);
		static tcp::acceptor acc(l_Io, tcp::endpoint(asio::ip::address_v4::loopback(), 0));
		static tcp::socket peer(l_Io);
		l_Stream = Shared<AsioTlsStream>::Make(l_Io, ssl);
		l_Stream->lowest_layer().connect(acc.local_endpoint());
		acc.accept(peer);
		l_Conn = new HttpServerConnection("verif", false, l_Stream);
		l_HttpOk = true;
	} catch (const std::exception& ex) {
		fprintf(stderr, "HTTP layer unavailable: %s\n", ex.what());
		l_HttpOk = false;
	}
	return l_HttpOk;
}

static std::string UrlEnc(const std::string& s)
{
	std::string out;
	char buf[4];
	for (unsigned char c : s) {
		if (isalnum(c) || c == '-' || c == '_' || c == '.') out += (char)c;
		else { snprintf(buf, sizeof buf, "%%%02X", c); out += buf; }
	}
	return out;
}

static bool Dispatch(boost::beast::http::request<boost::beast::http::string_body>& req,
	boost::beast::http::response<boost::beast::http::string_body>& resp)
{
	bool crashed = false;
	req.set(boost::beast::http::field::accept, "application/json");
	req.prepare_payload();
	IoEngine::SpawnCoroutine(l_Io, [&](boost::asio::yield_context yc) {
		try { HttpHandler::ProcessRequest(*l_Stream, l_User, req, resp, yc, *l_Conn); } catch (const std::exception&) { crashed = true; }
	});
	l_Io.run();
	l_Io.restart();
	return !crashed;
}


/* ------------------------------------------------------------------------------------------ actions, API storage */

/* Every registered action is replaced by a wrapper that records the object the handler invokes it on. Only the two actions
 * whose effect the harness reads off the objects run the original callback; shutdown-process / restart-process and the rest
 * are never executed. */
static const char *kTypedActions[] = { "process-check-result", "reschedule-check", "send-custom-notification", "delay-notification",
	"acknowledge-problem", "remove-acknowledgement", "add-comment", "remove-comment", "schedule-downtime", "remove-downtime",
	"execute-command" };
static const char *kTypelessActions[] = { "shutdown-process", "restart-process", "generate-ticket" };
static std::vector<ConfigObject::Ptr> l_Invoked;
static bool l_RunReal = false;   /* round 4: run the original callback (schedule-downtime with all_services) */
static int l_InvokedNull = 0;
static std::map<std::string, std::string> l_ActionTypes;

static bool IsTypedAction(const std::string& n) { for (auto a : kTypedActions) if (n == a) return true; return false; }
static bool IsTypelessAction(const std::string& n) { for (auto a : kTypelessActions) if (n == a) return true; return false; }

static void InitActions()
{
	auto wrap = [](const std::string& name) {
		ApiAction::Ptr orig = ApiAction::GetByName(name);
		if (!orig) { fprintf(stderr, "action %s is not registered\n", name.c_str()); _exit(4); }
		std::set<String> ts(orig->GetTypes().begin(), orig->GetTypes().end());
		std::string tl;
		for (auto& t : ts) tl += (tl.empty() ? "" : ",") + std::string(t.GetData());
		l_ActionTypes[name] = tl.empty() ? "-" : tl;
		bool run = name == "reschedule-check" || name == "remove-acknowledgement";
		ApiAction::Ptr w = new ApiAction(orig->GetTypes(), [orig, run](const ConfigObject::Ptr& target, const Dictionary::Ptr& params) -> Value {
			if (target) l_Invoked.push_back(target); else l_InvokedNull++;
			if (run || l_RunReal) return orig->Invoke(target, params);
			return new Dictionary({ { "code", 200 }, { "status", "verif" } });
		});
		ApiAction::Register(name, w);
	};
	for (auto a : kTypedActions) wrap(a);
	for (auto a : kTypelessActions) wrap(a);
}

static std::string l_ApiTmpDir;
static bool l_ApiOk = false;

static void RemoveApiStorage()
{
	if (l_ApiTmpDir.empty()) return;
	try { Utility::RemoveDirRecursive(l_ApiTmpDir); } catch (const std::exception&) { }
	l_ApiTmpDir.clear();
}

static void Finish(int rc)
{
	fflush(stdout);
	RemoveApiStorage();
	_exit(rc);
}

/* a scratch data directory for the "_api" package (CreateObjectHandler, ConfigPackagesHandler) and the check command the
 * created hosts refer to (a config item: attribute validation looks names up among the items) */
static bool EnsureApiStorage()
{
	if (!l_ApiTmpDir.empty()) return l_ApiOk;
	std::string base = "/tmp";
	const char *env = getenv("TMPDIR");
	if (env && *env) base = env;
	std::string tmpl = base + "/c18api.XXXXXX";
	std::vector<char> b(tmpl.begin(), tmpl.end());
	b.push_back(0);
	if (!mkdtemp(b.data())) { fprintf(stderr, "mkdtemp failed\n"); return false; }
	l_ApiTmpDir = b.data();
	Configuration::DataDir = l_ApiTmpDir;
	try {
		Utility::MkDirP(ConfigPackageUtility::GetPackageDir(), 0700);
		std::unique_ptr<Expression> expr = ConfigCompiler::CompileText("<c18>",
			"object CheckCommand \"dummy\" { execute = function(checkable, cr, resolvedMacros, useResolvedMacros) { } }\n");
		ActivationScope ascope;
		ScriptFrame frame(true);
		expr->Evaluate(frame);
		expr.reset();
		WorkQueue upq;
		upq.SetName("c18");
		std::vector<ConfigItem::Ptr> newItems;
		if (!ConfigItem::CommitItems(ascope.GetContext(), upq, newItems, true)) { fprintf(stderr, "commit of the check command failed\n"); return false; }
		if (!ConfigItem::ActivateItems(newItems, false, false, false)) { fprintf(stderr, "activation of the check command failed\n"); return false; }
		l_ApiOk = true;
	} catch (const std::exception& ex) {
		fprintf(stderr, "API storage unavailable: %s\n", DiagnosticInformation(ex, false).CStr());
	}
	return l_ApiOk;
}

static ConfigObject::Ptr ApiCreate(const std::string& type, const std::string& name, int mask)
{
	if (!EnsureApiStorage()) return nullptr;
	Type::Ptr t = Type::GetByName(type);
	Dictionary::Ptr vars = new Dictionary();
	for (int k = 0; k < 4; k++) vars->Set("b" + Convert::ToString(k), (mask >> k & 1) != 0);
	vars->Set("n", mask);
	Dictionary::Ptr attrs = new Dictionary({ { "check_command", "dummy" }, { "vars", vars } });
	Array::Ptr errors = new Array();
	try {
		String config = ConfigObjectUtility::CreateObjectConfig(t, name, true, nullptr, attrs);
		if (!ConfigObjectUtility::CreateObject(t, name, config, errors, nullptr)) {
			fprintf(stderr, "cannot create %s %s: %s\n", type.c_str(), name.c_str(), JsonEncode(errors).CStr());
			return nullptr;
		}
	} catch (const std::exception& ex) {
		fprintf(stderr, "cannot create %s %s: %s\n", type.c_str(), name.c_str(), DiagnosticInformation(ex, false).CStr());
		return nullptr;
	}
	return ConfigObject::GetObject(type, name);
}

static void ApiCleanup()
{
	/* services first, then hosts */
	for (int pass = 0; pass < 2; pass++)
		for (auto& tn : l_ApiObjs) {
			if ((tn.first == "Service") != (pass == 0)) continue;
			ConfigObject::Ptr obj = ConfigObject::GetObject(tn.first, tn.second);
			if (!obj) continue;
			l_Mask.erase(obj.get());
			Array::Ptr errors = new Array();
			bool gone = false;
			try { gone = ConfigObjectUtility::DeleteObject(obj, true, errors, nullptr); } catch (const std::exception&) { }
			if (!gone) { fprintf(stderr, "cannot remove %s %s\n", tn.first.c_str(), tn.second.c_str()); Finish(4); }
		}
	l_ApiObjs.clear();
}

/* every downtime of every checkable of the inventory is removed again */
static void RemoveAllDowntimes()
{
	for (auto& it : l_Inv) {
		if (!it.checkable) continue;
		for (const Downtime::Ptr& dt : static_pointer_cast<Checkable>(it.obj)->GetDowntimes()) {
			try { Downtime::RemoveDowntime(dt->GetName(), true, DowntimeRemovedByUser); } catch (const std::exception&) { }
		}
	}
	for (auto& it : l_Inv)
		if (it.checkable && !static_pointer_cast<Checkable>(it.obj)->GetDowntimes().empty()) { fprintf(stderr, "downtimes left behind\n"); Finish(4); }
}

/* verbs: q = GET /v1/objects, m = POST /v1/objects (attrs={}), d = DELETE /v1/objects (the objects were not created through
 * the API, so every deletion is refused with code 500 and nothing changes), a:<action> = POST /v1/actions/<action>
 * (type and name travel as URL parameters; the objects acted on are read off the objects: next_check moved / acknowledgement
 * cleared, so for actions the name list is a set and cnt the number of results) */
static bool DoH(const std::vector<std::string>& w)
{
	namespace http = boost::beast::http;
	if (w.size() < 3 || !l_HttpOk) return false;
	std::string verb = w[1];
	bool action = verb.compare(0, 2, "a:") == 0;
	bool create = verb == "c";
	if (!action && verb != "q" && verb != "m" && verb != "d" && !create) return false;
	if (action && !IsTypedAction(verb.substr(2))) return false;
	bool stateObserved = verb == "a:reschedule-check" || verb == "a:remove-acknowledgement";
	bool svc = w[2] == "Service";
	if (!svc && w[2] != "Host") return false;
	if (create && (svc || !EnsureApiStorage())) return false;
	std::string createName;
	int createMask = 0;
	std::string target = action ? "/v1/actions/" + verb.substr(2) : std::string("/v1/objects/") + (svc ? "services" : "hosts");
	std::string qs;
	auto addQ = [&](const std::string& k, const std::string& v) { qs += (qs.empty() ? "?" : "&") + k + "=" + UrlEnc(v); };
	if (action) addQ("type", w[2]);
	Dictionary::Ptr body = new Dictionary();
	bool joins = false, cascade = false, allSvc = false;
	std::string ft = "-", fast = "-";
	for (size_t i = 3; i < w.size(); i++) {
		const std::string& tok = w[i];
		if (tok.compare(0, 2, "n=") == 0) {
			if (action) addQ(svc ? "service" : "host", Dec(tok.substr(2)));
			else target += "/" + UrlEnc(Dec(tok.substr(2)));
			createName = Dec(tok.substr(2));
		} else if (tok.compare(0, 2, "k=") == 0 && create) {
			createMask = atoi(tok.substr(2).c_str()) & 15;
		} else if (tok.compare(0, 3, "sn=") == 0 && action) {
			addQ("service", Dec(tok.substr(3)));   /* a service named in a request whose `type` is Host */
		} else if (tok.compare(0, 2, "p=") == 0) {
			std::string rest = tok.substr(2);
			if (rest.empty()) body->Set(svc ? "services" : "hosts", new Array());
			else for (auto& n : Split(rest, ',')) addQ(svc ? "services" : "hosts", Dec(n));
		} else if (tok.compare(0, 2, "f=") == 0) {
			auto uf = ParseFilter(tok.substr(2));
			if (!uf) return false;
			std::string text;
			Dictionary::Ptr fvars;
			Dsl(*uf, text, fvars);
			body->Set("filter", String(text));
			if (fvars) body->Set("filter_vars", fvars);
			Oracles(uf, w[2], text, fvars, ft, fast);
		} else if (tok == "j") joins = true;
		else if (tok == "cs=1" && verb == "d" && l_ApiInv) { cascade = true; addQ("cascade", "1"); }
		else if (tok == "as=1" && verb == "a:schedule-downtime" && l_ApiInv) allSvc = true;
		else return false;
	}
	if (allSvc) {
		body->Set("author", "verif");
		body->Set("comment", "verif");
		body->Set("start_time", Utility::GetTime());
		body->Set("end_time", Utility::GetTime() + 3600);
		body->Set("fixed", true);
		body->Set("all_services", true);
	}
	const char *kTouched = "vtouched";
	bool existedBefore = false;
	if (create) {
		if (createName.empty() || createName.find('!') != std::string::npos) return false;
		existedBefore = ConfigObject::GetObject("Host", createName) != nullptr;
		Dictionary::Ptr vars = new Dictionary();
		for (int k = 0; k < 4; k++) vars->Set("b" + Convert::ToString(k), (createMask >> k & 1) != 0);
		vars->Set("n", createMask);
		body->Set("attrs", new Dictionary({ { "check_command", "dummy" }, { "vars", vars } }));
	}
	if (verb == "m") {
		/* a real change, so that "which objects were changed" can be read off the WHOLE inventory */
		body->Set("attrs", new Dictionary({ { "notes", kTouched } }));
		for (auto& it : l_Inv) if (it.checkable) static_pointer_cast<Checkable>(it.obj)->SetNotes("");
	} else if (verb == "q") {
		body->Set("attrs", new Array({ String("name") }));
		if (joins) {
			/* joined objects are an access path of their own: each is subject to objects/query/<its type> */
			ArrayData ja{ String("command_endpoint.name"), String("check_period.name") };
			if (svc) ja.emplace_back(String("host.name"));
			body->Set("joins", new Array(std::move(ja)));
		}
	}
	http::verb hv = verb == "q" ? http::verb::get : verb == "d" ? http::verb::delete_ : create ? http::verb::put : http::verb::post;
	http::request<http::string_body> req{hv, target + qs, 11};
	l_Invoked.clear();
	l_InvokedNull = 0;
	req.body() = JsonEncode(body).GetData();
	const double kSentinel = 1000.0;
	if (action)
		for (auto& it : l_Inv) {
			if (!it.checkable) continue;
			Checkable::Ptr c = static_pointer_cast<Checkable>(it.obj);
			c->SetNextCheck(kSentinel);
			c->SetAcknowledgementRaw(AcknowledgementNormal);
		}
	http::response<http::string_body> resp;
	l_RunReal = allSvc;
	bool ok = Dispatch(req, resp);
	l_RunReal = false;
	(void)cascade;
	std::vector<std::string> names, joined;
	long count = 0;
	int status = !ok ? 599 : (int)resp.result_int();
	if (create) {
		/* observed: does the object exist now? and what do the user's filters say about the NEW object? */
		std::string pre;
		for (size_t i = 0; i < w.size(); i++) pre += (i ? " " : "") + w[i];
		ConfigObject::Ptr obj = ConfigObject::GetObject("Host", createName);
		bool created = obj && !existedBefore;
		std::string nt;
		if (created) {
			Item it;
			it.type = "Host"; it.host = true; it.checkable = true; it.name = createName; it.mask = createMask; it.obj = obj;
			l_Mask[obj.get()] = createMask;
			for (auto& f : l_PermF) {
				if (!f) { nt += '-'; continue; }
				int r = Eval(*f, it);
				nt += r < 0 ? 'e' : r > 0 ? '1' : '0';
			}
			l_Mask.erase(obj.get());
			Array::Ptr errors = new Array();
			bool gone = false;
			try { gone = ConfigObjectUtility::DeleteObject(obj, false, errors, nullptr); } catch (const std::exception&) { }
			if (!gone || ConfigObject::GetObject("Host", createName)) { fprintf(stderr, "cannot remove created host %s\n", createName.c_str()); Finish(4); }
		}
		printf("%s | %d - cr=%d nt=.%s ex=%d\n", pre.c_str(), status, created ? 1 : 0, nt.c_str(), existedBefore ? 1 : 0);
		return true;
	}
	if (status == 200 || status == 500) {
		try {
			Dictionary::Ptr r = JsonDecode(resp.body());
			Array::Ptr results = r->Get("results");
			ObjectLock olock(results);
			for (const Dictionary::Ptr& one : results) {
				std::string nm, ty;
				if (action) {
					/* an action's result names its object only inside a human-readable text: count it here, the
					 * objects acted on are read off the objects themselves below */
					count++;
					if ((int)one->Get("code") != 200) status = 596;
					continue;
				} else {
					nm = String(one->Get("name")).GetData();
					ty = String(one->Get("type")).GetData();
				}
				names.push_back(ty + "/" + nm);
				count++;
				Dictionary::Ptr j = one->Get("joins");
				/* which joined objects were serialized? (only those that are inventory objects are reported) */
				if (j) {
					const Item *self = nullptr;
					for (auto& it : l_Inv) if (it.type == ty && it.name == nm) self = &it;
					auto inInv = [&](const std::string& t, const std::string& n) {
						for (auto& it : l_Inv) if (it.type == t && it.name == n) return true;
						return false;
					};
					auto pos = nm.find('!');
					if (svc && pos != std::string::npos && j->Contains("host") && inInv("Host", nm.substr(0, pos))) joined.push_back(nm + ">host");
					if (self && j->Contains("command_endpoint") && inInv("Endpoint", self->ce)) joined.push_back(nm + ">command_endpoint");
					if (self && j->Contains("check_period") && inInv("TimePeriod", self->cp)) joined.push_back(nm + ">check_period");
				}
			}
		} catch (const std::exception&) { status = 598; }
	}
	if (action)
		for (auto& it : l_Inv) {
			/* which objects did the action act on? reschedule-check moves next_check, remove-acknowledgement clears the mark */
			if (!it.checkable) continue;
			Checkable::Ptr c = static_pointer_cast<Checkable>(it.obj);
			if (!stateObserved) continue;
			bool acted = verb == "a:reschedule-check" ? c->GetNextCheck() != kSentinel : c->GetAcknowledgementRaw() == AcknowledgementNone;
			if (acted) names.push_back(it.type + "/" + it.name);
		}
	if (action && !stateObserved) {
		/* the objects the handler invoked the (wrapped) action on */
		std::set<std::string> acted;
		for (auto& o : l_Invoked) acted.insert(std::string(o->GetReflectionType()->GetName().GetData()) + "/" + o->GetName().GetData());
		for (auto& n : acted) names.push_back(n);
	}
	std::string changed;
	if (verb == "m") {
		std::vector<std::string> ch;
		for (auto& it : l_Inv)
			if (it.checkable && static_pointer_cast<Checkable>(it.obj)->GetNotes() == kTouched) ch.push_back(it.type + "/" + it.name);
		std::sort(ch.begin(), ch.end());
		for (size_t i = 0; i < ch.size(); i++) changed += (i ? "," : "") + ch[i];
		if (changed.empty()) changed = "-";
	}
	std::sort(names.begin(), names.end());
	std::sort(joined.begin(), joined.end());
	auto join = [](const std::vector<std::string>& v) { std::string o; for (size_t i = 0; i < v.size(); i++) o += (i ? "," : "") + v[i]; return o.empty() ? std::string("-") : o; };
	std::string pre;
	for (size_t i = 0; i < w.size(); i++) pre += (i ? " " : "") + w[i];
	printf("%s | %d %s cnt=%ld jn=%s ft=%s fast=%s", pre.c_str(), status, join(names).c_str(), count, join(joined).c_str(), ft.c_str(), fast.c_str());
	if (verb == "m") printf(" ch=%s", changed.c_str());
	if (action) printf(" ty=%s", l_ActionTypes[verb.substr(2)].c_str());
	if (allSvc) {
		/* which objects of the WHOLE inventory did the action act on?  (a downtime exists) */
		std::vector<std::string> dt;
		for (auto& it : l_Inv)
			if (it.checkable && !static_pointer_cast<Checkable>(it.obj)->GetDowntimes().empty()) dt.push_back(it.type + "/" + it.name);
		std::sort(dt.begin(), dt.end());
		printf(" dt=%s", join(dt).c_str());
		RemoveAllDowntimes();
	}
	if (verb == "d" && l_ApiInv) {
		/* which objects of the WHOLE inventory are gone?  they are created again (hosts first) */
		std::vector<std::string> gone;
		for (int pass = 0; pass < 2; pass++)
			for (auto& it : l_Inv) {
				if (it.host != (pass == 0)) continue;
				if (ConfigObject::GetObject(it.type, it.name)) continue;
				gone.push_back(it.type + "/" + it.name);
				l_Mask.erase(it.obj.get());
				it.obj = ApiCreate(it.type, it.name, it.mask);
				if (!it.obj) { fprintf(stderr, "cannot re-create %s %s\n", it.type.c_str(), it.name.c_str()); Finish(4); }
				l_Mask[it.obj.get()] = it.mask;
			}
		std::sort(gone.begin(), gone.end());
		printf(" gone=%s", join(gone).c_str());
	}
	printf("\n");
	return true;
}

/* G <kind>: a request to a handler whose targets are not config objects; observed: status and number of results.
 *   templates = GET /v1/templates/hosts, variables = GET /v1/variables, types = GET /v1/types, status = GET /v1/status/IcingaApplication,
 *   console = POST /v1/console/execute-script?command=1&session=verif */
static bool DoG(const std::vector<std::string>& w)
{
	namespace http = boost::beast::http;
	if (w.size() < 2 || !l_HttpOk) return false;
	const std::string& k = w[1];
	http::verb hv = http::verb::get;
	std::string target;
	if (k == "templates") target = "/v1/templates/hosts";
	else if (k == "variables") target = "/v1/variables";
	else if (k == "types") target = "/v1/types";
	else if (k == "status") target = "/v1/status/IcingaApplication";
	else if (k == "console") { target = "/v1/console/execute-script?command=1&session=verif"; hv = http::verb::post; }
	else if (k.compare(0, 4, "act:") == 0 && IsTypelessAction(k.substr(4))) { target = "/v1/actions/" + k.substr(4); hv = http::verb::post; }
	else if (k == "debug") target = "/v1/debug/malloc_info";
	else if (k == "cfgpackages" || k == "cfgcreate") {
		if (!EnsureApiStorage()) return false;
		target = k == "cfgpackages" ? "/v1/config/packages" : "/v1/config/packages/vpkg";
		if (k == "cfgcreate") hv = http::verb::post;
	}
	else return false;
	http::request<http::string_body> req{hv, target, 11};
	http::response<http::string_body> resp;
	l_Invoked.clear();
	l_InvokedNull = 0;
	bool ok = Dispatch(req, resp);
	int status = !ok ? 599 : (int)resp.result_int();
	long count = -1;
	if (status == 200 && k != "debug") {   /* malloc_info answers with XML */
		try {
			Dictionary::Ptr r = JsonDecode(resp.body());
			Array::Ptr results = r->Get("results");
			count = results ? (long)results->GetLength() : -1;
		} catch (const std::exception&) { status = 598; }
	}
	printf("G %s | %d %ld", k.c_str(), status, count);
	if (k.compare(0, 4, "act:") == 0) printf(" inv=%d", l_InvokedNull > 0 || !l_Invoked.empty() ? 1 : 0);
	if (k == "cfgcreate") {
		bool exists = false;
		try { exists = ConfigPackageUtility::PackageExists("vpkg"); } catch (const std::exception&) { }
		printf(" chg=%d", exists ? 1 : 0);
		if (exists) { try { Utility::RemoveDirRecursive(ConfigPackageUtility::GetPackageDir() + "/vpkg"); } catch (const std::exception&) { fprintf(stderr, "cannot remove package\n"); Finish(4); } }
	}
	printf("\n");
	return true;
}


/* X <Type> <name>: the by-name lookup of execute-command */
static bool DoX(const std::vector<std::string>& w)
{
	if (w.size() < 3) return false;
	const std::string& t = w[1];
	if (t != "Host" && t != "Service" && t != "Endpoint" && t != "TimePeriod") return false;
	if (w[2] == "e1" || w[2] == "e2" || w[2] == "tp1" || w[2] == "tp2") return false;   /* registered, but never inventory objects */
	LookupFn lookup = get(LookupTag());
	std::string res = "none";
	try {
		Value v = lookup(String(t), String(Dec(w[2])), l_User);
		if (!v.IsEmpty()) {
			ConfigObject::Ptr o = v;
			res = "ok " + std::string(o->GetReflectionType()->GetName().GetData()) + "/" + Enc(o->GetName().GetData());
		}
	} catch (const std::exception&) { res = "throw"; }
	printf("X %s %s | %s\n", w[1].c_str(), w[2].c_str(), res.c_str());
	return true;
}

/* ------------------------------------------------------------------------------------------ authentication */

static std::string Hex(const std::string& s)
{
	if (s.empty()) return "-";
	static const char *d = "0123456789abcdef";
	std::string o;
	for (unsigned char c : s) { o += d[c >> 4]; o += d[c & 15]; }
	return o;
}

static bool UnHex(const std::string& h, std::string& out)
{
	out.clear();
	if (h == "-") return true;
	if (h.size() % 2) return false;
	for (size_t i = 0; i < h.size(); i += 2) {
		auto v = [](char c) { return c >= '0' && c <= '9' ? c - '0' : c >= 'a' && c <= 'f' ? c - 'a' + 10 : -1; };
		int a = v(h[i]), b = v(h[i + 1]);
		if (a < 0 || b < 0) return false;
		out += (char)(a * 16 + b);
	}
	return true;
}

static std::vector<ApiUser::Ptr> l_AuthUsers;

static bool DoK(const std::vector<std::string>& w)
{
	if (w.size() < 2) return false;
	for (auto& u : l_AuthUsers) u->Unregister();
	l_AuthUsers.clear();
	if (w[1] != "-") {
		std::set<std::string> seen;
		for (auto& part : Split(w[1], ',')) {
			auto f = Split(part, ':');
			std::string pw, cn;
			if (f.size() != 3 || f[0].empty() || !UnHex(f[1], pw) || !UnHex(f[2], cn) || !seen.insert(f[0]).second) return false;
			ApiUser::Ptr u = new ApiUser();
			u->SetName(f[0]);
			u->SetPassword(String(pw));
			u->SetClientCN(String(cn));
			u->Register();
			l_AuthUsers.push_back(u);
		}
	}
	printf("K %s\n", w[1].c_str());
	return true;
}

static bool DoB(const std::vector<std::string>& w)
{
	std::string header;
	if (w.size() < 2 || !UnHex(w[1], header)) return false;
	std::string dec = "-";
	auto pos = header.find(' ');
	if (pos != std::string::npos && header.substr(0, pos) == "Basic") {
		try { dec = Hex(std::string(Base64::Decode(String(header.substr(pos + 1))).GetData())); if (dec == "-") dec = "="; }
		catch (const std::exception&) { dec = "throw"; }
	}
	std::string res;
	try {
		ApiUser::Ptr u = ApiUser::GetByAuthHeader(String(header));
		res = u ? std::string(u->GetName().GetData()) : "none";
	} catch (const std::exception&) { res = "throw"; }
	printf("B %s | %s dec=%s\n", w[1].c_str(), res.c_str(), dec.c_str());
	return true;
}

static bool DoN(const std::vector<std::string>& w)
{
	std::string cn;
	if (w.size() < 2 || !UnHex(w[1], cn)) return false;
	ApiUser::Ptr u = ApiUser::GetByClientCN(String(cn));
	printf("N %s | %s\n", w[1].c_str(), u ? u->GetName().CStr() : "none");
	return true;
}

/* V <identity, hex|-> <authenticated 0|1>                | <user name|none>
 *     a new HttpServerConnection(identity, authenticated, stream): which ApiUser does the CONNECTION carry (m_ApiUser)?  Every
 *     request on it runs as that user before any Authorization header is looked at (httpserverconnection.cpp:47-48, :510-514);
 *     `authenticated` = the TLS layer verified the client certificate, `identity` = its CN */
static bool DoV(const std::vector<std::string>& w)
{
	std::string id;
	if (w.size() < 3 || !UnHex(w[1], id) || (w[2] != "0" && w[2] != "1") || !l_HttpOk) return false;
	HttpServerConnection::Ptr conn = new HttpServerConnection(String(id), w[2] == "1", l_Stream);
	ApiUser::Ptr u = (*conn).*get(ConnUserTag());
	printf("V %s %s | %s\n", w[1].c_str(), w[2].c_str(), u ? u->GetName().CStr() : "none");
	return true;
}

static bool DoLine(const std::string& line)
{
	std::string pre = line.substr(0, line.find(" | "));
	auto w = Words(pre);
	if (w.empty()) return true;
	if (w[0] == "M") return DoM(w);
	if (w[0] == "C") {
		if (w.size() < 2) return false;
		bool api = w.size() > 2 && w[2] == "api";
		if (w.size() > 2 && !api) return false;
		if (!SetInventory(w[1], api)) return false;
		ResetUser();
		printf("C %s%s\n", w[1].c_str(), api ? " api" : "");
		return true;
	}
	if (w[0] == "P") return DoP(w);
	if (w[0] == "Q") return DoQ(w);
	if (w[0] == "A") return DoA(w);
	if (w[0] == "H") return DoH(w);
	if (w[0] == "G") return DoG(w);
	if (w[0] == "X") return DoX(w);
	if (w[0] == "K") return DoK(w);
	if (w[0] == "B") return DoB(w);
	if (w[0] == "N") return DoN(w);
	if (w[0] == "V") return DoV(w);
	if (w[0][0] == '#') return true;
	return false;
}

static void Run(const std::string& line)
{
	if (!DoLine(line)) {
		fprintf(stderr, "bad line: %s\n", line.c_str());
		Finish(3);
	}
}

/* ------------------------------------------------------------------------------------------ generator */

static const char *kRequired[] = {
	"objects/query/Host", "objects/query/Service", "objects/modify/Host", "objects/modify/Service",
	"objects/delete/Host", "objects/delete/Service", "actions/reschedule-check", "actions/acknowledge-problem",
	"actions/remove-acknowledgement", "status/query", "console", "events/CheckResult", "actions/process-check-result",
	"variables", "types", "templates/query/Host"
};
static const int kRequiredN = sizeof(kRequired) / sizeof(*kRequired);
/* round 3: the entry points that were never dispatched */
static const char *kRequired2[] = {
	"objects/create/Host", "objects/create/Host", "actions/add-comment", "actions/schedule-downtime", "actions/execute-command",
	"actions/remove-comment", "actions/remove-downtime", "actions/process-check-result", "actions/send-custom-notification",
	"actions/delay-notification", "actions/acknowledge-problem", "actions/shutdown-process", "actions/restart-process",
	"actions/generate-ticket", "config/query", "config/modify", "debug", "objects/modify/Host", "objects/modify/Service",
	"objects/query/Host", "objects/query/Service"
};
static const int kRequired2N = sizeof(kRequired2) / sizeof(*kRequired2);

static std::string FlipCase(Rng& r, std::string s)
{
	for (auto& c : s)
		if (isalpha((unsigned char)c) && r.below(3) == 0)
			c = islower((unsigned char)c) ? toupper(c) : tolower(c);
	return s;
}

/* a pattern derived from the required permission: mostly matching, sometimes a near miss */
static std::string GenPattern(Rng& r, const std::string& req)
{
	std::string p = req;
	switch (r.below(16)) {
	case 0: case 1: break;
	case 2: p = "*"; break;
	case 3: { auto pos = p.rfind('/'); p = (pos == std::string::npos ? p : p.substr(0, pos + 1)) + "*"; break; }
	case 4: { auto pos = p.find('/'); p = (pos == std::string::npos ? p : p.substr(0, pos + 1)) + "*"; break; }
	case 5: { auto a = p.find('/'), b = p.rfind('/'); if (a != std::string::npos && b > a) p = p.substr(0, a + 1) + "*" + p.substr(b); else p = "*" + p; break; }
	case 6: if (!p.empty()) p[r.below(p.size())] = '?'; break;
	case 7: { size_t i = r.below(p.size() + 1); p = p.substr(0, i) + "*" + p.substr(std::min(p.size(), i + r.below(4))); break; }
	case 8: p = "*" + p.substr(std::min(p.size(), (size_t)r.below(8))); break;
	case 9: if (!p.empty()) p.pop_back(); break;                       /* near miss: too short */
	case 10: p += "x"; break;                                          /* near miss: too long */
	case 11: if (!p.empty()) p[r.below(p.size())] = 'z'; break;        /* near miss */
	case 12: p = kRequired[r.below(kRequiredN)]; break;                /* some other permission */
	case 13: p = p + "*"; break;
	case 14: { size_t i = r.below(p.size() + 1); p = p.substr(0, i) + "?" + p.substr(i); break; } /* near miss: extra ? */
	case 15: p = "**" + p.substr(p.size() / 2); break;
	}
	if (r.below(3) == 0) p = FlipCase(r, p);
	return p;
}

static const char *kHostNames[] = { "h0", "h1", "h2", "web" };
static const char *kSvcShort[] = { "s0", "s1", "ping" };

static std::string GenAtom(Rng& r, bool perm, bool svcType, bool allowX)
{
	char v;
	if (perm) v = r.below(6) == 0 ? 's' : r.coin() ? 'o' : 'h';   /* `service` on a host: unbound, or left over (F-C18a) */
	else v = svcType ? "ohs"[r.below(3)] : "oh"[r.below(2)];
	std::string name = (v == 's' || (v == 'o' && svcType)) ? kSvcShort[r.below(3)] : kHostNames[r.below(4)];
	if (r.below(5) == 0) /* a top-level join of the target that may be null */
		return r.below(3) ? std::string("je=") + (r.coin() ? "e1" : "e2") + ";" : std::string("jp=") + (r.coin() ? "tp1" : "tp2") + ";";
	switch (r.below(allowX ? 9 : 8)) {
	case 0: case 1: case 2: return "v" + std::to_string(r.below(4)) + v;
	case 3: return "c" + std::to_string(r.below(16)) + v;
	case 4: return std::string("n") + v + "=" + name + ";";
	case 5: return std::string("q") + v + "=" + name + ";";
	case 6: { std::string pat = name; if (r.coin()) pat[r.below(pat.size())] = '?'; else pat = pat.substr(0, 1) + "*"; return std::string("m") + v + "~" + pat + ";"; }
	case 7: return r.coin() ? "T" : "F";
	default: return std::string("x") + v + "=" + name + ";";
	}
}

static std::string GenFilter(Rng& r, int depth, bool perm, bool svcType)
{
	if (depth <= 0 || r.below(3) == 0) return GenAtom(r, perm, svcType, !perm);
	switch (r.below(3)) {
	case 0: return "!" + GenFilter(r, depth - 1, perm, svcType);
	case 1: return "&" + GenFilter(r, depth - 1, perm, svcType) + GenFilter(r, depth - 1, perm, svcType);
	default: return "|" + GenFilter(r, depth - 1, perm, svcType) + GenFilter(r, depth - 1, perm, svcType);
	}
}

/* user filters shaped so that the name-index fast path recognises them */
static std::string GenFastFilter(Rng& r, bool svcType)
{
	auto one = [&]() {
		std::string hn = kHostNames[r.below(4)];
		const char *forms = "nqx";
		std::string h = std::string(1, forms[r.below(3)]) + "h=" + hn + ";";
		if (!svcType) return h;
		std::string s = std::string(1, forms[r.below(3)]) + "s=" + kSvcShort[r.below(3)] + ";";
		return r.coin() ? "&" + h + s : "&" + s + h;
	};
	std::string f = one();
	int n = (int)r.below(3);
	for (int i = 0; i < n; i++) f = r.coin() ? "|" + f + one() : "|" + one() + f;
	return f;
}

static std::string PickName(Rng& r, bool host)
{
	/* mostly a registered object, sometimes an unregistered or odd name */
	std::vector<std::string> have;
	for (auto& it : l_Inv) if (it.checkable && it.host == host) have.push_back(it.name);
	uint64_t k = r.below(10);
	if (!have.empty() && k < 7) return have[r.below(have.size())];
	if (k == 7) return "%e";
	if (k == 8) return host ? "H0" : "h0!S0";
	if (host) return kHostNames[r.below(4)];
	return std::string(kHostNames[r.below(4)]) + "!" + kSvcShort[r.below(3)];
}

static void GenCase(Rng& r)
{
	/* inventory */
	std::string inv;
	std::vector<std::string> items;
	auto joinsOf = [&]() {
		std::string ce = r.below(5) < 2 ? (r.below(3) ? "e1" : "e2") : "-";
		std::string cp = r.below(4) == 0 ? (r.coin() ? "tp1" : "tp2") : "-";
		if (ce == "-" && cp == "-") return std::string();
		return ":" + ce + (cp == "-" ? "" : ":" + cp);
	};
	int density = 1 + (int)r.below(3);
	for (int i = 0; i < 4; i++)
		if ((int)r.below(4) < density)
			items.push_back(std::string("H:") + kHostNames[i] + ":" + std::to_string(r.below(16)) + joinsOf());
	for (int i = 0; i < 4; i++)
		for (int j = 0; j < 3; j++)
			if (r.below(6) == 0) /* services may exist without their host being in the inventory */
				items.push_back(std::string("S:") + kHostNames[i] + "!" + kSvcShort[j] + ":" + std::to_string(r.below(16)) + joinsOf());
	/* registration order = enumeration order of type/filter queries: shuffled */
	for (size_t i = items.size(); i > 1; i--) std::swap(items[i - 1], items[r.below(i)]);
	for (auto& it : items) inv += (inv.empty() ? "" : ",") + it;
	if (inv.empty()) inv = "-";
	Run("C " + inv);

	std::string req = kRequired[r.below(r.below(4) == 0 ? kRequiredN : 9)];
	if (r.below(4) == 0) req = kRequired2[r.below(kRequired2N)];
	bool actions = req.compare(0, 8, "actions/") == 0;
	bool typedAction = actions && IsTypedAction(req.substr(8));
	bool svcPerm = req.size() > 7 && req.substr(req.size() - 7) == "Service";

	int np = (int)r.below(5);
	if (r.below(12) == 0) np = 0;
	for (int i = 0; i < np; i++) {
		std::string pat = GenPattern(r, req);
		std::string f = "-";
		if (r.below(2) == 0) f = GenFilter(r, 2, true, false);
		Run("P " + Enc(pat) + " " + f + " " + (r.coin() ? "s" : "d"));
	}

	int nq = 4 + (int)r.below(6);
	for (int qi = 0; qi < nq; qi++) {
		std::string perm = r.below(10) == 0 ? kRequired[r.below(kRequiredN)] : req;
		if (r.below(40) == 0) perm = "";
		if (r.below(8) == 0) perm = FlipCase(r, perm);
		std::string types;
		bool svcType;
		if (actions || r.below(12) == 0) { types = "Host,Service"; svcType = r.coin(); }
		else if (svcPerm) { types = "Service"; svcType = true; }
		else { types = "Host"; svcType = false; }
		std::string T = svcType ? "Service" : "Host";
		std::string q;
		std::string tt;
		{
			uint64_t k = r.below(20);
			if (k == 0) tt = "";
			else if (k == 1) tt = " t=Bogus";
			else if (k == 2) tt = " t=User";
			else if (k == 3) tt = " t=host";
			else if (k == 4) tt = " t=ConfigObject";
			else if (k == 5) tt = svcType ? " t=Host" : " t=Service";
			else tt = " t=" + T;
		}
		/* a user filter mentioning `service` raises an error on hosts: mostly avoided, sometimes wanted */
		bool fsvc = tt == " t=Service" || r.below(12) == 0;
		auto typeTok = [&]() { return tt; };
		auto filterTok = [&]() {
			uint64_t k = r.below(12);
			if (k == 0) return std::string(" f=E");
			if (k < 5) return " f=" + GenFastFilter(r, fsvc);
			return " f=" + GenFilter(r, 2, false, fsvc);
		};
		auto nameTok = [&](bool host) {
			std::string t = " n:" + std::string(host ? "Host" : "Service") + "=";
			if (r.below(6) == 0) t += PickName(r, host) + ",";  /* array form: the last element counts */
			t += PickName(r, host);
			if (t.back() == '=') t += "%e";
			return t;
		};
		auto pluralTok = [&](bool host) {
			std::string t = " p:" + std::string(host ? "Host" : "Service") + "=";
			int n = (int)r.below(4);
			for (int i = 0; i < n; i++) t += (i ? "," : "") + PickName(r, host);
			return t;
		};
		bool two = types == "Host,Service";
		switch (r.below(9)) {
		case 0: case 1: q = nameTok(!svcType) + typeTok(); break;
		case 2: q = pluralTok(!svcType) + typeTok(); break;
		case 3: case 4: q = typeTok() + filterTok(); break;
		case 5: q = typeTok(); break;
		case 6: q = ""; break;
		case 7: q = nameTok(!svcType) + (r.coin() ? pluralTok(!svcType) : "") + typeTok() + (r.coin() ? filterTok() : ""); break;
		case 8:
			if (two) q = nameTok(true) + (r.coin() ? nameTok(false) : pluralTok(false)) + typeTok() + (r.below(3) == 0 ? filterTok() : "");
			else q = pluralTok(!svcType) + typeTok() + filterTok();
			break;
		}
		Run("Q " + Enc(perm) + " " + types + " c" + q);
		Run("Q " + Enc(perm) + " " + types + " l" + q);
	}
	/* the shape of F-C18a: a request over Host and Service that names services and then enumerates hosts */
	if (actions) {
		std::vector<std::string> svcs;
		bool anyHost = false;
		for (auto& it : l_Inv) { if (it.host) anyHost = true; else if (it.checkable) svcs.push_back(it.name); }
		if (!svcs.empty() && anyHost && r.below(3) != 0) {
			std::string f = r.coin() ? "T" : GenFilter(r, 1, false, false);
			std::string one = svcs[r.below(svcs.size())];
			Run("Q " + Enc(req) + " Host,Service c n:Service=" + one + " t=Host f=" + f);
			Run("Q " + Enc(req) + " Host,Service l n:Service=" + one + " t=Host f=" + f);
			if (l_HttpOk && typedAction)
				Run("H a:" + req.substr(8) + " Host sn=" + one + " f=" + f);
			if (svcs.size() >= 2) {
				std::sort(svcs.begin(), svcs.end());
				if (svcs.size() > 3) svcs.resize(3);
				do {
					std::string names;
					for (size_t i = 0; i < svcs.size(); i++) names += (i ? "," : "") + svcs[i];
					Run("Q " + Enc(req) + " Host,Service c p:Service=" + names + " t=Host f=" + f);
				} while (std::next_permutation(svcs.begin(), svcs.end()));
			}
		}
	}
	/* one request visiting several objects, in every order: plural name lists in all permutations */
	for (int host = 0; host < 2; host++) {
		std::vector<std::string> have;
		for (auto& it : l_Inv) if (it.checkable && it.host == (host == 1)) have.push_back(it.name);
		bool typeOk = actions || (host == 1) == !svcPerm;
		if (have.size() < 2 || !typeOk || r.below(3) == 0) continue;
		for (size_t i = have.size(); i > 1; i--) std::swap(have[i - 1], have[r.below(i)]);
		if (have.size() > 3) have.resize(3);
		std::sort(have.begin(), have.end());
		std::string T = host ? "Host" : "Service";
		std::string types = actions ? "Host,Service" : T;
		bool withFilter = r.below(4) == 0;
		std::string tail = " t=" + T + (withFilter ? " f=" + GenFilter(r, 1, false, !host) : "");
		do {
			std::string names;
			for (size_t i = 0; i < have.size(); i++) names += (i ? "," : "") + have[i];
			Run("Q " + Enc(req) + " " + types + " c p:" + T + "=" + names + tail);
			Run("Q " + Enc(req) + " " + types + " l p:" + T + "=" + names + tail);
			if (l_HttpOk && req.compare(0, 8, "objects/") == 0 && req[8] != 'c')
				Run(std::string("H ") + req[8] + " " + T + " p=" + names);
			else if (l_HttpOk && typedAction)
				Run("H a:" + req.substr(8) + " " + T + " p=" + names);
		} while (std::next_permutation(have.begin(), have.end()));
	}
	if (l_HttpOk) {
		auto pickH = [&](bool host) { std::string n = PickName(r, host); return n == "%e" ? std::string("nope") : n; };
		int nh = 1 + (int)r.below(3);
		for (int i = 0; i < nh; i++) {
			bool svc = r.coin();
			std::string verb = r.below(3) == 0 ? "m" : "q";
			if (r.below(8) == 0) verb = "d";
			if (r.below(8) == 0) verb = std::string("a:") + kTypedActions[r.below(sizeof(kTypedActions) / sizeof(*kTypedActions))];
			if (r.below(4) != 0) {
				/* mostly the request the case's user was built for */
				if (req.compare(0, 8, "objects/") == 0) { svc = svcPerm; verb = std::string(1, req[8]); }
				else if (typedAction) verb = "a:" + req.substr(8);
			}
			if (verb == "c" || r.below(40) == 0) {
				/* PUT /v1/objects/hosts/<name>: mostly a fresh name, sometimes one that is taken */
				static const char *fresh[] = { "new0", "new1", "web2", "h9" };
				std::string nm = r.below(6) == 0 ? kHostNames[r.below(4)] : fresh[r.below(4)];
				Run("H c Host n=" + nm + " k=" + std::to_string(r.below(16)));
				continue;
			}
			std::string h = "H " + verb + (svc ? " Service" : " Host");
			uint64_t k = r.below(8);
			if (k < 2) h += " n=" + pickH(!svc);
			else if (k == 2) { h += " p="; int n = (int)r.below(3); for (int j = 0; j < n; j++) h += (j ? "," : "") + pickH(!svc); }
			else if (k < 5) h += " f=" + (r.below(3) == 0 ? GenFastFilter(r, svc) : GenFilter(r, 2, false, svc));
			else if (k == 5) h += " n=" + pickH(!svc) + " f=" + GenFilter(r, 1, false, svc);
			if (svc && r.coin()) h += " j";
			Run(h);
		}
		/* handlers whose targets are not config objects: is their permission string enforced? */
		static const char *kinds[] = { "templates", "variables", "types", "status", "console", "cfgpackages", "cfgcreate", "debug",
			"act:shutdown-process", "act:restart-process", "act:generate-ticket" };
		static const char *kindPerm[] = { "templates/query/Host", "variables", "types", "status/query", "console", "config/query",
			"config/modify", "debug", "actions/shutdown-process", "actions/restart-process", "actions/generate-ticket" };
		for (int i = 0; i < 11; i++)
			if (req == kindPerm[i] || r.below(i < 5 ? 10 : 30) == 0) Run(std::string("G ") + kinds[i]);
	}
	/* the by-name lookup of execute-command, for the types of the inventory */
	if (req.compare(0, 14, "objects/query/") == 0 || req == "actions/execute-command" || r.below(10) == 0) {
		int nx = 1 + (int)r.below(3);
		for (int i = 0; i < nx; i++) {
			bool host = svcPerm ? r.below(4) == 0 : r.below(4) != 0;
			Run(std::string("X ") + (host ? "Host " : "Service ") + PickName(r, host));
		}
	}
	Run("A " + Enc(req) + " Host,Service");
	if (r.coin()) Run("A " + Enc(FlipCase(r, kRequired[r.below(kRequiredN)])) + " Host,Service");
}

/* Joined objects as an access path: objects of different types share names, the user has per-type permissions */
/* round 4: an inventory created through the API - deletes that really delete (with and without cascade) and the real
 * schedule-downtime with all_services; observed: which objects of the WHOLE inventory are gone / have a downtime */
static void GenApiCase(Rng& r)
{
	std::vector<std::string> hosts, svcs;
	for (int i = 0; i < 4; i++)
		if (r.below(2) == 0 || (i == 3 && hosts.empty())) {
			hosts.push_back(std::string("H:") + kHostNames[i] + ":" + std::to_string(r.below(16)));
			for (int j = 0; j < 3; j++)
				if (r.below(3) == 0) svcs.push_back(std::string("S:") + kHostNames[i] + "!" + kSvcShort[j] + ":" + std::to_string(r.below(16)));
		}
	for (size_t i = hosts.size(); i > 1; i--) std::swap(hosts[i - 1], hosts[r.below(i)]);
	for (size_t i = svcs.size(); i > 1; i--) std::swap(svcs[i - 1], svcs[r.below(i)]);
	std::string inv;
	for (auto& it : hosts) inv += (inv.empty() ? "" : ",") + it;
	for (auto& it : svcs) inv += "," + it;
	Run("C " + inv + " api");

	static const char *reqs[] = { "objects/delete/Host", "objects/delete/Service", "actions/schedule-downtime", "objects/delete/Host" };
	std::string req = reqs[r.below(4)];
	int np = 1 + (int)r.below(3);
	if (r.below(10) == 0) np = 0;
	for (int i = 0; i < np; i++) {
		std::string pat = GenPattern(r, req);
		std::string f = "-";
		if (r.below(3) != 0) f = GenFilter(r, 2, true, false);
		Run("P " + Enc(pat) + " " + f + " " + (r.coin() ? "s" : "d"));
	}
	int nq = 3 + (int)r.below(4);
	for (int qi = 0; qi < nq; qi++) {
		std::string what = r.below(5) == 0 ? reqs[r.below(4)] : req;
		bool dt = what == "actions/schedule-downtime";
		bool svc = dt ? r.below(4) == 0 : what == "objects/delete/Service";
		std::string T = svc ? "Service" : "Host";
		std::string line = std::string("H ") + (dt ? "a:schedule-downtime " : "d ") + T;
		/* an empty name in the URL path is no name at all: not generated here */
		auto pick = [&](bool host) { std::string n = PickName(r, host); return n == "%e" ? std::string("nope") : n; };
		switch (r.below(6)) {
		case 0: case 1: line += " n=" + pick(!svc); break;
		case 2: {
			line += " p=";
			int n = 1 + (int)r.below(2);
			for (int i = 0; i < n; i++) line += (i ? "," : "") + pick(!svc);
			break;
		}
		case 3: line += " f=" + (r.coin() ? GenFastFilter(r, svc) : GenFilter(r, 2, false, svc)); break;
		default: break;
		}
		if (dt) line += " as=1";
		else if (r.below(3) != 0) line += " cs=1";
		Run(line);
	}
}

static void GenJoinCase(Rng& r)
{
	static const char *names[] = { "h0", "h1", "web" };
	std::vector<std::string> items, eps, tps;
	for (auto n : names) if (r.below(3) != 0) { items.push_back(std::string("E:") + n + ":0"); eps.push_back(n); }
	for (auto n : names) if (r.below(3) != 0) { items.push_back(std::string("T:") + n + ":" + std::to_string(r.below(16))); tps.push_back(n); }
	auto pickJoin = [&](std::vector<std::string>& pool, const char *global) {
		uint64_t k = r.below(8);
		if (!pool.empty() && k < 5) return pool[r.below(pool.size())];
		if (k == 5) return std::string(global);   /* registered, but not an inventory object */
		return std::string("-");
	};
	std::vector<std::string> hosts;
	for (auto n : names) if (r.below(3) != 0) {
		hosts.push_back(n);
		items.push_back(std::string("H:") + n + ":" + std::to_string(r.below(16)) + ":" + pickJoin(eps, "e1") + ":" + pickJoin(tps, "tp1"));
	}
	for (auto n : names)
		for (int j = 0; j < 2; j++)
			if (r.below(3) == 0)
				items.push_back(std::string("S:") + n + "!" + kSvcShort[j] + ":" + std::to_string(r.below(16)) + ":" + pickJoin(eps, "e2") + ":" + pickJoin(tps, "tp2"));
	for (size_t i = items.size(); i > 1; i--) std::swap(items[i - 1], items[r.below(i)]);
	std::string inv;
	for (auto& it : items) inv += (inv.empty() ? "" : ",") + it;
	Run("C " + (inv.empty() ? std::string("-") : inv));

	static const char *perms[] = { "objects/query/Service", "objects/query/Host", "objects/query/Endpoint", "objects/query/TimePeriod" };
	int np = 2 + (int)r.below(4);
	for (int i = 0; i < np; i++) {
		std::string pat = r.below(6) == 0 ? std::string("objects/query/*") : GenPattern(r, perms[r.below(4)]);
		std::string f = "-";
		if (r.below(5) < 3) {
			if (r.below(3) == 0) f = std::string(r.coin() ? "no=" : "!no=") + names[r.below(3)] + ";";
			else f = GenFilter(r, 1, true, false);
		}
		Run("P " + Enc(pat) + " " + f + " " + (r.coin() ? "s" : "d"));
	}
	if (l_HttpOk) {
		int n = 2 + (int)r.below(3);
		for (int i = 0; i < n; i++) {
			bool svc = r.below(3) != 0;
			std::string h = std::string("H q ") + (svc ? "Service" : "Host");
			uint64_t k = r.below(6);
			if (k == 0) { std::string nm = PickName(r, !svc); h += " n=" + (nm == "%e" ? std::string("nope") : nm); }
			else if (k == 1) h += " f=" + GenFilter(r, 1, false, svc);
			Run(h + " j");
		}
	}
	for (auto p : perms) Run(std::string("A ") + p + " Host,Service,Endpoint,TimePeriod");
	/* execute-command's lookup: endpoints (and the other kinds) by name, objects of different types sharing names */
	{
		int nx = 2 + (int)r.below(4);
		for (int i = 0; i < nx; i++) {
			static const char *ts[] = { "Endpoint", "Endpoint", "TimePeriod", "Host", "Service" };
			std::string t = ts[r.below(5)];
			std::string nm = t == "Service" ? PickName(r, false) : r.below(8) == 0 ? std::string("nope") : std::string(names[r.below(3)]);
			Run("X " + t + " " + nm);
		}
	}
}

/* ApiUser::GetByAuthHeader / GetByClientCN over generated user inventories and headers */
static void GenAuthCase(Rng& r)
{
	static const char *names[] = { "root", "icingaweb2", "agent", "api" };
	static const char *pws[] = { "", "", "pw", "secret", "a:b", "x", "pw" };
	static const char *cns[] = { "", "", "", "cn1", "agent.example", "cn1" };
	struct U { std::string name, pw, cn; };
	std::vector<U> us;
	std::string spec;
	for (auto n : names)
		if (r.below(3) != 0) {
			U u{ n, pws[r.below(7)], cns[r.below(6)] };
			us.push_back(u);
			spec += (spec.empty() ? "" : ",") + u.name + ":" + Hex(u.pw) + ":" + Hex(u.cn);
		}
	Run("K " + (spec.empty() ? std::string("-") : spec));
	auto basic = [&](const std::string& cred) { return std::string("Basic ") + Base64::Encode(String(cred)).GetData(); };
	std::vector<std::string> hs;
	std::vector<U> all = us;
	all.push_back(U{ "nobody", "pw", "" });
	all.push_back(U{ "", "pw", "" });
	for (auto& u : all) {
		hs.push_back(basic(u.name + ":" + u.pw));                       /* the configured password (possibly empty) */
		hs.push_back(basic(u.name + ":"));                              /* empty password given */
		hs.push_back(basic(u.name + ":" + u.pw + "x"));                 /* longer */
		if (!u.pw.empty()) hs.push_back(basic(u.name + ":" + u.pw.substr(0, u.pw.size() - 1))); /* prefix */
		hs.push_back(basic(u.name + ":wrong"));
		hs.push_back(basic(u.name));                                     /* no colon */
		hs.push_back(basic(u.name + ":" + u.pw + ":"));
		if (r.coin()) hs.push_back("basic " + std::string(Base64::Encode(String(u.name + ":" + u.pw)).GetData()));
		if (r.coin()) hs.push_back("Bearer " + std::string(Base64::Encode(String(u.name + ":" + u.pw)).GetData()));
		if (r.coin()) hs.push_back("Basic  " + std::string(Base64::Encode(String(u.name + ":" + u.pw)).GetData()));
		if (r.coin()) hs.push_back(basic(u.name + ":" + u.pw) + "=");
		if (r.coin()) hs.push_back("Basic" + std::string(Base64::Encode(String(u.name + ":" + u.pw)).GetData()));
		if (r.coin()) hs.push_back(u.name + ":" + u.pw);
	}
	hs.push_back(""); hs.push_back("Basic"); hs.push_back("Basic "); hs.push_back("Basic !!!"); hs.push_back("Basic Og=="); hs.push_back(" ");
	hs.push_back(basic(":")); hs.push_back(basic("::"));
	for (auto& h : hs) Run("B " + Hex(h));
	for (auto c : { "", "cn1", "agent.example", "CN1", "cn", "cn1 " }) Run("N " + Hex(c));
	/* the connection level: an identity counts only when the TLS layer verified the certificate */
	for (auto c : { "", "cn1", "agent.example", "CN1" }) { Run("V " + Hex(c) + " 1"); Run("V " + Hex(c) + " 0"); }
}

static void GenMatchExhaustive(int maxLen)
{
	const char pa[] = { 'a', 'B', '*', '?', '\\' };
	const char ta[] = { 'a', 'b', 'A', '*', '\\' };
	std::vector<std::string> pats{""}, texts{""};
	for (size_t lo = 0, len = 0; (int)len < maxLen; len++) {
		size_t hi = pats.size();
		for (size_t i = lo; i < hi; i++) for (char c : pa) pats.push_back(pats[i] + c);
		lo = hi;
	}
	for (size_t lo = 0, len = 0; (int)len < maxLen; len++) {
		size_t hi = texts.size();
		for (size_t i = lo; i < hi; i++) for (char c : ta) texts.push_back(texts[i] + c);
		lo = hi;
	}
	for (auto& p : pats)
		for (auto& t : texts)
			Run("M " + Enc(p) + " " + Enc(t) + " s");
}

static void GenMatchRandom(Rng& r, int n)
{
	for (int i = 0; i < n; i++) {
		std::string req = kRequired[r.below(kRequiredN)];
		if (r.below(4) == 0) req = FlipCase(r, req);
		std::string pat;
		if (r.below(4) == 0) {
			const char al[] = "ab/*?\\AB*";
			int len = (int)r.below(9);
			for (int j = 0; j < len; j++) pat += al[r.below(sizeof(al) - 1)];
			int tl = (int)r.below(9);
			req.clear();
			const char tal[] = "ab/AB*?";
			for (int j = 0; j < tl; j++) req += tal[r.below(sizeof(tal) - 1)];
		} else {
			pat = GenPattern(r, req);
			/* a second round of mutation makes multi-wildcard patterns */
			if (r.coin()) { std::string p2 = GenPattern(r, pat); if (p2.find(' ') == std::string::npos) pat = p2; }
		}
		Run("M " + Enc(pat) + " " + Enc(req) + (r.coin() ? " s" : " d"));
	}
}

int main(int argc, char **argv)
{
	if (argc < 2) { fprintf(stderr, "usage: h_c18 gen|ops ...\n"); return 2; }
	InitIcinga();
	InitJoinTargets();
	ResetUser();
	InitHttp();
	InitActions();

	std::string mode = argv[1];
	if (mode == "gen") {
		uint64_t seed = strtoull(argOr(argc, argv, "--seed", "1"), nullptr, 10);
		bool thorough = std::string(argOr(argc, argv, "--tier", "quick")) == "thorough";
		Rng seeder(seed);
		Rng rng(seeder.next() ^ 0xC18);
		GenMatchExhaustive(thorough ? 4 : 3);
		GenMatchRandom(rng, thorough ? 200000 : 20000);
		int n = thorough ? 200000 : 20000;
		for (int i = 0; i < (thorough ? 20000 : 2000); i++) GenAuthCase(rng);
		for (int i = 0; i < n; i++) { if (rng.below(6) == 0) GenJoinCase(rng); else GenCase(rng); }
		/* round 4, a stream of its own (the cases above stay what they were for a given seed) */
		Rng apiRng(seeder.next() ^ 0xA91);
		for (int i = 0; i < (thorough ? 6000 : 500); i++) GenApiCase(apiRng);
	} else if (mode == "ops") {
		if (argc < 3) return 2;
		FILE *f = fopen(argv[2], "r");
		if (!f) { perror("open"); return 2; }
		char line[8192];
		while (fgets(line, sizeof line, f)) {
			std::string l = line;
			while (!l.empty() && (l.back() == '\n' || l.back() == '\r')) l.pop_back();
			Run(l);
		}
		fclose(f);
	} else
		return 2;
	Finish(0);
	return 0;
}

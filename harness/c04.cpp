/* C04 harness: a real, started CheckerComponent over real Host objects whose CheckCommand.execute is a native
 * Function (sleeps / returns / throws per seed).  Other threads pause/resume (SetAuthority), SetNextCheck,
 * SetForceNextCheck, activate and deactivate checkables at seeded moments, in real time.  The schedule points H3
 * (lib/base/verif-hooks.hpp, VERIF_POINT) log every lock-protected section of the checker in the order in which the
 * sections really ran, together with the membership of the checkable in m_IdleCheckables / m_PendingCheckables read
 * while the lock is still held, and inject seeded delays.  The harness's own monitor records start/end of every
 * command execution.  One scenario = one process (the checker, the thread pool and the pending-checks counter are
 * process-global); the parent only spawns scenarios and concatenates their output.
 *
 * Lines (operation ` | ` observation):
 *   C <k> arith                                          UpdateNextCheck arithmetic under the virtual clock
 *   U <now_us> <offset> <check_us> <retry_us> <soft>     | <next_check in ns>
 *   C <k> sched seed=<s> n=<n> pool=<p> max=<m> dur_ms=<d> mut=<t> bound_ms=<b> [script=wakeup]    one real-time scenario
 *         script=wakeup: scripted liveness probe (n=2, max=1, no mutator threads): while A's command runs A is paused (leaves
 *         the pending set) and B is made due; when A's helper finishes the freed slot must wake the scheduler for B at once
 *         (F-C04a); repeated 12 times, the driver takes the median of the delays.  script=wakeup_async: the same with A's command
 *         being asynchronous (PluginCheckTask-like): the slot is freed by the finished process, not by the helper (F-C04b)
 *         script=skip_pause: A has active checks disabled, so the scheduler skips it and calls UpdateNextCheck() with its mutex
 *         released (checkercomponent.cpp:178-196); an OnNextCheckChanged slot of the harness pauses A from inside that window (on the
 *         scheduler's thread).  A must stay out of both sets until it is resumed (10 repetitions)
 *         script=wakeup_resched: A is the front of the idle queue (due in 600 s), B sits behind it (700 s); B is rescheduled to "now"
 *         (SetNextCheck): the scheduler must wake up for the NEW front at once, not sleep on for the old one (12 repetitions, median)
 *         script=eligibility: host H (always DOWN, hard), service S of H, host D with a disable_checks dependency on a gate host; the
 *         global flags enable_host_checks / enable_service_checks, S's own flag and period and the gate are switched off and on again,
 *         forced checks in between: S must keep being executed while H is down; nothing eligible is skipped, nothing ineligible runs
 *         unless forced
 *         script=plugin: every check command is the real PluginCheckTask (methods/pluginchecktask.cpp) running real processes (/bin/sh -c
 *         "sleep ..; exit N") under max_concurrent_checks=2 with mutator threads: the task's own IncreasePendingChecks (:61) / the
 *         DecreasePendingChecks of ProcessFinishedHandler (:68) are the real ones; `pi` is logged after the real +1 and `pd` before the
 *         real -1, so the counter the driver derives from the trace is never above the real one
 *         script=passive_during_check (F-C04c, fixed by 1c45f06): while A's asynchronous command runs (held by a latch until the forced
 *         helper has come back), a passive result for A is processed and A is forced: the forced helper must find the guard busy; before
 *         the fix ProcessCheckResult reset m_CheckRunning for EVERY result and a second execution of A started
 *         script=api_force: host H, service S of H, host D behind a disable_checks dependency, all idle and due in 600 s.  For every reason
 *         for which the scheduler skips an unforced check (own flag off, period closed, global flag of the type off, dependency failed) a
 *         FORCED check is requested through a production entry point - the reschedule-check API action (ApiActions::RescheduleCheck,
 *         force=true) and the external commands SCHEDULE_FORCED_HOST_CHECK / SCHEDULE_FORCED_SVC_CHECK - and must be executed; the same
 *         request without force must be skipped; `E force` is logged when the request is made (the checkable cannot be taken before the
 *         entry point's own SetNextCheck, it is due in 600 s)
 *   K <cid> <enabled 0|1> <check_us> <retry_us> <async> <service> <foreign>  declaration (enabled = active checks on and period open at
 *                                                        the start; async = the command behaves like PluginCheckTask: spawns and returns;
 *                                                        service = a Service of one of the hosts; foreign = its zone is not the local zone)
 *   E pick <cid> <forced>   | <inIdle> <inPending> <key_us> <now_us> <counter> <own> <ghost> <gsvc> <period> <dep> <recent>   scheduler dispatched <cid>
 *   E skip <cid> 0          | <inIdle> <inPending> <key_us> <now_us> <counter> <own> <ghost> <gsvc> <period> <dep> <recent>   scheduler skipped <cid>
 *                              the five facts are the HARNESS's bookkeeping of what it configured (all of them written under the checker's
 *                              mutex): own enable_active_checks, global enable_host_checks, enable_service_checks, check period absent/open,
 *                              no failed disable_checks dependency (the gate host it depends on is UP); a trailing <recent> = 1 marks a decision
 *                              less than 3 ms after one of these facts was written (the eligibility clauses then accept the decision as taken)
 *   E fin <cid>             | <inIdle> <inPending> <key_us> <now_us>   ExecuteCheckHelper's final section
 *   E obj <cid>             | <inIdle> <inPending> <key_us> <now_us>   ObjectHandler section (not the early return)
 *   E nc <cid>              | <inIdle> <inPending> <key_us> <now_us>   NextCheckChangedHandler re-indexed
 *   E dec <cid>             | <next_us> <now_us>                  helper about to DecreasePendingChecks: ExecuteCheck() has returned; next_check as it stands now
 *   E gE|gB|gR <cid>                                              m_CheckRunning: set / found busy / reset
 *   E xs|xe <cid>           | <now_us>                            command started / finished (body returned or process exited)
 *   E as <cid>                                                    async command: process spawned (pluginchecktask.cpp:56)
 *   E pi <cid>                                                    … its own IncreasePendingChecks (:61)   } done under the checker's
 *   E pd <cid>                                                    process finished: DecreasePendingChecks (:68) } mutex: trace order = real order
 *   E ob|oe <cid> <kind> [<value_us>]                             harness operation begins / has returned
 *                              kinds: pause resume activate deactivate setnext notify (OnPausedChanged fired without a change)
 *   E force <cid>                                                 SetForceNextCheck(true) (under the checker's mutex)
 *   E pr <cid>                                                    a PASSIVE check result is about to be processed for <cid> (script=passive_during_check
 *                                                                 only; F-C04c): it must not be followed by a flag reset (gR) of its own
 *   W <cid>                 | <now_before_us> <now_after_us> <next_us> <interval_us>
 *   Q <cid>                 | <schedulable> <inIdle> <inPending> <key_us> <next_us>  at quiescence
 *   M max_parallel=<..> overlap=<..> execs=<..> async_execs=<..> overdue_max_us=<..> canary_max_us=<..> hang=<0|1>   harness monitor
 *
 * Modes:  gen --seed S --tier quick|thorough       ops FILE      scen <k> key=value...   (internal)
 */
#include "common.hpp"
#include "base/verif-hooks.hpp"
#include "base/function.hpp"
#include "base/scriptglobal.hpp"
#include "base/configuration.hpp"
#include "base/exception.hpp"
#include "checker/checkercomponent.hpp"
#include "icinga/checkcommand.hpp"
#include "icinga/timeperiod.hpp"
#include "icinga/service.hpp"
#include "icinga/dependency.hpp"
#include "remote/zone.hpp"
#include "methods/pluginchecktask.hpp"
#include "base/process.hpp"
#include "icinga/apiactions.hpp"
#include "icinga/externalcommandprocessor.hpp"
#include <atomic>
#include <chrono>
#include <cmath>
#include <map>
#include <mutex>
#include <thread>
#include <functional>
#include <unordered_map>
#include <sys/wait.h>
#include <sys/syscall.h>
#include <fstream>

using namespace icinga;
using namespace vh;

/* Private members of CheckerComponent, by NAME only (the explicit-instantiation idiom with an `auto` non-type parameter):
 * the harness does not spell the members' types, so a different but equivalent container / mutex type still compiles. */
namespace vh {
template<typename Tag, auto M>
struct RobAuto {
	friend auto get(Tag) { return M; }
};
struct C04IdleTag { friend auto get(C04IdleTag); };
struct C04PendTag { friend auto get(C04PendTag); };
struct C04MtxTag { friend auto get(C04MtxTag); };
template struct RobAuto<C04IdleTag, &CheckerComponent::m_IdleCheckables>;
template struct RobAuto<C04PendTag, &CheckerComponent::m_PendingCheckables>;
template struct RobAuto<C04MtxTag, &CheckerComponent::m_Mutex>;
VH_ROB_STATIC(C04RobFinished, void (*type)(const Checkable::Ptr&, const CheckResult::Ptr&, const Value&, const ProcessResult&),
	PluginCheckTask, ProcessFinishedHandler)
}

/* Membership / key of a checkable in one of the checker's sets: a plain scan over whatever the container iterates, looking only at
 * the entries' `Object` and `NextCheck` (no assumption about index kinds, their order, or the iteration order). */
template<typename Set>
static bool FindIn(Set& set, const Checkable *obj, double *key)
{
	for (const auto& e : set) {
		if (e.Object.get() == obj) {
			if (key)
				*key = e.NextCheck;
			return true;
		}
	}
	return false;
}

static long long Us(double t) { return llround(t * 1e6); }

/* ------------------------------------------------------------------------------------------- */
/* UpdateNextCheck arithmetic (virtual clock) */

static Host::Ptr l_ArithHost;

static void ArithLine(long long nowUs, long off, long long checkUs, long long retryUs, int soft)
{
	if (!l_ArithHost) {
		l_ArithHost = new Host();
		l_ArithHost->SetName("arith");
	}
	Host::Ptr h = l_ArithHost;
	h->SetCheckInterval(checkUs / 1e6);
	h->SetRetryInterval(retryUs / 1e6);
	h->SetSchedulingOffset(off);
	if (soft) {
		h->SetStateType(StateTypeSoft);
		h->SetLastCheckResult(MakeCr(ServiceCritical, 1, 1));
	} else {
		h->SetStateType(StateTypeHard);
		h->SetLastCheckResult(nullptr);
	}
	SetNow(nowUs / 1e6);
	h->UpdateNextCheck();
	double next = h->GetNextCheck();
	SetNow(-1);
	printf("U %lld %ld %lld %lld %d | %lld\n", nowUs, off, checkUs, retryUs, soft, (long long)llround(next * 1e9));
}

/* now and intervals are multiples of 1/64 s so that now*100+offset and interval*100 are exact in binary64 (fmod is
 * exact); the remaining roundings (/100.0, +, -) are far below the comparison tolerance of the driver. */
static void GenArith(Rng& rng, int count)
{
	for (int i = 0; i < count; i++) {
		long long now64;
		switch (rng.below(4)) {
			case 0: now64 = (long long)rng.below(64 * 100); break;
			case 1: now64 = (long long)rng.below(64LL * 100000); break;
			default: now64 = 64LL * 1700000000 + (long long)rng.below(64LL * 50000000); break;
		}
		long long iv64, rv64;
		auto pickIv = [&]() -> long long {
			switch (rng.below(6)) {
				case 0: return 1 + (long long)rng.below(64);            /* <= 1 s: no adjustment */
				case 1: return 64;                                      /* exactly 1 s */
				case 2: return 65 + (long long)rng.below(64);           /* just above 1 s */
				case 3: return 64LL * (1 + (long long)rng.below(600));  /* whole seconds */
				case 4: return 64LL * 60 * (1 + (long long)rng.below(120));
				default: return 1 + (long long)rng.below(64LL * 4000);
			}
		};
		iv64 = pickIv();
		rv64 = pickIv();
		long off;
		switch (rng.below(4)) {
			case 0: off = 0; break;
			case 1: off = (long)rng.below(100); break;
			case 2: off = (long)rng.below(100000); break;
			default: off = (long)rng.below(0x7fffffff); break; /* Utility::Random() range */
		}
		ArithLine(now64 * 15625, off, iv64 * 15625, rv64 * 15625, (int)rng.below(3) == 0);
	}
}

/* ------------------------------------------------------------------------------------------- */
/* scenario process */

enum Kind : uint8_t { kPick, kSkip, kFin, kObj, kNc, kDec, kGE, kGB, kGR, kXs, kXe, kOb, kOe, kForce, kWin, kAs, kPi, kPd, kPr };
static const char *l_KindName[] = { "pick", "skip", "fin", "obj", "nc", "dec", "gE", "gB", "gR", "xs", "xe", "ob", "oe", "force", "W", "as", "pi", "pd", "pr" };
enum OpKind : uint8_t { oPause, oResume, oActivate, oDeactivate, oSetNext, oNotify };
static const char *l_OpName[] = { "pause", "resume", "activate", "deactivate", "setnext", "notify" };

struct Rec {
	uint8_t kind;
	uint8_t a;          /* forced (pick) / op kind (ob, oe) */
	bool inIdle, inPending;
	int cid;
	int counter;
	long long key, now; /* W: key = now_before, now = now_after */
	long long x, y;     /* W: next, interval; setnext: value */
	uint8_t facts;      /* pick/skip: own | ghost<<1 | gsvc<<2 | period<<3 | dep<<4 (harness bookkeeping) */
};

struct CInfo {
	Checkable::Ptr obj;
	bool enabled;
	long long checkUs, retryUs;
	int mode;           /* 0 ok, 1 alternating ok/critical, 2 throws sometimes, 3 always critical */
	bool async{false};  /* command spawns a "process" (own thread) and returns, like PluginCheckTask */
	std::atomic<bool> hold{false}; /* async command: the "process" does not finish before the script releases it (no wall-clock premise) */
	bool plugin{false}; /* the command is the REAL PluginCheckTask::ScriptFunc running a real process (script=plugin) */
	bool svc{false};    /* a Service (of host `hostCid`) */
	bool foreign{false};/* zone != local zone: never this node's to schedule (checkercomponent.cpp:320-321,326) */
	int gate{-1};       /* depends (disable_checks) on this gate host */
	std::atomic<bool> own{true};  /* enable_active_checks as the harness set it */
	std::atomic<int> period{0};   /* check_period as the harness set it: 0 none, 1 "open", 2 "closed" */
	std::atomic<long long> lastToggleUs{0}; /* when own / period were last written */
	double execMeanUs;
	long long fixedExecUs{-1}; /* scripted scenarios: exactly this long */
	/* harness view, guarded by mut */
	std::mutex mut;
	bool activated{false}, deactivated{false}, paused{true};
	std::atomic<int> running{0};
	std::atomic<unsigned> epoch{0};
	std::atomic<unsigned> execNo{0};
};

struct Gate { Host::Ptr obj; std::atomic<bool> up{true}; std::atomic<long long> lastToggleUs{0}; };
static std::atomic<long long> l_LastGlobalToggleUs{0};
static std::vector<Gate*> l_Gates;
static std::atomic<bool> l_GHost{true}, l_GSvc{true};
static std::vector<Rec> l_Trace;
static std::mutex l_TraceMutex;
static std::vector<CInfo*> l_C;
static std::unordered_map<const void*, int> l_Ids;
static CheckerComponent::Ptr l_Checker;
static uint64_t l_Seed;
static std::atomic<long> l_Picks{0}, l_Finishes{0}, l_Execs{0}, l_AsyncLive{0}, l_AsyncExecs{0};
static std::atomic<int> l_Parallel{0}, l_MaxParallel{0}, l_Overlap{0};
static std::atomic<bool> l_Stop{false};
static std::atomic<long> l_SchedTid{0};
static std::atomic<long long> l_LastSchedUs{0};
static std::atomic<int> l_PauseInSkip{-1}; /* probe skip_pause: pause this checkable when the scheduler thread changes its next_check */
static std::atomic<int> l_DelayPermille{60};

static thread_local Rng *t_Rng = nullptr;
static std::atomic<uint64_t> l_ThreadNo{0};

static Rng& TRng()
{
	if (!t_Rng)
		t_Rng = new Rng(l_Seed * 0x9e3779b97f4a7c15ULL + 77 * (++l_ThreadNo));
	return *t_Rng;
}

static void Append(const Rec& r)
{
	std::unique_lock<std::mutex> lock(l_TraceMutex);
	l_Trace.push_back(r);
}

static void MaybeDelay()
{
	Rng& rng = TRng();
	if ((int)rng.below(1000) < l_DelayPermille.load(std::memory_order_relaxed)) {
		if (rng.below(3) == 0)
			std::this_thread::yield();
		else
			std::this_thread::sleep_for(std::chrono::microseconds(20 + rng.below(400)));
	}
}

/* called by VERIF_POINT on the thread that runs the section, with the section's locks held */
static void Hook(const char *name, const void *obj)
{
	auto it = l_Ids.find(obj);
	if (it == l_Ids.end())
		return;
	int cid = it->second;
	Rec r{};
	r.cid = cid;
	bool sets = false;

	/* exact names only: a point this harness does not know (added later, renamed) is not an event of the trace */
	bool onSched = !strncmp(name, "sched.", 6);
	if (onSched) {
		if (!l_SchedTid.load(std::memory_order_relaxed))
			l_SchedTid = (long)syscall(SYS_gettid);
		l_LastSchedUs.store(Us(Utility::GetTime()), std::memory_order_relaxed);
	}
	if (!strcmp(name, "sched.pick")) { r.kind = kPick; r.a = 0; sets = true; }
	else if (!strcmp(name, "sched.pick.forced")) { r.kind = kPick; r.a = 1; sets = true; }
	else if (!strcmp(name, "sched.skip")) { r.kind = kSkip; sets = true; }
	else if (!strcmp(name, "sched.dispatch") || !strcmp(name, "helper.start")) { MaybeDelay(); return; } /* outside the lock: delay only */
	else if (!strcmp(name, "helper.finish")) { r.kind = kFin; sets = true; }
	else if (!strcmp(name, "helper.dec")) {
		/* ExecuteCheck() has returned (result delivered, process spawned, or guard found busy): where does next_check stand now? */
		r.kind = kDec;
		r.x = Us(l_C[cid]->obj->GetNextCheck());
		r.now = Us(Utility::GetTime());
	}
	else if (!strcmp(name, "object.done")) { r.kind = kObj; sets = true; }
	else if (!strcmp(name, "nextcheck.reindex")) { r.kind = kNc; sets = true; }
	else if (!strcmp(name, "guard.enter")) r.kind = kGE;
	else if (!strcmp(name, "guard.busy")) r.kind = kGB;
	else if (!strcmp(name, "guard.reset")) r.kind = kGR;
	else return;

	if (sets) {
		/* m_Mutex is held by this thread */
		CheckerComponent *cc = l_Checker.get();
		auto& idle = cc->*get(C04IdleTag());
		auto& pend = cc->*get(C04PendTag());
		double k = 0;
		r.inIdle = FindIn(idle, l_C[cid]->obj.get(), &k);
		r.key = r.inIdle ? Us(k) : 0;
		r.inPending = FindIn(pend, l_C[cid]->obj.get(), nullptr);
		r.now = Us(Utility::GetTime());
		if (r.kind == kPick || r.kind == kSkip) {
			/* what the guard set may read, as the harness configured it (every write of these happens under m_Mutex, which this
			 * thread holds since before it read them) */
			CInfo& ci = *l_C[cid];
			r.facts = (ci.own.load() ? 1 : 0) | (l_GHost.load() ? 2 : 0) | (l_GSvc.load() ? 4 : 0) | (ci.period.load() != 2 ? 8 : 0)
				| ((ci.gate < 0 || l_Gates[ci.gate]->up.load()) ? 16 : 0);
			/* bit 5: one of these facts was written less than 3 ms ago.  The writes and this read are ordered by m_Mutex, so on the code as
			 * it is the facts are exact; the mark keeps a rewrite that reads a flag a moment earlier (before taking the lock) or later
			 * from being blamed for a toggle that fell in between: the specification then takes the decision as it is */
			long long lastTg = std::max(ci.lastToggleUs.load(), l_LastGlobalToggleUs.load());
			if (ci.gate >= 0)
				lastTg = std::max(lastTg, l_Gates[ci.gate]->lastToggleUs.load());
			if (r.now - lastTg < 3000)
				r.facts |= 32;
			r.counter = Checkable::GetPendingChecks();
			if (r.kind == kPick)
				l_Picks++;
		}
		if (r.kind == kFin)
			l_Finishes++;
	}
	Append(r);
	MaybeDelay();
}

static void Window(const Checkable::Ptr& checkable, int cid, double nb, double na, unsigned ep0);

/* hand the result to ProcessCheckResult and measure where next_check ends up */
static void Deliver(const Checkable::Ptr& checkable, const CheckResult::Ptr& cr, int cid, int state, unsigned ep0)
{
	CInfo& ci = *l_C[cid];
	cr->SetState((ServiceState)state);
	cr->SetOutput("x");
	double nb = Utility::GetTime();
	cr->SetExecutionEnd(nb);
	cr->SetScheduleEnd(nb);
	auto res = checkable->ProcessCheckResult(cr);
	double na = Utility::GetTime();
	/* a checkable that was deactivated meanwhile is not rescheduled (checkable-check.cpp:159-160 returns CheckableInactive):
	 * not "an active checkable this node is responsible for"; deactivation is final, so active now = active all the time */
	if (res != Checkable::ProcessingResult::Ok || !checkable->IsActive())
		return;
	Window(checkable, cid, nb, na, ep0);
}

static void Window(const Checkable::Ptr& checkable, int cid, double nb, double na, unsigned ep0)
{
	CInfo& ci = *l_C[cid];
	double next = checkable->GetNextCheck();
	double iv = (checkable->GetStateType() == StateTypeSoft && checkable->GetLastCheckResult() != nullptr)
		? checkable->GetRetryInterval() : checkable->GetCheckInterval();
	unsigned ep1 = ci.epoch.load();
	if (ep0 == ep1 && !(ep0 & 1)) { /* nobody else rescheduled this checkable meanwhile */
		Rec r{}; r.kind = kWin; r.cid = cid; r.key = Us(nb); r.now = Us(na); r.x = Us(next); r.y = Us(iv);
		Append(r);
	}
}

/* CheckCommand.execute */
static void ExecFn(const Checkable::Ptr& checkable, const CheckResult::Ptr& cr, const Dictionary::Ptr& resolvedMacros, bool useResolvedMacros)
{
	auto it = l_Ids.find((const void *)checkable.get());
	if (it == l_Ids.end())
		return;
	int cid = it->second;
	CInfo& ci = *l_C[cid];
	Rng& rng = TRng();
	unsigned no = ci.execNo++;
	unsigned ep0 = ci.epoch.load();

	if (ci.running.fetch_add(1) != 0)
		l_Overlap++;
	int par = ++l_Parallel;
	int mp = l_MaxParallel.load();
	while (par > mp && !l_MaxParallel.compare_exchange_weak(mp, par)) { }
	l_Execs++;
	{ Rec r{}; r.kind = kXs; r.cid = cid; r.now = Us(Utility::GetTime()); Append(r); }

	/* how long the check runs: exponential-ish around the mean, sometimes 0, sometimes long */
	double us = ci.execMeanUs * (0.1 + (rng.below(1000) / 1000.0) * 1.8);
	int k = (int)rng.below(20);
	if (k == 0) us = 0;
	else if (k == 1) us *= 5;
	if (ci.fixedExecUs >= 0) us = (double)ci.fixedExecUs;
	bool doThrow = (!ci.async && ci.mode == 2 && rng.below(3) == 0);
	int state = 0;
	if (ci.mode == 1) state = (no / 2) % 2 ? 2 : 0;
	else if (ci.mode == 3) state = 2;
	else if (ci.mode == 2) state = (int)rng.below(4);

	if (ci.plugin) {
		/* the real thing: PluginCheckTask::ScriptFunc spawns the process (pluginchecktask.cpp:56-57) and takes its own unit (:59-62);
		 * ProcessFinishedHandler gives it back (:67-68) and processes the result.  The completion callback is the documented hook
		 * (:48-49, thread_local, copied by ScriptFunc), which logs and then runs the real handler. */
		{ Rec r{}; r.kind = kAs; r.cid = cid; Append(r); }
		l_AsyncLive++;
		l_AsyncExecs++;
		Checkable::ExecuteCommandProcessFinishedHandler = [checkable, cr, cid, ep0](const Value& commandLine, const ProcessResult& pr) {
			CInfo& ci = *l_C[cid];
			{ Rec r{}; r.kind = kXe; r.cid = cid; r.now = Us(Utility::GetTime()); Append(r); }
			--l_Parallel;
			ci.running.fetch_sub(1);
			{ Rec r{}; r.kind = kPd; r.cid = cid; Append(r); } /* before the real -1 */
			double nb = Utility::GetTime();
			get(C04RobFinished())(checkable, cr, commandLine, pr);
			double na = Utility::GetTime();
			if (checkable->IsActive() && checkable->GetLastCheckResult() == cr)
				Window(checkable, cid, nb, na, ep0);
			l_AsyncLive--;
		};
		try {
			PluginCheckTask::ScriptFunc(checkable, cr, resolvedMacros, useResolvedMacros);
		} catch (...) {
			Checkable::ExecuteCommandProcessFinishedHandler = nullptr;
			throw;
		}
		Checkable::ExecuteCommandProcessFinishedHandler = nullptr;
		{ Rec r{}; r.kind = kPi; r.cid = cid; Append(r); } /* after the real +1 */
		return;
	}

	if (ci.async) {
		/* PluginCheckTask::ScriptFunc: spawn (the callback may run at any time from now on), then the task's own +1 */
		{ Rec r{}; r.kind = kAs; r.cid = cid; Append(r); }
		l_AsyncLive++;
		l_AsyncExecs++;
		long long sleepUs = (long long)us;
		std::thread([checkable, cr, cid, sleepUs, state, ep0]() {
			CInfo& ci = *l_C[cid];
			if (sleepUs >= 1)
				std::this_thread::sleep_for(std::chrono::microseconds(sleepUs));
			for (int i = 0; i < 30000 && ci.hold.load(); i++)
				std::this_thread::sleep_for(std::chrono::milliseconds(1));
			{ Rec r{}; r.kind = kXe; r.cid = cid; r.now = Us(Utility::GetTime()); Append(r); }
			--l_Parallel;
			ci.running.fetch_sub(1);
			{
				/* PluginCheckTask::ProcessFinishedHandler: give the unit back first; under the checker's mutex so that the
				 * trace order is the order in which the scheduler saw the counter */
				auto& cmtx = l_Checker.get()->*get(C04MtxTag()); std::unique_lock<std::remove_reference_t<decltype(cmtx)>> lock(cmtx);
				Rec r{}; r.kind = kPd; r.cid = cid; Append(r);
				Checkable::DecreasePendingChecks();
			}
			MaybeDelay();
			Deliver(checkable, cr, cid, state, ep0);
			l_AsyncLive--;
		}).detach();
		MaybeDelay();
		{
			auto& cmtx = l_Checker.get()->*get(C04MtxTag()); std::unique_lock<std::remove_reference_t<decltype(cmtx)>> lock(cmtx);
			Checkable::IncreasePendingChecks();
			Rec r{}; r.kind = kPi; r.cid = cid; Append(r);
		}
		return;
	}

	if (us >= 1)
		std::this_thread::sleep_for(std::chrono::microseconds((long long)us));

	{ Rec r{}; r.kind = kXe; r.cid = cid; r.now = Us(Utility::GetTime()); Append(r); }
	--l_Parallel;
	ci.running.fetch_sub(1);

	if (doThrow)
		BOOST_THROW_EXCEPTION(std::runtime_error("seeded failure of the check command"));

	Deliver(checkable, cr, cid, state, ep0);
}

static void LogOp(Kind k, int cid, OpKind op, long long value = 0)
{
	Rec r{}; r.kind = k; r.cid = cid; r.a = op; r.x = value; Append(r);
}

/* the operations fired from the mutator threads; ci.mut is held (at most one in flight per checkable) */
static void OpPause(int cid) { CInfo& ci = *l_C[cid]; LogOp(kOb, cid, oPause); ci.obj->SetAuthority(false); ci.paused = true; LogOp(kOe, cid, oPause); }
static void OpResume(int cid) { CInfo& ci = *l_C[cid]; LogOp(kOb, cid, oResume); ci.obj->SetAuthority(true); ci.paused = false; LogOp(kOe, cid, oResume); }
static void OpActivate(int cid)
{
	CInfo& ci = *l_C[cid];
	LogOp(kOb, cid, oActivate);
	ci.obj->PreActivate();
	ci.obj->Activate(true);
	ci.activated = true;
	LogOp(kOe, cid, oActivate);
}
static void OpDeactivate(int cid)
{
	CInfo& ci = *l_C[cid];
	LogOp(kOb, cid, oDeactivate);
	ci.obj->Deactivate(true);
	ci.deactivated = true;
	ci.paused = true;
	LogOp(kOe, cid, oDeactivate);
}
/* the handler may be called at any time (two racing authority changes end like this): fire OnPausedChanged as is */
static void OpNotify(int cid)
{
	CInfo& ci = *l_C[cid];
	LogOp(kOb, cid, oNotify);
	static_pointer_cast<ConfigObject>(ci.obj)->NotifyPaused(Empty);
	LogOp(kOe, cid, oNotify);
}
static void OpSetNext(int cid, double v)
{
	CInfo& ci = *l_C[cid];
	ci.epoch++;
	LogOp(kOb, cid, oSetNext, Us(v));
	ci.obj->SetNextCheck(v);
	LogOp(kOe, cid, oSetNext, Us(v));
	ci.epoch++;
}
static void OpForce(int cid)
{
	CInfo& ci = *l_C[cid];
	/* the scheduler reads force_next_check inside its critical section: write and log under the same mutex so that
	 * the trace order is the real order (the attribute has no handler in the checker, so nothing re-enters) */
	auto& cmtx = l_Checker.get()->*get(C04MtxTag()); std::unique_lock<std::remove_reference_t<decltype(cmtx)>> lock(cmtx);
	ci.obj->SetForceNextCheck(true);
	Rec r{}; r.kind = kForce; r.cid = cid; Append(r);
}

/* the inputs of the scheduler's guard set: written (attribute and harness bookkeeping together) under the checker's mutex, so that the
 * scheduler's section that reads them sees exactly what the bookkeeping says (none of the attributes has a handler inside the checker) */
template<typename F>
static void UnderCheckerMutex(F f)
{
	auto& cmtx = l_Checker.get()->*get(C04MtxTag()); std::unique_lock<std::remove_reference_t<decltype(cmtx)>> lock(cmtx);
	f();
}
static void OpSetOwn(int cid, bool b)
{
	CInfo& ci = *l_C[cid];
	UnderCheckerMutex([&]() { ci.obj->SetEnableActiveChecks(b); ci.own = b; ci.lastToggleUs = Us(Utility::GetTime()); });
}
static void OpSetPeriod(int cid, int p)
{
	CInfo& ci = *l_C[cid];
	UnderCheckerMutex([&]() { ci.obj->SetCheckPeriodRaw(p == 0 ? "" : p == 1 ? "open" : "closed"); ci.period = p; ci.lastToggleUs = Us(Utility::GetTime()); });
}
static void OpSetGlobal(bool svc, bool b)
{
	UnderCheckerMutex([&]() {
		if (svc) { IcingaApplication::GetInstance()->SetEnableServiceChecks(b); l_GSvc = b; }
		else { IcingaApplication::GetInstance()->SetEnableHostChecks(b); l_GHost = b; }
		l_LastGlobalToggleUs = Us(Utility::GetTime());
	});
}
static void OpSetGate(int g, bool up)
{
	UnderCheckerMutex([&]() { l_Gates[g]->obj->SetStateRaw(up ? ServiceOK : ServiceCritical); l_Gates[g]->up = up; l_Gates[g]->lastToggleUs = Us(Utility::GetTime()); });
}

static void Mutator(int idx, int initial)
{
	Rng rng(l_Seed * 1315423911ULL + 1000 + idx);
	int n = (int)l_C.size();
	while (!l_Stop.load()) {
		int cid = (int)rng.below(n);
		/* now and then aim at a checkable whose command is executing right now */
		if (rng.below(4) == 0) {
			for (int t = 0; t < n; t++) {
				int c2 = (cid + t) % n;
				if (l_C[c2]->running.load() > 0) { cid = c2; break; }
			}
		}
		CInfo& ci = *l_C[cid];
		std::unique_lock<std::mutex> lock(ci.mut, std::try_to_lock);
		if (lock.owns_lock()) {
			double now = Utility::GetTime();
			if (!ci.activated) {
				if (cid >= initial && rng.below(3) == 0) {
					OpActivate(cid);
					if (rng.below(4) != 0) OpResume(cid);
				}
			} else if (!ci.deactivated && rng.below(10) == 0) {
				/* the inputs of the guard set change at run time */
				int k = (int)rng.below(12);
				if ((!ci.own.load() || ci.period.load() == 2) && rng.below(2) == 0) { OpSetOwn(cid, true); OpSetPeriod(cid, (int)rng.below(2)); }
				else if (!l_GHost.load() && rng.below(2) == 0) OpSetGlobal(false, true);
				else if (!l_GSvc.load() && rng.below(2) == 0) OpSetGlobal(true, true);
				else if (k < 4) OpSetOwn(cid, !ci.own.load() || rng.below(3) == 0);
				else if (k < 7) OpSetPeriod(cid, ci.period.load() == 2 ? (int)rng.below(2) : (int)rng.below(3));
				else if (k < 8) OpSetGlobal(false, !l_GHost.load());
				else if (k < 9) OpSetGlobal(true, !l_GSvc.load());
				else if (!l_Gates.empty()) { int g = (int)rng.below(l_Gates.size()); OpSetGate(g, !l_Gates[g]->up.load() || rng.below(3) == 0); }
			} else if (!ci.deactivated) {
				int k = (int)rng.below(100);
				if (k < 22) { if (ci.paused) OpResume(cid); else OpPause(cid); }
				else if (k < 30) { /* bounce: drop it from the schedule and put it back at once, due now */
					if (!ci.paused) { OpPause(cid); OpResume(cid); OpSetNext(cid, now); }
					else OpResume(cid);
				}
				else if (k < 55) {
					double v;
					switch (rng.below(5)) {
						case 0: v = now; break;
						case 1: v = now - 1 - rng.below(100) / 10.0; break;
						case 2: v = now + rng.below(50) / 1000.0; break;
						case 3: v = now + ci.checkUs / 1e6; break;
						default: v = now + rng.below(3000) / 1000.0; break;
					}
					OpSetNext(cid, v);
				}
				else if (k < 80) { OpForce(cid); if (rng.below(4) != 0) OpSetNext(cid, now); }
				else if (k < 83 && cid >= initial / 2 && rng.below(1 + 400 / n) == 0) OpDeactivate(cid);
				else if (k < 90) { OpSetNext(cid, now); OpSetNext(cid, now + 0.01); }
				else if (k < 96) OpNotify(cid);
				else { if (ci.paused) OpResume(cid); }
			}
		}
		if (lock.owns_lock())
			lock.unlock();
		int pause = (int)rng.below(3000);
		if (pause > 200)
			std::this_thread::sleep_for(std::chrono::microseconds(pause));
	}
}

static std::map<std::string, std::string> ParseKv(const std::vector<std::string>& w, size_t from)
{
	std::map<std::string, std::string> kv;
	for (size_t i = from; i < w.size(); i++) {
		auto p = w[i].find('=');
		if (p != std::string::npos)
			kv[w[i].substr(0, p)] = w[i].substr(p + 1);
	}
	return kv;
}

static void PrintTrace(FILE *out)
{
	for (const Rec& r : l_Trace) {
		const char *k = l_KindName[r.kind];
		switch (r.kind) {
			case kPick: fprintf(out, "E pick %d %d | %d %d %lld %lld %d %d %d %d %d %d %d\n", r.cid, (int)r.a, r.inIdle, r.inPending, r.key, r.now, r.counter,
				r.facts & 1, (r.facts >> 1) & 1, (r.facts >> 2) & 1, (r.facts >> 3) & 1, (r.facts >> 4) & 1, (r.facts >> 5) & 1); break;
			case kSkip: fprintf(out, "E skip %d 0 | %d %d %lld %lld %d %d %d %d %d %d %d\n", r.cid, r.inIdle, r.inPending, r.key, r.now, r.counter,
				r.facts & 1, (r.facts >> 1) & 1, (r.facts >> 2) & 1, (r.facts >> 3) & 1, (r.facts >> 4) & 1, (r.facts >> 5) & 1); break;
			case kFin: case kObj: case kNc: fprintf(out, "E %s %d | %d %d %lld %lld\n", k, r.cid, r.inIdle, r.inPending, r.key, r.now); break;
			case kDec: fprintf(out, "E dec %d | %lld %lld\n", r.cid, r.x, r.now); break;
			case kGE: case kGB: case kGR: case kForce: case kAs: case kPi: case kPd: case kPr: fprintf(out, "E %s %d\n", k, r.cid); break;
			case kXs: case kXe: fprintf(out, "E %s %d | %lld\n", k, r.cid, r.now); break;
			case kOb: case kOe:
				if (r.a == oSetNext) fprintf(out, "E %s %d %s %lld\n", k, r.cid, l_OpName[r.a], r.x);
				else fprintf(out, "E %s %d %s\n", k, r.cid, l_OpName[r.a]);
				break;
			case kWin: fprintf(out, "W %d | %lld %lld %lld %lld\n", r.cid, r.key, r.now, r.x, r.y); break;
		}
	}
}

static int RunScenario(const std::vector<std::string>& w)
{
	/* w: C <k> sched key=value... */
	auto kv = ParseKv(w, 3);
	l_Seed = strtoull(kv["seed"].c_str(), nullptr, 10);
	int n = atoi(kv["n"].c_str()), pool = atoi(kv["pool"].c_str()), maxc = atoi(kv["max"].c_str());
	int durMs = atoi(kv["dur_ms"].c_str()), mut = atoi(kv["mut"].c_str());
	if (n < 1 || n > 2000 || pool < 0 || pool > 2000 || maxc < 1 || durMs < 100 || mut < 0 || mut > 16) {
		printf("%s %s sched BAD\n", w[0].c_str(), w[1].c_str());
		return 0;
	}
	Rng rng(l_Seed);
	bool wakeupAsync = kv.count("script") && kv["script"] == "wakeup_async";
	bool wakeup = wakeupAsync || (kv.count("script") && kv["script"] == "wakeup");
	bool skipPause = kv.count("script") && kv["script"] == "skip_pause";
	bool wakeResched = kv.count("script") && kv["script"] == "wakeup_resched";
	bool eligScript = kv.count("script") && kv["script"] == "eligibility";
	if (wakeup) { n = 2; pool = 0; maxc = 1; mut = 0; }
	if (skipPause) { n = 2; pool = 0; maxc = 2; mut = 0; }
	if (wakeResched) { n = 2; pool = 0; maxc = 4; mut = 0; }
	if (eligScript) { n = 3; pool = 0; maxc = 4; mut = 0; }
	bool pluginScript = kv.count("script") && kv["script"] == "plugin";
	if (pluginScript) {
		n = 8; pool = 2; maxc = 2;
		Process::InitializeSpawnHelper(); /* must be forked before any thread exists (daemoncommand.cpp:538) */
	}
	bool passiveScript = kv.count("script") && kv["script"] == "passive_during_check";
	if (passiveScript) { n = 2; pool = 0; maxc = 4; mut = 0; }
	bool apiForce = kv.count("script") && kv["script"] == "api_force";
	if (apiForce) { n = 3; pool = 0; maxc = 4; mut = 0; }
	bool scripted = wakeup || skipPause || wakeResched || eligScript || passiveScript || apiForce;

	Configuration::Concurrency = 12; /* thread pool = 24 threads */
	InitIcinga();
	Application::GetTP().Restart();
	ScriptGlobal::Set("MaxConcurrentChecks", maxc);
	l_Trace.reserve(1 << 20);

	CheckCommand::Ptr cmd = new CheckCommand();
	cmd->SetName("vcmd");
	cmd->SetExecute(new Function("vexec", ExecFn, { "checkable", "cr", "resolvedMacros", "useResolvedMacros" }));
	cmd->Register();

	if (pluginScript) {
		static const char *lines[] = { "sleep 0.01; exit 0", "sleep 0.03; exit 2", "exit 1", "sleep 0.002; exit 0" };
		for (int k = 0; k < 4; k++) {
			CheckCommand::Ptr pc = new CheckCommand();
			pc->SetName("pcmd" + Convert::ToString(k));
			pc->SetExecute(new Function("vexec", ExecFn, { "checkable", "cr", "resolvedMacros", "useResolvedMacros" }));
			pc->SetCommandLine(new Array({ "/bin/sh", "-c", lines[k] }));
			pc->SetTimeout(30);
			pc->Register();
		}
	}

	auto mkPeriod = [](const char *name, bool open) {
		TimePeriod::Ptr tp = new TimePeriod();
		tp->SetName(name);
		tp->SetValidBegin(0);
		tp->SetValidEnd(4e9);
		Array::Ptr segs = new Array();
		if (open)
			segs->Add(new Dictionary({ { "begin", 0 }, { "end", 4e9 } }));
		tp->SetSegments(segs);
		tp->Register();
	};
	mkPeriod("open", true);
	mkPeriod("closed", false);

	/* a zone that is not the local one (there is no local endpoint, so Zone::GetLocalZone() is null): checkables in it are not this
	 * node's to schedule */
	{
		Zone::Ptr z = new Zone();
		z->SetName("foreign");
		z->Register();
	}
	/* gate hosts: parents of explicit `disable_checks` dependencies; never scheduled themselves, their state is set by the harness */
	int ngates = scripted ? ((eligScript || apiForce) ? 1 : 0) : 2;
	for (int g = 0; g < ngates; g++) {
		Gate *gt = new Gate();
		gt->obj = new Host();
		gt->obj->SetName("gate" + Convert::ToString(g));
		gt->obj->SetLastCheckResult(MakeCr(ServiceOK, 1, 1));
		gt->obj->SetStateType(StateTypeHard);
		gt->obj->SetStateRaw(ServiceOK);
		gt->obj->Register();
		l_Gates.push_back(gt);
	}

	/* checkables: n initially active ones + `pool` that are created at run time */
	int total = n + pool;
	double demand = 0;
	int style = (int)rng.below(3); /* 0 fast, 1 mixed, 2 some above 1 s */
	for (int i = 0; i < total; i++) {
		CInfo *ci = new CInfo();
		/* one in three is a Service of an earlier host (the host is a checkable of the scenario like any other: it goes DOWN, is
		 * paused, deactivated …); in the eligibility probe checkable 1 is a service of host 0 */
		int hostCid = -1;
		if ((!scripted && i > 0 && rng.below(3) == 0) || ((eligScript || apiForce) && i == 1)) {
			for (int j = (eligScript || apiForce) ? 0 : (int)rng.below(i), t = 0; t < i; t++, j = (j + 1) % i)
				if (!l_C[j]->svc) { hostCid = j; break; }
		}
		Checkable::Ptr h;
		if (hostCid >= 0) {
			Service::Ptr sv = new Service();
			sv->SetHostName(l_C[hostCid]->obj->GetName());
			sv->SetShortName("s" + Convert::ToString(i));
			sv->SetName(l_C[hostCid]->obj->GetName() + "!s" + Convert::ToString(i));
			h = sv;
			ci->svc = true;
		} else {
			Host::Ptr ho = new Host();
			ho->SetName("h" + Convert::ToString(i));
			h = ho;
		}
		if (!scripted && rng.below(12) == 0) {
			h->SetZoneName("foreign");
			ci->foreign = true;
		}
		h->SetCheckCommandRaw("vcmd");
		long long ivUs;
		int r = (int)rng.below(10);
		if (style == 0) ivUs = 30000 + (long long)rng.below(170000);
		else if (style == 1) ivUs = r < 7 ? 50000 + (long long)rng.below(450000) : 500000 + (long long)rng.below(500000);
		else ivUs = r < 6 ? 100000 + (long long)rng.below(900000) : 1015625 + 15625 * (long long)rng.below(128);
		if (total > 100) ivUs = ivUs * 3 + 200000;
		long long rvUs = rng.below(3) == 0 ? ivUs : std::max(20000LL, ivUs / (2 + (long long)rng.below(3)));
		h->SetCheckInterval(ivUs / 1e6);
		h->SetRetryInterval(rvUs / 1e6);
		h->SetMaxCheckAttempts(1 + (int)rng.below(3));
		int dis = (int)rng.below(10);
		bool enabled = true;
		if (dis == 0) { h->SetEnableActiveChecks(false); enabled = false; ci->own = false; }
		else if (dis == 1) { h->SetCheckPeriodRaw("closed"); enabled = false; ci->period = 2; }
		else if (dis == 2) { h->SetCheckPeriodRaw("open"); ci->period = 1; }
		if ((!scripted && rng.below(6) == 0) || ((eligScript || apiForce) && i == 2)) {
			/* explicit dependency with disable_checks on a gate host (registered with the child's dependency groups by Checkable::Start) */
			ci->gate = (int)rng.below(l_Gates.size());
			Dependency::Ptr dep = new Dependency();
			dep->SetName(h->GetName() + "!dep");
			dep->SetParent(l_Gates[ci->gate]->obj);
			dep->SetChild(h);
			dep->SetStateFilter(StateFilterUp);
			dep->SetDisableChecks(true);
			dep->SetRedundancyGroup("");
			h->AddDependency(dep);
			l_Gates[ci->gate]->obj->AddReverseDependency(dep);
		}
		ci->obj = h;
		ci->enabled = enabled;
		ci->checkUs = ivUs;
		ci->retryUs = rvUs;
		ci->mode = (int)rng.below(4);
		ci->async = rng.below(3) == 0 && !getenv("C04_NOASYNC");
		if (pluginScript) {
			ci->plugin = true;
			ci->async = false;
			h->SetCheckCommandRaw("pcmd" + Convert::ToString((int)rng.below(4)));
		}
		if (enabled)
			demand += 1e6 / (double)std::min(ivUs, rvUs);
		h->Register();
		static_pointer_cast<ConfigObject>(h)->OnAllConfigLoaded();
		l_C.push_back(ci);
		l_Ids[(const void *)h.get()] = i;
	}
	/* keep the offered load below ~40 % of max_concurrent_checks so that lateness means something */
	double meanUs = 0.4 * maxc / std::max(demand, 1.0) * 1e6;
	meanUs = std::min(20000.0, std::max(150.0, meanUs));
	for (CInfo *ci : l_C)
		ci->execMeanUs = meanUs * (0.3 + rng.below(1400) / 1000.0);
	if (skipPause) {
		for (CInfo *ci : l_C) {
			ci->async = false; ci->mode = 0; ci->enabled = true; ci->own = true; ci->period = 0;
			ci->obj->SetEnableActiveChecks(true); ci->obj->SetCheckPeriodRaw("");
			ci->obj->SetCheckInterval(30); ci->obj->SetRetryInterval(30); ci->checkUs = ci->retryUs = 30000000;
			ci->fixedExecUs = 1000;
		}
		l_C[0]->obj->SetEnableActiveChecks(false); /* A is skipped whenever it comes due */
		l_C[0]->enabled = false;
		l_C[0]->own = false;
	}
	if (wakeResched || eligScript || passiveScript || apiForce) {
		for (CInfo *ci : l_C) {
			ci->async = false; ci->mode = 0; ci->enabled = true; ci->own = true; ci->period = 0;
			ci->obj->SetEnableActiveChecks(true); ci->obj->SetCheckPeriodRaw("");
			double iv = eligScript ? 0.05 : 30;
			ci->obj->SetCheckInterval(iv); ci->obj->SetRetryInterval(iv); ci->checkUs = ci->retryUs = (long long)(iv * 1e6);
			ci->obj->SetMaxCheckAttempts(1);
			ci->fixedExecUs = 1000;
		}
		if (eligScript)
			l_C[0]->mode = 3; /* the host is DOWN (hard after the first result) all the time */
		if (passiveScript) {
			l_C[0]->async = true;
			l_C[0]->fixedExecUs = 5000;
		}
	}
	if (wakeup) {
		for (CInfo *ci : l_C) {
			ci->async = false; ci->mode = 0; ci->enabled = true; ci->own = true; ci->period = 0;
			ci->obj->SetEnableActiveChecks(true); ci->obj->SetCheckPeriodRaw("");
			ci->obj->SetCheckInterval(30); ci->obj->SetRetryInterval(30); ci->checkUs = ci->retryUs = 30000000;
		}
		l_C[0]->fixedExecUs = 80000;
		l_C[1]->fixedExecUs = 1000;
		l_C[0]->async = wakeupAsync; /* A's command is a plugin process: its slot is given back by ProcessFinishedHandler */
	}

	printf("%s %s sched seed=%llu n=%d pool=%d max=%d dur_ms=%d mut=%d bound_ms=%s%s\n", w[0].c_str(), w[1].c_str(),
		(unsigned long long)l_Seed, n, pool, maxc, durMs, mut, kv["bound_ms"].c_str(), wakeupAsync ? " script=wakeup_async" : wakeup ? " script=wakeup" : skipPause ? " script=skip_pause"
			: wakeResched ? " script=wakeup_resched" : eligScript ? " script=eligibility" : pluginScript ? " script=plugin" : passiveScript ? " script=passive_during_check" : apiForce ? " script=api_force" : "");
	for (int i = 0; i < total; i++)
		printf("K %d %d %lld %lld %d %d %d\n", i, l_C[i]->enabled ? 1 : 0, l_C[i]->checkUs, l_C[i]->retryUs, (l_C[i]->async || l_C[i]->plugin) ? 1 : 0,
			l_C[i]->svc ? 1 : 0, l_C[i]->foreign ? 1 : 0);

	l_DelayPermille = 20 + (int)rng.below(120);
	VerifPointHook() = Hook;
	/* probe skip_pause: runs inside Checkable::SetNextCheck, i.e. for the scheduler's skip path inside the window in which it has
	 * released its mutex; connected before the checker connects its own handler */
	Checkable::OnNextCheckChanged.connect([](const Checkable::Ptr& checkable, const Value&) {
		int armed = l_PauseInSkip.load();
		if (armed < 0 || checkable.get() != static_cast<Checkable *>(l_C[armed]->obj.get()))
			return;
		if ((long)syscall(SYS_gettid) != l_SchedTid.load())
			return;
		CInfo& ci = *l_C[armed];
		std::unique_lock<std::mutex> lock(ci.mut);
		if (!ci.paused)
			OpPause(armed);
		l_PauseInSkip = -1;
	});

	l_Checker = new CheckerComponent();
	l_Checker->SetName("checker");
	l_Checker->Register();
	static_pointer_cast<ConfigObject>(l_Checker)->OnConfigLoaded();
	l_Checker->PreActivate();
	l_Checker->Activate();

	std::atomic<bool> hang{false};
	auto t0 = std::chrono::steady_clock::now();
	std::atomic<bool> done{false};
	std::atomic<long long> canaryMax{0};
	std::thread canary([&]() {
		while (!done.load()) {
			auto a = std::chrono::steady_clock::now();
			std::this_thread::sleep_for(std::chrono::milliseconds(10));
			long long over = std::chrono::duration_cast<std::chrono::microseconds>(std::chrono::steady_clock::now() - a).count() - 10000;
			if (over > canaryMax.load()) canaryMax = over;
			if (std::chrono::steady_clock::now() - t0 > std::chrono::milliseconds(durMs + 45000)) {
				/* watchdog: something is stuck; report what we have */
				fprintf(stdout, "M hang=1\n");
				fflush(stdout);
				_exit(3);
			}
		}
	});

	std::thread sampler;
	if (getenv("C04_DEBUG"))
		sampler = std::thread([&]() {
			auto slurp = [](const std::string& path) { std::ifstream f(path); std::string x((std::istreambuf_iterator<char>(f)), std::istreambuf_iterator<char>()); return x; };
			while (!done.load()) {
				std::this_thread::sleep_for(std::chrono::milliseconds(40));
				long tid = l_SchedTid.load();
				long long nowUs = Us(Utility::GetTime());
				if (!tid || nowUs - l_LastSchedUs.load() < 250000)
					continue;
				bool due = false;
				int cnt = Checkable::GetPendingChecks();
				{
					auto& cmtx = l_Checker.get()->*get(C04MtxTag()); std::unique_lock<std::remove_reference_t<decltype(cmtx)>> lock(cmtx);
					auto& idle = l_Checker.get()->*get(C04IdleTag());
					for (const auto& csi : idle)
						if (Us(csi.NextCheck) < nowUs - 250000) { due = true; break; }
				}
				if (!due || cnt >= maxc)
					continue;
				std::string base = "/proc/self/task/" + std::to_string(tid) + "/";
				std::string st = slurp(base + "stat");
				fprintf(stderr, "STALL since_sched_us=%lld cnt=%d stat=[%.120s] wchan=[%s] syscall=[%s] stack=[%s]\n", nowUs - l_LastSchedUs.load(), cnt,
					st.c_str(), slurp(base + "wchan").c_str(), slurp(base + "syscall").c_str(), slurp(base + "stack").c_str());
			}
		});

	/* more canaries: a stall of the machine shows up as oversleep of at least one of them */
	std::vector<std::thread> canaries;
	for (int i = 0; i < 3; i++)
		canaries.emplace_back([&]() {
			while (!done.load()) {
				auto a = std::chrono::steady_clock::now();
				std::this_thread::sleep_for(std::chrono::milliseconds(7));
				long long over = std::chrono::duration_cast<std::chrono::microseconds>(std::chrono::steady_clock::now() - a).count() - 7000;
				long long cur = canaryMax.load();
				while (over > cur && !canaryMax.compare_exchange_weak(cur, over)) { }
			}
		});

	/* initial activation from the main thread (config load), resumed like ApiListener::UpdateObjectAuthority does */
	for (int i = 0; i < n; i++) {
		std::unique_lock<std::mutex> lock(l_C[i]->mut);
		OpActivate(i);
		if (rng.below(8) != 0)
			OpResume(i);
	}

	std::vector<std::thread> threads;
	for (int i = 0; i < mut; i++)
		threads.emplace_back(Mutator, i, n);
	if (apiForce) {
		l_DelayPermille = 0;
		auto waitFor5 = [](std::function<bool()> cond, int ms) {
			for (int i = 0; i < ms * 2 && !cond(); i++)
				std::this_thread::sleep_for(std::chrono::microseconds(500));
			return cond();
		};
		auto ms = [](int k) { std::this_thread::sleep_for(std::chrono::milliseconds(k)); };
		for (int i = 0; i < 3; i++) { std::unique_lock<std::mutex> l(l_C[i]->mut); if (l_C[i]->paused) OpResume(i); }
		ms(30);
		/* a request through a production entry point: entry 0 = reschedule-check API action, 1 = external command, 2 = the API action
		 * without next_check (defaults to now) */
		auto request = [&](int cid, bool force, int entry) {
			CInfo& ci = *l_C[cid];
			std::unique_lock<std::mutex> l(ci.mut);
			double now = Utility::GetTime();
			if (force) {
				/* the request is made now; the checkable is idle under a key 600 s ahead, so the scheduler cannot take it before the
				 * entry point's own SetNextCheck (which follows its SetForceNextCheck) */
				auto& cmtx = l_Checker.get()->*get(C04MtxTag()); std::unique_lock<std::remove_reference_t<decltype(cmtx)>> lock(cmtx);
				Rec r{}; r.kind = kForce; r.cid = cid; Append(r);
			}
			ci.epoch++;
			LogOp(kOb, cid, oSetNext, Us(now));
			if (entry == 1 && force) {
				if (ci.svc) {
					Service::Ptr sv = static_pointer_cast<Service>(ci.obj);
					ExternalCommandProcessor::Execute(now, "SCHEDULE_FORCED_SVC_CHECK", { sv->GetHostName(), sv->GetShortName(), Convert::ToString((long)now) });
				} else
					ExternalCommandProcessor::Execute(now, "SCHEDULE_FORCED_HOST_CHECK", { ci.obj->GetName(), Convert::ToString((long)now) });
			} else {
				Dictionary::Ptr params = new Dictionary();
				params->Set("force", force);
				if (entry != 2)
					params->Set("next_check", now);
				ApiActions::RescheduleCheck(ci.obj, params);
			}
			LogOp(kOe, cid, oSetNext, Us(now));
			ci.epoch++;
		};
		auto park = [&](int cid) { std::unique_lock<std::mutex> l(l_C[cid]->mut); OpSetNext(cid, Utility::GetTime() + 600); };
		/* reasons: 0 own flag off, 1 period closed, 2 global flag of the type off, 3 dependency failed (D only) */
		auto setReason = [&](int cid, int reason, bool on) {
			std::unique_lock<std::mutex> l(l_C[cid]->mut);
			switch (reason) {
				case 0: OpSetOwn(cid, !on); break;
				case 1: OpSetPeriod(cid, on ? 2 : 0); break;
				case 2: OpSetGlobal(l_C[cid]->svc, !on); break;
				default: OpSetGate(0, !on); break;
			}
		};
		static const int combos[][2] = { {1, 1}, {0, 1}, {1, 0}, {1, 2}, {0, 2}, {2, 3}, {2, 0}, {2, 1} };
		int rot = (int)rng.below(3);
		for (int round = 0; round < 2; round++)
		for (size_t k = 0; k < sizeof(combos) / sizeof(combos[0]); k++) {
			int cid = combos[k][0], reason = combos[k][1];
			CInfo& ci = *l_C[cid];
			waitFor5([&]() { return Checkable::GetPendingChecks() == 0; }, 3000);
			for (int i = 0; i < 3; i++) park(i);
			setReason(cid, reason, true);
			ms(12);
			/* unforced: the scheduler takes it and must skip it (it re-arms it one interval ahead) */
			long picks0 = l_Picks.load();
			unsigned ex0 = ci.execNo.load();
			request(cid, false, 0);
			ms(25);
			park(cid);
			ms(8);
			/* forced: must be executed whatever the reason */
			ex0 = ci.execNo.load();
			request(cid, true, (int)((k + round + rot) % 3));
			waitFor5([&]() { return ci.execNo.load() > ex0; }, 1500);
			ms(10);
			setReason(cid, reason, false);
			ms(12);
			/* eligible again and unforced: runs */
			park(cid);
			ex0 = ci.execNo.load();
			request(cid, false, (int)((k + round) % 2) * 2);
			waitFor5([&]() { return ci.execNo.load() > ex0; }, 1500);
			(void)picks0;
		}
	} else if (wakeResched) {
		l_DelayPermille = 0;
		auto waitFor3 = [](std::function<bool()> cond, int ms) {
			for (int i = 0; i < ms * 2 && !cond(); i++)
				std::this_thread::sleep_for(std::chrono::microseconds(500));
			return cond();
		};
		CInfo& A = *l_C[0];
		CInfo& B = *l_C[1];
		{ std::unique_lock<std::mutex> la(A.mut); if (A.paused) OpResume(0); }
		{ std::unique_lock<std::mutex> lb(B.mut); if (B.paused) OpResume(1); }
		std::this_thread::sleep_for(std::chrono::milliseconds(30));
		int unanswered = 0;
		for (int rep = 0; rep < 12; rep++) {
			waitFor3([&]() { return Checkable::GetPendingChecks() == 0; }, 8000);
			/* A is the front of the idle queue, B sits behind it; the scheduler sleeps until A's time */
			{ std::unique_lock<std::mutex> la(A.mut); OpSetNext(0, Utility::GetTime() + 600); }
			{ std::unique_lock<std::mutex> lb(B.mut); OpSetNext(1, Utility::GetTime() + 700); }
			std::this_thread::sleep_for(std::chrono::milliseconds(25));
			unsigned bBefore = B.execNo.load();
			/* B becomes the new front and is due: the scheduler must not sleep on for the old front */
			{ std::unique_lock<std::mutex> lb(B.mut); OpSetNext(1, Utility::GetTime()); }
			/* no wall-clock margin: nothing else happens until B has been taken, however long that takes on a loaded machine (8 s is four
			 * orders of magnitude above the normal 0.1 ms); two unanswered reschedules end the probe */
			if (!waitFor3([&]() { return B.execNo.load() > bBefore; }, 8000) && ++unanswered >= 2)
				break;
		}
	} else if (passiveScript) {
		l_DelayPermille = 0;
		auto waitFor4 = [](std::function<bool()> cond, int ms) {
			for (int i = 0; i < ms * 2 && !cond(); i++)
				std::this_thread::sleep_for(std::chrono::microseconds(500));
			return cond();
		};
		CInfo& A = *l_C[0];
		{ std::unique_lock<std::mutex> la(A.mut); if (A.paused) OpResume(0); }
		{ std::unique_lock<std::mutex> lb(l_C[1]->mut); OpSetNext(1, Utility::GetTime() + 900); } /* B stays out of the way */
		for (int rep = 0; rep < 6; rep++) {
			waitFor4([&]() { return Checkable::GetPendingChecks() == 0 && A.running.load() == 0 && l_AsyncLive.load() == 0; }, 10000);
			{ std::unique_lock<std::mutex> la(A.mut); OpSetNext(0, Utility::GetTime() + 600); }
			std::this_thread::sleep_for(std::chrono::milliseconds(20));
			long picks0 = l_Picks.load();
			A.hold = true; /* A's "process" keeps running until the script releases it: no premise about durations */
			{ std::unique_lock<std::mutex> la(A.mut); OpSetNext(0, Utility::GetTime()); }
			if (!waitFor4([&]() { return A.running.load() > 0 && l_Finishes.load() >= picks0 + 1; }, 10000)) {
				A.hold = false;
				continue;
			}
			{
				/* a passive result (as the process-check-result API action builds it) while the active check is running */
				std::unique_lock<std::mutex> la(A.mut);
				A.epoch++;
				{ Rec r{}; r.kind = kPr; r.cid = 0; Append(r); }
				CheckResult::Ptr pcr = new CheckResult();
				double t = Utility::GetTime();
				pcr->SetState(ServiceOK);
				pcr->SetOutput("passive");
				pcr->SetActive(false);
				pcr->SetExecutionStart(t); pcr->SetExecutionEnd(t); pcr->SetScheduleStart(t); pcr->SetScheduleEnd(t);
				A.obj->ProcessCheckResult(pcr);
				A.epoch++;
				OpForce(0);
				OpSetNext(0, Utility::GetTime());
			}
			/* the forced check is dispatched and its helper has come back (guard busy), or — before fix 1c45f06 — has started a second
			 * execution; only then may the first one finish */
			waitFor4([&]() { return l_Picks.load() >= picks0 + 2 && l_Finishes.load() >= picks0 + 2; }, 10000);
			A.hold = false;
			waitFor4([&]() { return A.running.load() == 0 && l_AsyncLive.load() == 0; }, 10000);
		}
		A.hold = false;
	} else if (eligScript) {
		l_DelayPermille = 0;
		auto ms = [](int k) { std::this_thread::sleep_for(std::chrono::milliseconds(k)); };
		for (int i = 0; i < 3; i++) { std::unique_lock<std::mutex> l(l_C[i]->mut); if (l_C[i]->paused) OpResume(i); OpSetNext(i, Utility::GetTime()); }
		ms(350);                                   /* H goes DOWN (hard); S and D keep being executed */
		OpSetGlobal(true, false); ms(150);         /* service checks off: S is skipped, H and D run */
		{ std::unique_lock<std::mutex> l(l_C[1]->mut); OpForce(1); OpSetNext(1, Utility::GetTime()); } ms(60);
		OpSetGlobal(true, true); ms(100);
		OpSetGlobal(false, false); ms(150);        /* host checks off: H and D are skipped, S runs */
		{ std::unique_lock<std::mutex> l(l_C[2]->mut); OpForce(2); OpSetNext(2, Utility::GetTime()); } ms(60);
		OpSetGlobal(false, true); ms(100);
		OpSetGate(0, false); ms(150);              /* D's disable_checks dependency fails: D is skipped */
		{ std::unique_lock<std::mutex> l(l_C[2]->mut); OpForce(2); OpSetNext(2, Utility::GetTime()); } ms(60);
		OpSetGate(0, true); ms(100);
		{ std::unique_lock<std::mutex> l(l_C[1]->mut); OpSetOwn(1, false); } ms(150);
		{ std::unique_lock<std::mutex> l(l_C[1]->mut); OpForce(1); OpSetNext(1, Utility::GetTime()); } ms(60);
		{ std::unique_lock<std::mutex> l(l_C[1]->mut); OpSetOwn(1, true); } ms(100);
		{ std::unique_lock<std::mutex> l(l_C[1]->mut); OpSetPeriod(1, 2); } ms(150);
		{ std::unique_lock<std::mutex> l(l_C[1]->mut); OpSetPeriod(1, 1); } ms(100);
		{ std::unique_lock<std::mutex> l(l_C[1]->mut); OpSetPeriod(1, 0); } ms(100);
	} else if (skipPause) {
		l_DelayPermille = 0;
		auto waitFor2 = [](std::function<bool()> cond, int ms) {
			for (int i = 0; i < ms * 2 && !cond(); i++)
				std::this_thread::sleep_for(std::chrono::microseconds(500));
			return cond();
		};
		CInfo& A = *l_C[0];
		CInfo& B = *l_C[1];
		{ std::unique_lock<std::mutex> la(A.mut); if (A.paused) OpResume(0); }
		{ std::unique_lock<std::mutex> lb(B.mut); if (B.paused) OpResume(1); }
		/* let the scheduler run once so that its thread is known (B executes) */
		{ std::unique_lock<std::mutex> lb(B.mut); OpSetNext(1, Utility::GetTime()); }
		waitFor2([&]() { return l_SchedTid.load() != 0 && B.execNo.load() > 0; }, 3000);
		for (int rep = 0; rep < 10; rep++) {
			{ std::unique_lock<std::mutex> la(A.mut); if (A.paused) OpResume(0); }
			std::this_thread::sleep_for(std::chrono::milliseconds(10));
			l_PauseInSkip = 0;
			{ std::unique_lock<std::mutex> la(A.mut); OpSetNext(0, Utility::GetTime()); } /* due: the scheduler takes A and skips it */
			waitFor2([&]() { return l_PauseInSkip.load() < 0; }, 2000);
			l_PauseInSkip = -1;
			/* A is paused now; give the scheduler time to finish its skip path, then look again through B's sections */
			std::this_thread::sleep_for(std::chrono::milliseconds(30));
			{ std::unique_lock<std::mutex> lb(B.mut); OpSetNext(1, Utility::GetTime()); }
			std::this_thread::sleep_for(std::chrono::milliseconds(20));
		}
		/* A stays paused: the quiescent snapshot must not find it in a set */
	} else if (wakeup) {
		l_DelayPermille = 0;
		auto waitFor = [](std::function<bool()> cond, int ms) {
			for (int i = 0; i < ms * 2 && !cond(); i++)
				std::this_thread::sleep_for(std::chrono::microseconds(500));
			return cond();
		};
		CInfo& A = *l_C[0];
		CInfo& B = *l_C[1];
		{ std::unique_lock<std::mutex> la(A.mut); if (A.paused) OpResume(0); }
		{ std::unique_lock<std::mutex> lb(B.mut); if (B.paused) OpResume(1); }
		std::this_thread::sleep_for(std::chrono::milliseconds(50));
		for (int rep = 0; rep < 12; rep++) {
			/* both idle and not due for a long time; nothing running */
			waitFor([&]() { return Checkable::GetPendingChecks() == 0; }, 3000);
			{ std::unique_lock<std::mutex> la(A.mut); OpSetNext(0, Utility::GetTime() + 600); }
			{ std::unique_lock<std::mutex> lb(B.mut); OpSetNext(1, Utility::GetTime() + 600); }
			std::this_thread::sleep_for(std::chrono::milliseconds(20));
			/* start A (80 ms) */
			{ std::unique_lock<std::mutex> la(A.mut); OpSetNext(0, Utility::GetTime()); }
			if (!waitFor([&]() { return A.running.load() > 0; }, 2000))
				continue;
			unsigned bBefore = B.execNo.load();
			/* A leaves the pending set while its command runs; B becomes due: the only slot is taken, the scheduler polls */
			{ std::unique_lock<std::mutex> la(A.mut); OpPause(0); }
			{ std::unique_lock<std::mutex> lb(B.mut); OpSetNext(1, Utility::GetTime()); }
			/* A's helper finishes ~75 ms from now; B must start right after */
			waitFor([&]() { return B.execNo.load() > bBefore; }, 3000);
			std::this_thread::sleep_for(std::chrono::milliseconds(30));
			{ std::unique_lock<std::mutex> la(A.mut); OpResume(0); }
		}
	} else
		std::this_thread::sleep_for(std::chrono::milliseconds(durMs));
	l_Stop = true;
	for (auto& t : threads)
		t.join();

	/* settle, then look how overdue the idle entries are (liveness, measured): everything that was due when the
	 * operations stopped must have been taken `bound` later (the scheduler sleeps up to 0.5 s when all slots are taken
	 * and the finishing helper's checkable is no longer pending, checkercomponent.cpp:121-129,263-270) */
	l_DelayPermille = 0;
	double tStop = Utility::GetTime();
	int boundMs = atoi(kv["bound_ms"].c_str());
	std::this_thread::sleep_for(std::chrono::milliseconds(boundMs + 300));
	long long overdueMax = 0;
	{
		auto& cmtx = l_Checker.get()->*get(C04MtxTag()); std::unique_lock<std::remove_reference_t<decltype(cmtx)>> lock(cmtx);
		auto& idle = l_Checker.get()->*get(C04IdleTag());
		double now = Utility::GetTime();
		for (const auto& csi : idle)
			overdueMax = std::max(overdueMax, Us(now - std::max(csi.NextCheck, tStop)));
	}

	/* stop the scheduler, let the dispatched helpers finish, then the quiescent snapshot */
	l_Checker->Deactivate();
	for (int i = 0; i < 4000 && (l_Finishes.load() < l_Picks.load() || l_AsyncLive.load() > 0); i++)
		std::this_thread::sleep_for(std::chrono::milliseconds(5));
	if (l_Finishes.load() < l_Picks.load() || l_AsyncLive.load() > 0)
		hang = true;
	std::this_thread::sleep_for(std::chrono::milliseconds(20));

	PrintTrace(stdout);
	{
		auto& cmtx = l_Checker.get()->*get(C04MtxTag()); std::unique_lock<std::remove_reference_t<decltype(cmtx)>> lock(cmtx);
		auto& idle = l_Checker.get()->*get(C04IdleTag());
		auto& pend = l_Checker.get()->*get(C04PendTag());
		for (int i = 0; i < total; i++) {
			Checkable::Ptr key(l_C[i]->obj);
			double k = 0;
			bool inIdle = FindIn(idle, key.get(), &k);
			bool sched = key->IsActive() && !key->IsPaused() && !l_C[i]->foreign;
			printf("Q %d | %d %d %d %lld %lld\n", i, sched ? 1 : 0, inIdle ? 1 : 0, FindIn(pend, key.get(), nullptr) ? 1 : 0,
				inIdle ? Us(k) : 0, Us(key->GetNextCheck()));
		}
	}
	done = true;
	canary.join();
	for (auto& t : canaries)
		t.join();
	if (sampler.joinable())
		sampler.join();
	printf("M max_parallel=%d overlap=%d execs=%ld async_execs=%ld overdue_max_us=%lld canary_max_us=%lld hang=%d counter_end=%d\n",
		l_MaxParallel.load(), l_Overlap.load(), l_Execs.load(), l_AsyncExecs.load(), overdueMax, canaryMax.load(), hang.load() ? 1 : 0,
		Checkable::GetPendingChecks());
	fflush(stdout);
	return 0;
}

/* ------------------------------------------------------------------------------------------- */
/* parent: spawn scenario processes, keep their output in case order */

static std::string l_Self;

struct Job { std::string line; std::string out; pid_t pid{-1}; };

static void RunJobs(std::vector<Job>& jobs, int parallel)
{
	size_t next = 0, finished = 0;
	int running = 0;
	while (finished < jobs.size()) {
		while (running < parallel && next < jobs.size()) {
			Job& j = jobs[next];
			char tmpl[] = "/tmp/vc04-XXXXXX";
			int fd = mkstemp(tmpl);
			j.out = tmpl;
			fflush(stdout);
			pid_t pid = fork();
			if (pid == 0) {
				dup2(fd, 1);
				close(fd);
				execl("/proc/self/exe", "h_c04", "scen", j.line.c_str(), (char *)nullptr);
				_exit(127);
			}
			close(fd);
			j.pid = pid;
			running++;
			next++;
		}
		int status = 0;
		pid_t p = wait(&status);
		if (p <= 0)
			break;
		running--;
		finished++;
	}
	for (Job& j : jobs) {
		FILE *f = fopen(j.out.c_str(), "r");
		bool any = false;
		if (f) {
			char buf[1 << 16];
			size_t k;
			while ((k = fread(buf, 1, sizeof(buf), f)) > 0) { fwrite(buf, 1, k, stdout); any = true; }
			fclose(f);
		}
		unlink(j.out.c_str());
		if (!any) {
			std::vector<std::string> w;
			std::istringstream is(j.line);
			std::string t;
			while (is >> t) w.push_back(t);
			printf("%s %s sched CRASHED %s\n", w[0].c_str(), w.size() > 1 ? w[1].c_str() : "0", j.line.c_str());
		}
	}
}

static std::vector<std::string> Words(const std::string& line)
{
	std::vector<std::string> w;
	std::istringstream is(line);
	std::string t;
	while (is >> t) {
		if (t == "|") break;
		w.push_back(t);
	}
	return w;
}

int main(int argc, char **argv)
{
	if (argc < 2) {
		fprintf(stderr, "usage: gen --seed S --tier T | ops FILE\n");
		return 2;
	}
	std::string mode = argv[1];

	if (mode == "scen" && argc >= 3) {
		RunScenario(Words(argv[2]));
		fflush(stdout);
		_exit(0);
	}

	if (mode == "gen") {
		uint64_t seed = strtoull(argOr(argc, argv, "--seed", "1"), nullptr, 10);
		bool thorough = !strcmp(argOr(argc, argv, "--tier", "quick"), "thorough");
		InitIcinga();
		Rng rng(seed);
		int caseNo = 1;
		printf("C %d arith\n", caseNo++);
		GenArith(rng, thorough ? 300000 : 40000);
		fflush(stdout);

		std::vector<Job> jobs;
		int count = thorough ? 24 : 15;
		static const int maxes[] = { 1, 2, 16, 1, 2, 16, 4, 1 };
		for (int i = 0; i < count; i++) {
			int maxc = maxes[(i + seed) % 8];
			int n, pool;
			if (thorough) {
				int sz = i % 4;
				n = sz == 0 ? 5 + (int)rng.below(20) : sz == 1 ? 40 + (int)rng.below(60) : 150 + (int)rng.below(150);
				pool = (int)rng.below(1 + n / 4);
			} else {
				int sz = i % 5;
				n = sz == 0 ? 5 + (int)rng.below(6) : sz == 1 ? 12 + (int)rng.below(30) : sz == 2 ? 40 + (int)rng.below(60)
					: sz == 3 ? 100 + (int)rng.below(100) : 200 + (int)rng.below(100);
				pool = (int)rng.below(1 + n / 4);
			}
			int dur = thorough ? 75000 : 5000;
			int mut = 1 + (int)rng.below(4);
			char buf[256];
			snprintf(buf, sizeof(buf), "C %d sched seed=%llu n=%d pool=%d max=%d dur_ms=%d mut=%d bound_ms=%d", caseNo++,
				(unsigned long long)(rng.next() >> 16), n, pool, maxc, dur, mut, 2500);
			Job j;
			j.line = buf;
			jobs.push_back(j);
		}
		for (int i = 0; i < (thorough ? 6 : 2); i++) {
			char buf[256];
			snprintf(buf, sizeof(buf), "C %d sched seed=%llu n=2 pool=0 max=1 dur_ms=3000 mut=0 bound_ms=2500 script=%s", caseNo++,
				(unsigned long long)(rng.next() >> 16), i % 2 ? "wakeup_async" : "wakeup");
			Job j;
			j.line = buf;
			jobs.push_back(j);
		}
		for (int i = 0; i < (thorough ? 2 : 1); i++) {
			char buf[256];
			snprintf(buf, sizeof(buf), "C %d sched seed=%llu n=2 pool=0 max=2 dur_ms=3000 mut=0 bound_ms=2500 script=skip_pause", caseNo++,
				(unsigned long long)(rng.next() >> 16));
			Job j;
			j.line = buf;
			jobs.push_back(j);
		}
		for (int i = 0; i < (thorough ? 4 : 2); i++) {
			char buf[256];
			snprintf(buf, sizeof(buf), "C %d sched seed=%llu n=%d pool=0 max=4 dur_ms=3000 mut=0 bound_ms=700 script=%s", caseNo++,
				(unsigned long long)(rng.next() >> 16), i % 2 ? 3 : 2, i % 2 ? "eligibility" : "wakeup_resched");
			Job j;
			j.line = buf;
			jobs.push_back(j);
		}
		for (int i = 0; i < (thorough ? 2 : 1); i++) {
			char buf[256];
			snprintf(buf, sizeof(buf), "C %d sched seed=%llu n=8 pool=2 max=2 dur_ms=2500 mut=2 bound_ms=2500 script=plugin", caseNo++,
				(unsigned long long)(rng.next() >> 16));
			Job j;
			j.line = buf;
			jobs.push_back(j);
		}
		{
			/* regression scenario of F-C04c (fixed by 1c45f06): a passive result during an active execution, then a forced check — no second
			 * execution may start */
			char buf[256];
			snprintf(buf, sizeof(buf), "C %d sched seed=%llu n=2 pool=0 max=4 dur_ms=3000 mut=0 bound_ms=300 script=passive_during_check", caseNo++,
				(unsigned long long)(rng.next() >> 16));
			Job j;
			j.line = buf;
			jobs.push_back(j);
		}
		for (int i = 0; i < (thorough ? 2 : 1); i++) {
			/* forced checks requested through the production entry points (API action, external commands) for every skip reason */
			char buf[256];
			snprintf(buf, sizeof(buf), "C %d sched seed=%llu n=3 pool=0 max=4 dur_ms=3000 mut=0 bound_ms=300 script=api_force", caseNo++,
				(unsigned long long)(rng.next() >> 16));
			Job j;
			j.line = buf;
			jobs.push_back(j);
		}
		RunJobs(jobs, thorough ? 6 : 5);
		fflush(stdout);
		_exit(0);
	}

	if (mode == "ops" && argc >= 3) {
		InitIcinga();
		FILE *f = fopen(argv[2], "r");
		if (!f) { perror("ops file"); return 2; }
		char buf[4096];
		while (fgets(buf, sizeof(buf), f)) {
			std::vector<std::string> w = Words(buf);
			if (w.empty()) continue;
			if (w[0] == "C" && w.size() >= 3 && w[2] == "arith") {
				printf("C %s arith\n", w[1].c_str());
			} else if (w[0] == "C" && w.size() >= 3 && w[2] == "sched") {
				std::string line;
				for (auto& t : w) line += (line.empty() ? "" : " ") + t;
				std::vector<Job> jobs(1);
				jobs[0].line = line;
				RunJobs(jobs, 1);
			} else if (w[0] == "U" && w.size() >= 6) {
				ArithLine(atoll(w[1].c_str()), atol(w[2].c_str()), atoll(w[3].c_str()), atoll(w[4].c_str()), atoi(w[5].c_str()));
			}
			/* every other line is an observation of a scenario: regenerated, not replayed */
		}
		fclose(f);
		fflush(stdout);
		_exit(0);
	}
	return 2;
}

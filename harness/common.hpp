/* Shared harness code: process initialisation, virtual clock, PRNG, private-member access.
 * Linked against the object files built from /repo's working tree with -DICINGA2_VERIF. */
#pragma once

#include "base/application.hpp"
#include "base/configtype.hpp"
#include "base/convert.hpp"
#include "base/logger.hpp"
#include "base/objectlock.hpp"
#include "base/timer.hpp"
#include "base/utility.hpp"
#include "base/json.hpp"
#include "base/serializer.hpp"
#include "icinga/icingaapplication.hpp"
#include "icinga/checkresult.hpp"
#include "icinga/host.hpp"
#include "icinga/service.hpp"
#include <cstdint>
#include <cstdio>
#include <cstdlib>
#include <cstring>
#include <iostream>
#include <sstream>
#include <string>
#include <vector>
#include <unistd.h>

#ifndef ICINGA2_VERIF
#error "harness must be compiled with -DICINGA2_VERIF (virtual clock / timer pump hooks)"
#endif

namespace vh {

using namespace icinga;

/* splitmix64: every random choice of a harness derives from one seed. */
struct Rng {
	uint64_t s;
	explicit Rng(uint64_t seed) : s(seed) { }
	uint64_t next() {
		uint64_t z = (s += 0x9e3779b97f4a7c15ULL);
		z = (z ^ (z >> 30)) * 0xbf58476d1ce4e5b9ULL;
		z = (z ^ (z >> 27)) * 0x94d049bb133111ebULL;
		return z ^ (z >> 31);
	}
	uint64_t below(uint64_t n) { return n ? next() % n : 0; }
	bool coin() { return next() & 1; }
	int range(int lo, int hi) { return lo + (int)below((uint64_t)(hi - lo + 1)); }
};

inline void InitIcinga()
{
	Application::InitializeBase();
	IcingaApplication::Ptr app = new IcingaApplication();
	static_pointer_cast<ConfigObject>(app)->OnConfigLoaded();
	Logger::DisableConsoleLog();
	Logger::DisableTimestamp();
}

inline void SetNow(double t) { Utility::VerifSetTime(t); }

inline CheckResult::Ptr MakeCr(ServiceState state, double execStart, double execEnd, bool active = true)
{
	CheckResult::Ptr cr = new CheckResult();
	cr->SetState(state);
	cr->SetScheduleStart(execStart);
	cr->SetScheduleEnd(execEnd);
	cr->SetExecutionStart(execStart);
	cr->SetExecutionEnd(execEnd);
	cr->SetActive(active);
	return cr;
}

/* Access to private members without touching the source: explicit template instantiation may name
 * private members (C++ [temp.explicit]/12). */
template<typename Tag, typename Tag::type M>
struct Rob {
	friend typename Tag::type get(Tag) { return M; }
};

#define VH_ROB_MEMBER(tag, cls, type_, member)                         \
	struct tag { typedef type_ cls::*type; friend type get(tag); };    \
	template struct ::vh::Rob<tag, &cls::member>;

#define VH_ROB_STATIC(tag, sig, cls, member)                           \
	struct tag { typedef sig; friend type get(tag); };                 \
	template struct ::vh::Rob<tag, &cls::member>;

inline const char *argOr(int argc, char **argv, const char *key, const char *dflt)
{
	for (int i = 1; i + 1 < argc; i++)
		if (!strcmp(argv[i], key))
			return argv[i + 1];
	return dflt;
}

inline bool hasFlag(int argc, char **argv, const char *key)
{
	for (int i = 1; i < argc; i++)
		if (!strcmp(argv[i], key))
			return true;
	return false;
}

} // namespace vh

/* C15 harness — config language: evaluation matches the reference, deterministic, never crashes.
 *
 * Lines written (one case per line; everything after " | " is the observation of the REAL compiler/evaluator):
 *   P <id> <ast tokens…> | min=<r> full=<r> again=<r> same=<r> lits=<text>:<bits>,…
 *        a generated AST, printed (a) with the minimal parentheses the GENERATED precedence table requires,
 *        (b) fully parenthesised, each compiled with ConfigCompiler::CompileText and evaluated in a fresh
 *        ScriptFrame; (c) the minimal text compiled and evaluated a second time (determinism); same = the compiled expression of
 *        (a) evaluated a SECOND time in a fresh frame (an Expression must not keep state between evaluations); lits = every
 *        distinct number/duration literal of the program with the binary64 the REAL lexer makes of it (recomputed on every run,
 *        also in ops mode: the bits on the operation line are informative only).
 *        r = v:<canonical value> | e:<kind>[:<hex message>] | syntax@L:C:<hex message> | crash:sig=N | timeout
 *   X <id> <hex program text> | ok | err:syntax@L:C | err:script | err:std | crash:sig=N | timeout
 *        hostile stream: mutated program texts and arbitrary byte strings; only "returns or throws" is required.
 * All evaluation happens in forked children, so that a crash of the evaluator is an observation, not a harness failure.
 *
 * Modes:  gen --seed S --tier quick|thorough      ops FILE
 * The precedence table comes from gen/c15_precedence.py (env VERIF_C15_PREC = path of the .tbl file).
 */
#include "common.hpp"
#include "base/array.hpp"
#include "base/dictionary.hpp"
#include "base/exception.hpp"
#include "base/function.hpp"
#include "base/namespace.hpp"
#include "base/scriptframe.hpp"
#include "base/scriptglobal.hpp"
#include "base/type.hpp"
#include "config/configcompiler.hpp"
#include "config/expression.hpp"
#include <cmath>
#include <fcntl.h>
#include <fstream>
#include <map>
#include <memory>
#include <signal.h>
#include <sys/mman.h>
#include <sys/resource.h>
#include <sys/wait.h>

using namespace icinga;

/* ------------------------------------------------------------------------------------------------ AST */
struct Node {
	std::string tag;              /* see Emit() for the vocabulary */
	std::string s;                /* name / operator / literal text */
	uint64_t bits = 0;            /* number literal: binary64 pattern */
	std::vector<std::string> names, uses;
	std::vector<Node> k;
};

static Node N0(const std::string& tag, const std::string& s = "") { Node n; n.tag = tag; n.s = s; return n; }
static Node N1(const std::string& tag, Node a, const std::string& s = "") { Node n = N0(tag, s); n.k.push_back(std::move(a)); return n; }
static Node N2(const std::string& tag, Node a, Node b, const std::string& s = "") { Node n = N0(tag, s); n.k.push_back(std::move(a)); n.k.push_back(std::move(b)); return n; }
static Node NL(const std::string& tag, std::vector<Node> ks, const std::string& s = "") { Node n = N0(tag, s); n.k = std::move(ks); return n; }

static std::string Hex(const std::string& s)
{
	static const char *d = "0123456789abcdef";
	std::string o;
	for (unsigned char c : s) { o += d[c >> 4]; o += d[c & 15]; }
	return o.empty() ? "-" : o;
}

static std::string UnHex(const std::string& h)
{
	std::string o;
	if (h == "-") return o;
	for (size_t i = 0; i + 1 < h.size(); i += 2)
		o += (char)strtol(h.substr(i, 2).c_str(), nullptr, 16);
	return o;
}

/* The value of a number literal (incl. durations) is an ORACLE INPUT: whatever the real lexer makes of the text (the property
 * does not define the intermediate arithmetic of `1.5h`); the model receives the binary64 pattern on the operation line. */
static double LiteralValue(const std::string& text);

static Node Num(const std::string& text)
{
	double v = LiteralValue(text);
	Node n = N0("n", text);
	memcpy(&n.bits, &v, 8);
	return n;
}

static const std::vector<std::pair<std::string, std::string>> g_OpNames = {
	{ "+", "add" }, { "-", "sub" }, { "*", "mul" }, { "/", "div" }, { "%", "mod" }, { "^", "xor" }, { "&", "band" }, { "|", "bor" },
	{ "<<", "shl" }, { ">>", "shr" }, { "==", "eq" }, { "!=", "ne" }, { "<", "lt" }, { ">", "gt" }, { "<=", "le" }, { ">=", "ge" },
	{ "=", "lit" }, { "+=", "add" }, { "-=", "sub" }, { "*=", "mul" }, { "/=", "div" }, { "%=", "mod" }, { "^=", "xor" }, { "&=", "band" }, { "|=", "bor" } };

static std::string OpName(const std::string& sym) { for (auto& p : g_OpNames) if (p.first == sym) return p.second; return "?"; }
static std::string OpSym(const std::string& name, bool set)
{
	for (auto& p : g_OpNames) if (p.second == name && ((p.first.back() == '=' && p.first != "==" && p.first != "!=" && p.first != "<=" && p.first != ">=") == set)) return p.first;
	return "?";
}

static void Emit(const Node& n, std::string& o)
{
	auto kids = [&]() { for (auto& c : n.k) Emit(c, o); };
	const std::string& t = n.tag;
	if (t == "n") { char b[40]; snprintf(b, sizeof b, "n %016llx %s ", (unsigned long long)n.bits, n.s.c_str()); o += b; }
	else if (t == "s") { o += "s " + Hex(n.s) + " "; }
	else if (t == "op" || t == "set") { o += t + " " + OpName(n.s) + " "; kids(); }
	else if (t == "||") { o += "lor "; kids(); }
	else if (t == "&&") { o += "land "; kids(); }
	else if (t == "v" || t == "dot" || t == "var") { o += t + " " + n.s + " "; kids(); }
	else if (t == "call" || t == "arr" || t == "dict" || t == "blk") {
		/* call: k[0] = callee, rest = args */
		o += t + " " + std::to_string(t == "call" ? n.k.size() - 1 : n.k.size()) + " "; kids();
	} else if (t == "for") { o += "for " + n.names[0] + " " + (n.names[1].empty() ? "-" : n.names[1]) + " "; kids(); }
	else if (t == "fn" || t == "fndecl") {
		o += t + " ";
		if (t == "fndecl") o += n.s + " ";
		o += std::to_string(n.names.size()) + " ";
		for (auto& p : n.names) o += p + " ";
		o += std::to_string(n.uses.size()) + " ";
		for (auto& p : n.uses) o += p + " ";
		kids();
	} else if (t == "if") { o += n.k.size() == 3 ? "ife " : "if "; kids(); }
	else if (t == "ifc") { /* if / else if … chain: s = "1" when a trailing else block is present */
		size_t nb = (n.k.size() - (n.s == "1" ? 1 : 0)) / 2;
		o += "ifc " + std::to_string(nb) + " " + (n.s == "1" ? "1" : "0") + " "; kids();
	}
	else { o += t + " "; kids(); }   /* null b0 b1 this locals globals ~ ! neg pos par && || in !in idx tern while ret brk cont throw try */
}

struct Tok { std::vector<std::string> t; size_t i = 0; bool bad = false;
	std::string next() { if (i >= t.size()) { bad = true; return ""; } return t[i++]; } };

static Node Parse(Tok& tk, int depth = 0)
{
	std::string t = tk.next();
	if (tk.bad || depth > 20000) { tk.bad = true; return N0("null"); }
	auto P = [&]() { return Parse(tk, depth + 1); };
	if (t == "n") {
		/* the bits on the line are NOT trusted (a corpus line may have been written by another build): the literal is lexed again */
		tk.next();
		std::string text = tk.next();
		bool ok = !text.empty() && isdigit((unsigned char)text[0]);
		for (char ch : text) if (!isalnum((unsigned char)ch) && ch != '.') ok = false;
		if (!ok) { tk.bad = true; return N0("null"); }
		return Num(text);
	}
	if (t == "s") return N0("s", UnHex(tk.next()));
	if (t == "v") return N0("v", tk.next());
	if (t == "op" || t == "set") { std::string s = OpSym(tk.next(), t == "set"); if (s == "?") tk.bad = true; Node a = P(); Node b = P(); return N2(t, a, b, s); }
	if (t == "lor" || t == "land") { Node a = P(); Node b = P(); return N2(t == "lor" ? "||" : "&&", a, b); }
	if (t == "dot" || t == "var") { std::string s = tk.next(); return N1(t, P(), s); }
	if (t == "call" || t == "arr" || t == "dict" || t == "blk") {
		size_t n = strtoul(tk.next().c_str(), nullptr, 10);
		Node r = N0(t);
		if (t == "call") r.k.push_back(P());
		for (size_t i = 0; i < n && !tk.bad; i++) r.k.push_back(P());
		return r;
	}
	if (t == "for") { Node r = N0("for"); r.names.push_back(tk.next()); std::string v = tk.next(); r.names.push_back(v == "-" ? "" : v); r.k.push_back(P()); r.k.push_back(P()); return r; }
	if (t == "fn" || t == "fndecl") {
		Node r = N0(t);
		if (t == "fndecl") r.s = tk.next();
		size_t np = strtoul(tk.next().c_str(), nullptr, 10);
		for (size_t i = 0; i < np && !tk.bad; i++) r.names.push_back(tk.next());
		size_t nu = strtoul(tk.next().c_str(), nullptr, 10);
		for (size_t i = 0; i < nu && !tk.bad; i++) r.uses.push_back(tk.next());
		r.k.push_back(P());
		return r;
	}
	if (t == "if") { Node c = P(); Node a = P(); return N2("if", c, a); }
	if (t == "ifc") {
		size_t nb = strtoul(tk.next().c_str(), nullptr, 10);
		std::string he = tk.next();
		Node r = N0("ifc", he == "1" ? "1" : "0");
		for (size_t i = 0; i < 2 * nb + (he == "1" ? 1 : 0) && !tk.bad; i++) r.k.push_back(P());
		if (nb == 0) tk.bad = true;
		return r;
	}
	if (t == "ife") { Node r = N0("if"); r.k.push_back(P()); r.k.push_back(P()); r.k.push_back(P()); return r; }
	if (t == "tern") { Node r = N0("tern"); r.k.push_back(P()); r.k.push_back(P()); r.k.push_back(P()); return r; }
	if (t == "~" || t == "!" || t == "neg" || t == "pos" || t == "par" || t == "ret" || t == "throw") return N1(t, P());
	if (t == "&&" || t == "||" || t == "in" || t == "!in" || t == "idx" || t == "while" || t == "try") { Node a = P(); Node b = P(); return N2(t, a, b); }
	if (t == "null" || t == "b0" || t == "b1" || t == "this" || t == "locals" || t == "globals" || t == "brk" || t == "cont") return N0(t);
	tk.bad = true;
	return N0("null");
}

/* ------------------------------------------------------------------------------------------------ precedence (generated) */
struct Prec {
	std::map<std::string, std::pair<int, char>> tok;   /* grammar token -> (level index, l/r/n) */
	std::map<std::string, std::string> lexToTok;       /* "+" -> T_PLUS (binary tokens) */
	int Level(const std::string& t) const { auto it = tok.find(t); return it == tok.end() ? -1 : it->second.first; }
	/* the DOCUMENTED table (doc/17-language-reference.md "Operators", read from the document by the translator on every run):
	 * operator text -> documented precedence (1 = binds tightest); 1 = postfix forms, 2 = prefix operators, 3..13 = binary operators */
	std::map<std::string, int> docBinary, docPrefix;
	int docPostfix = -1;
};
static Prec g_Prec;
/* true while a program is printed with the parentheses the DOCUMENTED table requires (third printing, observation `doc=`) */
static bool g_DocMode = false;
static int DocIndex(int documentedLevel) { return documentedLevel < 1 ? -1 : 100 - documentedLevel; }   /* larger = binds tighter, like the grammar's level index */
/* the document has no associativity column: binary operators associate to the left, relational and equality operators do not chain */
static char DocAssoc(const std::string& sym) { return (sym == "<" || sym == ">" || sym == "<=" || sym == ">=" || sym == "==" || sym == "!=") ? 'n' : 'l'; }
static FILE *g_Out = nullptr;   /* the protocol stream: flex's default rule ECHOes unmatched input to stdout */

static bool LoadPrec(const char *path)
{
	std::ifstream in(path);
	if (!in) return false;
	std::string line;
	int level = 0;
	std::map<std::string, std::string> lex;
	std::vector<std::string> binary;
	while (std::getline(in, line)) {
		std::istringstream is(line);
		std::string kind; is >> kind;
		if (kind == "level") {
			std::string assoc, t; is >> assoc;
			while (is >> t) g_Prec.tok[t] = { level, assoc[0] };
			level++;
		} else if (kind == "lex") { std::string a, b; is >> a >> b; lex[a] = b; }
		else if (kind == "binary") { std::string a, b; is >> a >> b; binary.push_back(a); }
		else if (kind == "doc") {
			int l = 0; std::string op; is >> l >> op;
			if (l == 1) g_Prec.docPostfix = 1;
			else if (l == 2) g_Prec.docPrefix[op] = l;
			else if (l >= 3 && l <= 13) g_Prec.docBinary[op] = l;
		}
	}
	for (auto& b : binary) if (lex.count(b)) g_Prec.lexToTok[lex[b]] = b;
	return level > 10 && g_Prec.lexToTok.size() >= 20 && g_Prec.docBinary.size() >= 20 && g_Prec.docPrefix.size() >= 4 && g_Prec.docPostfix == 1;
}

static const int ATOM = 1000;

static int NodeLevel(const Node& n)
{
	const std::string& t = n.tag;
	if (g_DocMode) {
		auto lookup = [](const std::map<std::string, int>& m, const std::string& k) { auto it = m.find(k); return it == m.end() ? -1 : DocIndex(it->second); };
		if (t == "op" || t == "&&" || t == "||" || t == "in" || t == "!in") return lookup(g_Prec.docBinary, t == "op" ? n.s : t);
		if (t == "!" || t == "~") return lookup(g_Prec.docPrefix, t);
		if (t == "neg") return lookup(g_Prec.docPrefix, "-");
		if (t == "pos") return lookup(g_Prec.docPrefix, "+");
		if (t == "idx" || t == "dot" || t == "call") return DocIndex(g_Prec.docPostfix);
	}
	if (t == "op" || t == "&&" || t == "||" || t == "in" || t == "!in") {
		auto it = g_Prec.lexToTok.find(t == "op" ? n.s : t);
		return it == g_Prec.lexToTok.end() ? -1 : g_Prec.Level(it->second);
	}
	if (t == "!" || t == "~") return g_Prec.Level("'" + t + "'");
	if (t == "neg") return g_Prec.Level("UNARY_MINUS");
	if (t == "pos") return g_Prec.Level("UNARY_PLUS");
	if (t == "idx" || t == "dot" || t == "call") return g_Prec.Level("'.'");
	if (t == "n" || t == "s" || t == "v" || t == "null" || t == "b0" || t == "b1" || t == "this" || t == "locals" || t == "globals" || t == "arr" || t == "par") return ATOM;
	return -1;   /* lambda, function literal, ternary, if, dict literal, assignments …: parenthesise whenever used as an operand */
}

static std::string StrLit(const std::string& s)
{
	std::string o = "\"";
	for (unsigned char c : s) {
		if (c == '"') o += "\\\"";
		else if (c == '\\') o += "\\\\";
		else if (c == '\n') o += "\\n";
		else if (c == '\t') o += "\\t";
		else if (c == '\r') o += "\\r";
		else o += (char)c;
	}
	return o + "\"";
}

struct Printer {
	bool full;
	std::string sep() const { return full ? "; " : "\n"; }

	std::string Operand(const Node& c, int parentLevel, bool needStrict)
	{
		/* needStrict: child at the same level must be parenthesised (wrong side of the associativity / nonassoc) */
		std::string s = Expr(c);
		if (c.tag == "par") return s;
		if (full) return NodeLevel(c) == ATOM && c.tag != "arr" ? s : "(" + s + ")";
		int l = NodeLevel(c);
		if (l < parentLevel || (l == parentLevel && needStrict)) return "(" + s + ")";
		return s;
	}

	std::string Stmts(const std::vector<Node>& ks)
	{
		std::string o;
		for (size_t i = 0; i < ks.size(); i++) { if (i) o += sep(); o += Stmt(ks[i]); }
		return o;
	}

	std::string Block(const Node& b) { return b.k.empty() ? "{ }" : "{ " + Stmts(b.k) + " }"; }

	std::string Params(const Node& n)
	{
		std::string o = "(";
		for (size_t i = 0; i < n.names.size(); i++) { if (i) o += ", "; o += n.names[i]; }
		o += ")";
		if (!n.uses.empty()) {
			o += " use(";
			for (size_t i = 0; i < n.uses.size(); i++) { if (i) o += ", "; o += n.uses[i]; }
			o += ")";
		}
		return o;
	}

	/* statement position: no parentheses needed around assignments etc. */
	std::string Stmt(const Node& n) { return Expr(n); }

	/* value position inside lists / right-hand sides: low-precedence forms are parenthesised */
	std::string Val(const Node& n)
	{
		std::string s = Expr(n);
		if (n.tag == "par") return s;
		if (full) return NodeLevel(n) == ATOM && n.tag != "arr" ? s : "(" + s + ")";
		return NodeLevel(n) < 0 ? "(" + s + ")" : s;
	}

	std::string Expr(const Node& n)
	{
		const std::string& t = n.tag;
		if (t == "n") return n.s;
		if (t == "s") return StrLit(n.s);
		if (t == "v") return n.s;
		if (t == "null") return "null";
		if (t == "b0") return "false";
		if (t == "b1") return "true";
		if (t == "this" || t == "locals" || t == "globals") return t;
		if (t == "par") return "(" + Expr(n.k[0]) + ")";
		if (t == "op" || t == "&&" || t == "||" || t == "in" || t == "!in") {
			std::string sym = t == "op" ? n.s : t;
			int l = NodeLevel(n);
			char assoc = 'l';
			auto it = g_Prec.lexToTok.find(sym);
			if (it != g_Prec.lexToTok.end()) assoc = g_Prec.tok[it->second].second;
			if (g_DocMode) assoc = DocAssoc(sym);
			return Operand(n.k[0], l, assoc != 'l') + " " + sym + " " + Operand(n.k[1], l, assoc != 'r');
		}
		if (t == "!" || t == "~") {
			/* `!in…` would lex as the T_NOT_IN token (config_lexer.ll: `!in` wins by longest match, even in `!index`) */
			std::string o = Operand(n.k[0], NodeLevel(n), false);
			return t + std::string(t == "!" && o.compare(0, 2, "in") == 0 ? " " : "") + o;
		}
		if (t == "neg") return "-" + std::string(n.k[0].tag == "neg" && !full ? " " : "") + Operand(n.k[0], NodeLevel(n), false);
		if (t == "pos") return "+" + std::string(n.k[0].tag == "pos" && !full ? " " : "") + Operand(n.k[0], NodeLevel(n), false);
		if (t == "idx") return Operand(n.k[0], NodeLevel(n), false) + "[" + Expr(n.k[1]) + "]";
		if (t == "dot") {
			std::string b = Operand(n.k[0], NodeLevel(n), false);
			if (n.k[0].tag == "n" && b[0] != '(') b = "(" + b + ")";     /* `1.len` would lex as a number */
			return b + "." + n.s;
		}
		if (t == "call") {
			std::string o = Operand(n.k[0], NodeLevel(n), false) + "(";
			for (size_t i = 1; i < n.k.size(); i++) { if (i > 1) o += ", "; o += Val(n.k[i]); }
			return o + ")";
		}
		if (t == "arr") {
			std::string o = "[";
			for (size_t i = 0; i < n.k.size(); i++) { if (i) o += ", "; o += Val(n.k[i]); }
			return o + (n.k.empty() ? "]" : " ]");
		}
		if (t == "dict") return n.k.empty() ? "{ }" : "{ " + Stmts(n.k) + " }";
		if (t == "blk") return Block(n);
		if (t == "set") return Expr(n.k[0]) + " " + n.s + " " + Val(n.k[1]);
		if (t == "var") return "var " + n.s + " = " + Val(n.k[0]);
		if (t == "if") return "if (" + Expr(n.k[0]) + ") " + Block(n.k[1]) + (n.k.size() == 3 ? " else " + Block(n.k[2]) : "");
		if (t == "ifc") {
			size_t nb = (n.k.size() - (n.s == "1" ? 1 : 0)) / 2;
			std::string o;
			for (size_t i = 0; i < nb; i++)
				o += std::string(i ? " else if (" : "if (") + Expr(n.k[2 * i]) + ") " + Block(n.k[2 * i + 1]);
			if (n.s == "1") o += " else " + Block(n.k.back());
			return o;
		}
		if (t == "tern") return Val(n.k[0]) + " ? " + Val(n.k[1]) + " : " + Val(n.k[2]);
		if (t == "while") return "while (" + Expr(n.k[0]) + ") " + Block(n.k[1]);
		if (t == "for") return "for (" + n.names[0] + (n.names[1].empty() ? "" : " => " + n.names[1]) + " in " + Val(n.k[0]) + ") " + Block(n.k[1]);
		if (t == "fn") {
			if (n.k[0].tag == "blk") return "function" + Params(n) + " " + Block(n.k[0]);
			return Params(n) + " => " + Val(n.k[0]);
		}
		if (t == "fndecl") return "function " + n.s + Params(n) + " " + Block(n.k[0]);
		if (t == "ret") return "return " + Val(n.k[0]);
		if (t == "brk") return "break";
		if (t == "cont") return "continue";
		if (t == "throw") return "throw " + Val(n.k[0]);
		if (t == "try") return "try " + Block(n.k[0]) + " except " + Block(n.k[1]);
		return "?";
	}
};

static std::string PrintProgram(const Node& prog, bool full, bool doc = false)
{
	Printer p{full};
	g_DocMode = doc && !full;
	std::string o = p.Stmts(prog.k);
	g_DocMode = false;
	return o;
}

/* ------------------------------------------------------------------------------------------------ evaluation */
static std::string Canon(const Value& v, int depth = 0)
{
	if (depth > 12) return "~";
	switch (v.GetType()) {
		case ValueEmpty: return "null";
		case ValueNumber: {
			double d = v.Get<double>();
			if (std::isnan(d)) return "#nan";
			uint64_t b; memcpy(&b, &d, 8);
			char buf[24]; snprintf(buf, sizeof buf, "#%016llx", (unsigned long long)b);
			return buf;
		}
		case ValueBoolean: return v.ToBool() ? "true" : "false";
		case ValueString: { std::string h = Hex(v.Get<String>().GetData()); return "s" + (h == "-" ? std::string() : h); }
		default: break;
	}
	if (v.IsObjectType<Array>()) {
		Array::Ptr a = v;
		ObjectLock olock(a);
		std::string o = "[";
		bool first = true;
		for (const Value& x : a) { if (!first) o += ","; first = false; o += Canon(x, depth + 1); }
		return o + "]";
	}
	if (v.IsObjectType<Dictionary>()) {
		Dictionary::Ptr d = v;
		ObjectLock olock(d);
		std::string o = "{";
		bool first = true;
		for (const Dictionary::Pair& kv : d) {
			if (!first) o += ",";
			first = false;
			std::string h = Hex(kv.first.GetData());
			o += "s" + (h == "-" ? std::string() : h) + ":" + Canon(kv.second, depth + 1);
		}
		return o + "}";
	}
	if (v.IsObjectType<Function>()) return "fn";
	if (v.IsObjectType<Namespace>()) return "ns";
	if (v.IsObjectType<Type>()) return "t" + std::string(static_cast<Type::Ptr>(v)->GetName().CStr());
	return "obj";
}

/* Error classes WITHOUT reading message texts: the wording of the recursion error and of the parser's capacity error are
 * learnt from this very build at start-up (Calibrate), every other script error is just "e". */
static std::string g_StackMsg, g_CapMsg;

static std::string ErrKind(const std::string& m)
{
	if (!g_StackMsg.empty() && m == g_StackMsg)
		return "e:stack";
	return "e";
}

static std::map<std::string, double> g_LitCache;

static double LiteralValue(const std::string& text)
{
	auto it = g_LitCache.find(text);
	if (it != g_LitCache.end()) return it->second;
	double v = 0;
	try {
		std::unique_ptr<Expression> expr = ConfigCompiler::CompileText("<lit>", text);
		ScriptFrame frame(true);
		Value lv = expr->Evaluate(frame);
		v = lv;
	} catch (const std::exception&) {
		v = strtod(text.c_str(), nullptr);
	}
	g_LitCache[text] = v;
	return v;
}

static std::string MessageOf(const std::string& text)
{
	try {
		std::unique_ptr<Expression> expr = ConfigCompiler::CompileText("<cal>", text);
		ScriptFrame frame(true);
		expr->Evaluate(frame);
	} catch (const std::exception& ex) {
		return ex.what();
	}
	return "";
}

static void CleanGlobals();

static void Calibrate()
{
	g_StackMsg = MessageOf("function gf0() { gf0() }\ngf0()");
	g_CapMsg = MessageOf(std::string(40000, '(') + "1" + std::string(40000, ')'));
	CleanGlobals();
}

static bool IsUserName(const std::string& n)
{
	/* every name the generators (and their shrunk variants) can assign to: v12, p0, g3, gf1, x, y, n, a, b, c, k1, k2, len, sub */
	static const char *fixed[] = { "x", "y", "n", "a", "b", "c", "k1", "k2", "sub" };
	for (const char *f : fixed) if (n == f) return true;
	size_t i = 0;
	while (i < n.size() && isalpha((unsigned char)n[i])) i++;
	std::string pre = n.substr(0, i);
	if (i == n.size() || (pre != "v" && pre != "p" && pre != "g" && pre != "gf")) return false;
	for (; i < n.size(); i++) if (!isdigit((unsigned char)n[i])) return false;
	return true;
}

static void CleanGlobals()
{
	Namespace::Ptr g = ScriptGlobal::GetGlobals();
	std::vector<String> drop;
	{
		ObjectLock olock(g);
		for (const Namespace::Pair& kv : g)
			if (IsUserName(kv.first.GetData()))
				drop.push_back(kv.first);
	}
	for (const String& n : drop)
		g->Remove(n);
}

/* compile + evaluate in a fresh frame; never throws */
static std::string EvalOnce(Expression& expr, bool isSyntax, bool hostile)
{
	std::string r;
	try {
		ScriptFrame frame(true);
		Value v = expr.Evaluate(frame);
		r = hostile ? "ok" : "v:" + Canon(v);
	} catch (const ScriptError& ex) {
		if (isSyntax) {
			DebugInfo di = ex.GetDebugInfo();
			char b[64]; snprintf(b, sizeof b, "%s@%d:%d", (!g_CapMsg.empty() && g_CapMsg == ex.what()) ? "syntaxcap" : "syntax", di.FirstLine, di.FirstColumn);
			r = hostile ? std::string("err:") + b : std::string(b);
		} else
			r = hostile ? "err:script" : ErrKind(ex.what());
	} catch (const std::exception& ex) {
		r = hostile ? "err:std" : ErrKind(ex.what());
	}
	CleanGlobals();
	return r;
}

static std::string RunText(const std::string& text, bool hostile, std::string *same = nullptr)
{
	if (same) *same = "";
	CleanGlobals();
	std::unique_ptr<Expression> expr;
	try {
		expr = ConfigCompiler::CompileText("<c15>", text);
	} catch (const ScriptError& ex) {
		DebugInfo di = ex.GetDebugInfo();
		char b[64]; snprintf(b, sizeof b, "syntax@%d:%d", di.FirstLine, di.FirstColumn);
		return hostile ? std::string("err:") + b : std::string(b);
	} catch (const std::exception& ex) {
		return hostile ? "err:std" : "syntax@0:0";
	}
	if (!expr) return hostile ? "ok" : "v:null";
	/* configcompiler.cpp:244-250: a syntax error is returned as a ThrowExpression carrying the message and location */
	bool isSyntax = dynamic_cast<ThrowExpression *>(expr.get()) != nullptr;
	std::string r = EvalOnce(*expr, isSyntax, hostile);
	/* the SAME compiled expression once more, in a fresh frame, with the user globals removed: the same environment */
	if (same) *same = EvalOnce(*expr, isSyntax, hostile);
	return r;
}

/* ------------------------------------------------------------------------------------------------ generator */
enum T { TNum, TBool, TStr, TArrN, TArrS, TDict, TAny, TCOUNT };

struct FnInfo { std::string name; std::vector<T> params; T ret; };

struct Gen {
	vh::Rng rng;
	int chaos;                              /* per-mille probability of ignoring the requested type */
	std::vector<std::pair<std::string, T>> vars;
	std::vector<FnInfo> fns;
	int nvar = 0, loopDepth = 0, fnDepth = 0, budget = 60;

	Gen(uint64_t seed, int chaos) : rng(seed), chaos(chaos) { }

	bool pm(int permille) { return (int)rng.below(1000) < permille; }
	template<typename V> const V& pick(const std::vector<V>& v) { return v[rng.below(v.size())]; }

	Node NumLit()
	{
		static const std::vector<std::string> pool = { "0", "1", "2", "3", "4", "5", "7", "8", "10", "12", "16", "31", "32", "100", "255",
			"0.5", "1.5", "2.25", "0.1", "0.25", "3.75", "1000000", "65536", "2147483647", "2147483648", "4294967296", "1m", "2h", "30s", "1d", "500ms", "1.5m",
			"1ms", "2.5ms", "1000ms", "1s", "0.5s", "90s", "5m", "0.1m", "1h", "1.5h", "0.25h", "24h", "7d", "0.5d", "1.25d", "0ms", "0d" };
		if (pm(700)) return Num(std::to_string(rng.below(10)));
		if (pm(250)) return DurLit();
		return Num(pick(pool));
	}

	/* a number or duration literal drawn from the whole literal grammar `D+(.D+)?(ms|s|m|h|d)?` */
	Node DurLit()
	{
		static const std::vector<std::string> suf = { "", "ms", "s", "m", "h", "d" };
		std::string t = std::to_string(rng.below(pm(500) ? 10 : (pm(500) ? 100 : 100000)));
		if (pm(400)) { t += "."; int nd = 1 + rng.below(pm(800) ? 3 : 9); for (int i = 0; i < nd; i++) t += (char)('0' + rng.below(10)); }
		return Num(t + suf[rng.below(suf.size())]);
	}

	Node StrLit()
	{
		static const std::vector<std::string> pool = { "", "a", "b", "ab", "abc", "Hello", "x y", " pad ", "a,b,c", "foo.bar", "10", "3", "ABC", "zz", "k1", "k2" };
		return N0("s", pick(pool));
	}

	std::string Key() { static const std::vector<std::string> p = { "a", "b", "c", "k1", "k2", "len" }; return p[rng.below(pm(30) ? 6 : 5)]; }

	bool VarOf(T t, Node& out)
	{
		std::vector<std::string> c;
		for (auto& v : vars) if (v.second == t || t == TAny) c.push_back(v.first);
		if (c.empty()) return false;
		out = N0("v", pick(c));
		return true;
	}

	Node Leaf(T t)
	{
		Node v;
		if (pm(450) && VarOf(t, v)) return v;
		switch (t) {
			case TNum: return NumLit();
			case TBool: return N0(rng.coin() ? "b1" : "b0");
			case TStr: return StrLit();
			case TArrN: { std::vector<Node> ks; int n = rng.below(4); for (int i = 0; i < n; i++) ks.push_back(NumLit()); return NL("arr", ks); }
			case TArrS: { std::vector<Node> ks; int n = rng.below(4); for (int i = 0; i < n; i++) ks.push_back(StrLit()); return NL("arr", ks); }
			case TDict: { std::vector<Node> ks; int n = rng.below(3); for (int i = 0; i < n; i++) ks.push_back(N2("set", N0("v", Key()), Leaf(pm(700) ? TNum : TStr), "=")); return NL("dict", ks); }
			default: break;
		}
		switch (rng.below(5)) { case 0: return N0("null"); case 1: return NumLit(); case 2: return StrLit(); case 3: return N0(rng.coin() ? "b1" : "b0"); default: return Leaf(TArrN); }
	}

	Node Method(Node obj, const std::string& name, std::vector<Node> args = {})
	{
		std::vector<Node> ks; ks.push_back(N1("dot", std::move(obj), name));
		for (auto& a : args) ks.push_back(std::move(a));
		return NL("call", ks);
	}

	Node Sys(const std::string& name, std::vector<Node> args)
	{
		std::vector<Node> ks; ks.push_back(N0("v", name));
		for (auto& a : args) ks.push_back(std::move(a));
		return NL("call", ks);
	}

	Node Lambda1(T argT, T retT)
	{
		/* pure callback over its parameter (plus literals): no access to the enclosing scope */
		auto saveV = vars; auto saveF = fns;
		vars.clear(); fns.clear();
		vars.push_back({ "x", argT });
		Node body = Expr(retT, 2);
		vars = saveV; fns = saveF;
		Node f = N0("fn"); f.names = { "x" }; f.k.push_back(body);
		if (NodeLevel(body) < 0) f.k[0] = N1("par", body);
		return f;
	}

	Node Expr(T t, int d)
	{
		if (budget > 0) budget--;
		if (pm(chaos)) t = (T)rng.below(TCOUNT);
		if (d <= 0 || budget <= 0 || pm(180)) return Leaf(t);
		int r;
		/* function call of a matching user function */
		if (pm(120)) {
			std::vector<const FnInfo*> c;
			for (auto& f : fns) if (f.ret == t || t == TAny) c.push_back(&f);
			if (!c.empty()) {
				FnInfo f = *c[rng.below(c.size())];
				std::vector<Node> ks; ks.push_back(N0("v", f.name));
				for (T pt : f.params) ks.push_back(Expr(pt, d - 1));
				return NL("call", ks);
			}
		}
		switch (t) {
		case TNum:
			r = rng.below(100);
			if (r < 40) { static const std::vector<std::string> ops = { "+", "-", "*", "/", "%" }; return N2("op", Expr(TNum, d - 1), Expr(TNum, d - 1), pick(ops)); }
			if (r < 52) {
				static const std::vector<std::string> ops = { "&", "|", "^", "<<", ">>" };
				std::string o = pick(ops);
				/* shift counts outside 0..31 are undefined in C++: mostly stay inside, sometimes not */
				if (o.size() == 2 && pm(850)) return N2("op", Expr(TNum, d - 1), Num(std::to_string(rng.below(32))), o);
				return N2("op", Expr(TNum, d - 1), Expr(TNum, d - 1), o);
			}
			if (r < 58) return N1("neg", Expr(TNum, d - 1));
			if (r < 61) return N1("pos", Expr(TNum, d - 1));
			if (r < 64) return N1("~", Expr(TNum, d - 1));
			if (r < 70) return Method(Expr(pm(500) ? TArrN : TStr, d - 1), "len");
			if (r < 74) return Sys("len", { Expr(pm(500) ? TArrN : TDict, d - 1) });
			if (r < 80) return N2("idx", Expr(TArrN, d - 1), Num(std::to_string(rng.below(3))));
			if (r < 86) { Node n = N0("tern"); n.k = { Expr(TBool, d - 1), Expr(TNum, d - 1), Expr(TNum, d - 1) }; return n; }
			if (r < 90) return N2(rng.coin() ? "&&" : "||", Expr(TNum, d - 1), Expr(TNum, d - 1));
			if (r < 93) return Method(Expr(TStr, d - 1), "find", { StrLit() });
			if (r < 96) return Method(Expr(TArrN, d - 1), "reduce", { [&]() { Node f = N0("fn"); f.names = { "x", "y" }; f.k.push_back(N2("op", N0("v", "x"), N0("v", "y"), "+")); return f; }() });
			return N1("par", Expr(TNum, d - 1));
		case TBool:
			r = rng.below(100);
			if (r < 30) { static const std::vector<std::string> ops = { "<", ">", "<=", ">=", "==", "!=" }; return N2("op", Expr(TNum, d - 1), Expr(TNum, d - 1), pick(ops)); }
			if (r < 40) { static const std::vector<std::string> ops = { "<", ">", "<=", ">=", "==", "!=" }; return N2("op", Expr(TStr, d - 1), Expr(TStr, d - 1), pick(ops)); }
			if (r < 48) return N2("op", Expr(TAny, d - 1), Expr(TAny, d - 1), rng.coin() ? "==" : "!=");
			if (r < 60) return N2(rng.coin() ? "&&" : "||", Expr(TBool, d - 1), Expr(TBool, d - 1));
			if (r < 68) return N1("!", Expr(pm(700) ? TBool : TAny, d - 1));
			if (r < 76) return N2(rng.coin() ? "in" : "!in", Expr(TNum, d - 1), Expr(TArrN, d - 1));
			if (r < 80) return N2(rng.coin() ? "in" : "!in", Expr(TStr, d - 1), Expr(TArrS, d - 1));
			if (r < 85) return Method(Expr(TArrN, d - 1), "contains", { Expr(TNum, d - 1) });
			if (r < 89) return Method(Expr(TStr, d - 1), "contains", { StrLit() });
			if (r < 92) return Method(Expr(TDict, d - 1), "contains", { N0("s", Key()) });
			if (r < 95) return Method(Expr(TArrN, d - 1), rng.coin() ? "any" : "all", { Lambda1(TNum, TBool) });
			if (r < 98) return Sys("bool", { Expr(TAny, d - 1) });
			return N2("op", Expr(TArrN, d - 1), Expr(TArrN, d - 1), rng.coin() ? "<" : "==");
		case TStr:
			r = rng.below(100);
			if (r < 30) return N2("op", Expr(TStr, d - 1), Expr(TStr, d - 1), "+");
			if (r < 40) return N2("op", Expr(TStr, d - 1), Expr(TNum, d - 1), "+");
			if (r < 50) { static const std::vector<std::string> ms = { "upper", "lower", "trim", "reverse", "to_string" }; return Method(Expr(TStr, d - 1), pick(ms)); }
			if (r < 56) return Method(Expr(TStr, d - 1), "substr", pm(500) ? std::vector<Node>{ Num(std::to_string(rng.below(3))) } : std::vector<Node>{ Num(std::to_string(rng.below(3))), Num(std::to_string(rng.below(4))) });
			if (r < 62) return Method(Expr(TStr, d - 1), "replace", { N0("s", rng.coin() ? "a" : "b"), StrLit() });
			if (r < 70) return Method(Expr(pm(500) ? TArrS : TArrN, d - 1), "join", { N0("s", rng.coin() ? "," : "") });
			if (r < 78) return Sys("string", { Expr(pm(600) ? TNum : TAny, d - 1) });
			if (r < 84) return N1("dot", Sys("typeof", { Expr(TAny, d - 1) }), "name");
			if (r < 88) return Method(Expr(TNum, d - 1), "to_string");
			if (r < 92) return N2("idx", Expr(TArrS, d - 1), Num(std::to_string(rng.below(2))));
			if (r < 96) { Node n = N0("tern"); n.k = { Expr(TBool, d - 1), Expr(TStr, d - 1), Expr(TStr, d - 1) }; return n; }
			return N2("||", Expr(TStr, d - 1), Expr(TStr, d - 1));
		case TArrN:
			r = rng.below(100);
			if (r < 20) { std::vector<Node> ks; int n = rng.below(4); for (int i = 0; i < n; i++) ks.push_back(Expr(TNum, d - 1)); return NL("arr", ks); }
			if (r < 32) return N2("op", Expr(TArrN, d - 1), Expr(TArrN, d - 1), rng.coin() ? "+" : "-");
			if (r < 40) return Sys("range", pm(600) ? std::vector<Node>{ Num(std::to_string(rng.below(6))) } : std::vector<Node>{ Num(std::to_string(rng.below(4))), Num(std::to_string(rng.below(8))), Num(pm(800) ? "2" : "0.5") });
			if (r < 50) return Method(Expr(TArrN, d - 1), "map", { Lambda1(TNum, TNum) });
			if (r < 58) return Method(Expr(TArrN, d - 1), "filter", { Lambda1(TNum, TBool) });
			if (r < 70) { static const std::vector<std::string> ms = { "sort", "reverse", "unique", "shallow_clone" }; return Method(Expr(TArrN, d - 1), pick(ms)); }
			if (r < 78) return Sys(rng.coin() ? "union" : "intersection", { Expr(TArrN, d - 1), Expr(TArrN, d - 1) });
			if (r < 84) return Method(Expr(TDict, d - 1), "values");
			if (r < 90) return N2("op", Expr(TArrN, d - 1), N0("null"), rng.coin() ? "+" : "-");
			return Leaf(TArrN);
		case TArrS:
			r = rng.below(100);
			if (r < 25) { std::vector<Node> ks; int n = rng.below(4); for (int i = 0; i < n; i++) ks.push_back(Expr(TStr, d - 1)); return NL("arr", ks); }
			if (r < 45) return Method(Expr(TStr, d - 1), "split", { N0("s", pm(600) ? "," : ". ") });
			if (r < 60) return pm(500) ? Sys("keys", { Expr(TDict, d - 1) }) : Method(Expr(TDict, d - 1), "keys");
			if (r < 72) return Method(Expr(TArrS, d - 1), pm(500) ? "sort" : "reverse");
			if (r < 82) return N2("op", Expr(TArrS, d - 1), Expr(TArrS, d - 1), rng.coin() ? "+" : "-");
			if (r < 90) return Method(Expr(TArrS, d - 1), "map", { Lambda1(TStr, TStr) });
			return Leaf(TArrS);
		case TDict:
			r = rng.below(100);
			if (r < 45) {
				std::vector<Node> ks; int n = 1 + rng.below(3);
				for (int i = 0; i < n; i++) {
					if (i > 0 && pm(250)) ks.push_back(N2("set", N0("v", Key()), N2("op", N1("dot", N0("this"), ks[0].k[0].s), NumLit(), "+"), "="));
					else ks.push_back(N2("set", N0("v", Key()), Expr(pm(600) ? TNum : TAny, d - 1), pm(900) ? "=" : "+="));
				}
				return NL("dict", ks);
			}
			if (r < 65) return N2("op", Expr(TDict, d - 1), Expr(TDict, d - 1), "+");
			if (r < 75) return Method(Expr(TDict, d - 1), "shallow_clone");
			return Leaf(TDict);
		default:
			r = rng.below(100);
			if (r < 70) return Expr((T)rng.below(TAny), d);
			if (r < 80) return N2(rng.coin() ? "&&" : "||", Expr(TAny, d - 1), Expr(TAny, d - 1));
			if (r < 88) return N1("dot", Expr(TDict, d - 1), Key());
			if (r < 94) return Method(Expr(TDict, d - 1), "get", { N0("s", Key()) });
			return N0("null");
		}
	}

	std::string NewVar() { return "v" + std::to_string(nvar++); }

	Node BlockOf(int n, int d)
	{
		std::vector<Node> ks;
		size_t nv = vars.size(), nf = fns.size();
		for (int i = 0; i < n; i++) Stmt(ks, d);
		/* block-local declarations stay visible in the language (function-level scope), but may not have executed */
		vars.resize(nv); fns.resize(nf);
		return NL("blk", ks);
	}

	void Stmt(std::vector<Node>& out, int d)
	{
		if (budget > 0) budget -= 2;
		int r = rng.below(100);
		if (d <= 0 || budget <= 0) r = rng.below(40);
		if (r < 22 || vars.empty()) {
			T t = (T)rng.below(TAny);
			Node e = Expr(t, 3);
			std::string v = NewVar();
			out.push_back(N1("var", e, v));
			vars.push_back({ v, t });
		} else if (r < 40) {
			auto v = vars[rng.below(vars.size())];
			switch (v.second) {
				case TNum: { static const std::vector<std::string> ops = { "=", "+=", "-=", "*=", "/=", "%=", "^=", "&=", "|=" }; out.push_back(N2("set", N0("v", v.first), Expr(TNum, 2), ops[rng.below(pm(700) ? 3 : 9)])); break; }
				case TStr: out.push_back(N2("set", N0("v", v.first), Expr(TStr, 2), rng.coin() ? "=" : "+=")); break;
				case TBool: out.push_back(N2("set", N0("v", v.first), Expr(TBool, 2), "=")); break;
				case TArrN:
					r = rng.below(4);
					if (r == 0) out.push_back(Method(N0("v", v.first), "add", { Expr(TNum, 2) }));
					else if (r == 1) out.push_back(N2("set", N2("idx", N0("v", v.first), Num(std::to_string(rng.below(4)))), Expr(TNum, 2), rng.coin() ? "=" : "+="));
					else if (r == 2) out.push_back(N2("set", N0("v", v.first), pm(150) ? N0("null") : Expr(TArrN, 2), rng.coin() ? "+=" : "-="));
					else out.push_back(Method(N0("v", v.first), pm(700) ? "remove" : "clear", pm(700) ? std::vector<Node>{ Num("0") } : std::vector<Node>{}));
					if (out.back().tag == "call" && out.back().k[0].s == "clear") out.back().k.resize(1);
					if (out.back().tag == "call" && out.back().k[0].s == "remove" && out.back().k.size() == 1) out.back().k.push_back(Num("0"));
					break;
				case TArrS: out.push_back(Method(N0("v", v.first), "add", { Expr(TStr, 2) })); break;
				case TDict:
					r = rng.below(4);
					if (r == 0) out.push_back(N2("set", N1("dot", N0("v", v.first), Key()), Expr(TNum, 2), rng.coin() ? "=" : "+="));
					else if (r == 1) out.push_back(N2("set", N2("idx", N0("v", v.first), N0("s", Key())), Expr(TAny, 2), "="));
					else if (r == 2) out.push_back(N2("set", N1("dot", N1("dot", N0("v", v.first), "sub"), Key()), Expr(TNum, 2), "="));
					else out.push_back(Method(N0("v", v.first), pm(600) ? "set" : "remove", { N0("s", Key()), Expr(TNum, 1) }));
					if (out.back().tag == "call" && out.back().k[0].s == "remove") out.back().k.resize(2);
					break;
				default: out.push_back(N2("set", N0("v", v.first), Expr(TAny, 2), "="));
			}
		} else if (r < 50 && pm(400)) {
			Node xv;
			std::string x;
			if (VarOf(TNum, xv)) x = xv.s;
			else { x = NewVar(); out.push_back(N1("var", NumLit(), x)); vars.push_back({ x, TNum }); }
			std::string rv = NewVar();
			out.push_back(N1("var", N0("s", "none"), rv));
			vars.push_back({ rv, TStr });
			out.push_back(ElifChain(x, rv, 2 + rng.below(3), rng.coin()));
		} else if (r < 50) {
			Node n = N0("if");
			n.k.push_back(Expr(TBool, 2));
			n.k.push_back(BlockOf(1 + rng.below(2), d - 1));
			if (rng.coin()) n.k.push_back(BlockOf(1 + rng.below(2), d - 1));
			out.push_back(n);
		} else if (r < 58) {
			/* bounded while: the counter is incremented first so that `continue` cannot loop forever */
			std::string i = NewVar();
			out.push_back(N1("var", Num("0"), i));
			loopDepth++;
			Node body = BlockOf(1 + rng.below(2), d - 1);
			loopDepth--;
			body.k.insert(body.k.begin(), N2("set", N0("v", i), Num("1"), "+="));
			if (pm(300)) { Node c = N0("if"); c.k.push_back(N2("op", N0("v", i), Num(std::to_string(1 + rng.below(3))), "==")); c.k.push_back(NL("blk", { N0(rng.coin() ? "brk" : "cont") })); body.k.insert(body.k.begin() + 1, c); }
			out.push_back(N2("while", N2("op", N0("v", i), Num(std::to_string(1 + rng.below(4))), "<"), body));
			vars.push_back({ i, TNum });
		} else if (r < 68) {
			bool overDict = pm(350);
			Node n = N0("for");
			std::string k = NewVar(), v = overDict ? NewVar() : "";
			n.names = { k, v };
			n.k.push_back(Expr(overDict ? TDict : (pm(700) ? TArrN : TArrS), 2));
			size_t nv = vars.size();
			vars.push_back({ k, overDict ? TStr : TAny });
			if (overDict) vars.push_back({ v, TAny });
			loopDepth++;
			Node body = BlockOf(1 + rng.below(2), d - 1);
			loopDepth--;
			if (pm(200)) { Node c = N0("if"); c.k.push_back(Expr(TBool, 1)); c.k.push_back(NL("blk", { N0(rng.coin() ? "brk" : "cont") })); body.k.insert(body.k.begin(), c); }
			vars.resize(nv);
			n.k.push_back(body);
			out.push_back(n);
		} else if (r < 80 && fnDepth < 2) {
			/* function value with parameters, optional use(), statements and a return */
			FnInfo fi; fi.name = NewVar();
			int np = rng.below(3);
			Node f = N0("fn");
			auto saveV = vars; auto saveF = fns; int saveLoop = loopDepth;
			std::vector<std::pair<std::string, T>> inner;
			for (auto& v : saveV) if (pm(300) && f.uses.size() < 2) { f.uses.push_back(v.first); inner.push_back(v); }
			for (int i = 0; i < np; i++) { T pt = (T)rng.below(TAny); fi.params.push_back(pt); f.names.push_back("p" + std::to_string(i)); inner.push_back({ "p" + std::to_string(i), pt }); }
			vars = inner; fns.clear(); loopDepth = 0; fnDepth++;
			fi.ret = (T)rng.below(TAny);
			if (pm(300)) {
				Node body = Expr(fi.ret, 3);
				f.k.push_back(NodeLevel(body) < 0 ? N1("par", body) : body);
			} else {
				std::vector<Node> ks;
				int ns = rng.below(3);
				for (int i = 0; i < ns; i++) Stmt(ks, d - 1);
				if (pm(300)) { Node c = N0("if"); c.k.push_back(Expr(TBool, 2)); c.k.push_back(NL("blk", { N1("ret", Expr(fi.ret, 2)) })); ks.push_back(c); }
				ks.push_back(pm(700) ? N1("ret", Expr(fi.ret, 3)) : Expr(fi.ret, 3));
				f.k.push_back(NL("blk", ks));
			}
			fnDepth--; vars = saveV; fns = saveF; loopDepth = saveLoop;
			out.push_back(N1("var", f, fi.name));
			fns.push_back(fi);
		} else if (r < 84 && fnDepth == 0) {
			/* named recursive function: this.gfN = function … ; depth occasionally beyond the frame limit */
			static int gf = 0;
			std::string name = "gf" + std::to_string(rng.below(4)); (void)gf;
			Node f = N0("fndecl", name); f.names = { "n" };
			Node c = N0("if"); c.k.push_back(N2("op", N0("v", "n"), Num("0"), "<=")); c.k.push_back(NL("blk", { N1("ret", NumLit()) }));
			Node rec = NL("call", { N0("v", name), N2("op", N0("v", "n"), Num("1"), "-") });
			f.k.push_back(NL("blk", { c, N1("ret", N2("op", rec, Num("1"), "+")) }));
			out.push_back(f);
			static const std::vector<std::string> depths = { "0", "1", "3", "10", "40", "60", "70", "74", "75", "76", "80", "400" };
			std::string v = NewVar();
			Node call = NL("call", { N0("v", name), Num(pick(depths)) });
			if (pm(500)) out.push_back(N1("var", call, v));
			else out.push_back(N2("try", NL("blk", { N1("var", call, v) }), NL("blk", { N1("var", Num("7"), v) })));
			vars.push_back({ v, TNum });
		} else if (r < 92) {
			Node tb = BlockOf(1 + rng.below(2), d - 1);
			if (pm(600)) tb.k.push_back(N1("throw", pm(700) ? N0("s", "E1") : Expr(TAny, 1)));
			out.push_back(N2("try", tb, BlockOf(1 + rng.below(2), d - 1)));
		} else if (r < 95) {
			out.push_back(N2("set", N1("dot", N0("globals"), "g" + std::to_string(rng.below(4))), Expr(TNum, 2), "="));
		} else if (r < 97 && loopDepth > 0) {
			out.push_back(N0(rng.coin() ? "brk" : "cont"));
		} else if (r < 98) {
			out.push_back(N1("throw", pm(600) ? N0("s", "boom") : Expr(TAny, 1)));
		} else {
			Node v; if (VarOf(TNum, v)) out.push_back(N2("set", v, N0("v", "g" + std::to_string(rng.below(4))), "+=")); else out.push_back(N1("var", NumLit(), NewVar()));
		}
	}


	/* ---------------------------------------------------------------- themed programs (tagged by the prefix of their id) */

	Node TryStmt(Node body, Node handler) { return N2("try", NL("blk", { body }), NL("blk", { handler })); }

	/* a statement that raises a script error when evaluated: explicit throw, type error, unknown variable, failing native,
	 * division by zero, bad index — optionally buried in a nested expression so that several frames unwind */
	Node Thrower()
	{
		Node bad;
		switch (rng.below(8)) {
			case 0: return N1("throw", N0("s", "E"));
			case 1: bad = N2("op", N0("null"), N0("null"), "+"); break;
			case 2: bad = N0("v", "undefined_name"); break;
			case 3: bad = Method(NL("arr", { Num("1") }), "get", { Num("5") }); break;
			case 4: bad = Method(N0("s", "abc"), "substr", { Num("9") }); break;
			case 5: bad = N2("op", Num("1"), Num("0"), "/"); break;
			case 6: bad = N2("idx", NL("arr", { Num("1") }), Num("7")); break;
			default: bad = N2("op", N0("b1"), Num("1"), "<"); break;
		}
		int nest = rng.below(5);
		for (int i = 0; i < nest; i++)
			bad = rng.coin() ? N2("op", Num(std::to_string(1 + rng.below(5))), bad, "+") : NL("arr", { bad });
		return N1("var", bad, "t");
	}

	/* many CAUGHT exceptions inside one frame (loop around try/except), then an expression of some depth: the frame depth
	 * must be balanced on every exit path of Expression::Evaluate */
	Node CatchLoop()
	{
		static const std::vector<int> counts = { 20, 60, 120, 160, 200, 310, 400 };
		std::vector<Node> ks;
		ks.push_back(N1("var", Num("0"), "c"));
		auto loops = [&](std::vector<Node>& out) {
			int nl = 1 + rng.below(2);
			for (int l = 0; l < nl; l++) {
				int n = counts[rng.below(counts.size())];
				Node body = TryStmt(Thrower(), N2("set", N0("v", "c"), Num("1"), "+="));
				if (rng.coin()) {
					std::string i = "i" + std::to_string(l);
					out.push_back(N1("var", Num("0"), i));
					out.push_back(N2("while", N2("op", N0("v", i), Num(std::to_string(n)), "<"),
						NL("blk", { N2("set", N0("v", i), Num("1"), "+="), body })));
				} else {
					Node f = N0("for"); f.names = { "x" + std::to_string(l), "" };
					f.k.push_back(Sys("range", { Num(std::to_string(n)) }));
					f.k.push_back(NL("blk", { body }));
					out.push_back(f);
				}
			}
		};
		Node tail = Num("1");
		int depth = 5 + rng.below(120);
		for (int i = 0; i < depth; i++) tail = N2("op", Num("1"), tail, "+");
		if (pm(350)) {
			/* inside a function frame */
			std::vector<Node> body;
			loops(body);
			body.push_back(N1("ret", NL("arr", { N0("v", "c"), tail })));
			Node f = N0("fn"); f.uses = { "c" }; f.k.push_back(NL("blk", body));
			ks.push_back(N1("var", f, "f"));
			ks.push_back(NL("call", { N0("v", "f") }));
		} else {
			loops(ks);
			ks.push_back(NL("arr", { N0("v", "c"), tail }));
		}
		return NL("blk", ks);
	}

	/* closures with use() called several times: every call starts from a fresh copy of the captured variables and from
	 * fresh locals */
	Node ClosureProgram()
	{
		std::vector<Node> ks;
		int variant = rng.below(5);
		int ncalls = 2 + rng.below(3);
		std::string k0 = std::to_string(1 + rng.below(9));
		if (variant == 0 || variant == 4) {
			/* captured counter modified in the body */
			static const std::vector<std::string> ops = { "+=", "-=", "*=" };
			ks.push_back(N1("var", variant == 4 ? N0("s", "s") : Num(k0), "c"));
			Node f = N0("fn"); f.names = { "d" }; f.uses = { "c" };
			std::vector<Node> body;
			body.push_back(N2("set", N0("v", "c"), N0("v", "d"), variant == 4 ? "+=" : pick(ops)));
			if (rng.coin()) body.push_back(N1("var", N2("op", N0("v", "c"), Num("1"), "+"), "loc"));
			body.push_back(N1("ret", N0("v", "c")));
			f.k.push_back(NL("blk", body));
			ks.push_back(N1("var", f, "f"));
			std::vector<Node> calls;
			for (int i = 0; i < ncalls; i++) calls.push_back(NL("call", { N0("v", "f"), variant == 4 ? N0("s", std::string(1, 'a' + i)) : Num(std::to_string(1 + rng.below(5))) }));
			calls.push_back(N0("v", "c"));
			ks.push_back(NL("arr", calls));
		} else if (variant == 1) {
			/* a local that is only assigned on some paths must be unknown on the others, whatever earlier calls did */
			ks.push_back(N1("var", Num(k0), "k"));
			Node f = N0("fn"); f.names = { "a" }; f.uses = { "k" };
			Node c = N0("if"); c.k.push_back(N0("v", "a")); c.k.push_back(NL("blk", { N1("var", N2("op", N0("v", "a"), N0("v", "k"), "+"), "t") }));
			f.k.push_back(NL("blk", { c, N1("ret", N0("v", "t")) }));
			ks.push_back(N1("var", f, "f"));
			std::vector<Node> res;
			for (int i = 0; i < ncalls; i++) {
				std::string r = "r" + std::to_string(i);
				ks.push_back(N1("var", N0("s", "-"), r));
				std::string arg = (i == 0) ? std::to_string(1 + rng.below(9)) : (rng.coin() ? "0" : std::to_string(rng.below(9)));
				ks.push_back(TryStmt(N2("set", N0("v", r), NL("call", { N0("v", "f"), Num(arg) }), "="), N2("set", N0("v", r), N0("s", "E"), "=")));
				res.push_back(N0("v", r));
			}
			ks.push_back(NL("arr", res));
		} else if (variant == 2) {
			/* recursion through an argument: the parameter is read after the inner call returned */
			ks.push_back(N1("var", Num(k0), "k"));
			Node f = N0("fn"); f.names = { "self", "n" }; f.uses = { "k" };
			Node c = N0("if"); c.k.push_back(N2("op", N0("v", "n"), Num("0"), "<=")); c.k.push_back(NL("blk", { N1("ret", N0("v", "k")) }));
			Node inner = NL("call", { N0("v", "self"), N0("v", "self"), N2("op", N0("v", "n"), Num("1"), "-") });
			std::vector<Node> body = { c, N1("var", inner, "r") };
			if (rng.coin()) body.push_back(N2("set", N0("v", "k"), N0("v", "n"), "+="));
			body.push_back(N1("ret", N2("op", N0("v", "r"), N2("op", N0("v", "n"), Num("10"), "*"), "+")));
			f.k.push_back(NL("blk", body));
			ks.push_back(N1("var", f, "f"));
			std::vector<Node> calls;
			for (int i = 0; i < ncalls; i++) calls.push_back(NL("call", { N0("v", "f"), N0("v", "f"), Num(std::to_string(1 + rng.below(5))) }));
			ks.push_back(NL("arr", calls));
		} else {
			/* captured container re-bound (not mutated in place) inside the body */
			ks.push_back(N1("var", NL("arr", { Num(k0) }), "a"));
			Node f = N0("fn"); f.names = { "x" }; f.uses = { "a" };
			f.k.push_back(NL("blk", { N2("set", N0("v", "a"), NL("arr", { N0("v", "x") }), "+="), N1("ret", Method(N0("v", "a"), "len")) }));
			ks.push_back(N1("var", f, "f"));
			std::vector<Node> calls;
			for (int i = 0; i < ncalls; i++) calls.push_back(NL("call", { N0("v", "f"), Num(std::to_string(rng.below(9))) }));
			calls.push_back(N0("v", "a"));
			ks.push_back(NL("arr", calls));
		}
		return NL("blk", ks);
	}

	Node MixedElem(int d)
	{
		switch (rng.below(d > 0 ? 9 : 7)) {
			case 0: case 1: return Num(std::to_string(rng.below(4)));
			case 2: case 3: return N0("s", std::string(1, 'a' + rng.below(3)));
			case 4: return N0(rng.coin() ? "b1" : "b0");
			case 5: return N0("null");
			case 6: return NL("dict", { N2("set", N0("v", "a"), Num(std::to_string(rng.below(3))), "=") });
			case 7: { std::vector<Node> ks; int n = rng.below(3); for (int i = 0; i < n; i++) ks.push_back(MixedElem(d - 1)); return NL("arr", ks); }
			default: return N0("s", "");
		}
	}

	/* array - array over arbitrary element types: defined for every pair (elements are compared with ==) */
	Node ArrSub()
	{
		auto lit = [&]() { std::vector<Node> ks; int n = rng.below(6); for (int i = 0; i < n; i++) ks.push_back(MixedElem(1)); return NL("arr", ks); };
		return NL("blk", { N2("op", lit(), lit(), "-") });
	}


	/* if / else if chains with OVERLAPPING conditions: the first true condition in source order decides */
	Node ElifChain(const std::string& x, const std::string& r, int nb, bool withElse)
	{
		Node c = N0("ifc", withElse ? "1" : "0");
		int th = 1 + rng.below(4);
		bool asc = pm(700);
		for (int i = 0; i < nb; i++) {
			Node cond = N2("op", N0("v", x), Num(std::to_string(th)), asc ? "<" : ">=");
			if (pm(150)) cond = N2("||", cond, N2("op", N0("v", x), Num(std::to_string(rng.below(20))), "=="));
			c.k.push_back(cond);
			c.k.push_back(NL("blk", { N2("set", N0("v", r), N0("s", "b" + std::to_string(i)), "=") }));
			th = asc ? th * (2 + rng.below(4)) + rng.below(3) : std::max(0, th - 1 - (int)rng.below(3));
		}
		if (withElse) c.k.push_back(NL("blk", { N2("set", N0("v", r), N0("s", "else"), "=") }));
		return c;
	}

	Node Elif()
	{
		std::vector<Node> ks;
		int nchains = 1 + rng.below(3);
		std::vector<Node> res;
		for (int j = 0; j < nchains; j++) {
			std::string x = "x" + std::to_string(j), r = "r" + std::to_string(j);
			ks.push_back(N1("var", Num(std::to_string(rng.below(pm(500) ? 12 : 200))), x));
			ks.push_back(N1("var", N0("s", "none"), r));
			ks.push_back(ElifChain(x, r, 2 + rng.below(4), rng.coin()));
			res.push_back(N0("v", r));
		}
		if (pm(400)) {
			/* the chain as an expression: its value is the value of the chosen block */
			Node c = N0("ifc", "1");
			int th = 2;
			int nb = 3 + rng.below(2);
			for (int i = 0; i < nb; i++) { c.k.push_back(N2("op", N0("v", "x0"), Num(std::to_string(th)), "<")); c.k.push_back(NL("blk", { Num(std::to_string(i)) })); th *= 3; }
			c.k.push_back(NL("blk", { Num("99") }));
			ks.push_back(N1("var", c, "e"));
			res.push_back(N0("v", "e"));
		}
		ks.push_back(NL("arr", res));
		return NL("blk", ks);
	}

	/* an expression that raises, for use as a value */
	Node ThrowingValue()
	{
		switch (rng.below(6)) {
			case 0: return N2("op", N0("null"), N0("null"), "+");
			case 1: return N0("v", "undefined_name");
			case 2: return N2("idx", NL("arr", { Num("1") }), Num("5"));
			case 3: return N2("op", Num("1"), Num("0"), "/");
			case 4: return Method(N0("s", "abc"), "substr", { Num("9") });
			default: return N2("op", N0("b1"), Num("1"), "<");
		}
	}

	/* an error raised INSIDE a dictionary literal and caught in the same frame must leave `this` as it was */
	Node SelfKeepBody(bool inFunction)
	{
		std::vector<Node> ks;
		ks.push_back(N1("var", NL("arr", {}), "r"));
		int rounds = 1 + rng.below(2);
		for (int i = 0; i < rounds; i++) {
			std::vector<Node> fields;
			int before = rng.below(3);
			for (int j = 0; j < before; j++) fields.push_back(N2("set", N0("v", std::string(1, 'a' + j)), Num(std::to_string(j)), "="));
			Node bad = pm(250) ? N1("throw", N0("s", "E")) : N2("set", N0("v", "z"), ThrowingValue(), "=");
			if (pm(350)) {
				/* the failing literal is nested in another literal */
				std::vector<Node> inner = { N2("set", N0("v", "p"), Num("1"), "="), bad };
				bad = N2("set", N0("v", "n"), NL("dict", inner), "=");
			}
			fields.push_back(bad);
			ks.push_back(N2("try", NL("blk", { N1("var", NL("dict", fields), "d") }), NL("blk", { Method(N0("v", "r"), "add", { N0("s", "caught") }) })));
			std::string g = "g" + std::to_string(rng.below(4));
			ks.push_back(N2("set", N0("v", g), Num(std::to_string(3 + i)), "="));          /* plain assignment to an undeclared name: goes to `this` */
			ks.push_back(Method(N0("v", "r"), "add", { N0("v", g) }));                       /* … and is read back */
			ks.push_back(Method(N0("v", "r"), "add", { N1("dot", Sys("typeof", { N0("this") }), "name") }));
			if (pm(500)) ks.push_back(Method(N0("v", "r"), "add", { N2("op", N0("this"), N0("globals"), "==") }));
			if (pm(400)) ks.push_back(N2("set", N1("dot", N0("this"), "g" + std::to_string(rng.below(4))), N0("s", "t"), "="));
		}
		ks.push_back(inFunction ? N1("ret", N0("v", "r")) : N0("v", "r"));
		return NL("blk", ks);
	}

	Node SelfKeep()
	{
		if (pm(400)) {
			Node f = N0("fn"); f.k.push_back(SelfKeepBody(true));
			std::vector<Node> ks = { N1("var", f, "f"), N1("var", NL("call", { N0("v", "f") }), "out") };
			ks.push_back(NL("arr", { N0("v", "out"), N1("dot", Sys("typeof", { N0("this") }), "name") }));
			return NL("blk", ks);
		}
		return SelfKeepBody(false);
	}

	/* prototype methods applied to the EMPTY string (literal, variable, computed) */
	Node EmptyStr()
	{
		std::vector<Node> ks;
		ks.push_back(N1("var", N0("s", ""), "e"));
		auto recv = [&]() -> Node {
			switch (rng.below(5)) {
				case 0: return N0("s", "");
				case 1: return N0("v", "e");
				case 2: return Method(N0("s", "ab"), "replace", { N0("s", "ab"), N0("s", "") });
				case 3: return Method(N0("s", "  "), "trim");
				default: return N2("op", N0("s", ""), N0("v", "e"), "+");
			}
		};
		std::vector<Node> res;
		int n = 2 + rng.below(5);
		for (int i = 0; i < n; i++) {
			switch (rng.below(10)) {
				case 0: res.push_back(Method(recv(), "len")); break;
				case 1: res.push_back(Method(recv(), "upper")); break;
				case 2: res.push_back(Method(recv(), "lower")); break;
				case 3: res.push_back(Method(recv(), "trim")); break;
				case 4: res.push_back(Method(recv(), "reverse")); break;
				case 5: res.push_back(Method(recv(), "to_string")); break;
				case 6: res.push_back(Method(recv(), "contains", { N0("s", rng.coin() ? "" : "a") })); break;
				case 7: res.push_back(Method(recv(), "split", { N0("s", ",") })); break;
				case 8: res.push_back(Method(recv(), "find", { N0("s", "a") })); break;
				default: res.push_back(Method(recv(), "replace", { N0("s", "a"), N0("s", "b") })); break;
			}
		}
		ks.push_back(NL("arr", res));
		return NL("blk", ks);
	}


	/* ---------------------------------------------------------------- flow control from every position (family `flow`) */

	Node IfStmt(Node cond, std::vector<Node> then) { Node c = N0("if"); c.k.push_back(cond); c.k.push_back(NL("blk", then)); return c; }
	Node Add(const std::string& arr, Node v) { return Method(N0("v", arr), "add", { v }); }
	Node Eq(const std::string& x, int k) { return N2("op", N0("v", x), Num(std::to_string(k)), "=="); }

	/* try { [if (x == A) throw] [if (x == B) <ctl>] mark } except { mark; [if (x == C)] <ctl> }  — each part optional */
	Node TryWithFlow(const std::string& x, const std::string& r, int n, const std::vector<std::string>& ctls, bool inFunction)
	{
		auto ctl = [&](const std::string& what) -> Node {
			if (what == "ret") return N1("ret", N2("op", N0("s", "R"), N0("v", x), "+"));
			return N0(what);
		};
		std::vector<Node> tb, hb;
		int a = rng.below(n), b = rng.below(n), c = rng.below(n);
		if (pm(850)) tb.push_back(IfStmt(pm(700) ? Eq(x, a) : N2("op", N0("v", x), Num(std::to_string(a)), ">="), { pm(600) ? N1("throw", N0("s", "E")) : Thrower() }));
		if (pm(400)) tb.push_back(IfStmt(Eq(x, b), { ctl(pick(ctls)) }));
		tb.push_back(Add(r, N2("op", N0("s", "t"), N0("v", x), "+")));
		hb.push_back(Add(r, N2("op", N0("s", "h"), N0("v", x), "+")));
		if (pm(850)) {
			Node k = ctl(pick(ctls));
			if (pm(500)) hb.push_back(k);
			else if (pm(500)) hb.push_back(IfStmt(pm(600) ? Eq(x, c) : N0("b1"), { k }));
			else hb.push_back(N2("try", NL("blk", { Thrower() }), NL("blk", { k })));        /* from a nested handler */
		}
		(void)inFunction;
		return N2("try", NL("blk", tb), NL("blk", hb));
	}

	Node Flow()
	{
		std::vector<Node> ks;
		ks.push_back(N1("var", NL("arr", {}), "r"));
		int pieces = 1 + rng.below(3);
		for (int p = 0; p < pieces; p++) {
			int n = 2 + rng.below(4);
			switch (rng.below(5)) {
			case 0: {
				/* function: return from try body / handler; statements after the try/except must not run */
				std::string f = "f" + std::to_string(p);
				Node fn = N0("fn"); fn.names = { "x" }; fn.uses = { "r" };
				std::vector<Node> body;
				body.push_back(TryWithFlow("x", "r", n, { "ret" }, true));
				body.push_back(Add("r", N2("op", N0("s", "a"), N0("v", "x"), "+")));
				body.push_back(pm(700) ? N1("ret", N2("op", N0("s", "end"), N0("v", "x"), "+")) : N2("op", N0("s", "val"), N0("v", "x"), "+"));
				fn.k.push_back(NL("blk", body));
				ks.push_back(N1("var", fn, f));
				for (int i = 0; i < n; i++) ks.push_back(Add("r", NL("call", { N0("v", f), Num(std::to_string(i)) })));
				break;
			}
			case 1: case 2: {
				/* for / while loop: break / continue from try body / handler; the rest of the body and the later iterations */
				std::string i = "i" + std::to_string(p);
				std::vector<Node> body;
				bool isWhile = rng.coin();
				if (isWhile) body.push_back(N2("set", N0("v", i), Num("1"), "+="));
				body.push_back(TryWithFlow(i, "r", n + 1, { "brk", "cont" }, false));
				body.push_back(Add("r", N2("op", N0("s", "a"), N0("v", i), "+")));
				if (isWhile) {
					ks.push_back(N1("var", N1("neg", Num("1")), i));
					ks.push_back(N2("while", N2("op", N0("v", i), Num(std::to_string(n)), "<"), NL("blk", body)));
				} else if (pm(300)) {
					/* over a dictionary */
					Node d = N0("dict");
					for (int j = 0; j < n; j++) d.k.push_back(N2("set", N0("v", std::string(1, 'a' + j)), Num(std::to_string(j)), "="));
					Node f = N0("for"); f.names = { "k" + std::to_string(p), i };
					f.k.push_back(d); f.k.push_back(NL("blk", body));
					ks.push_back(f);
				} else {
					Node f = N0("for"); f.names = { i, "" };
					f.k.push_back(Sys("range", { Num(std::to_string(n)) })); f.k.push_back(NL("blk", body));
					ks.push_back(f);
				}
				ks.push_back(Add("r", N0("s", "L")));
				break;
			}
			case 3: {
				/* nested loops: break / continue of the inner loop (from a handler) leave the outer loop alone */
				std::string i = "i" + std::to_string(p), j = "j" + std::to_string(p);
				std::vector<Node> inner = { TryWithFlow(j, "r", n, { "brk", "cont" }, false), Add("r", N2("op", N2("op", N0("v", i), Num("10"), "*"), N0("v", j), "+")) };
				Node fi = N0("for"); fi.names = { j, "" }; fi.k.push_back(Sys("range", { Num(std::to_string(n)) })); fi.k.push_back(NL("blk", inner));
				std::vector<Node> outer = { fi, Add("r", N2("op", N0("s", "o"), N0("v", i), "+")) };
				if (pm(400)) outer.insert(outer.begin(), TryWithFlow(i, "r", 3, { "brk", "cont" }, false));
				Node fo = N0("for"); fo.names = { i, "" }; fo.k.push_back(Sys("range", { Num(std::to_string(2 + rng.below(2))) })); fo.k.push_back(NL("blk", outer));
				ks.push_back(fo);
				break;
			}
			default: {
				/* a function called inside a loop: its `return` (from a handler) ends the function, not the loop; loop inside a function:
				 * `return` from a handler inside the loop ends loop AND function */
				std::string f = "g" + std::to_string(p) + "f", i = "i" + std::to_string(p);
				Node fn = N0("fn"); fn.names = { "x" }; fn.uses = { "r" };
				std::vector<Node> lbody = { TryWithFlow("y", "r", n, { "ret", "brk", "cont" }, true), Add("r", N2("op", N0("s", "b"), N0("v", "y"), "+")) };
				Node fl = N0("for"); fl.names = { "y", "" }; fl.k.push_back(Sys("range", { N0("v", "x") })); fl.k.push_back(NL("blk", lbody));
				fn.k.push_back(NL("blk", { fl, N1("ret", N2("op", N0("s", "end"), N0("v", "x"), "+")) }));
				ks.push_back(N1("var", fn, f));
				Node fo = N0("for"); fo.names = { i, "" }; fo.k.push_back(Sys("range", { Num(std::to_string(n)) }));
				fo.k.push_back(NL("blk", { Add("r", NL("call", { N0("v", f), N0("v", i) })) }));
				ks.push_back(fo);
				break;
			}
			}
		}
		ks.push_back(N0("v", "r"));
		return NL("blk", ks);
	}

	/* ---------------------------------------------------------------- literals create NEW containers (family `freshlit`) */

	Node ConstLiteral(bool& isDict)
	{
		isDict = pm(300);
		if (isDict) {
			Node d = N0("dict");
			int n = rng.below(3);
			for (int j = 0; j < n; j++) d.k.push_back(N2("set", N0("v", std::string(1, 'a' + j)), pm(700) ? Num(std::to_string(j)) : N0("s", "s"), "="));
			return d;
		}
		std::vector<Node> ks;
		int n = rng.below(4);
		int kind = rng.below(4);
		for (int j = 0; j < n; j++) {
			if (kind == 0) ks.push_back(Num(std::to_string(1 + rng.below(9))));
			else if (kind == 1) ks.push_back(N0("s", std::string(1, 'a' + rng.below(3))));
			else if (kind == 2) ks.push_back(rng.coin() ? N0("null") : N0(rng.coin() ? "b1" : "b0"));
			else ks.push_back(NL("arr", { Num(std::to_string(j)) }));          /* nested literal */
		}
		return NL("arr", ks);
	}

	std::vector<Node> MutateInPlace(const std::string& a, bool isDict, Node v)
	{
		std::vector<Node> out;
		if (isDict) {
			switch (rng.below(4)) {
				case 0: out.push_back(N2("set", N1("dot", N0("v", a), "z"), v, "=")); break;
				case 1: out.push_back(N2("set", N2("idx", N0("v", a), N0("s", "k")), v, "=")); break;
				case 2: out.push_back(Method(N0("v", a), "set", { N0("s", "q"), v })); break;
				default: out.push_back(Method(N0("v", a), "remove", { N0("s", "a") })); out.push_back(N2("set", N1("dot", N0("v", a), "n"), Method(N0("v", a), "len"), "=")); break;
			}
			return out;
		}
		switch (rng.below(6)) {
			case 0: case 1: out.push_back(Method(N0("v", a), "add", { v })); break;
			case 2: out.push_back(Method(N0("v", a), "add", { v })); out.push_back(Method(N0("v", a), "remove", { Num("0") })); break;
			case 3: out.push_back(Method(N0("v", a), "add", { v })); out.push_back(N2("set", N2("idx", N0("v", a), Num("0")), N0("s", "w"), "=")); break;
			case 4: out.push_back(Method(N0("v", a), "add", { Method(N0("v", a), "len") })); out.push_back(Method(N0("v", a), "set", { Num("0"), v })); break;
			default: out.push_back(Method(N0("v", a), "add", { v })); out.push_back(Method(N0("v", a), "add", { Method(N0("v", a), "len") })); break;
		}
		return out;
	}

	Node FreshLit()
	{
		std::vector<Node> ks;
		bool isDict = false;
		Node lit = ConstLiteral(isDict);
		int times = 2 + rng.below(3);
		switch (rng.below(4)) {
		case 0: {
			/* in a function body called several times */
			Node fn = N0("fn"); fn.names = { "x" };
			std::vector<Node> body = { N1("var", lit, "a") };
			for (auto& m : MutateInPlace("a", isDict, N0("v", "x"))) body.push_back(m);
			body.push_back(N1("ret", N0("v", "a")));
			fn.k.push_back(NL("blk", body));
			ks.push_back(N1("var", fn, "f"));
			std::vector<Node> calls;
			for (int i = 0; i < times; i++) calls.push_back(NL("call", { N0("v", "f"), Num(std::to_string(i)) }));
			ks.push_back(NL("arr", calls));
			break;
		}
		case 1: {
			/* in a loop body */
			ks.push_back(N1("var", NL("arr", {}), "out"));
			std::vector<Node> body = { N1("var", lit, "t") };
			for (auto& m : MutateInPlace("t", isDict, N0("v", "i"))) body.push_back(m);
			body.push_back(Add("out", N0("v", "t")));
			if (rng.coin()) { Node f = N0("for"); f.names = { "i", "" }; f.k.push_back(Sys("range", { Num(std::to_string(times)) })); f.k.push_back(NL("blk", body)); ks.push_back(f); }
			else {
				body.insert(body.begin(), N2("set", N0("v", "i"), Num("1"), "+="));
				ks.push_back(N1("var", Num("0"), "i"));
				ks.push_back(N2("while", N2("op", N0("v", "i"), Num(std::to_string(times)), "<"), NL("blk", body)));
			}
			ks.push_back(N0("v", "out"));
			break;
		}
		case 2: {
			/* evaluated once per evaluation of the program: the second evaluation of the compiled expression (`same`) must agree;
			 * two textually equal literals are two containers */
			ks.push_back(N1("var", lit, "a"));
			ks.push_back(N1("var", lit, "b"));
			for (auto& m : MutateInPlace("a", isDict, Num("7"))) ks.push_back(m);
			ks.push_back(NL("arr", { N0("v", "a"), N0("v", "b") }));
			break;
		}
		default: {
			/* as a default value built inside a lambda, and as an argument */
			Node fn = N0("fn"); fn.names = { "acc", "x" };
			std::vector<Node> body;
			for (auto& m : MutateInPlace("acc", isDict, N0("v", "x"))) body.push_back(m);
			body.push_back(N1("ret", N0("v", "acc")));
			fn.k.push_back(NL("blk", body));
			ks.push_back(N1("var", fn, "f"));
			Node mk = N0("fn"); mk.k.push_back(lit);
			if (isDict) mk.k[0] = NL("blk", { N1("ret", lit) });
			ks.push_back(N1("var", mk, "mk"));
			std::vector<Node> calls;
			for (int i = 0; i < times; i++) calls.push_back(NL("call", { N0("v", "f"), NL("call", { N0("v", "mk") }), Num(std::to_string(i)) }));
			ks.push_back(NL("arr", calls));
			break;
		}
		}
		return NL("blk", ks);
	}

	/* ---------------------------------------------------------------- number / duration literals (family `literal`) */
	Node Literals()
	{
		static const std::vector<std::string> suf = { "", "ms", "s", "m", "h", "d" };
		std::vector<Node> res;
		/* every suffix at least once per program */
		for (auto& sf : suf) {
			std::string t = std::to_string(rng.below(pm(600) ? 60 : 5000));
			if (pm(400)) { t += "."; int nd = 1 + rng.below(3); for (int i = 0; i < nd; i++) t += (char)('0' + rng.below(10)); }
			res.push_back(Num(t + sf));
		}
		int extra = 1 + rng.below(4);
		for (int i = 0; i < extra; i++) {
			switch (rng.below(5)) {
				case 0: { int k = 1 + rng.below(9); res.push_back(N2("op", Num(std::to_string(k * 1000) + "ms"), Num(std::to_string(k) + "s"), "==")); break; }
				case 1: { int k = 1 + rng.below(9); res.push_back(N2("op", Num(std::to_string(k * 60) + "s"), Num(std::to_string(k) + "m"), "==")); break; }
				case 2: { int k = 1 + rng.below(9); res.push_back(N2("op", Num(std::to_string(k * 24) + "h"), Num(std::to_string(k) + "d"), "==")); break; }
				case 3: res.push_back(N2("op", DurLit(), DurLit(), pm(500) ? "+" : "*")); break;
				default: res.push_back(N2("op", DurLit(), DurLit(), pm(500) ? "<" : ">=")); break;
			}
		}
		return NL("blk", { NL("arr", res) });
	}

	/* ---------------------------------------------------------------- callbacks that modify the array being iterated (family `cbmut`) */
	Node CbMut()
	{
		static const std::vector<std::string> methods = { "map", "filter", "any", "all" };
		std::vector<Node> ks;
		bool large = pm(30);      /* large: the vector is certain to be reallocated (and the old block unmapped) when the callback adds */
		int n = large ? (pm(800) ? 3000 : 6000) : (int)rng.below(7);
		if (large || pm(400)) ks.push_back(N1("var", Sys("range", { Num(std::to_string(n)) }), "a"));
		else { std::vector<Node> es; for (int i = 0; i < n; i++) es.push_back(pm(800) ? Num(std::to_string(rng.below(9))) : N0("s", std::string(1, 'a' + rng.below(3)))); ks.push_back(N1("var", NL("arr", es), "a")); }
		ks.push_back(N1("var", Num("0"), "calls"));
		std::vector<Node> res;
		int rounds = large ? 1 : 1 + rng.below(2);
		for (int r = 0; r < rounds; r++) {
			std::string m = pick(methods);
			Node f = N0("fn"); f.names = { "x" }; f.uses = { "a" };
			std::vector<Node> body;
			int nm = 1 + rng.below(2);
			for (int j = 0; j < nm; j++) {
				Node mut;
				switch (rng.below(large ? 3 : 7)) {
					case 0: case 1: mut = Method(N0("v", "a"), "add", { pm(600) ? N0("v", "x") : Num(std::to_string(rng.below(9))) }); break;
					case 2: mut = IfStmt(N2("op", Method(N0("v", "a"), "len"), Num("0"), ">"), { Method(N0("v", "a"), "remove", { Num("0") }) }); break;
					case 3: mut = Method(N0("v", "a"), "clear"); break;
					case 4: mut = IfStmt(N2("op", Method(N0("v", "a"), "len"), Num("0"), ">"), { Method(N0("v", "a"), "set", { Num("0"), N0("s", "w") }) }); break;
					case 5: mut = N2("set", N2("idx", N0("v", "a"), Num(std::to_string(rng.below(8)))), N0("s", "i"), "="); break;
					default: mut = Method(N0("v", "a"), "remove", { Num(std::to_string(rng.below(4))) }); break;     /* may raise: index out of bounds */
				}
				if (pm(300) && !large) mut = IfStmt(N2("op", N0("v", "x"), Num(std::to_string(rng.below(6))), pm(500) ? "==" : "<"), { mut });
				body.push_back(mut);
			}
			Node rv;
			if (m == "map") rv = pm(600) ? N0("v", "x") : NL("arr", { N0("v", "x"), Method(N0("v", "a"), "len") });
			else if (m == "filter") rv = pm(500) ? N0("b1") : N2("op", Method(N0("v", "a"), "len"), Num(std::to_string(1 + rng.below(6))), "<");
			else if (m == "any") rv = pm(700) ? N0("b0") : N2("op", Method(N0("v", "a"), "len"), Num(std::to_string(n + 2 + rng.below(4))), ">");
			else rv = pm(700) ? N0("b1") : N2("op", Method(N0("v", "a"), "len"), Num(std::to_string(n + 2 + rng.below(4))), "<");
			if (large && m == "map") rv = N0("v", "x");
			body.push_back(N1("ret", rv));
			f.k.push_back(NL("blk", body));
			std::string rn = "r" + std::to_string(r);
			Node call = Method(N0("v", "a"), m, { f });
			if (pm(250) && !large) call = N2("try", NL("blk", { N1("var", call, rn) }), NL("blk", { N1("var", N0("s", "E"), rn) }));
			else call = N1("var", call, rn);
			ks.push_back(call);
			if (large && (m == "map" || m == "filter")) res.push_back(Method(N0("v", rn), "len"));     /* keep the lines short */
			else res.push_back(N0("v", rn));
			res.push_back(Method(N0("v", "a"), "len"));
		}
		if (large) { res.push_back(N2("idx", N0("v", "a"), Num("0"))); }
		else res.push_back(N0("v", "a"));
		ks.push_back(NL("arr", res));
		return NL("blk", ks);
	}

	Node Program()
	{
		std::vector<Node> ks;
		int n = 1 + rng.below(6);
		budget = 40 + rng.below(60);
		for (int i = 0; i < n; i++) Stmt(ks, 2);
		std::vector<Node> fin;
		for (auto& v : vars) fin.push_back(N0("v", v.first));
		if (pm(300)) fin.push_back(Expr(TAny, 3));
		ks.push_back(NL("arr", fin));
		return NL("blk", ks);
	}

	/* one pure expression: the precedence workhorse */
	Node ExprProgram()
	{
		budget = 30 + rng.below(40);
		return NL("blk", { Expr((T)rng.below(TCOUNT), 4 + rng.below(3)) });
	}
};

/* deep nesting (thorough tier, a few in quick) */
static Node Deep(const std::string& kind, int n)
{
	Node e = Num("1");
	if (kind == "recursion") {
		Node f = N0("fndecl", "gf0"); f.names = { "n" };
		Node c = N0("if"); c.k.push_back(N2("op", N0("v", "n"), Num("0"), "<=")); c.k.push_back(NL("blk", { N1("ret", Num("0")) }));
		f.k.push_back(NL("blk", { c, N1("ret", N2("op", NL("call", { N0("v", "gf0"), N2("op", N0("v", "n"), Num("1"), "-") }), Num("1"), "+")) }));
		return NL("blk", { f, NL("call", { N0("v", "gf0"), Num(std::to_string(n)) }) });
	}
	for (int i = 0; i < n; i++) {
		if (kind == "paren") e = N1("par", e);
		else if (kind == "bracket") e = NL("arr", { e });
		else if (kind == "neg") e = N1("neg", e);
		else if (kind == "not") e = N1("!", e);
		else if (kind == "right") e = N2("op", Num("1"), e, "+");
		else if (kind == "left") e = N2("op", e, Num("1"), "+");
		else if (kind == "index") e = N1("dot", e, "a");
		else if (kind == "dict") e = NL("dict", { N2("set", N0("v", "a"), e, "=") });
		else if (kind == "lambda") { Node f = N0("fn"); f.k.push_back(e); e = NL("call", { N1("par", f) }); }
	}
	if (kind == "ifset") {
		/* an assignment to a (global) variable nested in n conditionals: the reference path looks the name up in the imports */
		Node st = N2("set", N0("v", "g0"), Num("1"), "=");
		for (int i = 0; i < n; i++) { Node c = N0("if"); c.k.push_back(N0("b1")); c.k.push_back(NL("blk", { st })); st = c; }
		return NL("blk", { N2("set", N1("dot", N0("globals"), "g0"), Num("0"), "="), st, N0("v", "g0") });
	}
	return NL("blk", { e });
}

/* ------------------------------------------------------------------------------------------------ operator table, exhaustively (family `prec`)
 * Every ORDERED pair of the 20 binary operators in both tree shapes ((a o1 b) o2 c and a o1 (b o2 c)), every prefix operator against
 * every binary operator in three shapes (p(a o b), p(a) o b, a o p(b)), every prefix/binary operator against the three postfix forms:
 * the enumeration index selects the shape, the seed only the operand values.  Printed per the grammar's table, fully parenthesised and
 * per the DOCUMENTED table; all three must mean the same (clauses precedence_as_declared / precedence_as_documented). */
static const std::vector<std::string> g_BinOps = { "*", "/", "%", "+", "-", "<<", ">>", "<", ">", "<=", ">=", "in", "!in", "==", "!=", "&", "^", "|", "&&", "||" };
static const std::vector<std::string> g_PreOps = { "!", "~", "neg", "pos" };

static long PrecShapes() { return 2L * g_BinOps.size() * g_BinOps.size() + 3L * g_PreOps.size() * g_BinOps.size() + 3L * (g_PreOps.size() + g_BinOps.size()); }

static Node PrecBin(const std::string& o, Node a, Node b)
{
	if (o == "&&" || o == "||" || o == "in" || o == "!in") return N2(o, a, b);
	return N2("op", a, b, o);
}

static Node PrecCase(long shape, vh::Rng& rng)
{
	static const std::vector<std::string> nums = { "0", "1", "2", "3", "5", "6", "7", "12", "9", "4" };
	auto num = [&]() { return Num(nums[rng.below(nums.size())]); };
	auto arr = [&]() { std::vector<Node> ks; int n = 1 + rng.below(3); for (int i = 0; i < n; i++) ks.push_back(rng.below(4) ? num() : N0(rng.coin() ? "b1" : "b0")); return NL("arr", ks); };
	/* the operand in the right slot of in/!in is an array (anything else raises on every reading) */
	auto leafFor = [&](const std::string& o, bool rightSlot) { return (rightSlot && (o == "in" || o == "!in")) ? arr() : num(); };
	long nb = (long)g_BinOps.size(), np = (long)g_PreOps.size();
	Node e;
	if (shape < 2 * nb * nb) {
		const std::string& o1 = g_BinOps[(shape / 2) / nb];
		const std::string& o2 = g_BinOps[(shape / 2) % nb];
		if (shape % 2 == 0) e = PrecBin(o2, PrecBin(o1, leafFor(o1, false), leafFor(o1, true)), leafFor(o2, true));     /* (a o1 b) o2 c */
		else {
			Node inner = PrecBin(o2, leafFor(o2, false), leafFor(o2, true));
			/* a in (b o2 c): only + and - yield arrays */
			if ((o1 == "in" || o1 == "!in") && (o2 == "+" || o2 == "-")) inner = PrecBin(o2, arr(), arr());
			e = PrecBin(o1, leafFor(o1, false), inner);                                                                      /* a o1 (b o2 c) */
		}
	} else if ((shape -= 2 * nb * nb) < 3 * np * nb) {
		const std::string& p = g_PreOps[(shape / 3) / nb];
		const std::string& o = g_BinOps[(shape / 3) % nb];
		if (shape % 3 == 0) e = N1(p, PrecBin(o, leafFor(o, false), leafFor(o, true)));
		else if (shape % 3 == 1) e = PrecBin(o, N1(p, leafFor(o, false)), leafFor(o, true));
		else e = PrecBin(o, leafFor(o, false), N1(p, leafFor(o, true)));
	} else {
		shape -= 3 * np * nb;
		long k = shape / 3;
		/* postfix forms bind tighter than everything: p(x.f()), p(x[i]), (a o b[i]), (a o s.len()) */
		Node post;
		switch (shape % 3) {
			case 0: post = N2("idx", arr(), Num("0")); break;
			case 1: { std::vector<Node> ks; ks.push_back(N1("dot", arr(), "len")); post = NL("call", ks); break; }
			default: post = N1("dot", NL("dict", { N2("set", N0("v", "a"), num(), "=") }), "a"); break;
		}
		if (k < np) e = N1(g_PreOps[k], post);
		else { const std::string& o = g_BinOps[k - np]; e = (o == "in" || o == "!in") ? PrecBin(o, post, arr()) : PrecBin(o, num(), post); }
	}
	return NL("blk", { e });
}

/* ------------------------------------------------------------------------------------------------ hostile texts */
static std::string Mutate(vh::Rng& rng, std::string s)
{
	static const std::vector<std::string> toks = { "(", ")", "[", "]", "{", "}", "{{", "}}", ";", ",", "=>", "=", "==", "!", "!in", "in", "&&", "||", "+", "-", "*", "/", "%",
		"<", ">", "<<", ">>", "\"", "'", "/*", "*/", "//", "#", "\\", "function", "use", "var", "this", "locals", "globals", "return", "break", "continue", "if", "else",
		"while", "for", "try", "except", "throw", "null", "true", "1e", "0x", "1.", ".5", "1..2", "@", "$", "&", "*x", "&x", "?", ":", "{{{", "<<<EOT\n", "EOT", "\n", "\0", "\xff", "\xc3\x28",
		"99999999999999999999999999999", "object", "apply", "template", "namespace", "const", "import", "assign where", "ignore where", "library", "using", "current_line", "current_filename", "__if" };
	int n = 1 + rng.below(4);
	for (int i = 0; i < n; i++) {
		size_t pos = s.empty() ? 0 : rng.below(s.size() + 1);
		switch (rng.below(5)) {
			case 0: if (!s.empty()) s.erase(std::min(pos, s.size() - 1), 1 + rng.below(3)); break;
			case 1: s.insert(pos, toks[rng.below(toks.size())]); break;
			case 2: if (!s.empty()) s[std::min(pos, s.size() - 1)] = (char)rng.below(256); break;
			case 3: s = s.substr(0, pos); break;
			default: if (!s.empty()) { size_t a = rng.below(s.size()), l = 1 + rng.below(8); s.insert(pos, s.substr(a, l)); }
		}
	}
	return s;
}

static std::string Bytes(vh::Rng& rng)
{
	std::string s;
	int n = rng.below(200);
	int mode = rng.below(3);
	for (int i = 0; i < n; i++) {
		if (mode == 0) s += (char)rng.below(256);
		else if (mode == 1) s += (char)(32 + rng.below(95));
		else s += "()[]{}\"'\;,=<>!&|+-*/%.0123456789abcin \n"[rng.below(42)];
	}
	return s;
}

/* ------------------------------------------------------------------------------------------------ cases */
struct Case { char kind; std::string id; Node ast; std::string text; };

static std::string OpPart(const Case& c)
{
	if (c.kind == 'X') return "X " + c.id + " " + Hex(c.text);
	std::string o = "P " + c.id + " ";
	Emit(c.ast, o);
	while (!o.empty() && o.back() == ' ') o.pop_back();
	return o;
}

static void CollectLits(const Node& n, std::map<std::string, uint64_t>& out)
{
	if (n.tag == "n") { double v = LiteralValue(n.s); uint64_t b; memcpy(&b, &v, 8); out[n.s] = b; }
	for (auto& c : n.k) CollectLits(c, out);
}

static std::string LitsOf(const Case& c)
{
	std::map<std::string, uint64_t> m;
	CollectLits(c.ast, m);
	std::string o;
	for (auto& kv : m) { char b[24]; snprintf(b, sizeof b, "%016llx", (unsigned long long)kv.second); o += (o.empty() ? "" : ",") + kv.first + ":" + b; }
	return o.empty() ? "-" : o;
}

static std::string Observe(const Case& c, int phase, std::string *same = nullptr)
{
	if (c.kind == 'X') return RunText(c.text, true);
	if (phase == 0) return RunText(PrintProgram(c.ast, false), false, same);
	if (phase == 1) return RunText(PrintProgram(c.ast, true), false);
	if (phase == 3) {
		/* the text a reader of the DOCUMENT would write: evaluated only when it differs from the text printed per the grammar's table
		 * (the same text was just compiled and evaluated twice; `again` is the fresh compilation) */
		std::string d = PrintProgram(c.ast, false, true);
		if (d == PrintProgram(c.ast, false)) { if (same) *same = "0"; return ""; }
		if (same) *same = "1";
		return RunText(d, false);
	}
	return RunText(PrintProgram(c.ast, false), false);
}

struct ShMem { volatile long index; volatile long done; volatile int phase; char partial[5][1 << 16]; };

/* runs cases[from..) in a forked child; returns the index of the case that killed the child, or -1 */
template<typename GetCase>
static void RunAll(long total, GetCase getCase)
{
	ShMem *sh = (ShMem *)mmap(nullptr, sizeof(ShMem), PROT_READ | PROT_WRITE, MAP_SHARED | MAP_ANONYMOUS, -1, 0);
	sh->done = -1;
	long next = 0, confirm = -1, lastRestart = -1;   /* a crash is reported only if the case also kills a FRESH child (earlier hostile programs may have corrupted the heap) */
	while (next < total) {
		fflush(g_Out);
		pid_t pid = fork();
		if (pid == 0) {
			struct rlimit rl = { 6ULL << 30, 6ULL << 30 };
			setrlimit(RLIMIT_AS, &rl);
			for (long i = next; i < total; i++) {
				Case c = getCase(i);
				sh->index = i;
				sh->phase = 0;
				sh->partial[0][0] = sh->partial[1][0] = sh->partial[2][0] = sh->partial[3][0] = sh->partial[4][0] = 0;
				if (i != confirm) {
					std::string op = OpPart(c);
					fputs(op.c_str(), g_Out); fputs(" | ", g_Out); fflush(g_Out);
				}
				alarm(c.kind == 'X' ? 5 : 8);
				if (c.kind == 'X') {
					std::string r = Observe(c, 0);
					alarm(0);
					fputs(r.c_str(), g_Out);
				} else {
					std::string r[4], same, docdiff;
					for (int ph = 0; ph < 4; ph++) {
						sh->phase = ph;
						r[ph] = Observe(c, ph, ph == 0 ? &same : (ph == 3 ? &docdiff : nullptr));
						if (ph == 3 && docdiff == "0") r[3] = r[0];
						strncpy(sh->partial[ph], r[ph].c_str(), sizeof(sh->partial[ph]) - 1);
						if (ph == 0) strncpy(sh->partial[4], same.c_str(), sizeof(sh->partial[4]) - 1);
					}
					alarm(0);
					fprintf(g_Out, "min=%s full=%s again=%s same=%s doc=%s docdiff=%s lits=%s", r[0].c_str(), r[1].c_str(), r[2].c_str(), same.c_str(), r[3].c_str(), docdiff.c_str(), LitsOf(c).c_str());
				}
				fputs("\n", g_Out); fflush(g_Out);
				sh->done = i;
			}
			fflush(g_Out);
			_exit(0);
		}
		int status = 0;
		waitpid(pid, &status, 0);
		if (WIFEXITED(status) && WEXITSTATUS(status) == 0) break;
		/* the child died while evaluating case sh->index: complete its line */
		long i = sh->index;
		int sig = WIFSIGNALED(status) ? WTERMSIG(status) : 0;
		if (sh->done == i) {
			/* the line of case i is complete: the child died between two cases (heap damaged by an earlier hostile program, or
			 * while generating the next case) — go on with the next case; never spin on the same restart point */
			next = (lastRestart == i + 1) ? i + 2 : i + 1;
			lastRestart = i + 1;
			confirm = -1;
			continue;
		}
		if (i != confirm && sig != SIGALRM) { confirm = i; next = i; continue; }
		confirm = -1;
		std::string what = sig == SIGALRM ? "timeout" : "crash:sig=" + std::to_string(sig);
		Case c = getCase(i);
		if (c.kind == 'X') fprintf(g_Out, "%s\n", what.c_str());
		else {
			std::string r[4];
			for (int ph = 0; ph < 4; ph++) r[ph] = ph < sh->phase ? std::string(sh->partial[ph]) : what;
			/* died in phase 0: either evaluation of the one compiled expression may have been the fatal one */
			std::string same = sh->phase > 0 ? std::string(sh->partial[4]) : what;
			fprintf(g_Out, "min=%s full=%s again=%s same=%s doc=%s docdiff=%d lits=-\n", r[0].c_str(), r[1].c_str(), r[2].c_str(), same.c_str(), r[3].c_str(), sh->phase == 3 ? 1 : 0);
		}
		fflush(g_Out);
		next = i + 1;
	}
}

int main(int argc, char **argv)
{
	if (argc < 2) { fprintf(stderr, "usage: c15 gen --seed S --tier T | ops FILE\n"); return 2; }
	const char *prec = getenv("VERIF_C15_PREC");
	if (!prec || !LoadPrec(prec)) { fprintf(stderr, "c15: precedence table (VERIF_C15_PREC) missing or unreadable\n"); return 3; }
	vh::InitIcinga();
	Calibrate();
	{
		int saved = dup(1);
		int nul = open("/dev/null", O_WRONLY);
		dup2(nul, 1);
		g_Out = fdopen(saved, "w");
	}
	std::string mode = argv[1];
	if (mode == "ops" || mode == "text") {
		std::ifstream in(argv[2]);
		std::vector<std::string> lines;
		std::string line;
		while (std::getline(in, line)) {
			size_t p = line.find(" | ");
			if (p != std::string::npos) line = line.substr(0, p);
			if (line.size() > 2 && (line[0] == 'P' || line[0] == 'X') && line[1] == ' ') lines.push_back(line);
		}
		auto getLine = [&](long i) {
			Case c; c.kind = lines[i][0];
			std::istringstream is(lines[i].substr(2));
			is >> c.id;
			if (c.kind == 'X') { std::string h; is >> h; c.text = UnHex(h); return c; }
			Tok tk; std::string w;
			while (is >> w) tk.t.push_back(w);
			c.ast = Parse(tk);
			if (tk.bad || c.ast.tag != "blk") { c.kind = 'X'; c.text = "/* unparsable ops line */"; }
			return c;
		};
		if (mode == "text") {
			for (long i = 0; i < (long)lines.size(); i++) {
				Case c = getLine(i);
				if (c.kind == 'X') fprintf(g_Out, "--- X %s\n%s\n", c.id.c_str(), c.text.c_str());
				else fprintf(g_Out, "--- P %s (min)\n%s\n--- (full)\n%s\n--- (doc)\n%s\n--- (end)\n", c.id.c_str(), PrintProgram(c.ast, false).c_str(), PrintProgram(c.ast, true).c_str(), PrintProgram(c.ast, false, true).c_str());
			}
			fflush(g_Out);
			_exit(0);
		}
		RunAll((long)lines.size(), getLine);
		_exit(0);
	}
	uint64_t seed = strtoull(vh::argOr(argc, argv, "--seed", "1"), nullptr, 10);
	bool thorough = std::string(vh::argOr(argc, argv, "--tier", "quick")) == "thorough";
	long nProg = thorough ? 120000 : 5000, nExpr = thorough ? 150000 : 7000, nChaos = thorough ? 50000 : 2000, nHostile = thorough ? 150000 : 6000;
	std::vector<std::pair<std::string, int>> deep;
	for (const char *k : { "paren", "bracket", "neg", "not", "right", "left", "index", "dict", "lambda", "recursion", "ifset" }) {
		for (int n : { 5, 70, 74, 75, 76, 99, 100, 148, 149, 150, 151, 295, 296, 297, 298, 299, 300, 301, 302, 310 }) deep.push_back({ k, n });
		if (thorough) for (int n : { 1000, 2500, 5000 }) deep.push_back({ k, n });
		else deep.push_back({ k, 700 });
	}
	long nDeep = (long)deep.size();
	long nTheme = thorough ? 30000 : 5000;   /* ten themed families, a tenth each */
	long nPrec = PrecShapes() * (thorough ? 8 : 2);   /* every shape of the operator table, 2 (8) draws of operand values each */
	long total = nProg + nExpr + nChaos + nHostile + nDeep + nTheme + nPrec;
	RunAll(total, [&](long i) {
		Case c;
		c.id = std::to_string(i);
		uint64_t s = seed * 0x9e3779b97f4a7c15ULL + (uint64_t)i * 0xbf58476d1ce4e5b9ULL + 12345;
		if (i >= total - nPrec) { vh::Rng r(s); long j = i - (total - nPrec); c.kind = 'P'; c.id = "prec" + std::to_string(j); c.ast = PrecCase(j % PrecShapes(), r); }
		else if (i < nProg) { Gen g(s, 4); c.kind = 'P'; c.ast = g.Program(); }
		else if (i < nProg + nExpr) { Gen g(s, 4); c.kind = 'P'; c.ast = g.ExprProgram(); }
		else if (i < nProg + nExpr + nChaos) { Gen g(s, 120); c.kind = 'P'; c.ast = (i & 1) ? g.Program() : g.ExprProgram(); }
		else if (i < nProg + nExpr + nChaos + nHostile) {
			vh::Rng r(s);
			c.kind = 'X';
			if (r.below(4) == 0) c.text = Bytes(r);
			else { Gen g(s ^ 77, r.below(2) ? 4 : 200); Node p = r.coin() ? g.Program() : g.ExprProgram(); c.text = Mutate(r, PrintProgram(p, r.coin())); }
		} else if (i < nProg + nExpr + nChaos + nHostile + nDeep) { auto& d = deep[i - (nProg + nExpr + nChaos + nHostile)]; c.kind = 'P'; c.id = d.first + std::to_string(d.second); c.ast = Deep(d.first, d.second); }
		else {
			Gen g(s, 0);
			c.kind = 'P';
			switch (i % 10) {
				case 9: c.id = "cbmut" + std::to_string(i); c.ast = g.CbMut(); break;
				case 6: c.id = "flow" + std::to_string(i); c.ast = g.Flow(); break;
				case 7: c.id = "freshlit" + std::to_string(i); c.ast = g.FreshLit(); break;
				case 8: c.id = "literal" + std::to_string(i); c.ast = g.Literals(); break;
				case 0: c.id = "catchloop" + std::to_string(i); c.ast = g.CatchLoop(); break;
				case 1: c.id = "scope" + std::to_string(i); c.ast = g.ClosureProgram(); break;
				case 2: c.id = "arrsub" + std::to_string(i); c.ast = g.ArrSub(); break;
				case 3: c.id = "elif" + std::to_string(i); c.ast = g.Elif(); break;
				case 4: c.id = "selfkeep" + std::to_string(i); c.ast = g.SelfKeep(); break;
				default: c.id = "emptystr" + std::to_string(i); c.ast = g.EmptyStr(); break;
			}
		}
		return c;
	});
	_exit(0);
}

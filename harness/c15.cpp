/* C15 harness — config language: evaluation matches the reference, deterministic, never crashes.
 *
 * Lines written (one case per line; everything after " | " is the observation of the REAL compiler/evaluator):
 *   P <id> <ast tokens…> | min=<r> full=<r> again=<r>
 *        a generated AST, printed (a) with the minimal parentheses the GENERATED precedence table requires,
 *        (b) fully parenthesised, each compiled with ConfigCompiler::CompileText and evaluated in a fresh
 *        ScriptFrame; (c) the minimal text compiled and evaluated a second time (determinism).
 *        r = v:<canonical value> | e:<kind>[:<hex message>] | syntax@L:C:<hex message> | crash:sig=N | timeout
 *   X <id> <hex program text> | ok | err:syntax@L:C | err:script | err:std | crash:sig=N | timeout
 *        hostile stream: mutated program texts and arbitrary byte strings; only "returns or throws" is required.
 * All evaluation happens in forked children, so that a crash of the evaluator is an observation, not a harness failure.
 *
 * Modes:  gen --seed S --tier quick|thorough      ops FILE
 * The precedence table comes from gen/c15_precedence.py (env VERIF_C15_PREC = path of the .tbl file).
 */
#include "common.hpp"
#include "base/array.hpp"
#include "base/dictionary.hpp"
#include "base/exception.hpp"
#include "base/function.hpp"
#include "base/namespace.hpp"
#include "base/scriptframe.hpp"
#include "base/scriptglobal.hpp"
#include "base/type.hpp"
#include "config/configcompiler.hpp"
#include "config/expression.hpp"
#include <cmath>
#include <fstream>
#include <map>
#include <memory>
#include <signal.h>
#include <sys/mman.h>
#include <sys/resource.h>
#include <sys/wait.h>

using namespace icinga;

/* ------------------------------------------------------------------------------------------------ AST */
struct Node {
	std::string tag;              /* see Emit() for the vocabulary */
	std::string s;                /* name / operator / literal text */
	uint64_t bits = 0;            /* number literal: binary64 pattern */
	std::vector<std::string> names, uses;
	std::vector<Node> k;
};

static Node N0(const std::string& tag, const std::string& s = "") { Node n; n.tag = tag; n.s = s; return n; }
static Node N1(const std::string& tag, Node a, const std::string& s = "") { Node n = N0(tag, s); n.k.push_back(std::move(a)); return n; }
static Node N2(const std::string& tag, Node a, Node b, const std::string& s = "") { Node n = N0(tag, s); n.k.push_back(std::move(a)); n.k.push_back(std::move(b)); return n; }
static Node NL(const std::string& tag, std::vector<Node> ks, const std::string& s = "") { Node n = N0(tag, s); n.k = std::move(ks); return n; }

static std::string Hex(const std::string& s)
{
	static const char *d = "0123456789abcdef";
	std::string o;
	for (unsigned char c : s) { o += d[c >> 4]; o += d[c & 15]; }
	return o.empty() ? "-" : o;
}

static std::string UnHex(const std::string& h)
{
	std::string o;
	if (h == "-") return o;
	for (size_t i = 0; i + 1 < h.size(); i += 2)
		o += (char)strtol(h.substr(i, 2).c_str(), nullptr, 16);
	return o;
}

static Node Num(const std::string& text)
{
	/* exactly what config_lexer.ll does with the token */
	double v = strtod(text.c_str(), nullptr);
	char last = text.back();
	if (text.size() > 2 && text.substr(text.size() - 2) == "ms") v = v / 1000;
	else if (last == 'd') v = v * 60 * 60 * 24;
	else if (last == 'h') v = v * 60 * 60;
	else if (last == 'm') v = v * 60;
	Node n = N0("n", text);
	memcpy(&n.bits, &v, 8);
	return n;
}

static void Emit(const Node& n, std::string& o)
{
	auto kids = [&]() { for (auto& c : n.k) Emit(c, o); };
	const std::string& t = n.tag;
	if (t == "n") { char b[40]; snprintf(b, sizeof b, "n %016llx %s ", (unsigned long long)n.bits, n.s.c_str()); o += b; }
	else if (t == "s") { o += "s " + Hex(n.s) + " "; }
	else if (t == "v" || t == "op" || t == "dot" || t == "set" || t == "var") { o += t + " " + n.s + " "; kids(); }
	else if (t == "call" || t == "arr" || t == "dict" || t == "blk") {
		/* call: k[0] = callee, rest = args */
		o += t + " " + std::to_string(t == "call" ? n.k.size() - 1 : n.k.size()) + " "; kids();
	} else if (t == "for") { o += "for " + n.names[0] + " " + (n.names[1].empty() ? "-" : n.names[1]) + " "; kids(); }
	else if (t == "fn" || t == "fndecl") {
		o += t + " ";
		if (t == "fndecl") o += n.s + " ";
		o += std::to_string(n.names.size()) + " ";
		for (auto& p : n.names) o += p + " ";
		o += std::to_string(n.uses.size()) + " ";
		for (auto& p : n.uses) o += p + " ";
		kids();
	} else if (t == "if") { o += n.k.size() == 3 ? "ife " : "if "; kids(); }
	else { o += t + " "; kids(); }   /* null b0 b1 this locals globals ~ ! neg pos par && || in !in idx tern while ret brk cont throw try */
}

struct Tok { std::vector<std::string> t; size_t i = 0; bool bad = false;
	std::string next() { if (i >= t.size()) { bad = true; return ""; } return t[i++]; } };

static Node Parse(Tok& tk, int depth = 0)
{
	std::string t = tk.next();
	if (tk.bad || depth > 20000) { tk.bad = true; return N0("null"); }
	auto P = [&]() { return Parse(tk, depth + 1); };
	if (t == "n") { Node n = N0("n"); n.bits = strtoull(tk.next().c_str(), nullptr, 16); n.s = tk.next(); return n; }
	if (t == "s") return N0("s", UnHex(tk.next()));
	if (t == "v") return N0("v", tk.next());
	if (t == "op" || t == "set") { std::string s = tk.next(); Node a = P(); Node b = P(); return N2(t, a, b, s); }
	if (t == "dot" || t == "var") { std::string s = tk.next(); return N1(t, P(), s); }
	if (t == "call" || t == "arr" || t == "dict" || t == "blk") {
		size_t n = strtoul(tk.next().c_str(), nullptr, 10);
		Node r = N0(t);
		if (t == "call") r.k.push_back(P());
		for (size_t i = 0; i < n && !tk.bad; i++) r.k.push_back(P());
		return r;
	}
	if (t == "for") { Node r = N0("for"); r.names.push_back(tk.next()); std::string v = tk.next(); r.names.push_back(v == "-" ? "" : v); r.k.push_back(P()); r.k.push_back(P()); return r; }
	if (t == "fn" || t == "fndecl") {
		Node r = N0(t);
		if (t == "fndecl") r.s = tk.next();
		size_t np = strtoul(tk.next().c_str(), nullptr, 10);
		for (size_t i = 0; i < np && !tk.bad; i++) r.names.push_back(tk.next());
		size_t nu = strtoul(tk.next().c_str(), nullptr, 10);
		for (size_t i = 0; i < nu && !tk.bad; i++) r.uses.push_back(tk.next());
		r.k.push_back(P());
		return r;
	}
	if (t == "if") { Node c = P(); Node a = P(); return N2("if", c, a); }
	if (t == "ife") { Node r = N0("if"); r.k.push_back(P()); r.k.push_back(P()); r.k.push_back(P()); return r; }
	if (t == "tern") { Node r = N0("tern"); r.k.push_back(P()); r.k.push_back(P()); r.k.push_back(P()); return r; }
	if (t == "~" || t == "!" || t == "neg" || t == "pos" || t == "par" || t == "ret" || t == "throw") return N1(t, P());
	if (t == "&&" || t == "||" || t == "in" || t == "!in" || t == "idx" || t == "while" || t == "try") { Node a = P(); Node b = P(); return N2(t, a, b); }
	if (t == "null" || t == "b0" || t == "b1" || t == "this" || t == "locals" || t == "globals" || t == "brk" || t == "cont") return N0(t);
	tk.bad = true;
	return N0("null");
}

/* ------------------------------------------------------------------------------------------------ precedence (generated) */
struct Prec {
	std::map<std::string, std::pair<int, char>> tok;   /* grammar token -> (level index, l/r/n) */
	std::map<std::string, std::string> lexToTok;       /* "+" -> T_PLUS (binary tokens) */
	int Level(const std::string& t) const { auto it = tok.find(t); return it == tok.end() ? -1 : it->second.first; }
};
static Prec g_Prec;

static bool LoadPrec(const char *path)
{
	std::ifstream in(path);
	if (!in) return false;
	std::string line;
	int level = 0;
	std::map<std::string, std::string> lex;
	std::vector<std::string> binary;
	while (std::getline(in, line)) {
		std::istringstream is(line);
		std::string kind; is >> kind;
		if (kind == "level") {
			std::string assoc, t; is >> assoc;
			while (is >> t) g_Prec.tok[t] = { level, assoc[0] };
			level++;
		} else if (kind == "lex") { std::string a, b; is >> a >> b; lex[a] = b; }
		else if (kind == "binary") { std::string a, b; is >> a >> b; binary.push_back(a); }
	}
	for (auto& b : binary) if (lex.count(b)) g_Prec.lexToTok[lex[b]] = b;
	return level > 10 && g_Prec.lexToTok.size() >= 20;
}

static const int ATOM = 1000;

static int NodeLevel(const Node& n)
{
	const std::string& t = n.tag;
	if (t == "op" || t == "&&" || t == "||" || t == "in" || t == "!in") {
		auto it = g_Prec.lexToTok.find(t == "op" ? n.s : t);
		return it == g_Prec.lexToTok.end() ? -1 : g_Prec.Level(it->second);
	}
	if (t == "!" || t == "~") return g_Prec.Level("'" + t + "'");
	if (t == "neg") return g_Prec.Level("UNARY_MINUS");
	if (t == "pos") return g_Prec.Level("UNARY_PLUS");
	if (t == "idx" || t == "dot" || t == "call") return g_Prec.Level("'.'");
	if (t == "n" || t == "s" || t == "v" || t == "null" || t == "b0" || t == "b1" || t == "this" || t == "locals" || t == "globals" || t == "arr" || t == "par") return ATOM;
	return -1;   /* lambda, function literal, ternary, if, dict literal, assignments …: parenthesise whenever used as an operand */
}

static std::string StrLit(const std::string& s)
{
	std::string o = "\"";
	for (unsigned char c : s) {
		if (c == '"') o += "\\\"";
		else if (c == '\\') o += "\\\\";
		else if (c == '\n') o += "\\n";
		else if (c == '\t') o += "\\t";
		else if (c == '\r') o += "\\r";
		else o += (char)c;
	}
	return o + "\"";
}

struct Printer {
	bool full;
	std::string sep() const { return full ? "; " : "\n"; }

	std::string Operand(const Node& c, int parentLevel, bool needStrict)
	{
		/* needStrict: child at the same level must be parenthesised (wrong side of the associativity / nonassoc) */
		std::string s = Expr(c);
		if (c.tag == "par") return s;
		if (full) return NodeLevel(c) == ATOM && c.tag != "arr" ? s : "(" + s + ")";
		int l = NodeLevel(c);
		if (l < parentLevel || (l == parentLevel && needStrict)) return "(" + s + ")";
		return s;
	}

	std::string Stmts(const std::vector<Node>& ks)
	{
		std::string o;
		for (size_t i = 0; i < ks.size(); i++) { if (i) o += sep(); o += Stmt(ks[i]); }
		return o;
	}

	std::string Block(const Node& b) { return b.k.empty() ? "{ }" : "{ " + Stmts(b.k) + " }"; }

	std::string Params(const Node& n)
	{
		std::string o = "(";
		for (size_t i = 0; i < n.names.size(); i++) { if (i) o += ", "; o += n.names[i]; }
		o += ")";
		if (!n.uses.empty()) {
			o += " use(";
			for (size_t i = 0; i < n.uses.size(); i++) { if (i) o += ", "; o += n.uses[i]; }
			o += ")";
		}
		return o;
	}

	/* statement position: no parentheses needed around assignments etc. */
	std::string Stmt(const Node& n) { return Expr(n); }

	/* value position inside lists / right-hand sides: low-precedence forms are parenthesised */
	std::string Val(const Node& n)
	{
		std::string s = Expr(n);
		if (n.tag == "par") return s;
		if (full) return NodeLevel(n) == ATOM && n.tag != "arr" ? s : "(" + s + ")";
		return NodeLevel(n) < 0 ? "(" + s + ")" : s;
	}

	std::string Expr(const Node& n)
	{
		const std::string& t = n.tag;
		if (t == "n") return n.s;
		if (t == "s") return StrLit(n.s);
		if (t == "v") return n.s;
		if (t == "null") return "null";
		if (t == "b0") return "false";
		if (t == "b1") return "true";
		if (t == "this" || t == "locals" || t == "globals") return t;
		if (t == "par") return "(" + Expr(n.k[0]) + ")";
		if (t == "op" || t == "&&" || t == "||" || t == "in" || t == "!in") {
			std::string sym = t == "op" ? n.s : t;
			int l = NodeLevel(n);
			char assoc = 'l';
			auto it = g_Prec.lexToTok.find(sym);
			if (it != g_Prec.lexToTok.end()) assoc = g_Prec.tok[it->second].second;
			return Operand(n.k[0], l, assoc != 'l') + " " + sym + " " + Operand(n.k[1], l, assoc != 'r');
		}
		if (t == "!" || t == "~") return t + Operand(n.k[0], NodeLevel(n), false);
		if (t == "neg") return "-" + std::string(n.k[0].tag == "neg" && !full ? " " : "") + Operand(n.k[0], NodeLevel(n), false);
		if (t == "pos") return "+" + std::string(n.k[0].tag == "pos" && !full ? " " : "") + Operand(n.k[0], NodeLevel(n), false);
		if (t == "idx") return Operand(n.k[0], NodeLevel(n), false) + "[" + Expr(n.k[1]) + "]";
		if (t == "dot") {
			std::string b = Operand(n.k[0], NodeLevel(n), false);
			if (n.k[0].tag == "n" && b[0] != '(') b = "(" + b + ")";     /* `1.len` would lex as a number */
			return b + "." + n.s;
		}
		if (t == "call") {
			std::string o = Operand(n.k[0], NodeLevel(n), false) + "(";
			for (size_t i = 1; i < n.k.size(); i++) { if (i > 1) o += ", "; o += Val(n.k[i]); }
			return o + ")";
		}
		if (t == "arr") {
			std::string o = "[";
			for (size_t i = 0; i < n.k.size(); i++) { if (i) o += ", "; o += Val(n.k[i]); }
			return o + (n.k.empty() ? "]" : " ]");
		}
		if (t == "dict") return n.k.empty() ? "{ }" : "{ " + Stmts(n.k) + " }";
		if (t == "blk") return Block(n);
		if (t == "set") return Expr(n.k[0]) + " " + n.s + " " + Val(n.k[1]);
		if (t == "var") return "var " + n.s + " = " + Val(n.k[0]);
		if (t == "if") return "if (" + Expr(n.k[0]) + ") " + Block(n.k[1]) + (n.k.size() == 3 ? " else " + Block(n.k[2]) : "");
		if (t == "tern") return Val(n.k[0]) + " ? " + Val(n.k[1]) + " : " + Val(n.k[2]);
		if (t == "while") return "while (" + Expr(n.k[0]) + ") " + Block(n.k[1]);
		if (t == "for") return "for (" + n.names[0] + (n.names[1].empty() ? "" : " => " + n.names[1]) + " in " + Val(n.k[0]) + ") " + Block(n.k[1]);
		if (t == "fn") {
			if (n.k[0].tag == "blk") return "function" + Params(n) + " " + Block(n.k[0]);
			return Params(n) + " => " + Val(n.k[0]);
		}
		if (t == "fndecl") return "function " + n.s + Params(n) + " " + Block(n.k[0]);
		if (t == "ret") return "return " + Val(n.k[0]);
		if (t == "brk") return "break";
		if (t == "cont") return "continue";
		if (t == "throw") return "throw " + Val(n.k[0]);
		if (t == "try") return "try " + Block(n.k[0]) + " except " + Block(n.k[1]);
		return "?";
	}
};

static std::string PrintProgram(const Node& prog, bool full)
{
	Printer p{full};
	return p.Stmts(prog.k);
}

/* ------------------------------------------------------------------------------------------------ evaluation */
static std::string Canon(const Value& v, int depth = 0)
{
	if (depth > 12) return "~";
	switch (v.GetType()) {
		case ValueEmpty: return "null";
		case ValueNumber: {
			double d = v.Get<double>();
			if (std::isnan(d)) return "#nan";
			uint64_t b; memcpy(&b, &d, 8);
			char buf[24]; snprintf(buf, sizeof buf, "#%016llx", (unsigned long long)b);
			return buf;
		}
		case ValueBoolean: return v.ToBool() ? "true" : "false";
		case ValueString: { std::string h = Hex(v.Get<String>().GetData()); return "s" + (h == "-" ? std::string() : h); }
		default: break;
	}
	if (v.IsObjectType<Array>()) {
		Array::Ptr a = v;
		ObjectLock olock(a);
		std::string o = "[";
		bool first = true;
		for (const Value& x : a) { if (!first) o += ","; first = false; o += Canon(x, depth + 1); }
		return o + "]";
	}
	if (v.IsObjectType<Dictionary>()) {
		Dictionary::Ptr d = v;
		ObjectLock olock(d);
		std::string o = "{";
		bool first = true;
		for (const Dictionary::Pair& kv : d) {
			if (!first) o += ",";
			first = false;
			std::string h = Hex(kv.first.GetData());
			o += "s" + (h == "-" ? std::string() : h) + ":" + Canon(kv.second, depth + 1);
		}
		return o + "}";
	}
	if (v.IsObjectType<Function>()) return "fn";
	if (v.IsObjectType<Namespace>()) return "ns";
	if (v.IsObjectType<Type>()) return "t" + std::string(static_cast<Type::Ptr>(v)->GetName().CStr());
	return "obj";
}

static std::string ErrKind(const std::string& m)
{
	static const std::pair<const char *, const char *> pats[] = {
		{ "Stack overflow while evaluating", "stack" }, { "cannot be applied to values of type", "optype" },
		{ "Right-hand side argument for operator", "divzero" }, { "Tried to access undefined script variable", "undefvar" },
		{ "Argument is not a callable object", "notcallable" }, { "Invalid field access", "badfield" },
		{ "is out of bounds", "bounds" }, { "_M_range_check", "bounds" }, { "Index to remove must be within bounds", "bounds" },
		{ "Invalid right side argument for 'in'", "inrhs" }, { "Invalid type in for expression", "fortype" },
		{ "iterator for", "fortype" }, { "on a value that is not an object", "setnull" }, { "to an object", "notobject" },
		{ "bad lexical cast", "badcast" }, { "Too few arguments", "args" }, { "Invalid number of arguments", "args" },
		{ "String index is out of range", "range" }, { "Expression cannot be assigned to", "noassign" } };
	for (auto& p : pats)
		if (m.find(p.first) != std::string::npos)
			return std::string("e:") + p.second;
	return "e:user:" + Hex(m);
}

static const char *g_UserGlobals[] = { "g0", "g1", "g2", "g3", "gf0", "gf1", "gf2", "gf3" };

static void CleanGlobals()
{
	Namespace::Ptr g = ScriptGlobal::GetGlobals();
	for (const char *n : g_UserGlobals)
		if (g->Contains(n))
			g->Remove(n);
}

/* compile + evaluate in a fresh frame; never throws */
static std::string RunText(const std::string& text, bool hostile)
{
	CleanGlobals();
	std::unique_ptr<Expression> expr;
	try {
		expr = ConfigCompiler::CompileText("<c15>", text);
	} catch (const ScriptError& ex) {
		DebugInfo di = ex.GetDebugInfo();
		char b[64]; snprintf(b, sizeof b, "syntax@%d:%d", di.FirstLine, di.FirstColumn);
		return hostile ? std::string("err:") + b : std::string(b) + ":" + Hex(ex.what());
	} catch (const std::exception& ex) {
		return hostile ? "err:std" : "syntax@0:0:" + Hex(ex.what());
	}
	if (!expr) return hostile ? "ok" : "v:null";
	std::string r;
	try {
		ScriptFrame frame(true);
		Value v = expr->Evaluate(frame);
		r = hostile ? "ok" : "v:" + Canon(v);
	} catch (const ScriptError& ex) {
		r = hostile ? "err:script" : ErrKind(ex.what());
	} catch (const std::exception& ex) {
		r = hostile ? "err:std" : ErrKind(ex.what());
	}
	CleanGlobals();
	return r;
}

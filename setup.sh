#!/bin/sh
# MANIFEST.setup_cmd: build everything the checks need from files on disk (offline).
set -e
cd "$(dirname "$0")"
python3 - <<'PY'
import sys, os
sys.path.insert(0, os.getcwd())
from vlib import core
core.build_repo()
PY
python3 tools/build_all.py

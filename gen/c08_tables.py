#!/usr/bin/env python3
"""Translator for C08: the two name tables of the calendar layer, `LegacyTimePeriod::WeekdayFromString` and
`LegacyTimePeriod::MonthFromString` in <repo>/lib/icinga/legacytimeperiod.cpp, become
`Icinga.Gen.C08Tables.weekdaySrc` / `monthSrc` (lists of (name, number)) in lean/IcingaProofs/Gen/C08Tables.lean.
The theorems `weekday_table_matches_source` / `month_table_matches_source` (IcingaProofs/C08.lean) state that the
model's `weekdayFromString` / `monthFromString` (used by the calendar model AND by the declarative predicate calSpec)
are exactly the lookup in these lists, for every string; `weekday_numbers_are_tm_wday` ties the numbers to the
calendar (0 = Sunday … like `tm_wday`, 0 = January … like `tm_mon`).  A changed, dropped or misspelt name in the
source breaks a proof obligation instead of relying on the sampled runs alone.

Semantic rather than textual: comments are stripped; the body of the function is found by brace matching wherever it
stands; accepted spellings of the table are (a) any chain of comparisons / cases / initialiser pairs in which every
string literal is followed (before the next string literal) by the integer it maps to — `if (x == "sunday") return 0;`,
`{ "sunday", 0 }`, `case`-like tables — and (b) a plain list of string literals without numbers (an array indexed by
position).  Integers that follow no string literal (the `-1` of "unknown") are ignored.

Usage: c08_tables.py <repo> <out.lean>      (exit 3: anchor lost, nothing written)
"""
import os
import re
import sys

REL = "lib/icinga/legacytimeperiod.cpp"
FUNCS = [("WeekdayFromString", "weekdaySrc", 7), ("MonthFromString", "monthSrc", 12)]


class Lost(Exception):
    pass


def strip_comments(text):
    out, i, n = [], 0, len(text)
    while i < n:
        if text[i] == '"':                                   # string literal
            j = i + 1
            while j < n and text[j] != '"':
                j += 2 if text[j] == "\\" else 1
            out.append(text[i:j + 1])
            i = j + 1
        elif text.startswith("/*", i):
            j = text.find("*/", i + 2)
            j = n if j < 0 else j + 2
            out.append("".join(ch if ch == "\n" else " " for ch in text[i:j]))
            i = j
        elif text.startswith("//", i):
            j = text.find("\n", i)
            j = n if j < 0 else j
            out.append(" " * (j - i))
            i = j
        else:
            out.append(text[i])
            i += 1
    return "".join(out)


def body_of(text, name):
    """Body (between the outer braces) of the definition of `name`: `name ( … ) [const…] {`."""
    found = []
    for m in re.finditer(r"\b" + name + r"\s*\(", text):
        # matching parenthesis
        i, depth = m.end(), 1
        while i < len(text) and depth:
            depth += {"(": 1, ")": -1}.get(text[i], 0)
            i += 1
        k = re.match(r"\s*(?:const\s*)?(?:noexcept\s*)?\{", text[i:])
        if not k:
            continue                                          # a call or a declaration
        j = i + k.end()
        start, depth = j, 1
        while j < len(text) and depth:
            if text[j] == '"':
                j += 1
                while j < len(text) and text[j] != '"':
                    j += 2 if text[j] == "\\" else 1
            else:
                depth += {"{": 1, "}": -1}.get(text[j], 0)
            j += 1
        found.append((text[start:j - 1], text.count("\n", 0, m.start()) + 1))
    if len(found) != 1:
        raise Lost(f"{REL}: expected exactly one definition of {name}, found {len(found)}")
    return found[0]


TOKEN = re.compile(r'"((?:[^"\\]|\\.)*)"|(?<![\w.])(-?\s*\d+)(?![\w.])')


GAP = re.compile(r"(?:\s|\)|,|:|=|return\b)*")


def table_of(body, name, expect):
    names, values, pending = [], {}, None
    for m in TOKEN.finditer(body):
        if m.group(1) is not None:
            pending, pend_end = m.group(1), m.end()
            if pending in names:
                raise Lost(f"{REL}: {name}: the name \"{pending}\" occurs twice")
            names.append(pending)
        elif pending is not None:
            # the number belongs to the name only when nothing but `)`, `,`, `:`, `=`, `return` stands between them
            if GAP.fullmatch(body[pend_end:m.start()]):
                values[pending] = int(m.group(2).replace(" ", ""))
            pending = None
    if not names:
        raise Lost(f"{REL}: {name}: no string literal found in the function body")
    if len(values) == len(names):
        table = [(n, values[n]) for n in names]
    elif not values:
        table = [(n, i) for i, n in enumerate(names)]       # array indexed by position
    else:
        raise Lost(f"{REL}: {name}: {len(names)} names but {len(values)} numbers — cannot read the table")
    for n, v in table:
        if not re.fullmatch(r"[ -~]*", n) or "\\" in n:
            raise Lost(f"{REL}: {name}: unexpected characters in the name {n!r}")
    return table


def generate(repo, out_path):
    p = os.path.join(repo, REL)
    if not os.path.exists(p):
        raise Lost(REL + " not found")
    text = strip_comments(open(p, encoding="utf-8", errors="replace").read())
    parts, result = [], {}
    for fn, lean_name, expect in FUNCS:
        body, line = body_of(text, fn)
        table = table_of(body, fn, expect)
        result[lean_name] = table
        items = ", ".join(f'("{n}", {v})' if v >= 0 else f'("{n}", ({v}))' for n, v in table)
        parts.append(f"/-- legacytimeperiod.cpp, `LegacyTimePeriod::{fn}` (every other string: -1). -/\n"
                     f"def {lean_name} : List (String × Int) := [{items}]\n")
    body = ("/-\n  GENERATED by gen/c08_tables.py from /repo/" + REL + " (name tables of the calendar layer).\n"
            "  Regenerated at the start of every `./check C08`; do not edit.\n-/\n"
            "namespace Icinga.Gen.C08Tables\n\n" + "\n".join(parts) + "\nend Icinga.Gen.C08Tables\n")
    old = open(out_path, encoding="utf-8").read() if os.path.exists(out_path) else None
    if old != body:
        os.makedirs(os.path.dirname(out_path), exist_ok=True)
        with open(out_path, "w", encoding="utf-8") as f:
            f.write(body)
    return result


if __name__ == "__main__":
    try:
        r = generate(sys.argv[1], sys.argv[2])
        print(r)
    except Lost as e:
        print("ANCHOR LOST: " + str(e))
        sys.exit(3)

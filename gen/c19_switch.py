#!/usr/bin/env python3
"""Switch lean/IcingaProofs/C19.lean between the two states of finding F-C19a.

  gen/c19_switch.py fixed    after the `fix:` commit that adds the sandbox guard to SetConstExpression::DoEvaluate:
                             comments out the block `-- BEGIN F-C19 known … -- END F-C19 known`
                             (…_partial, setconst_counterexample, …_repaired) and enables the block
                             `BEGIN F-C19 fixed … END F-C19 fixed` (all_mutating_nodes_guarded,
                             sandbox_noninterference_pinned).  Also set status of F-C19a in known_findings.json to
                             "fixed" (checks/c19.py derives its list of required theorems from that status).
  gen/c19_switch.py known    the reverse.
"""
import os
import sys

P = os.path.join(os.path.dirname(os.path.dirname(os.path.abspath(__file__))), "lean", "IcingaProofs", "C19.lean")
K_ON = ("-- BEGIN F-C19 known\n", "-- END F-C19 known\n")
K_OFF = ("/- BEGIN F-C19 known (disabled)\n", "END F-C19 known (disabled) -/\n")
F_OFF = ("/- BEGIN F-C19 fixed\n", "END F-C19 fixed -/\n")
F_ON = ("-- BEGIN F-C19 fixed\n", "-- END F-C19 fixed\n")   # NB: state `fixed` is in force since /repo 03364e3


def swap(s, a, b):
    if a[0] not in s or a[1] not in s:
        return s, False
    return s.replace(a[0], b[0]).replace(a[1], b[1]), True


def main():
    mode = sys.argv[1] if len(sys.argv) > 1 else ""
    s = open(P, encoding="utf-8").read()
    if mode == "fixed":
        s, a = swap(s, K_ON, K_OFF)
        s, b = swap(s, F_OFF, F_ON)
    elif mode == "known":
        s, a = swap(s, K_OFF, K_ON)
        s, b = swap(s, F_ON, F_OFF)
    else:
        print(__doc__)
        return 2
    if not (a and b):
        print("markers not found (already in state %r?)" % mode)
        return 1
    open(P, "w", encoding="utf-8").write(s)
    print("IcingaProofs/C19.lean switched to state %r" % mode)
    return 0


if __name__ == "__main__":
    sys.exit(main())

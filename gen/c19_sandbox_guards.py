#!/usr/bin/env python3
"""C19 translator: /repo -> lean/IcingaProofs/Gen/SandboxGuards.lean   (DESIGN.md §0.4)

Extracted on every run from the working tree (anchored regexes + brace matching on the comment-stripped
source; a lost anchor raises Lost, which checks/c19.py turns into core.TieBroken):

  nodeGuards      for every `ExpressionResult X::DoEvaluate(ScriptFrame& frame, DebugHint *dhint) const`
                  in lib/config/expression.cpp: does the body START with
                  `if (frame.Sandboxed) BOOST_THROW_EXCEPTION(ScriptError(`
  refGuards       for every `bool X::GetReference(...)`: (a) starts with the throw guard, or
                  (b) forces `init_dict = false` under `frame.Sandboxed` before its first SetField
                  (IndexerExpression), or (c) contains no SetField at all (cannot write)
  initDictOff     IndexerExpression::GetReference has `if (frame.Sandboxed) init_dict = false;` before its first
                  use of init_dict / nested GetReference
  refGetSandboxed the literal `sandboxed` argument of GetFieldByName in Reference::Get (lib/base/reference.cpp)
  callCheck       FunctionCallExpression::DoEvaluate contains
                  `if (!func->IsSideEffectFree() && frame.Sandboxed) BOOST_THROW_EXCEPTION(` before the
                  arguments are evaluated and before VMOps::FunctionCall
  fieldCheck      Object::GetFieldByName (lib/base/object.cpp) throws for FANoUserView under `sandboxed`
                  before `return GetField(fid)`
  frameInherits   ScriptFrame::InitializeFrame copies `Sandboxed` from the enclosing frame
  scriptFunctionsUnsafe   VMOps::NewFunction builds `new Function(name, wrapper, argNames)` (no `true` flag)
  natives         every native registration: REGISTER_[SAFE_]FUNCTION[_NONCONST](ns, name, ...) (also via
                  REGISTER_STATSFUNCTION) and `new Function("Ns#name", callback, {args}[, safe[, deprecated]])`
                  -> (registered name, side-effect-free flag)
  callbackInvokers  natives whose C++ body calls `->Invoke(` on a script-supplied function:
                  (registered name, safe flag, has the `Sandboxed && !…IsSideEffectFree()` test before the
                  first Invoke)
"""
import glob
import os
import re
import sys


class Lost(Exception):
    pass


def strip_comments(src):
    out = []
    i, n = 0, len(src)
    while i < n:
        c = src[i]
        if src.startswith("//", i):
            j = src.find("\n", i)
            i = n if j < 0 else j
        elif src.startswith("/*", i):
            j = src.find("*/", i + 2)
            seg = src[i:(n if j < 0 else j + 2)]
            out.append("\n" * seg.count("\n"))
            i = n if j < 0 else j + 2
        elif c == '"':
            j = i + 1
            while j < n and src[j] != '"':
                j += 2 if src[j] == "\\" else 1
            out.append(src[i:j + 1])
            i = j + 1
        elif c == "'":
            j = i + 1
            while j < n and src[j] != "'":
                j += 2 if src[j] == "\\" else 1
            out.append(src[i:j + 1])
            i = j + 1
        else:
            out.append(c)
            i += 1
    return "".join(out)


def match_close(src, start, open_ch="{", close_ch="}"):
    """src[start] == open_ch; index of the matching close (string literals skipped)."""
    depth = 0
    i, n = start, len(src)
    while i < n:
        c = src[i]
        if c == '"':
            i += 1
            while i < n and src[i] != '"':
                i += 2 if src[i] == "\\" else 1
        elif c == "'":
            i += 1
            while i < n and src[i] != "'":
                i += 2 if src[i] == "\\" else 1
        elif c == open_ch:
            depth += 1
        elif c == close_ch:
            depth -= 1
            if depth == 0:
                return i
        i += 1
    raise Lost("unbalanced %s at offset %d" % (open_ch, start))


def read(repo, rel):
    p = os.path.join(repo, rel)
    if not os.path.exists(p):
        raise Lost("file missing: " + rel)
    return strip_comments(open(p, encoding="utf-8", errors="replace").read())


THROW_GUARD = re.compile(r"\s*if\s*\(\s*frame\.Sandboxed\s*\)\s*BOOST_THROW_EXCEPTION\s*\(\s*ScriptError\s*\(")


def bodies(src, sig_re):
    """(class name, body text) for every definition matching sig_re (group 1 = class)."""
    res = []
    for m in sig_re.finditer(src):
        b = src.index("{", m.end() - 1)
        e = match_close(src, b)
        res.append((m.group(1), src[b + 1:e]))
    return res


def split_args(s):
    parts, depth, cur = [], 0, []
    i, n = 0, len(s)
    while i < n:
        c = s[i]
        if c == '"':
            j = i + 1
            while j < n and s[j] != '"':
                j += 2 if s[j] == "\\" else 1
            cur.append(s[i:j + 1])
            i = j + 1
            continue
        if c in "({[":
            depth += 1
        elif c in ")}]":
            depth -= 1
        if c == "," and depth == 0:
            parts.append("".join(cur).strip())
            cur = []
        else:
            cur.append(c)
        i += 1
    if "".join(cur).strip():
        parts.append("".join(cur).strip())
    return parts


def extract(repo):
    t = {}
    expr = read(repo, "lib/config/expression.cpp")

    # --- node guards
    ev = bodies(expr, re.compile(r"^ExpressionResult\s+(\w+)::DoEvaluate\s*\(\s*ScriptFrame\s*&\s*frame\s*,\s*DebugHint\s*\*\s*dhint\s*\)\s*const\s*\{", re.M))
    if len(ev) < 40:
        raise Lost("expression.cpp: only %d DoEvaluate definitions found (anchor `ExpressionResult X::DoEvaluate(ScriptFrame& frame, DebugHint *dhint) const`)" % len(ev))
    names = [k for k, _ in ev]
    if len(set(names)) != len(names):
        raise Lost("expression.cpp: duplicate DoEvaluate definition")
    for must in ("SetExpression", "SetConstExpression", "FunctionCallExpression", "IndexerExpression", "LiteralExpression"):
        if must not in names:
            raise Lost("expression.cpp: %s::DoEvaluate not found" % must)
    t["nodeGuards"] = [(k, bool(THROW_GUARD.match(b))) for k, b in ev]

    # --- reference guards
    rf = bodies(expr, re.compile(r"^bool\s+(\w+)::GetReference\s*\(\s*ScriptFrame\s*&\s*frame\s*,[^)]*\)\s*const\s*\{", re.M))
    if not any(k == "IndexerExpression" for k, _ in rf):
        raise Lost("expression.cpp: IndexerExpression::GetReference not found")
    refs = []
    for k, b in rf:
        w = b.find("SetField")
        if THROW_GUARD.match(b):
            ok = True
        elif w < 0:
            ok = True
        else:
            m = re.search(r"if\s*\(\s*frame\.Sandboxed\s*\)\s*init_dict\s*=\s*false\s*;", b)
            # every SetField must sit inside `if (init_dict)` and the forcing must precede it
            ok = bool(m) and m.start() < w and bool(re.search(r"if\s*\(\s*init_dict\s*\)\s*\{", b[m.end():w]))
        refs.append((k, ok))
    t["refGuards"] = refs

    # --- the init_dict guard itself (expression.cpp:758-759), as an entry of its own
    ib = dict(rf)["IndexerExpression"]
    m = re.search(r"if\s*\(\s*frame\.Sandboxed\s*\)\s*init_dict\s*=\s*false\s*;", ib)
    first_use = re.search(r"GetReference\s*\(|if\s*\(\s*init_dict\s*\)", ib)
    t["initDictOff"] = bool(m) and (first_use is None or m.start() < first_use.start())

    # --- references (lib/base/reference.cpp): which sandbox flag does a read through a Reference use
    rsrc = read(repo, "lib/base/reference.cpp")
    gb = bodies(rsrc, re.compile(r"^Value\s+(Reference)::Get\s*\(\s*\)\s*const\s*\{", re.M))
    if len(gb) != 1:
        raise Lost("reference.cpp: Value Reference::Get() const not found")
    m = re.search(r"GetFieldByName\s*\(", gb[0][1])
    if not m:
        raise Lost("reference.cpp: GetFieldByName call not found in Reference::Get")
    p0 = gb[0][1].index("(", m.end() - 1)
    a = split_args(gb[0][1][p0 + 1:match_close(gb[0][1], p0, "(", ")")])
    if len(a) < 2:
        raise Lost("reference.cpp: cannot read the sandboxed argument of GetFieldByName in Reference::Get")
    t["refGetSandboxed"] = a[1] == "true"

    # --- call check
    fc = dict(ev)["FunctionCallExpression"]
    m = re.search(r"if\s*\(\s*!\s*func->IsSideEffectFree\s*\(\s*\)\s*&&\s*frame\.Sandboxed\s*\)\s*BOOST_THROW_EXCEPTION\s*\(", fc) or \
        re.search(r"if\s*\(\s*frame\.Sandboxed\s*&&\s*!\s*func->IsSideEffectFree\s*\(\s*\)\s*\)\s*BOOST_THROW_EXCEPTION\s*\(", fc)
    call = fc.find("VMOps::FunctionCall")
    if call < 0:
        raise Lost("expression.cpp: VMOps::FunctionCall not found in FunctionCallExpression::DoEvaluate")
    t["callCheck"] = bool(m) and m.start() < call

    # --- hidden fields
    obj = read(repo, "lib/base/object.cpp")
    gb = bodies(obj, re.compile(r"^Value\s+(Object)::GetFieldByName\s*\([^)]*bool\s+sandboxed[^)]*\)\s*const\s*\{", re.M))
    if len(gb) != 1:
        raise Lost("object.cpp: Object::GetFieldByName(const String&, bool sandboxed, ...) not found")
    b = gb[0][1]
    m = re.search(r"if\s*\(\s*sandboxed\s*\)\s*\{", b)
    ret = b.rfind("return GetField(fid)")
    if ret < 0:
        raise Lost("object.cpp: `return GetField(fid)` not found in GetFieldByName")
    ok = False
    if m and m.start() < ret:
        blk_end = match_close(b, b.index("{", m.start()))
        blk = b[m.start():blk_end]
        ok = blk_end < ret and bool(re.search(r"if\s*\(\s*fieldInfo\.Attributes\s*&\s*FANoUserView\s*\)\s*BOOST_THROW_EXCEPTION\s*\(", blk))
    t["fieldCheck"] = ok

    # --- frame inheritance
    sf = read(repo, "lib/base/scriptframe.cpp")
    ib = bodies(sf, re.compile(r"^void\s+(ScriptFrame)::InitializeFrame\s*\(\s*\)\s*\{", re.M))
    if len(ib) != 1:
        raise Lost("scriptframe.cpp: ScriptFrame::InitializeFrame not found")
    t["frameInherits"] = bool(re.search(r"Sandboxed\s*=\s*frame->Sandboxed\s*;", ib[0][1]))

    # --- script functions are not side-effect free
    vm = read(repo, "lib/config/vmops.hpp")
    m = re.search(r"static\s+inline\s+Value\s+NewFunction\s*\(", vm)
    if not m:
        raise Lost("vmops.hpp: VMOps::NewFunction not found")
    b0 = vm.index("{", vm.index(")", m.end()))
    nb = vm[b0:match_close(vm, b0)]
    m = re.search(r"return\s+new\s+Function\s*\(", nb)
    if not m:
        raise Lost("vmops.hpp: `return new Function(` not found in NewFunction")
    p0 = nb.index("(", m.end() - 1)
    args = split_args(nb[p0 + 1:match_close(nb, p0, "(", ")")])
    t["scriptFunctionsUnsafe"] = len(args) <= 3 or args[3] == "false"

    # --- natives
    natives = {}
    invokers = []
    files = sorted(glob.glob(os.path.join(repo, "lib", "**", "*.cpp"), recursive=True))
    reg_re = re.compile(r"^\s*REGISTER_(SAFE_)?FUNCTION(_NONCONST)?\s*\(\s*(\w+)\s*,\s*(\w+)\s*,", re.M)
    stats_re = re.compile(r"^\s*REGISTER_STATSFUNCTION\s*\(\s*(\w+)\s*,", re.M)
    newf_re = re.compile(r"new\s+Function\s*\(")
    n_macro = n_new = 0
    for f in files:
        raw = open(f, encoding="utf-8", errors="replace").read()
        if "Function" not in raw and "FUNCTION" not in raw:
            continue
        src = strip_comments(raw)
        for m in reg_re.finditer(src):
            natives[m.group(3) + "#" + m.group(4)] = bool(m.group(1))
            n_macro += 1
        for m in stats_re.finditer(src):
            natives["StatsFunctions#" + m.group(1)] = False
            n_macro += 1
        for m in newf_re.finditer(src):
            p0 = src.index("(", m.end() - 1)
            args = split_args(src[p0 + 1:match_close(src, p0, "(", ")")])
            if not args or not re.fullmatch(r'"[^"]*"', args[0]):
                continue        # not a literal-named native (e.g. the script function wrapper)
            name = args[0][1:-1]
            if "#" not in name:
                continue        # temporaries that never enter a namespace or prototype
            safe = len(args) >= 4 and args[3] == "true"
            if len(args) >= 4 and args[3] not in ("true", "false"):
                raise Lost("%s: cannot read the side_effect_free argument of new Function(%s, ...): %r" % (os.path.relpath(f, repo), args[0], args[3]))
            natives[name] = safe
            n_new += 1
            # does the callback invoke a script-supplied function?
            cb = args[1].lstrip("&") if len(args) > 1 else ""
            cm = re.search(r"^static\s+[\w:<>\s&\*]+?\b" + re.escape(cb) + r"\s*\([^)]*\)\s*\{", src, re.M) if re.fullmatch(r"\w+", cb) else None
            if cm:
                b0 = src.index("{", cm.end() - 1)
                body = src[b0:match_close(src, b0)]
                iv = re.search(r"->\s*Invoke(This)?\s*\(", body)
                if iv:
                    ck = re.search(r"Sandboxed\s*&&\s*!\s*\w+->IsSideEffectFree\s*\(\s*\)|!\s*\w+->IsSideEffectFree\s*\(\s*\)\s*&&\s*\w+(->|\.)Sandboxed", body)
                    invokers.append((name, safe, bool(ck) and ck.start() < iv.start()))
    if n_macro < 20 or n_new < 40:
        raise Lost("native registrations: only %d macro and %d `new Function` registrations found" % (n_macro, n_new))
    if "Array#map" not in natives or "System#regex" not in natives:
        raise Lost("native registrations: Array#map / System#regex not found")
    t["natives"] = sorted(natives.items())
    t["callbackInvokers"] = sorted(invokers)
    return t


def lean_str(s):
    return '"' + s.replace("\\", "\\\\").replace('"', '\\"') + '"'


def lean_bool(b):
    return "true" if b else "false"


def render(t):
    o = []
    o.append("/-")
    o.append("  GENERATED by gen/c19_sandbox_guards.py from /repo on every `./check C19` — do not edit.")
    o.append("  Sources: lib/config/expression.cpp, lib/config/vmops.hpp, lib/base/object.cpp,")
    o.append("  lib/base/scriptframe.cpp, native registrations under lib/.")
    o.append("-/")
    o.append("namespace Icinga.Gen.SandboxGuards")
    o.append("")
    o.append("/-- (class, body of `X::DoEvaluate` starts with `if (frame.Sandboxed) BOOST_THROW_EXCEPTION(ScriptError(...))`) -/")
    o.append("def nodeGuards : List (String × Bool) := [")
    o.append(",\n".join("  (%s, %s)" % (lean_str(k), lean_bool(v)) for k, v in t["nodeGuards"]))
    o.append("]")
    o.append("")
    o.append("/-- (class, `X::GetReference` cannot write in a sandboxed frame) -/")
    o.append("def refGuards : List (String × Bool) := [")
    o.append(",\n".join("  (%s, %s)" % (lean_str(k), lean_bool(v)) for k, v in t["refGuards"]))
    o.append("]")
    o.append("")
    o.append("/-- FunctionCallExpression: `!func->IsSideEffectFree() && frame.Sandboxed` throws before the call -/")
    o.append("def callCheck : Bool := " + lean_bool(t["callCheck"]))
    o.append("/-- Object::GetFieldByName: `sandboxed` + FANoUserView throws before the field is read -/")
    o.append("def fieldCheck : Bool := " + lean_bool(t["fieldCheck"]))
    o.append("/-- IndexerExpression::GetReference forces `init_dict = false` under frame.Sandboxed before using it -/")
    o.append("def initDictOff : Bool := " + lean_bool(t["initDictOff"]))
    o.append("/-- Reference::Get reads its field with the literal `sandboxed = true` -/")
    o.append("def refGetSandboxed : Bool := " + lean_bool(t["refGetSandboxed"]))
    o.append("/-- ScriptFrame::InitializeFrame inherits `Sandboxed` from the enclosing frame -/")
    o.append("def frameInherits : Bool := " + lean_bool(t["frameInherits"]))
    o.append("/-- VMOps::NewFunction creates script functions that are not side-effect free -/")
    o.append("def scriptFunctionsUnsafe : Bool := " + lean_bool(t["scriptFunctionsUnsafe"]))
    o.append("")
    o.append("/-- (registered name, side-effect-free flag) of every native function and prototype method -/")
    o.append("def natives : List (String × Bool) := [")
    o.append(",\n".join("  (%s, %s)" % (lean_str(k), lean_bool(v)) for k, v in t["natives"]))
    o.append("]")
    o.append("")
    o.append("/-- natives that invoke a script-supplied function: (name, side-effect-free flag, tests the callback's flag under Sandboxed first) -/")
    o.append("def callbackInvokers : List (String × Bool × Bool) := [")
    o.append(",\n".join("  (%s, %s, %s)" % (lean_str(k), lean_bool(a), lean_bool(b)) for k, a, b in t["callbackInvokers"]))
    o.append("]")
    o.append("")
    o.append("end Icinga.Gen.SandboxGuards")
    return "\n".join(o) + "\n"


def generate(repo, out_path):
    t = extract(repo)
    text = render(t)
    os.makedirs(os.path.dirname(out_path), exist_ok=True)
    old = open(out_path, encoding="utf-8").read() if os.path.exists(out_path) else None
    if old != text:          # keep the mtime when nothing changed (no needless lake rebuild)
        tmp = out_path + ".tmp%d" % os.getpid()
        with open(tmp, "w", encoding="utf-8") as f:
            f.write(text)
        os.replace(tmp, out_path)
    return t


if __name__ == "__main__":
    repo = sys.argv[1] if len(sys.argv) > 1 else "/repo"
    out = sys.argv[2] if len(sys.argv) > 2 else os.path.join(os.path.dirname(os.path.dirname(os.path.abspath(__file__))), "lean", "IcingaProofs", "Gen", "SandboxGuards.lean")
    try:
        t = generate(repo, out)
    except Lost as e:
        print("LOST ANCHOR: %s" % e)
        sys.exit(1)
    print("nodes=%d guarded=%d natives=%d safe=%d invokers=%d callCheck=%s fieldCheck=%s" % (
        len(t["nodeGuards"]), sum(v for _, v in t["nodeGuards"]), len(t["natives"]), sum(v for _, v in t["natives"]),
        len(t["callbackInvokers"]), t["callCheck"], t["fieldCheck"]))

#!/usr/bin/env python3
"""C19 translator: /repo -> lean/IcingaProofs/Gen/SandboxGuards.lean   (DESIGN.md §0.4)

Extracted on every run from the working tree (anchored regexes + brace matching on the comment-stripped
source; a lost anchor raises Lost, which checks/c19.py turns into core.TieBroken):

  nodeGuards      for every `ExpressionResult X::DoEvaluate(ScriptFrame& frame, DebugHint *dhint) const`
                  in lib/config/expression.cpp: does the body START with
                  `if (frame.Sandboxed) BOOST_THROW_EXCEPTION(ScriptError(`
  refGuards       for every `bool X::GetReference(...)`: (a) starts with the throw guard, or
                  (b) forces `init_dict = false` under `frame.Sandboxed` before its first SetField
                  (IndexerExpression), or (c) contains no SetField at all (cannot write)
  initDictOff     IndexerExpression::GetReference has `if (frame.Sandboxed) init_dict = false;` before its first
                  use of init_dict / nested GetReference
  refGetSandboxed the literal `sandboxed` argument of GetFieldByName in Reference::Get (lib/base/reference.cpp)
  callCheck       FunctionCallExpression::DoEvaluate contains
                  `if (!func->IsSideEffectFree() && frame.Sandboxed) BOOST_THROW_EXCEPTION(` before the
                  arguments are evaluated and before VMOps::FunctionCall
  fieldCheck      Object::GetFieldByName (lib/base/object.cpp) throws for FANoUserView under `sandboxed`
                  before `return GetField(fid)`
  frameInherits   ScriptFrame::InitializeFrame copies `Sandboxed` from the enclosing frame
  scriptFunctionsUnsafe   VMOps::NewFunction builds `new Function(name, wrapper, argNames)` (no `true` flag)
  natives         every native registration: REGISTER_[SAFE_]FUNCTION[_NONCONST](ns, name, ...) (also via
                  REGISTER_STATSFUNCTION) and `new Function("Ns#name", callback, {args}[, safe[, deprecated]])`
                  -> (registered name, side-effect-free flag)
  callbackInvokers  natives whose C++ body calls `->Invoke(` on a script-supplied function:
                  (registered name, safe flag, has the `Sandboxed && !…IsSideEffectFree()` test before the
                  first Invoke)
"""
import glob
import os
import re
import sys


class Lost(Exception):
    pass


def strip_comments(src):
    out = []
    i, n = 0, len(src)
    while i < n:
        c = src[i]
        if src.startswith("//", i):
            j = src.find("\n", i)
            i = n if j < 0 else j
        elif src.startswith("/*", i):
            j = src.find("*/", i + 2)
            seg = src[i:(n if j < 0 else j + 2)]
            out.append("\n" * seg.count("\n"))
            i = n if j < 0 else j + 2
        elif c == '"':
            j = i + 1
            while j < n and src[j] != '"':
                j += 2 if src[j] == "\\" else 1
            out.append(src[i:j + 1])
            i = j + 1
        elif c == "'":
            j = i + 1
            while j < n and src[j] != "'":
                j += 2 if src[j] == "\\" else 1
            out.append(src[i:j + 1])
            i = j + 1
        else:
            out.append(c)
            i += 1
    return "".join(out)


def match_close(src, start, open_ch="{", close_ch="}"):
    """src[start] == open_ch; index of the matching close (string literals skipped)."""
    depth = 0
    i, n = start, len(src)
    while i < n:
        c = src[i]
        if c == '"':
            i += 1
            while i < n and src[i] != '"':
                i += 2 if src[i] == "\\" else 1
        elif c == "'":
            i += 1
            while i < n and src[i] != "'":
                i += 2 if src[i] == "\\" else 1
        elif c == open_ch:
            depth += 1
        elif c == close_ch:
            depth -= 1
            if depth == 0:
                return i
        i += 1
    raise Lost("unbalanced %s at offset %d" % (open_ch, start))


def read(repo, rel):
    p = os.path.join(repo, rel)
    if not os.path.exists(p):
        raise Lost("file missing: " + rel)
    return strip_comments(open(p, encoding="utf-8", errors="replace").read())



# ------------------------------------------------------------------------------------------------
# Semantic recognition, token level (fallback for the AST, and the only extractor for object.cpp /
# reference.cpp / GetReference).  Works on comment-stripped source.

KEYWORD_RE = re.compile(r"\s*(if|for|while|switch|try|do|else)\b")


def _skip_ws(s, i):
    while i < len(s) and s[i].isspace():
        i += 1
    return i


def parse_stmt(s, i):
    """One statement starting at s[i:] -> (node, end).  node = ("if", cond, then, else|None) |
    ("block", [nodes]) | ("loop", text) | ("simple", text)."""
    i = _skip_ws(s, i)
    if i >= len(s):
        return None, i
    if s[i] == "{":
        e = match_close(s, i)
        return ("block", parse_stmts(s[i + 1:e])), e + 1
    m = KEYWORD_RE.match(s, i)
    if m and m.group(1) == "if":
        p0 = s.index("(", m.end() - 0)
        p1 = match_close(s, p0, "(", ")")
        cond = s[p0 + 1:p1]
        then, j = parse_stmt(s, p1 + 1)
        k = _skip_ws(s, j)
        els = None
        m2 = re.compile(r"else\b").match(s, k)
        if m2:
            els, j = parse_stmt(s, m2.end())
        return ("if", cond, then, els), j
    if m and m.group(1) in ("for", "while", "switch"):
        p0 = s.index("(", m.end())
        p1 = match_close(s, p0, "(", ")")
        body, j = parse_stmt(s, p1 + 1)
        return ("loop", s[i:j]), j
    if m and m.group(1) == "do":
        body, j = parse_stmt(s, m.end())
        k = s.index(";", j)
        return ("loop", s[i:k + 1]), k + 1
    if m and m.group(1) == "try":
        body, j = parse_stmt(s, m.end())
        while True:
            k = _skip_ws(s, j)
            m3 = re.compile(r"catch\b").match(s, k)
            if not m3:
                break
            p0 = s.index("(", m3.end())
            p1 = match_close(s, p0, "(", ")")
            h, j = parse_stmt(s, p1 + 1)
        return ("loop", s[i:j]), j
    # simple statement: up to the `;` at depth 0
    depth, j = 0, i
    while j < len(s):
        c = s[j]
        if c == '"' or c == "'":
            q = c
            j += 1
            while j < len(s) and s[j] != q:
                j += 2 if s[j] == "\\" else 1
        elif c in "([{":
            depth += 1
        elif c in ")]}":
            depth -= 1
        elif c == ";" and depth == 0:
            break
        j += 1
    return ("simple", s[i:j + 1].strip()), j + 1


def parse_stmts(s):
    out, i = [], 0
    while True:
        n, i = parse_stmt(s, i)
        if n is None:
            break
        if n == ("simple", ";") or n == ("simple", ""):
            continue
        out.append(n)
    return out


def _strip_parens(c):
    c = c.strip()
    while c.startswith("(") and match_close(c, 0, "(", ")") == len(c) - 1:
        c = c[1:-1].strip()
    return c


def _split_top(c, op):
    parts, depth, cur, i = [], 0, [], 0
    while i < len(c):
        ch = c[i]
        if ch in "([{":
            depth += 1
        elif ch in ")]}":
            depth -= 1
        if depth == 0 and c.startswith(op, i):
            parts.append("".join(cur))
            cur = []
            i += len(op)
            continue
        cur.append(ch)
        i += 1
    parts.append("".join(cur))
    return parts


def norm_atom(a):
    """Canonical spelling of one conjunct: no blanks, no redundant parentheses, `x == true` -> x,
    `x == false` / `false == x` / `!(x)` -> !x, `(e) != 0` -> e."""
    a = re.sub(r"\s+", "", _strip_parens(a))
    changed = True
    while changed:
        changed = False
        for pat, fn in ((r"^(.*)==true$", lambda m: m.group(1)), (r"^true==(.*)$", lambda m: m.group(1)),
                        (r"^(.*)!=false$", lambda m: m.group(1)), (r"^(.*)!=0$", lambda m: m.group(1)),
                        (r"^(.*)==false$", lambda m: "!" + _strip_parens(m.group(1))),
                        (r"^false==(.*)$", lambda m: "!" + _strip_parens(m.group(1)))):
            m = re.match(pat, a)
            if m and "&&" not in a and "||" not in a:
                a = _strip_parens(fn(m))
                changed = True
        if a.startswith("!(") and match_close(a, 1, "(", ")") == len(a) - 1 and "&&" not in a and "||" not in a:
            a = "!" + _strip_parens(a[1:])
            changed = True
        if a.startswith("!!"):
            a = a[2:]
            changed = True
    return a


def conjuncts(cond):
    """The set of conjuncts of a condition; None if it contains a top-level `||` (not a plain conjunction)."""
    c = _strip_parens(cond)
    if len(_split_top(c, "||")) > 1:
        return None
    out = []
    for part in _split_top(c, "&&"):
        p = _strip_parens(part)
        if len(_split_top(p, "&&")) > 1 or len(_split_top(p, "||")) > 1:
            sub = conjuncts(p)
            if sub is None:
                return None
            out += sub
        else:
            out.append(norm_atom(p))
    return sorted(set(out))


PLAIN_BEFORE_THROW = re.compile(r"^(Log\s*\(|[A-Za-z_][\w:<>\s\*&]*\s+[A-Za-z_]\w*\s*(=|\(|;)|[A-Za-z_][\w\.\->]*\s*(<<|\())")


def throws_unconditionally(node):
    """The statement cannot complete normally: a throw, or a block of plain statements ending in one."""
    if node is None:
        return False
    if node[0] == "simple":
        t = node[1]
        return bool(re.match(r"(BOOST_THROW_EXCEPTION\s*\(|throw\b|(::)?boost::throw_exception\s*\()", t))
    if node[0] == "block":
        body = node[1]
        if not body or not throws_unconditionally(body[-1]):
            return False
        return all(b[0] == "simple" and not re.match(r"(return|goto|break|continue)\b", b[1]) for b in body[:-1])
    return False


def is_guard_if(node, want):
    """`if (<exactly the conjuncts want>) <unconditional throw>` (an else branch does not matter)."""
    return (node is not None and node[0] == "if" and conjuncts(node[1]) == sorted(want)
            and throws_unconditionally(node[2]))


def text_node_guard(body):
    st = parse_stmts(body)
    return bool(st) and is_guard_if(st[0], ["frame.Sandboxed"])


def _contains(node, needle):
    if node is None:
        return False
    if node[0] in ("simple", "loop"):
        return needle in node[1]
    if node[0] == "block":
        return any(_contains(b, needle) for b in node[1])
    if node[0] == "if":
        return needle in node[1] or _contains(node[2], needle) or _contains(node[3], needle)
    return False


SIDE_EFFECT_ATOM = re.compile(r"^!\w+->IsSideEffectFree\(\)$")


def text_call_check(body):
    st = parse_stmts(body)
    for n in st:
        if _contains(n, "VMOps::FunctionCall(") or _contains(n, "VMOps::FunctionCall ("):
            return False                       # reached the call without having seen the check
        if n[0] == "if" and throws_unconditionally(n[2]):
            cj = conjuncts(n[1])
            if cj is not None and len(cj) == 2 and "frame.Sandboxed" in cj and any(SIDE_EFFECT_ATOM.match(a) for a in cj):
                return True
    return False


NUV_ATOM = re.compile(r"^[\w\.\->\(\)]*\.Attributes&FANoUserView$")


def text_field_check(body):
    """object.cpp Object::GetFieldByName: before the field is read (`return GetField(fid)`), under `sandboxed`
    a FANoUserView field throws — nested ifs or one conjunction."""
    for n in parse_stmts(body):
        if _contains(n, "GetField(fid)") and not (n[0] == "if"):
            return False
        if n[0] != "if":
            continue
        cj = conjuncts(n[1])
        if cj is None:
            continue
        if len(cj) == 2 and "sandboxed" in cj and any(NUV_ATOM.match(a) for a in cj) and throws_unconditionally(n[2]):
            return True
        if cj == ["sandboxed"]:
            inner = n[2][1] if n[2] and n[2][0] == "block" else [n[2]]
            for m in inner:
                if m and m[0] == "if":
                    c2 = conjuncts(m[1])
                    if c2 is not None and len(c2) == 1 and NUV_ATOM.match(c2[0]) and throws_unconditionally(m[2]):
                        return True
                if m and (_contains(m, "return") and m[0] == "simple"):
                    break
    return False


def text_init_dict_off(body):
    """IndexerExpression::GetReference: `init_dict` is forced to false under frame.Sandboxed before it is used."""
    for n in parse_stmts(body):
        if n[0] == "if" and conjuncts(n[1]) == ["frame.Sandboxed"] and n[3] is None:
            inner = n[2][1] if n[2] and n[2][0] == "block" else [n[2]]
            if len(inner) == 1 and inner[0][0] == "simple" and re.sub(r"\s+", "", inner[0][1]) == "init_dict=false;":
                return True
        if n[0] == "simple" and re.sub(r"\s+", "", n[1]) in ("init_dict=init_dict&&!frame.Sandboxed;", "init_dict=!frame.Sandboxed&&init_dict;",
                                                            "init_dict&=!frame.Sandboxed;", "if(frame.Sandboxed)init_dict=false;"):
            return True
        if _contains(n, "init_dict") or _contains(n, "GetReference(") or _contains(n, "SetField"):
            return False                       # used (or a write reached) before it was switched off
    return False


# ------------------------------------------------------------------------------------------------
# Semantic recognition from the clang JSON AST (preferred for expression.cpp)

TRANSPARENT = ("ImplicitCastExpr", "ParenExpr", "ExprWithCleanups", "MaterializeTemporaryExpr", "CXXBindTemporaryExpr",
               "CXXFunctionalCastExpr", "ConstantExpr")


def a_strip(n):
    while n and n.get("kind") in TRANSPARENT and len(n.get("inner", [])) == 1:
        n = n["inner"][0]
    return n


def a_bool_lit(n):
    n = a_strip(n)
    return n.get("value") if n and n.get("kind") == "CXXBoolLiteralExpr" else None


def a_is_frame_sandboxed(n):
    n = a_strip(n)
    if not n:
        return False
    if n.get("kind") == "BinaryOperator" and n.get("opcode") in ("==", "!="):
        l, r = n["inner"]
        for x, y in ((l, r), (r, l)):
            b = a_bool_lit(y)
            if b is not None and ((n["opcode"] == "==") == bool(b)):
                return a_is_frame_sandboxed(x)
        return False
    if n.get("kind") == "MemberExpr" and n.get("name") == "Sandboxed":
        base = a_strip(n["inner"][0])
        return base.get("kind") == "DeclRefExpr" and (base.get("referencedDecl") or {}).get("name") == "frame" \
            and (base.get("referencedDecl") or {}).get("kind") == "ParmVarDecl"
    return False


def a_is_not_side_effect_free(n):
    n = a_strip(n)
    if not n:
        return False

    def is_call(x):
        x = a_strip(x)
        return x and x.get("kind") == "CXXMemberCallExpr" and a_strip(x["inner"][0]).get("name") == "IsSideEffectFree"
    if n.get("kind") == "UnaryOperator" and n.get("opcode") == "!":
        return is_call(n["inner"][0])
    if n.get("kind") == "BinaryOperator" and n.get("opcode") in ("==", "!="):
        l, r = n["inner"]
        for x, y in ((l, r), (r, l)):
            b = a_bool_lit(y)
            if b is not None and ((n["opcode"] == "==") != bool(b)):
                return is_call(x)
    return False


def a_conjuncts(n):
    n = a_strip(n)
    if n and n.get("kind") == "BinaryOperator" and n.get("opcode") == "&&":
        return a_conjuncts(n["inner"][0]) + a_conjuncts(n["inner"][1])
    return [n]


def a_throws(n):
    n = a_strip(n)
    if not n:
        return False
    k = n.get("kind")
    if k == "CXXThrowExpr":
        return True
    if k == "CallExpr":
        cal = a_strip(n["inner"][0])
        return cal.get("kind") == "DeclRefExpr" and (cal.get("referencedDecl") or {}).get("name", "").startswith("throw_exception")
    if k == "CompoundStmt":
        inner = [c for c in n.get("inner", []) if c.get("kind") != "NullStmt"]
        if not inner or not a_throws(inner[-1]):
            return False
        return all(c.get("kind") in ("DeclStmt", "CallExpr", "CXXMemberCallExpr", "CXXOperatorCallExpr", "ExprWithCleanups") for c in inner[:-1])
    return False


def a_if_parts(n):
    if not n or n.get("kind") != "IfStmt" or n.get("hasInit") or n.get("hasVar") or n.get("isConstexpr"):
        return None
    inner = n.get("inner", [])
    if len(inner) < 2:
        return None
    return inner[0], inner[1]


def a_contains_call(n, name):
    if not isinstance(n, dict):
        return False
    if n.get("kind") == "DeclRefExpr" and (n.get("referencedDecl") or {}).get("name") == name:
        return True
    return any(a_contains_call(c, name) for c in n.get("inner", []))


def ast_expression_tables(repo, build, cache_dir=None):
    """{class: guarded} for every DoEvaluate with a body in expression.cpp, and the call check — or None if the
    AST is not available (no clang, no configured build tree, compile error)."""
    import hashlib
    import json
    import shutil
    import subprocess
    clang = shutil.which("clang++-14") or shutil.which("clang++")
    src = os.path.join(repo, "lib/config/expression.cpp")
    if not clang or not build or not os.path.isdir(build):
        return None
    h = hashlib.sha1()
    for rel in ("lib/config/expression.cpp", "lib/config/expression.hpp", "lib/config/vmops.hpp", "lib/base/scriptframe.hpp", "lib/base/function.hpp"):
        try:
            h.update(open(os.path.join(repo, rel), "rb").read())
        except OSError:
            return None
    h.update(open(os.path.abspath(__file__), "rb").read())
    key = h.hexdigest()
    if cache_dir:
        cp = os.path.join(cache_dir, key + ".json")
        if os.path.exists(cp):
            try:
                return json.load(open(cp))
            except ValueError:
                pass
    cmd = [clang, "-std=gnu++17", "-fsyntax-only", "-w", "-DICINGA2_VERIF", "-DBOOST_ASIO_USE_TS_EXECUTOR_AS_DEFAULT",
           "-DBOOST_COROUTINES_NO_DEPRECATION_WARNING", "-DBOOST_FILESYSTEM_NO_DEPRECATED", "-D_GNU_SOURCE",
           "-I" + repo, "-I" + os.path.join(repo, "lib"), "-I" + build, "-I" + os.path.join(build, "lib"),
           "-isystem", os.path.join(repo, "third-party/nlohmann_json"), "-isystem", os.path.join(repo, "third-party/utf8cpp/source"),
           "-isystem", os.path.join(repo, "third-party"),
           "-Xclang", "-ast-dump=json", "-Xclang", "-ast-dump-filter=DoEvaluate", src]
    try:
        p = subprocess.run(cmd, stdout=subprocess.PIPE, stderr=subprocess.PIPE, timeout=300)
    except (OSError, subprocess.TimeoutExpired):
        return None
    if p.returncode != 0:
        return None
    res = ast_tables_from_dump(p.stdout.decode("utf-8", "replace"))
    if res is not None and cache_dir:
        os.makedirs(cache_dir, exist_ok=True)
        with open(os.path.join(cache_dir, key + ".json"), "w") as f:
            json.dump(res, f)
    return res


def ast_tables_from_dump(txt):
    import json
    dec = json.JSONDecoder()
    i, guards, call = 0, {}, None
    while i < len(txt):
        while i < len(txt) and txt[i] != "{":          # skips blanks and `Dumping …:` headers
            j = txt.find("\n", i)
            if txt[i] in " \r\n\t":
                i += 1
            else:
                i = len(txt) if j < 0 else j + 1
        if i >= len(txt):
            break
        try:
            d, i = dec.raw_decode(txt, i)
        except ValueError:
            return None
        if d.get("kind") != "CXXMethodDecl" or d.get("name") != "DoEvaluate":
            continue
        body = [c for c in d.get("inner", []) if c.get("kind") == "CompoundStmt"]
        if not body:
            continue
        mm = re.match(r"_ZNK\d+icinga(\d+)", d.get("mangledName", "")) or re.match(r"_ZNK(\d+)", d.get("mangledName", ""))
        if not mm:
            continue
        n = int(mm.group(1))
        cls = d["mangledName"][mm.end():mm.end() + n]
        stmts = [c for c in body[0].get("inner", []) if c.get("kind") != "NullStmt"]
        g = False
        if stmts:
            parts = a_if_parts(stmts[0])
            if parts:
                cj = a_conjuncts(parts[0])
                g = len(cj) >= 1 and all(a_is_frame_sandboxed(c) for c in cj) and a_throws(parts[1])
        guards[cls] = g
        if cls == "FunctionCallExpression":
            call = False
            for st in stmts:
                if a_contains_call(st, "FunctionCall"):
                    break
                parts = a_if_parts(st)
                if parts and a_throws(parts[1]):
                    cj = a_conjuncts(parts[0])
                    if len(cj) == 2 and any(a_is_frame_sandboxed(c) for c in cj) and any(a_is_not_side_effect_free(c) for c in cj):
                        call = True
                        break
    if not guards:
        return None
    return {"guards": guards, "callCheck": call}


THROW_GUARD = re.compile(r"\s*if\s*\(\s*frame\.Sandboxed\s*\)\s*BOOST_THROW_EXCEPTION\s*\(\s*ScriptError\s*\(")


def bodies(src, sig_re):
    """(class name, body text) for every definition matching sig_re (group 1 = class)."""
    res = []
    for m in sig_re.finditer(src):
        b = src.index("{", m.end() - 1)
        e = match_close(src, b)
        res.append((m.group(1), src[b + 1:e]))
    return res


def split_args(s):
    parts, depth, cur = [], 0, []
    i, n = 0, len(s)
    while i < n:
        c = s[i]
        if c == '"':
            j = i + 1
            while j < n and s[j] != '"':
                j += 2 if s[j] == "\\" else 1
            cur.append(s[i:j + 1])
            i = j + 1
            continue
        if c in "({[":
            depth += 1
        elif c in ")}]":
            depth -= 1
        if c == "," and depth == 0:
            parts.append("".join(cur).strip())
            cur = []
        else:
            cur.append(c)
        i += 1
    if "".join(cur).strip():
        parts.append("".join(cur).strip())
    return parts


def _setfield_only_under_init_dict(node, under=False):
    if node is None:
        return True
    if node[0] in ("simple", "loop"):
        return under or "SetField" not in node[1]
    if node[0] == "block":
        return all(_setfield_only_under_init_dict(b, under) for b in node[1])
    if node[0] == "if":
        u = under or conjuncts(node[1]) == ["init_dict"]
        return ("SetField" not in node[1]) and _setfield_only_under_init_dict(node[2], u) and _setfield_only_under_init_dict(node[3], under)
    return True


def extract(repo, build=None, cache=None, use_ast=True):
    t = {}
    expr = read(repo, "lib/config/expression.cpp")

    # --- node guards
    ev = bodies(expr, re.compile(r"^ExpressionResult\s+(\w+)::DoEvaluate\s*\(\s*ScriptFrame\s*&\s*frame\s*,\s*DebugHint\s*\*\s*dhint\s*\)\s*const\s*\{", re.M))
    if len(ev) < 40:
        raise Lost("expression.cpp: only %d DoEvaluate definitions found (anchor `ExpressionResult X::DoEvaluate(ScriptFrame& frame, DebugHint *dhint) const`)" % len(ev))
    names = [k for k, _ in ev]
    if len(set(names)) != len(names):
        raise Lost("expression.cpp: duplicate DoEvaluate definition")
    for must in ("SetExpression", "SetConstExpression", "FunctionCallExpression", "IndexerExpression", "LiteralExpression"):
        if must not in names:
            raise Lost("expression.cpp: %s::DoEvaluate not found" % must)
    text_guards = [(k, text_node_guard(b)) for k, b in ev]
    ast = ast_expression_tables(repo, build, cache) if use_ast else None
    t["method"] = "text"
    t["ast_text_disagree"] = []
    if ast and all(k in ast["guards"] for k in names) and ast.get("callCheck") is not None:
        # the AST is authoritative (it sees through macros, typedefs and layout); the token-level result is kept
        # as a cross-check and reported when it differs
        t["method"] = "clang-ast"
        t["nodeGuards"] = [(k, bool(ast["guards"][k])) for k in names]
        t["ast_text_disagree"] = [k for k, g in text_guards if bool(ast["guards"][k]) != g]
    else:
        t["nodeGuards"] = text_guards

    # --- reference guards
    rf = bodies(expr, re.compile(r"^bool\s+(\w+)::GetReference\s*\(\s*ScriptFrame\s*&\s*frame\s*,[^)]*\)\s*const\s*\{", re.M))
    if not any(k == "IndexerExpression" for k, _ in rf):
        raise Lost("expression.cpp: IndexerExpression::GetReference not found")
    refs = []
    for k, b in rf:
        if text_node_guard(b) or "SetField" not in b:
            ok = True
        else:
            # init_dict is switched off under frame.Sandboxed before its first use, and every SetField sits
            # under `if (init_dict)`
            ok = text_init_dict_off(b) and all(_setfield_only_under_init_dict(n) for n in parse_stmts(b))
        refs.append((k, ok))
    t["refGuards"] = refs

    # --- the init_dict guard itself (expression.cpp:758-759), as an entry of its own
    ib = dict(rf)["IndexerExpression"]
    t["initDictOff"] = text_init_dict_off(ib)

    # --- references (lib/base/reference.cpp): which sandbox flag does a read through a Reference use
    rsrc = read(repo, "lib/base/reference.cpp")
    gb = bodies(rsrc, re.compile(r"^Value\s+(Reference)::Get\s*\(\s*\)\s*const\s*\{", re.M))
    if len(gb) != 1:
        raise Lost("reference.cpp: Value Reference::Get() const not found")
    m = re.search(r"GetFieldByName\s*\(", gb[0][1])
    if not m:
        raise Lost("reference.cpp: GetFieldByName call not found in Reference::Get")
    p0 = gb[0][1].index("(", m.end() - 1)
    a = split_args(gb[0][1][p0 + 1:match_close(gb[0][1], p0, "(", ")")])
    if len(a) < 2:
        raise Lost("reference.cpp: cannot read the sandboxed argument of GetFieldByName in Reference::Get")
    t["refGetSandboxed"] = norm_atom(a[1]) == "true"

    # --- call check
    fc = dict(ev)["FunctionCallExpression"]
    call = fc.find("VMOps::FunctionCall")
    if call < 0:
        raise Lost("expression.cpp: VMOps::FunctionCall not found in FunctionCallExpression::DoEvaluate")
    tc = text_call_check(fc)
    if t["method"] == "clang-ast":
        t["callCheck"] = bool(ast["callCheck"])
        if bool(ast["callCheck"]) != tc:
            t["ast_text_disagree"].append("callCheck")
    else:
        t["callCheck"] = tc

    # --- hidden fields
    obj = read(repo, "lib/base/object.cpp")
    gb = bodies(obj, re.compile(r"^Value\s+(Object)::GetFieldByName\s*\([^)]*bool\s+sandboxed[^)]*\)\s*const\s*\{", re.M))
    if len(gb) != 1:
        raise Lost("object.cpp: Object::GetFieldByName(const String&, bool sandboxed, ...) not found")
    b = gb[0][1]
    if "GetField(fid)" not in b:
        raise Lost("object.cpp: `GetField(fid)` not found in GetFieldByName")
    t["fieldCheck"] = text_field_check(b)

    # --- frame inheritance
    sf = read(repo, "lib/base/scriptframe.cpp")
    ib = bodies(sf, re.compile(r"^void\s+(ScriptFrame)::InitializeFrame\s*\(\s*\)\s*\{", re.M))
    if len(ib) != 1:
        raise Lost("scriptframe.cpp: ScriptFrame::InitializeFrame not found")
    t["frameInherits"] = bool(re.search(r"Sandboxed\s*=\s*frame->Sandboxed\s*;", ib[0][1]))

    # --- script functions are not side-effect free
    vm = read(repo, "lib/config/vmops.hpp")
    m = re.search(r"static\s+inline\s+Value\s+NewFunction\s*\(", vm)
    if not m:
        raise Lost("vmops.hpp: VMOps::NewFunction not found")
    b0 = vm.index("{", vm.index(")", m.end()))
    nb = vm[b0:match_close(vm, b0)]
    m = re.search(r"return\s+new\s+Function\s*\(", nb)
    if not m:
        raise Lost("vmops.hpp: `return new Function(` not found in NewFunction")
    p0 = nb.index("(", m.end() - 1)
    args = split_args(nb[p0 + 1:match_close(nb, p0, "(", ")")])
    t["scriptFunctionsUnsafe"] = len(args) <= 3 or args[3] == "false"

    # --- natives
    natives = {}
    invokers = []
    files = sorted(glob.glob(os.path.join(repo, "lib", "**", "*.cpp"), recursive=True))
    reg_re = re.compile(r"^\s*REGISTER_(SAFE_)?FUNCTION(_NONCONST)?\s*\(\s*(\w+)\s*,\s*(\w+)\s*,", re.M)
    stats_re = re.compile(r"^\s*REGISTER_STATSFUNCTION\s*\(\s*(\w+)\s*,", re.M)
    newf_re = re.compile(r"new\s+Function\s*\(")
    n_macro = n_new = 0
    for f in files:
        raw = open(f, encoding="utf-8", errors="replace").read()
        if "Function" not in raw and "FUNCTION" not in raw:
            continue
        src = strip_comments(raw)
        for m in reg_re.finditer(src):
            natives[m.group(3) + "#" + m.group(4)] = bool(m.group(1))
            n_macro += 1
        for m in stats_re.finditer(src):
            natives["StatsFunctions#" + m.group(1)] = False
            n_macro += 1
        for m in newf_re.finditer(src):
            p0 = src.index("(", m.end() - 1)
            args = split_args(src[p0 + 1:match_close(src, p0, "(", ")")])
            if not args or not re.fullmatch(r'"[^"]*"', args[0]):
                continue        # not a literal-named native (e.g. the script function wrapper)
            name = args[0][1:-1]
            if "#" not in name:
                continue        # temporaries that never enter a namespace or prototype
            safe = len(args) >= 4 and args[3] == "true"
            if len(args) >= 4 and args[3] not in ("true", "false"):
                raise Lost("%s: cannot read the side_effect_free argument of new Function(%s, ...): %r" % (os.path.relpath(f, repo), args[0], args[3]))
            natives[name] = safe
            n_new += 1
            # does the callback invoke a script-supplied function?
            cb = args[1].lstrip("&") if len(args) > 1 else ""
            cm = re.search(r"^static\s+[\w:<>\s&\*]+?\b" + re.escape(cb) + r"\s*\([^)]*\)\s*\{", src, re.M) if re.fullmatch(r"\w+", cb) else None
            if cm:
                b0 = src.index("{", cm.end() - 1)
                body = src[b0:match_close(src, b0)]
                iv = re.search(r"->\s*Invoke(This)?\s*\(", body)
                if iv:
                    ck = re.search(r"Sandboxed\s*&&\s*!\s*\w+->IsSideEffectFree\s*\(\s*\)|!\s*\w+->IsSideEffectFree\s*\(\s*\)\s*&&\s*\w+(->|\.)Sandboxed", body)
                    invokers.append((name, safe, bool(ck) and ck.start() < iv.start()))
    if n_macro < 20 or n_new < 40:
        raise Lost("native registrations: only %d macro and %d `new Function` registrations found" % (n_macro, n_new))
    if "Array#map" not in natives or "System#regex" not in natives:
        raise Lost("native registrations: Array#map / System#regex not found")
    t["natives"] = sorted(natives.items())
    t["callbackInvokers"] = sorted(invokers)
    return t


# ------------------------------------------------------------------------------------------------
# Self-test: fragments with equivalent spellings (must be recognised) and removed/weakened guards (must not)

def selftest(use_ast=True):
    """Runs both extractors over gen/c19_selftest/*.cpp; returns a list of failure descriptions."""
    import glob as _glob
    import shutil
    import subprocess
    d = os.path.join(os.path.dirname(os.path.abspath(__file__)), "c19_selftest")
    files = sorted(_glob.glob(os.path.join(d, "*.cpp")))
    fails, checked = [], 0
    if len(files) < 20:
        return ["self-test corpus incomplete: %d fragments in %s" % (len(files), d)], 0
    clang = (shutil.which("clang++-14") or shutil.which("clang++")) if use_ast else None
    sig = re.compile(r"^ExpressionResult\s+(\w+)::DoEvaluate\s*\(\s*ScriptFrame\s*&\s*frame\s*,\s*DebugHint\s*\*\s*dhint\s*\)\s*const\s*\{", re.M)
    for f in files:
        raw = open(f, encoding="utf-8").read()
        exp = {}
        for m in re.finditer(r"//\s*EXPECT\s+(.*)", raw):
            for kv in m.group(1).split():
                k, v = kv.split("=")
                exp[k] = v == "1"
        src = strip_comments(raw)
        got = {}
        for k, b in bodies(src, sig):
            got[k] = text_node_guard(b)
            if k == "FunctionCallExpression":
                got = {"callCheck": text_call_check(b)}
        for _, b in bodies(src, re.compile(r"^Value\s+(Object)::GetFieldByName\s*\([^)]*bool\s+sandboxed[^)]*\)\s*const\s*\{", re.M)):
            got["fieldCheck"] = text_field_check(b)
        for _, b in bodies(src, re.compile(r"^bool\s+(IndexerExpression)::GetReference\s*\([^)]*\)\s*const\s*\{", re.M)):
            got["initDictOff"] = text_init_dict_off(b)
        for _, b in bodies(src, re.compile(r"^Value\s+(Reference)::Get\s*\(\s*\)\s*const\s*\{", re.M)):
            m = re.search(r"GetFieldByName\s*\(", b)
            p0 = b.index("(", m.end() - 1)
            got["refGetSandboxed"] = norm_atom(split_args(b[p0 + 1:match_close(b, p0, "(", ")")])[1]) == "true"
        for k, v in exp.items():
            checked += 1
            if got.get(k) is not v:
                fails.append("%s: token-level extractor says %s=%s, expected %s" % (os.path.basename(f), k, got.get(k), v))
        if clang and not f.endswith(".txt.cpp"):
            p = subprocess.run([clang, "-std=gnu++17", "-fsyntax-only", "-w", "-I" + d, "-Xclang", "-ast-dump=json",
                                "-Xclang", "-ast-dump-filter=DoEvaluate", f], stdout=subprocess.PIPE, stderr=subprocess.PIPE)
            if p.returncode != 0:
                fails.append("%s: fragment does not compile: %s" % (os.path.basename(f), p.stderr.decode()[-300:]))
                continue
            a = ast_tables_from_dump(p.stdout.decode("utf-8", "replace"))
            if a is None:
                fails.append("%s: no AST result" % os.path.basename(f))
                continue
            for k, v in exp.items():
                checked += 1
                g = a["callCheck"] if k == "callCheck" else a["guards"].get(k)
                if g is not v:
                    fails.append("%s: AST extractor says %s=%s, expected %s" % (os.path.basename(f), k, g, v))
    return fails, checked


def lean_str(s):
    return '"' + s.replace("\\", "\\\\").replace('"', '\\"') + '"'


def lean_bool(b):
    return "true" if b else "false"


def render(t):
    o = []
    o.append("/-")
    o.append("  GENERATED by gen/c19_sandbox_guards.py from /repo on every `./check C19` — do not edit.")
    o.append("  Sources: lib/config/expression.cpp, lib/config/vmops.hpp, lib/base/object.cpp,")
    o.append("  lib/base/scriptframe.cpp, native registrations under lib/.")
    o.append("-/")
    o.append("namespace Icinga.Gen.SandboxGuards")
    o.append("")
    o.append("/-- (class, body of `X::DoEvaluate` starts with `if (frame.Sandboxed) BOOST_THROW_EXCEPTION(ScriptError(...))`) -/")
    o.append("def nodeGuards : List (String × Bool) := [")
    o.append(",\n".join("  (%s, %s)" % (lean_str(k), lean_bool(v)) for k, v in t["nodeGuards"]))
    o.append("]")
    o.append("")
    o.append("/-- (class, `X::GetReference` cannot write in a sandboxed frame) -/")
    o.append("def refGuards : List (String × Bool) := [")
    o.append(",\n".join("  (%s, %s)" % (lean_str(k), lean_bool(v)) for k, v in t["refGuards"]))
    o.append("]")
    o.append("")
    o.append("/-- FunctionCallExpression: `!func->IsSideEffectFree() && frame.Sandboxed` throws before the call -/")
    o.append("def callCheck : Bool := " + lean_bool(t["callCheck"]))
    o.append("/-- Object::GetFieldByName: `sandboxed` + FANoUserView throws before the field is read -/")
    o.append("def fieldCheck : Bool := " + lean_bool(t["fieldCheck"]))
    o.append("/-- IndexerExpression::GetReference forces `init_dict = false` under frame.Sandboxed before using it -/")
    o.append("def initDictOff : Bool := " + lean_bool(t["initDictOff"]))
    o.append("/-- Reference::Get reads its field with the literal `sandboxed = true` -/")
    o.append("def refGetSandboxed : Bool := " + lean_bool(t["refGetSandboxed"]))
    o.append("/-- ScriptFrame::InitializeFrame inherits `Sandboxed` from the enclosing frame -/")
    o.append("def frameInherits : Bool := " + lean_bool(t["frameInherits"]))
    o.append("/-- VMOps::NewFunction creates script functions that are not side-effect free -/")
    o.append("def scriptFunctionsUnsafe : Bool := " + lean_bool(t["scriptFunctionsUnsafe"]))
    o.append("")
    o.append("/-- (registered name, side-effect-free flag) of every native function and prototype method -/")
    o.append("def natives : List (String × Bool) := [")
    o.append(",\n".join("  (%s, %s)" % (lean_str(k), lean_bool(v)) for k, v in t["natives"]))
    o.append("]")
    o.append("")
    o.append("/-- natives that invoke a script-supplied function: (name, side-effect-free flag, tests the callback's flag under Sandboxed first) -/")
    o.append("def callbackInvokers : List (String × Bool × Bool) := [")
    o.append(",\n".join("  (%s, %s, %s)" % (lean_str(k), lean_bool(a), lean_bool(b)) for k, a, b in t["callbackInvokers"]))
    o.append("]")
    o.append("")
    o.append("end Icinga.Gen.SandboxGuards")
    return "\n".join(o) + "\n"


def default_build():
    root = os.path.dirname(os.path.dirname(os.path.abspath(__file__)))
    work = os.environ.get("VERIF_WORK", os.path.join(root, "_work"))
    return os.path.join(work, "build-hooks"), os.path.join(work, "c19", "astcache")


def generate(repo, out_path, build=None, cache=None, use_ast=True):
    if build is None:
        build, cache = default_build()
    t = extract(repo, build, cache, use_ast)
    text = render(t)
    os.makedirs(os.path.dirname(out_path), exist_ok=True)
    old = open(out_path, encoding="utf-8").read() if os.path.exists(out_path) else None
    if old != text:          # keep the mtime when nothing changed (no needless lake rebuild)
        tmp = out_path + ".tmp%d" % os.getpid()
        with open(tmp, "w", encoding="utf-8") as f:
            f.write(text)
        os.replace(tmp, out_path)
    return t


if __name__ == "__main__":
    if len(sys.argv) > 1 and sys.argv[1] == "--selftest":
        fails, n = selftest()
        print("self-test: %d expectations checked, %d failures" % (n, len(fails)))
        for x in fails:
            print("  " + x)
        sys.exit(1 if fails else 0)
    repo = sys.argv[1] if len(sys.argv) > 1 else "/repo"
    out = sys.argv[2] if len(sys.argv) > 2 else os.path.join(os.path.dirname(os.path.dirname(os.path.abspath(__file__))), "lean", "IcingaProofs", "Gen", "SandboxGuards.lean")
    try:
        t = generate(repo, out)
    except Lost as e:
        print("LOST ANCHOR: %s" % e)
        sys.exit(1)
    print("method=%s disagree=%s nodes=%d guarded=%d natives=%d safe=%d invokers=%d callCheck=%s fieldCheck=%s" % (
        t["method"], t["ast_text_disagree"],
        len(t["nodeGuards"]), sum(v for _, v in t["nodeGuards"]), len(t["natives"]), sum(v for _, v in t["natives"]),
        len(t["callbackInvokers"]), t["callCheck"], t["fieldCheck"]))

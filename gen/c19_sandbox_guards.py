#!/usr/bin/env python3
"""C19 translator: /repo -> lean/IcingaProofs/Gen/SandboxGuards.lean   (DESIGN.md §0.4)

Extracted on every run from the working tree (anchored regexes + brace matching on the comment-stripped
source; a lost anchor raises Lost, which checks/c19.py turns into core.TieBroken):

  nodeGuards      for every `ExpressionResult X::DoEvaluate(ScriptFrame& frame, DebugHint *dhint) const`
                  in lib/config/expression.cpp: does the body START with
                  `if (frame.Sandboxed) BOOST_THROW_EXCEPTION(ScriptError(`
  refGuards       for every `bool X::GetReference(...)`: (a) starts with the throw guard, or
                  (b) forces `init_dict = false` under `frame.Sandboxed` before its first SetField
                  (IndexerExpression), or (c) contains no SetField at all (cannot write)
  initDictOff     IndexerExpression::GetReference has `if (frame.Sandboxed) init_dict = false;` before its first
                  use of init_dict / nested GetReference
  refGetSandboxed the literal `sandboxed` argument of GetFieldByName in Reference::Get (lib/base/reference.cpp)
  callCheck       FunctionCallExpression::DoEvaluate contains
                  `if (!func->IsSideEffectFree() && frame.Sandboxed) BOOST_THROW_EXCEPTION(` before the
                  arguments are evaluated and before VMOps::FunctionCall
  fieldCheck      Object::GetFieldByName (lib/base/object.cpp) throws for FANoUserView under `sandboxed`
                  before `return GetField(fid)`
  frameInherits   ScriptFrame::InitializeFrame copies `Sandboxed` from the enclosing frame
  appDtorClearsSingleton   Application::~Application (lib/base/application.cpp) resets m_Instance outside any condition
                  (F-C19c: then the constructor call `IcingaApplication()`, made before the whitelist test, has an effect)
  scriptFunctionsUnsafe   VMOps::NewFunction builds `new Function(name, wrapper, argNames)` (no `true` flag)
  natives         every native registration: REGISTER_[SAFE_]FUNCTION[_NONCONST](ns, name, ...) (also via
                  REGISTER_STATSFUNCTION) and `new Function("Ns#name", callback, {args}[, safe[, deprecated]])`
                  -> (registered name, side-effect-free flag)
  callbackInvokers  natives whose C++ body calls `->Invoke(` on a script-supplied function:
                  (registered name, safe flag, has the `Sandboxed && !…IsSideEffectFree()` test before the
                  first Invoke)
"""
import glob
import os
import re
import sys


class Lost(Exception):
    pass


def strip_comments(src):
    out = []
    i, n = 0, len(src)
    while i < n:
        c = src[i]
        if src.startswith("//", i):
            j = src.find("\n", i)
            i = n if j < 0 else j
        elif src.startswith("/*", i):
            j = src.find("*/", i + 2)
            seg = src[i:(n if j < 0 else j + 2)]
            out.append("\n" * seg.count("\n"))
            i = n if j < 0 else j + 2
        elif c == '"':
            j = i + 1
            while j < n and src[j] != '"':
                j += 2 if src[j] == "\\" else 1
            out.append(src[i:j + 1])
            i = j + 1
        elif c == "'":
            j = i + 1
            while j < n and src[j] != "'":
                j += 2 if src[j] == "\\" else 1
            out.append(src[i:j + 1])
            i = j + 1
        else:
            out.append(c)
            i += 1
    return "".join(out)


def match_close(src, start, open_ch="{", close_ch="}"):
    """src[start] == open_ch; index of the matching close (string literals skipped)."""
    depth = 0
    i, n = start, len(src)
    while i < n:
        c = src[i]
        if c == '"':
            i += 1
            while i < n and src[i] != '"':
                i += 2 if src[i] == "\\" else 1
        elif c == "'":
            i += 1
            while i < n and src[i] != "'":
                i += 2 if src[i] == "\\" else 1
        elif c == open_ch:
            depth += 1
        elif c == close_ch:
            depth -= 1
            if depth == 0:
                return i
        i += 1
    raise Lost("unbalanced %s at offset %d" % (open_ch, start))


def read(repo, rel):
    p = os.path.join(repo, rel)
    if not os.path.exists(p):
        raise Lost("file missing: " + rel)
    return strip_comments(open(p, encoding="utf-8", errors="replace").read())



# ------------------------------------------------------------------------------------------------
# Semantic recognition, token level (fallback for the AST, and the only extractor for object.cpp /
# reference.cpp / GetReference).  Works on comment-stripped source.

KEYWORD_RE = re.compile(r"\s*(if|for|while|switch|try|do|else)\b")


def _skip_ws(s, i):
    while i < len(s) and s[i].isspace():
        i += 1
    return i


def parse_stmt(s, i):
    """One statement starting at s[i:] -> (node, end).  node = ("if", cond, then, else|None) |
    ("block", [nodes]) | ("loop", text) | ("simple", text)."""
    i = _skip_ws(s, i)
    if i >= len(s):
        return None, i
    if s[i] == "{":
        e = match_close(s, i)
        return ("block", parse_stmts(s[i + 1:e])), e + 1
    m = KEYWORD_RE.match(s, i)
    if m and m.group(1) == "if":
        p0 = s.index("(", m.end() - 0)
        p1 = match_close(s, p0, "(", ")")
        cond = s[p0 + 1:p1]
        then, j = parse_stmt(s, p1 + 1)
        k = _skip_ws(s, j)
        els = None
        m2 = re.compile(r"else\b").match(s, k)
        if m2:
            els, j = parse_stmt(s, m2.end())
        return ("if", cond, then, els), j
    if m and m.group(1) in ("for", "while", "switch"):
        p0 = s.index("(", m.end())
        p1 = match_close(s, p0, "(", ")")
        body, j = parse_stmt(s, p1 + 1)
        return ("loop", s[i:j]), j
    if m and m.group(1) == "do":
        body, j = parse_stmt(s, m.end())
        k = s.index(";", j)
        return ("loop", s[i:k + 1]), k + 1
    if m and m.group(1) == "try":
        body, j = parse_stmt(s, m.end())
        while True:
            k = _skip_ws(s, j)
            m3 = re.compile(r"catch\b").match(s, k)
            if not m3:
                break
            p0 = s.index("(", m3.end())
            p1 = match_close(s, p0, "(", ")")
            h, j = parse_stmt(s, p1 + 1)
        return ("loop", s[i:j]), j
    # simple statement: up to the `;` at depth 0
    depth, j = 0, i
    while j < len(s):
        c = s[j]
        if c == '"' or c == "'":
            q = c
            j += 1
            while j < len(s) and s[j] != q:
                j += 2 if s[j] == "\\" else 1
        elif c in "([{":
            depth += 1
        elif c in ")]}":
            depth -= 1
        elif c == ";" and depth == 0:
            break
        j += 1
    return ("simple", s[i:j + 1].strip()), j + 1


def parse_stmts(s):
    out, i = [], 0
    while True:
        n, i = parse_stmt(s, i)
        if n is None:
            break
        if n == ("simple", ";") or n == ("simple", ""):
            continue
        out.append(n)
    return out


def resolve_bool(expr, scope):
    """true / false for a literal or for an identifier bound once to a literal by a const(expr) bool in `scope`."""
    e = norm_atom(expr)
    neg = False
    while e.startswith("!"):
        neg = not neg
        e = _strip_parens(e[1:])
    v = None
    if e in ("true", "false"):
        v = e == "true"
    elif re.fullmatch(r"[A-Za-z_][\w:]*", e):
        ms = re.findall(r"\b(?:static\s+)?(?:const|constexpr)\s+(?:static\s+)?bool\s+%s\s*(?:=\s*(true|false)|\{\s*(true|false)\s*\})\s*;" % re.escape(e.split("::")[-1]), scope)
        vals = {(a or b) for a, b in ms}
        if len(vals) == 1:
            v = vals.pop() == "true"
    if v is None:
        return None
    return (not v) if neg else v


def _strip_parens(c):
    c = c.strip()
    while c.startswith("(") and match_close(c, 0, "(", ")") == len(c) - 1:
        c = c[1:-1].strip()
    return c


def _split_top(c, op):
    parts, depth, cur, i = [], 0, [], 0
    while i < len(c):
        ch = c[i]
        if ch in "([{":
            depth += 1
        elif ch in ")]}":
            depth -= 1
        if depth == 0 and c.startswith(op, i):
            parts.append("".join(cur))
            cur = []
            i += len(op)
            continue
        cur.append(ch)
        i += 1
    parts.append("".join(cur))
    return parts


def norm_atom(a):
    """Canonical spelling of one conjunct: no blanks, no redundant parentheses, `x == true` -> x,
    `x == false` / `false == x` / `!(x)` -> !x, `(e) != 0` -> e."""
    a = re.sub(r"\s+", "", _strip_parens(a))
    a = re.sub(r"(?<![\w>\]\)])\((\w+)\)", r"\1", a)          # `(frame).Sandboxed` as a macro argument expands to
    changed = True
    while changed:
        changed = False
        for pat, fn in ((r"^(.*)==true$", lambda m: m.group(1)), (r"^true==(.*)$", lambda m: m.group(1)),
                        (r"^(.*)!=false$", lambda m: m.group(1)), (r"^(.*)!=0$", lambda m: m.group(1)),
                        (r"^(.*)==false$", lambda m: "!" + _strip_parens(m.group(1))),
                        (r"^false==(.*)$", lambda m: "!" + _strip_parens(m.group(1)))):
            m = re.match(pat, a)
            if m and "&&" not in a and "||" not in a:
                a = _strip_parens(fn(m))
                changed = True
        if a.startswith("!(") and match_close(a, 1, "(", ")") == len(a) - 1 and "&&" not in a and "||" not in a:
            a = "!" + _strip_parens(a[1:])
            changed = True
        if a.startswith("!!"):
            a = a[2:]
            changed = True
    return a


def conjuncts(cond):
    """The set of conjuncts of a condition; None if it contains a top-level `||` (not a plain conjunction)."""
    c = _strip_parens(cond)
    if len(_split_top(c, "||")) > 1:
        return None
    out = []
    for part in _split_top(c, "&&"):
        p = _strip_parens(part)
        if len(_split_top(p, "&&")) > 1 or len(_split_top(p, "||")) > 1:
            sub = conjuncts(p)
            if sub is None:
                return None
            out += sub
        else:
            out.append(norm_atom(p))
    return sorted(set(out))


PLAIN_BEFORE_THROW = re.compile(r"^(Log\s*\(|[A-Za-z_][\w:<>\s\*&]*\s+[A-Za-z_]\w*\s*(=|\(|;)|[A-Za-z_][\w\.\->]*\s*(<<|\())")


def throws_unconditionally(node):
    """The statement cannot complete normally: a throw, or a block of plain statements ending in one."""
    if node is None:
        return False
    if node[0] == "simple":
        t = node[1]
        return bool(re.match(r"(BOOST_THROW_EXCEPTION\s*\(|throw\b|(::)?boost::throw_exception\s*\()", t))
    if node[0] == "block":
        body = node[1]
        if not body or not throws_unconditionally(body[-1]):
            return False
        return all(b[0] == "simple" and not re.match(r"(return|goto|break|continue)\b", b[1]) for b in body[:-1])
    return False


def is_guard_if(node, want):
    """`if (<exactly the conjuncts want>) <unconditional throw>` (an else branch does not matter)."""
    return (node is not None and node[0] == "if" and conjuncts(node[1]) == sorted(want)
            and throws_unconditionally(node[2]))


HARMLESS_DECL = re.compile(r"^(?!return\b|throw\b|delete\b|goto\b|using\b|typedef\b|static\b)(?:const\s+)?[A-Za-z_][\w:]*(?:<[^;()]*>)?(?:\s*[\*&]+\s*|\s+)"
                           r"[A-Za-z_]\w*(?:\s*=\s*[\w\.:\->\*&\"]+|\s*\{\s*\})?(?:\s*,\s*[\*&]?\s*[A-Za-z_]\w*)*\s*;$")


LOGGING_STMT = re.compile(r"^Log\s*\([^()]*\)\s*(<<[^();=]*)*;$")


def _flat_text(node):
    if node is None:
        return []
    if node[0] == "block":
        out = []
        for b in node[1]:
            out += _flat_text(b)
        return out
    if node[0] == "loop":
        t = node[1].strip()
        m = re.match(r"do\b", t)
        if m and re.search(r"while\s*\(\s*(0|false)\s*\)\s*;$", t):
            b0 = t.index("{") if "{" in t else -1
            if b0 >= 0:
                return parse_stmts(t[b0 + 1:match_close(t, b0)])
    return [node]


def _find_function(src, name):
    """(param names, body) of a free/static function `name` defined in src, else None."""
    m = re.search(r"^(?:static\s+|inline\s+)*[\w:<>\*&\s]+?\b" + re.escape(name) + r"\s*\(([^)]*)\)\s*(?:const\s*)?\{", src, re.M)
    if not m:
        return None
    b0 = src.index("{", m.end() - 1)
    params = []
    for prm in split_args(m.group(1)):
        mm = re.search(r"([A-Za-z_]\w*)\s*(?:=.*)?$", prm.strip())
        params.append(mm.group(1) if mm else "")
    return params, src[b0 + 1:match_close(src, b0)]


def text_sandbox_exit(stmts, var, src="", depth=0):
    """Token-level twin of a_sandbox_exit: assuming `<var>.Sandboxed`, do the statements throw before any effect?"""
    atom = var + ".Sandboxed"
    stmts = list(stmts)
    while stmts:
        st = stmts.pop(0)
        flat = _flat_text(st)
        if flat != [st]:
            stmts = flat + stmts
            continue
        if st[0] == "simple" and HARMLESS_DECL.match(st[1]) and "(" not in st[1]:
            continue
        if st[0] == "simple" and LOGGING_STMT.match(st[1]):
            continue
        if throws_unconditionally(st):
            return True
        if st[0] == "if":
            cj = conjuncts(st[1])
            if cj == [atom]:
                return depth < 4 and text_sandbox_exit(_flat_text(st[2]), var, src, depth + 1)
            if cj == ["!" + atom]:
                stmts = _flat_text(st[3]) + stmts
                continue
            return False
        if st[0] == "simple":
            m = re.match(r"(?:[\w:]+::)?([A-Za-z_]\w*)\s*\((.*)\)\s*;$", st[1], re.S)
            if m and depth < 3:
                args = [re.sub(r"\s+", "", a) for a in split_args(m.group(2))]
                if var in args:
                    f = _find_function(src, m.group(1))
                    if f and args.index(var) < len(f[0]) and f[0][args.index(var)]:
                        return text_sandbox_exit(parse_stmts(f[1]), f[0][args.index(var)], src, depth + 1)
            return False
        return False
    return False


def text_node_guard(body, var="frame", src=""):
    return text_sandbox_exit(parse_stmts(body), var, src)


def _contains(node, needle):
    if node is None:
        return False
    if node[0] in ("simple", "loop"):
        return needle in node[1]
    if node[0] == "block":
        return any(_contains(b, needle) for b in node[1])
    if node[0] == "if":
        return needle in node[1] or _contains(node[2], needle) or _contains(node[3], needle)
    return False


SIDE_EFFECT_ATOM = re.compile(r"^!\w+->IsSideEffectFree\(\)$")


def _text_call_check_if(n, var, need, depth=0):
    if n is None or n[0] != "if" or depth > 3:
        return False
    cj = conjuncts(n[1])
    if not cj:
        return False
    found = set()
    for a in cj:
        if a == var + ".Sandboxed":
            found.add("sb")
        elif SIDE_EFFECT_ATOM.match(a):
            found.add("nsef")
        else:
            return False
    if not found <= set(need):
        return False
    rest = [x for x in need if x not in found]
    if not rest:
        return throws_unconditionally(n[2])
    flat = [x for x in _flat_text(n[2]) if not (x[0] == "simple" and HARMLESS_DECL.match(x[1]) and "(" not in x[1])]
    return bool(flat) and _text_call_check_if(flat[0], var, rest, depth + 1)


def text_call_check(body, var="frame"):
    st = parse_stmts(body)
    for n in st:
        if _contains(n, "VMOps::FunctionCall(") or _contains(n, "VMOps::FunctionCall ("):
            return False                       # reached the call without having seen the check
        if _text_call_check_if(n, var, ["sb", "nsef"]):
            return True
    return False


NUV_ATOM = re.compile(r"^[\w\.\->\(\)]*\.Attributes&FANoUserView$")


def _is_nuv_atom(a, src):
    """`<field info>.Attributes & FANoUserView`, or a call of a predicate of this file that returns exactly that."""
    if NUV_ATOM.match(a):
        return True
    m = re.match(r"^([A-Za-z_]\w*)\(.*\)$", a)
    if m and src:
        f = _find_function(src, m.group(1))
        if f:
            st = parse_stmts(f[1])
            hidden = False
            for n in st:
                if n[0] == "simple" and HARMLESS_DECL.match(n[1]) and "(" not in n[1]:
                    continue
                if n[0] == "simple" and re.match(r"(?:const\s+)?[\w:]+\s+\w+\s*=\s*[\w\->\.]+\(\w*\)\s*;$", n[1]):
                    continue              # `Field info = type->GetFieldInfo(fid);`
                if n[0] == "simple" and n[1].startswith("return"):
                    e = norm_atom(n[1][len("return"):].rstrip(";"))
                    hidden = bool(NUV_ATOM.match(e))
                break
            return hidden
    return False


def text_field_check(body, src=""):
    """object.cpp Object::GetFieldByName: on the path with `sandboxed` true, a FANoUserView field throws before the
    field is read.  Shapes: nested ifs, one conjunction, early `if (!sandboxed) return GetField(fid);`, the test
    behind a predicate of the same file."""
    under = False                          # statements from here on only run when `sandboxed` is true
    for n in parse_stmts(body):
        if n[0] == "if":
            cj = conjuncts(n[1])
            if cj == ["!sandboxed"] and n[2] is not None and n[3] is None:
                t = _flat_text(n[2])
                if len(t) == 1 and t[0][0] == "simple" and t[0][1].startswith("return"):
                    under = True
                    continue
            if cj is not None:
                rest = [a for a in cj if a != "sandboxed"]
                has_sb = under or "sandboxed" in cj
                if has_sb and len(rest) == 1 and _is_nuv_atom(rest[0], src) and throws_unconditionally(n[2]):
                    return True
                if cj == ["sandboxed"]:
                    for m in _flat_text(n[2]):
                        if m[0] == "if":
                            c2 = conjuncts(m[1])
                            if c2 is not None and len(c2) == 1 and _is_nuv_atom(c2[0], src) and throws_unconditionally(m[2]):
                                return True
                        if m[0] == "simple" and m[1].startswith("return"):
                            break
                    continue
            if _contains(n, "GetField(fid)"):
                return False
            continue
        if _contains(n, "GetField(fid)"):
            return False
    return False


def _old_text_field_check(body):
    """object.cpp Object::GetFieldByName: before the field is read (`return GetField(fid)`), under `sandboxed`
    a FANoUserView field throws — nested ifs or one conjunction."""
    for n in parse_stmts(body):
        if _contains(n, "GetField(fid)") and not (n[0] == "if"):
            return False
        if n[0] != "if":
            continue
        cj = conjuncts(n[1])
        if cj is None:
            continue
        if len(cj) == 2 and "sandboxed" in cj and any(NUV_ATOM.match(a) for a in cj) and throws_unconditionally(n[2]):
            return True
        if cj == ["sandboxed"]:
            inner = n[2][1] if n[2] and n[2][0] == "block" else [n[2]]
            for m in inner:
                if m and m[0] == "if":
                    c2 = conjuncts(m[1])
                    if c2 is not None and len(c2) == 1 and NUV_ATOM.match(c2[0]) and throws_unconditionally(m[2]):
                        return True
                if m and (_contains(m, "return") and m[0] == "simple"):
                    break
    return False


def text_init_dict_off(body):
    """IndexerExpression::GetReference: `init_dict` is forced to false under frame.Sandboxed before it is used."""
    for n in parse_stmts(body):
        if n[0] == "if" and conjuncts(n[1]) == ["frame.Sandboxed"] and n[3] is None:
            inner = n[2][1] if n[2] and n[2][0] == "block" else [n[2]]
            if len(inner) == 1 and inner[0][0] == "simple" and re.sub(r"\s+", "", inner[0][1]) == "init_dict=false;":
                return True
        if n[0] == "simple" and re.sub(r"\s+", "", n[1]) in ("init_dict=init_dict&&!frame.Sandboxed;", "init_dict=!frame.Sandboxed&&init_dict;",
                                                            "init_dict&=!frame.Sandboxed;", "if(frame.Sandboxed)init_dict=false;"):
            return True
        if _contains(n, "init_dict") or _contains(n, "GetReference(") or _contains(n, "SetField"):
            return False                       # used (or a write reached) before it was switched off
    return False


# ------------------------------------------------------------------------------------------------
# Semantic recognition from the clang JSON AST (preferred for expression.cpp)

TRANSPARENT = ("ImplicitCastExpr", "ParenExpr", "ExprWithCleanups", "MaterializeTemporaryExpr", "CXXBindTemporaryExpr",
               "CXXFunctionalCastExpr", "ConstantExpr")


def a_strip(n):
    while n and n.get("kind") in TRANSPARENT and len(n.get("inner", [])) == 1:
        n = n["inner"][0]
    return n


def a_bool_lit(n):
    n = a_strip(n)
    return n.get("value") if n and n.get("kind") == "CXXBoolLiteralExpr" else None


def a_is_frame_sandboxed(n):
    n = a_strip(n)
    if not n:
        return False
    if n.get("kind") == "BinaryOperator" and n.get("opcode") in ("==", "!="):
        l, r = n["inner"]
        for x, y in ((l, r), (r, l)):
            b = a_bool_lit(y)
            if b is not None and ((n["opcode"] == "==") == bool(b)):
                return a_is_frame_sandboxed(x)
        return False
    if n.get("kind") == "MemberExpr" and n.get("name") == "Sandboxed":
        base = a_strip(n["inner"][0])
        return base.get("kind") == "DeclRefExpr" and (base.get("referencedDecl") or {}).get("name") == "frame" \
            and (base.get("referencedDecl") or {}).get("kind") == "ParmVarDecl"
    return False


def a_is_not_side_effect_free(n):
    n = a_strip(n)
    if not n:
        return False

    def is_call(x):
        x = a_strip(x)
        return x and x.get("kind") == "CXXMemberCallExpr" and a_strip(x["inner"][0]).get("name") == "IsSideEffectFree"
    if n.get("kind") == "UnaryOperator" and n.get("opcode") == "!":
        return is_call(n["inner"][0])
    if n.get("kind") == "BinaryOperator" and n.get("opcode") in ("==", "!="):
        l, r = n["inner"]
        for x, y in ((l, r), (r, l)):
            b = a_bool_lit(y)
            if b is not None and ((n["opcode"] == "==") != bool(b)):
                return is_call(x)
    return False


def a_conjuncts(n):
    n = a_strip(n)
    if n and n.get("kind") == "BinaryOperator" and n.get("opcode") == "&&":
        return a_conjuncts(n["inner"][0]) + a_conjuncts(n["inner"][1])
    return [n]


def a_throws(n):
    n = a_strip(n)
    if not n:
        return False
    k = n.get("kind")
    if k == "CXXThrowExpr":
        return True
    if k == "CallExpr":
        cal = a_strip(n["inner"][0])
        return cal.get("kind") == "DeclRefExpr" and (cal.get("referencedDecl") or {}).get("name", "").startswith("throw_exception")
    if k == "CompoundStmt":
        inner = [c for c in n.get("inner", []) if c.get("kind") != "NullStmt"]
        if not inner or not a_throws(inner[-1]):
            return False
        return all(c.get("kind") in ("DeclStmt", "CallExpr", "CXXMemberCallExpr", "CXXOperatorCallExpr", "ExprWithCleanups") for c in inner[:-1])
    return False


def a_if_parts(n):
    if not n or n.get("kind") != "IfStmt" or n.get("hasInit") or n.get("hasVar") or n.get("isConstexpr"):
        return None
    inner = n.get("inner", [])
    if len(inner) < 2:
        return None
    return inner[0], inner[1], (inner[2] if n.get("hasElse") and len(inner) > 2 else None)


def a_contains_call(n, name):
    if not isinstance(n, dict):
        return False
    if n.get("kind") == "DeclRefExpr" and (n.get("referencedDecl") or {}).get("name") == name:
        return True
    return any(a_contains_call(c, name) for c in n.get("inner", []))


def a_param_ids(decl):
    return [c.get("id") for c in decl.get("inner", []) if c.get("kind") == "ParmVarDecl"]


def a_is_sandboxed_of(n, pid):
    """`<param>.Sandboxed`, also `== true`, `!= false`, parenthesised; <param> identified by declaration id."""
    n = a_strip(n)
    if not n:
        return False
    if n.get("kind") == "BinaryOperator" and n.get("opcode") in ("==", "!="):
        l, r = n["inner"]
        for x, y in ((l, r), (r, l)):
            b = a_bool_lit(y)
            if b is not None and ((n["opcode"] == "==") == bool(b)):
                return a_is_sandboxed_of(x, pid)
        return False
    if n.get("kind") == "MemberExpr" and n.get("name") == "Sandboxed":
        base = a_strip(n["inner"][0])
        return base.get("kind") == "DeclRefExpr" and (base.get("referencedDecl") or {}).get("id") == pid
    return False


def a_is_not_sandboxed_of(n, pid):
    n = a_strip(n)
    if not n:
        return False
    if n.get("kind") == "UnaryOperator" and n.get("opcode") == "!":
        return a_is_sandboxed_of(n["inner"][0], pid)
    if n.get("kind") == "BinaryOperator" and n.get("opcode") in ("==", "!="):
        l, r = n["inner"]
        for x, y in ((l, r), (r, l)):
            b = a_bool_lit(y)
            if b is not None and ((n["opcode"] == "==") != bool(b)):
                return a_is_sandboxed_of(x, pid)
    return False


PURE_EXPR_KINDS = set(TRANSPARENT) | {
    "DeclRefExpr", "MemberExpr", "CXXThisExpr", "IntegerLiteral", "StringLiteral", "CXXBoolLiteralExpr", "CXXNullPtrLiteralExpr",
    "FloatingLiteral", "CharacterLiteral", "CXXDefaultArgExpr", "CXXConstructExpr", "CXXTemporaryObjectExpr", "UnaryOperator",
    "BinaryOperator", "ConditionalOperator", "ImplicitValueInitExpr", "CXXStaticCastExpr", "CStyleCastExpr", "InitListExpr"}


def a_pure_expr(n):
    """No call, no assignment, no increment anywhere below: evaluating it cannot have an effect.
    (Constructors are accepted: locals of value types such as Value/String/DebugInfo.)"""
    if not isinstance(n, dict) or not n.get("kind"):
        return True
    k = n["kind"]
    if k not in PURE_EXPR_KINDS:
        return False
    if k == "UnaryOperator" and n.get("opcode") in ("++", "--"):
        return False
    if k == "BinaryOperator" and (n.get("opcode", "").endswith("=") and n.get("opcode") not in ("==", "!=", "<=", ">=")):
        return False
    return all(a_pure_expr(c) for c in n.get("inner", []))


def a_harmless_decl(st):
    if st.get("kind") != "DeclStmt":
        return False
    for v in st.get("inner", []):
        if v.get("kind") != "VarDecl" or v.get("storageClass") == "static":
            return False
        if not all(a_pure_expr(c) for c in v.get("inner", [])):
            return False
    return True


def a_is_logging(st):
    """`Log(level, facility) << pure << pure …;` — writes a log line, touches no protected state."""
    n = a_strip(st)
    while n and n.get("kind") == "CXXOperatorCallExpr":
        inner = n.get("inner", [])
        cal = a_strip(inner[0]) if inner else None
        if not cal or (cal.get("referencedDecl") or {}).get("name") != "operator<<" or len(inner) != 3:
            return False
        if not a_pure_expr(inner[2]):
            return False
        n = a_strip(inner[1])
    if not n:
        return False
    if n.get("kind") in ("CXXTemporaryObjectExpr", "CXXFunctionalCastExpr", "CXXConstructExpr"):
        return "Log" in (n.get("type") or {}).get("qualType", "") and all(a_pure_expr(c) for c in n.get("inner", []))
    if n.get("kind") == "CallExpr":
        cal = a_strip(n["inner"][0])
        return (cal.get("referencedDecl") or {}).get("name") == "Log" and all(a_pure_expr(c) for c in n["inner"][1:])
    return False


def a_zero_cond(n):
    n = a_strip(n)
    return bool(n) and ((n.get("kind") == "IntegerLiteral" and n.get("value") == "0") or
                        (n.get("kind") == "CXXBoolLiteralExpr" and n.get("value") is False))


def a_flat(st):
    """A statement as the list of statements it runs once, in order (blocks and `do { } while (0)` opened)."""
    if st is None:
        return []
    k = st.get("kind")
    if k == "NullStmt":
        return []
    if k == "CompoundStmt":
        out = []
        for c in st.get("inner", []):
            out += a_flat(c)
        return out
    if k == "DoStmt" and len(st.get("inner", [])) == 2 and a_zero_cond(st["inner"][1]):
        return a_flat(st["inner"][0])
    if k in ("ExprWithCleanups",) and len(st.get("inner", [])) == 1:
        return a_flat(st["inner"][0])
    return [st]


def a_call_target(st):
    """(name, [args]) of a plain function / method call statement, else None."""
    st = a_strip(st)
    if not st or st.get("kind") not in ("CallExpr", "CXXMemberCallExpr"):
        return None
    inner = st.get("inner", [])
    if not inner:
        return None
    cal = a_strip(inner[0])
    name = None
    if cal.get("kind") == "DeclRefExpr":
        name = (cal.get("referencedDecl") or {}).get("name")
    elif cal.get("kind") == "MemberExpr":
        name = cal.get("name")
    if not name or name.startswith("throw_exception"):
        return None
    return name, inner[1:]


def a_sandbox_exit(stmts, pid, helpers, wanted=None, depth=0):
    """Assuming <param pid>.Sandboxed is true: does running `stmts` throw before anything with an effect runs?
    helpers: {(name, argIndex): bool} for functions known to do exactly that for their argIndex-th parameter;
    wanted: a set collecting (name, argIndex) of calls whose callee would have to be looked at."""
    stmts = list(stmts)
    while stmts:
        st = stmts.pop(0)
        flat = a_flat(st)
        if flat != [st]:
            stmts = flat + stmts
            continue
        if a_harmless_decl(st) or a_is_logging(st):
            continue
        if a_throws(st):
            return True
        parts = a_if_parts(st)
        if parts:
            cond, then, els = parts
            cj = a_conjuncts(cond)
            if cj and all(a_is_sandboxed_of(c, pid) for c in cj):
                return a_sandbox_exit(a_flat(then), pid, helpers, wanted, depth + 1) if depth < 4 else False
            if len(cj) == 1 and a_is_not_sandboxed_of(cj[0], pid):
                stmts = a_flat(els) + stmts          # the sandboxed path skips the then-branch
                continue
            return False
        ct = a_call_target(st)
        if ct:
            name, args = ct
            for idx, a in enumerate(args):
                a = a_strip(a)
                if a and a.get("kind") == "DeclRefExpr" and (a.get("referencedDecl") or {}).get("id") == pid:
                    if wanted is not None:
                        wanted.add((name, idx))
                    return bool(helpers.get((name, idx)))
            return False
        return False
    return False


def a_call_check(st, pid, need=("sb", "nsef"), depth=0):
    """`if (<pid>.Sandboxed && !f->IsSideEffectFree()) throw`, conjuncts in any order, also as nested ifs."""
    parts = a_if_parts(st)
    if not parts or depth > 3:
        return False
    cond, then, _ = parts
    found = set()
    for c in a_conjuncts(cond):
        if a_is_sandboxed_of(c, pid):
            found.add("sb")
        elif a_is_not_side_effect_free(c):
            found.add("nsef")
        else:
            return False
    if not found or not found <= set(need):
        return False
    rest = tuple(x for x in need if x not in found)
    if not rest:
        return a_throws(then) or (len(a_flat(then)) >= 1 and a_throws({"kind": "CompoundStmt", "inner": a_flat(then)}))
    flat = [x for x in a_flat(then) if not a_harmless_decl(x)]
    return len(flat) >= 1 and a_call_check(flat[0], pid, rest, depth + 1)


def _decode_stream(txt):
    import json
    dec = json.JSONDecoder()
    i = 0
    while i < len(txt):
        while i < len(txt) and txt[i] != "{":          # skips blanks and `Dumping …:` headers
            if txt[i] in " \r\n\t":
                i += 1
            else:
                j = txt.find("\n", i)
                i = len(txt) if j < 0 else j + 1
        if i >= len(txt):
            break
        d, i = dec.raw_decode(txt, i)
        yield d


def _clang_cmd(clang, repo, build, src, filt, extra_inc=()):
    cmd = [clang, "-std=gnu++17", "-fsyntax-only", "-w", "-DICINGA2_VERIF", "-DBOOST_ASIO_USE_TS_EXECUTOR_AS_DEFAULT",
           "-DBOOST_COROUTINES_NO_DEPRECATION_WARNING", "-DBOOST_FILESYSTEM_NO_DEPRECATED", "-D_GNU_SOURCE"]
    if repo:
        cmd += ["-I" + repo, "-I" + os.path.join(repo, "lib"), "-I" + build, "-I" + os.path.join(build, "lib"),
                "-isystem", os.path.join(repo, "third-party/nlohmann_json"), "-isystem", os.path.join(repo, "third-party/utf8cpp/source"),
                "-isystem", os.path.join(repo, "third-party")]
    for x in extra_inc:
        cmd.append("-I" + x)
    return cmd + ["-Xclang", "-ast-dump=json", "-Xclang", "-ast-dump-filter=" + filt, src]


def ast_analyse(dump_fn):
    """dump_fn(filter) -> AST dump text (or None).  Two passes: the DoEvaluate bodies, then the helpers they call
    with the frame as first effective statement."""
    txt = dump_fn("DoEvaluate")
    if txt is None:
        return None
    try:
        decls = [d for d in _decode_stream(txt) if d.get("kind") == "CXXMethodDecl" and d.get("name") == "DoEvaluate"
                 and any(c.get("kind") == "CompoundStmt" for c in d.get("inner", []))]
    except ValueError:
        return None

    def evaluate(helpers, wanted):
        guards, call = {}, None
        for d in decls:
            mm = re.match(r"_ZNK\d+icinga(\d+)", d.get("mangledName", "")) or re.match(r"_ZNK(\d+)", d.get("mangledName", ""))
            pids = a_param_ids(d)
            if not mm or not pids:
                continue
            n = int(mm.group(1))
            cls = d["mangledName"][mm.end():mm.end() + n]
            body = [c for c in d["inner"] if c.get("kind") == "CompoundStmt"][0]
            stmts = a_flat(body)
            guards[cls] = a_sandbox_exit(stmts, pids[0], helpers, wanted)
            if cls == "FunctionCallExpression":
                call = False
                for st in body.get("inner", []):
                    if a_contains_call(st, "FunctionCall"):
                        break
                    if a_call_check(st, pids[0]):
                        call = True
                        break
        return guards, call

    wanted = set()
    guards, call = evaluate({}, wanted)
    helpers = {}
    for name in sorted({n for n, _ in wanted}):
        ht = dump_fn(name)
        if ht is None:
            continue
        try:
            hd = [d for d in _decode_stream(ht) if d.get("kind") in ("FunctionDecl", "CXXMethodDecl") and d.get("name") == name
                  and any(c.get("kind") == "CompoundStmt" for c in d.get("inner", []))]
        except ValueError:
            continue
        for (nm, idx) in wanted:
            if nm != name:
                continue
            ok = bool(hd)
            for d in hd:
                pids = a_param_ids(d)
                body = [c for c in d["inner"] if c.get("kind") == "CompoundStmt"][0]
                ok = ok and idx < len(pids) and a_sandbox_exit(a_flat(body), pids[idx], {}, None)
            helpers[(nm, idx)] = ok
    if helpers:
        guards, call = evaluate(helpers, None)
    if not guards:
        return None
    return {"guards": guards, "callCheck": call, "helpers": sorted("%s#%d=%s" % (n, i, v) for (n, i), v in helpers.items())}


def ast_expression_tables(repo, build, cache_dir=None):
    """{class: guarded} for every DoEvaluate with a body in expression.cpp, and the call check — or None if the
    AST is not available (no clang, no configured build tree, compile error)."""
    import hashlib
    import json
    import shutil
    import subprocess
    clang = shutil.which("clang++-14") or shutil.which("clang++")
    src = os.path.join(repo, "lib/config/expression.cpp")
    if not clang or not build or not os.path.isdir(build):
        return None
    h = hashlib.sha1()
    for rel in ("lib/config/expression.cpp", "lib/config/expression.hpp", "lib/config/vmops.hpp", "lib/base/scriptframe.hpp", "lib/base/function.hpp"):
        try:
            h.update(open(os.path.join(repo, rel), "rb").read())
        except OSError:
            return None
    h.update(open(os.path.abspath(__file__), "rb").read())
    key = h.hexdigest()
    if cache_dir:
        cp = os.path.join(cache_dir, key + ".json")
        if os.path.exists(cp):
            try:
                return json.load(open(cp))
            except ValueError:
                pass

    def dump(filt):
        try:
            p = subprocess.run(_clang_cmd(clang, repo, build, src, filt), stdout=subprocess.PIPE, stderr=subprocess.PIPE, timeout=300)
        except (OSError, subprocess.TimeoutExpired):
            return None
        return p.stdout.decode("utf-8", "replace") if p.returncode == 0 else None
    res = ast_analyse(dump)
    if res is not None and cache_dir:
        os.makedirs(cache_dir, exist_ok=True)
        with open(os.path.join(cache_dir, key + ".json"), "w") as f:
            json.dump(res, f)
    return res


def ast_tables_from_dump(txt):
    """Single-dump variant (no helper pass)."""
    return ast_analyse(lambda filt: txt if filt == "DoEvaluate" else None)


THROW_GUARD = re.compile(r"\s*if\s*\(\s*frame\.Sandboxed\s*\)\s*BOOST_THROW_EXCEPTION\s*\(\s*ScriptError\s*\(")


GET_REFERENCE_SIG = re.compile(r"^bool\s+(\w+)::GetReference\s*\(\s*ScriptFrame\s*&\s*(\w+)\s*,\s*bool\s+(\w+)\s*,[^)]*\)\s*const\s*\{", re.M)


def get_reference_defs(src):
    """(class, body) of every GetReference definition, parameters renamed to the canonical `frame` / `init_dict`."""
    res = []
    for m in GET_REFERENCE_SIG.finditer(src):
        b = src.index("{", m.end() - 1)
        body = src[b + 1:match_close(src, b)]
        if m.group(2) != "frame":
            body = re.sub(r"\b%s\b" % re.escape(m.group(2)), "frame", body)
        if m.group(3) != "init_dict":
            body = re.sub(r"\b%s\b" % re.escape(m.group(3)), "init_dict", body)
        res.append((m.group(1), body))
    return res


DO_EVALUATE_SIG = re.compile(r"^ExpressionResult\s+(\w+)::DoEvaluate\s*\(\s*ScriptFrame\s*&\s*(\w+)\s*,\s*DebugHint\s*\*\s*\w*\s*\)\s*const\s*\{", re.M)


def do_evaluate_defs(src):
    """(class, name of the frame parameter, body) for every DoEvaluate definition."""
    res = []
    for m in DO_EVALUATE_SIG.finditer(src):
        b = src.index("{", m.end() - 1)
        res.append((m.group(1), m.group(2), src[b + 1:match_close(src, b)]))
    return res


def bodies(src, sig_re):
    """(class name, body text) for every definition matching sig_re (group 1 = class)."""
    res = []
    for m in sig_re.finditer(src):
        b = src.index("{", m.end() - 1)
        e = match_close(src, b)
        res.append((m.group(1), src[b + 1:e]))
    return res


def split_args(s):
    parts, depth, cur = [], 0, []
    i, n = 0, len(s)
    while i < n:
        c = s[i]
        if c == '"':
            j = i + 1
            while j < n and s[j] != '"':
                j += 2 if s[j] == "\\" else 1
            cur.append(s[i:j + 1])
            i = j + 1
            continue
        if c in "({[":
            depth += 1
        elif c in ")}]":
            depth -= 1
        if c == "," and depth == 0:
            parts.append("".join(cur).strip())
            cur = []
        else:
            cur.append(c)
        i += 1
    if "".join(cur).strip():
        parts.append("".join(cur).strip())
    return parts


KNOWN_REG_MACROS = re.compile(r"^\s*REGISTER_(SAFE_)?FUNCTION(_NONCONST)?\s*\(\s*(\w+)\s*,\s*(\w+)\s*,\s*([^,]+),", re.M)
KNOWN_STATS_MACRO = re.compile(r"^\s*REGISTER_STATSFUNCTION\s*\(\s*(\w+)\s*,\s*([^)]+)\)", re.M)


def expand_known_macros(src):
    """Fallback for files that cannot be preprocessed: rewrite the registration macros of function.hpp /
    statsfunction.hpp into the constructor call they expand to."""
    src = KNOWN_REG_MACROS.sub(lambda m: 'new icinga::Function("%s#%s", %s, {}, %s); (' % (m.group(3), m.group(4), m.group(5).strip(), "true" if m.group(1) else "false"), src)
    return KNOWN_STATS_MACRO.sub(lambda m: 'new icinga::Function("StatsFunctions#%s", %s, {}, false);' % (m.group(1), m.group(2).strip()), src)


def preprocess_many(repo, build, cache, files):
    """{file: text of the main file after preprocessing (macros expanded, includes dropped) | None}."""
    import hashlib
    import subprocess
    from concurrent.futures import ThreadPoolExecutor
    h0 = hashlib.sha1()
    for rel in ("lib/base/function.hpp", "lib/base/statsfunction.hpp", "lib/base/initialize.hpp", "lib/remote/apifunction.hpp"):
        try:
            h0.update(open(os.path.join(repo, rel), "rb").read())
        except OSError:
            pass
    h0.update(b"v2")
    base = ["g++", "-E", "-std=c++17", "-w", "-DICINGA2_VERIF", "-DBOOST_ASIO_USE_TS_EXECUTOR_AS_DEFAULT", "-D_GNU_SOURCE",
            "-I" + repo, "-I" + os.path.join(repo, "lib"), "-I" + build, "-I" + os.path.join(build, "lib"),
            "-isystem", os.path.join(repo, "third-party/nlohmann_json"), "-isystem", os.path.join(repo, "third-party/utf8cpp/source"),
            "-isystem", os.path.join(repo, "third-party")]
    pdir = os.path.join(cache, "cpp") if cache else None
    if pdir:
        os.makedirs(pdir, exist_ok=True)

    def one(f):
        h = h0.copy()
        try:
            h.update(open(f, "rb").read())
        except OSError:
            return f, None
        cp = os.path.join(pdir, h.hexdigest() + ".i") if pdir else None
        if cp and os.path.exists(cp):
            txt = open(cp, encoding="utf-8", errors="replace").read()
            return f, (None if txt == "\0FAILED" else txt)
        try:
            p = subprocess.run(base + [f], stdout=subprocess.PIPE, stderr=subprocess.DEVNULL, timeout=300)
        except (OSError, subprocess.TimeoutExpired):
            return f, None
        txt = None
        if p.returncode == 0:
            out, keep = [], False
            real = os.path.realpath(f)
            for line in p.stdout.decode("utf-8", "replace").split("\n"):
                if line.startswith("# "):
                    m = re.match(r'# \d+ "([^"]*)"', line)
                    if m:
                        keep = os.path.realpath(m.group(1)) == real
                    continue
                if keep:
                    out.append(line)
            txt = "\n".join(out)
        if cp:
            with open(cp + ".tmp%d" % os.getpid(), "w", encoding="utf-8") as fh:
                fh.write(txt if txt is not None else "\0FAILED")
            os.replace(cp + ".tmp%d" % os.getpid(), cp)
        return f, txt
    with ThreadPoolExecutor(max_workers=8) as ex:
        return dict(ex.map(one, files))


CB_SANDBOXED = re.compile(r"^\w+(->|\.)Sandboxed$")
CB_NOT_SAFE = re.compile(r"^!\w+->IsSideEffectFree\(\)$")


def callback_checked(body, src, depth=0):
    """In a native that invokes a script-supplied function: is there, before the first Invoke, an
    `if (<frame>->Sandboxed && !<fn>->IsSideEffectFree()) throw` (any order, nested ifs, or behind a helper of the file)?"""
    def chk(n, need):
        if n is None or n[0] != "if":
            return False
        cj = conjuncts(n[1])
        if not cj:
            return False
        found = set()
        for a in cj:
            if CB_SANDBOXED.match(a):
                found.add("sb")
            elif CB_NOT_SAFE.match(a):
                found.add("ns")
            else:
                return False
        if not found <= set(need):
            return False
        rest = [x for x in need if x not in found]
        if not rest:
            return throws_unconditionally(n[2])
        flat = _flat_text(n[2])
        return bool(flat) and chk(flat[0], rest)
    def helper_checks(n):
        if n[0] != "simple" or depth >= 2 or "Invoke" in n[1]:
            return False
        m = re.match(r"(?:[\w:]+::)?([A-Za-z_]\w*)\s*\((.*)\)\s*;$", n[1], re.S)
        if not m:
            return False
        f = _find_function(src, m.group(1))
        return bool(f) and "IsSideEffectFree" in f[1] and "Invoke" not in f[1] and callback_checked(f[1] + "\nx->Invoke();", src, depth + 1)

    def safe_seq(stmts):
        """No Invoke is reachable in `stmts` without the check having run first."""
        stmts = list(stmts)
        while stmts:
            n = stmts.pop(0)
            flat = _flat_text(n)
            if flat != [n]:
                stmts = flat + stmts
                continue
            if chk(n, ["sb", "ns"]) or helper_checks(n):
                return True
            if n[0] == "if":
                if "Invoke" in n[1]:
                    return False
                if not safe_seq(_flat_text(n[2])) or not safe_seq(_flat_text(n[3])):
                    return False
                continue
            if _contains(n, "Invoke"):
                return False
        return True
    return safe_seq(parse_stmts(body))


def text_import_read(vm):
    """vmops.hpp VMOps::FindVarImport: every value handed back (`*result = …`) is read by GetField / GetFieldByName
    with `<frame>.Sandboxed` among the arguments; no unchecked reader (GetOwnField, GetField(fid)) is used."""
    m = re.search(r"\bbool\s+FindVarImport\s*\(\s*ScriptFrame\s*&\s*(\w+)", vm)
    if not m:
        raise Lost("vmops.hpp: VMOps::FindVarImport(ScriptFrame&, …) not found")
    fv = m.group(1)
    b0 = vm.index("{", match_close(vm, vm.index("(", m.start()), "(", ")"))
    fb = vm[b0:match_close(vm, b0)]
    reads = re.findall(r"\*\s*result\s*=\s*([^;]*);", fb)
    ok = bool(reads) and "GetOwnField" not in fb and "->GetField(" not in fb
    for r in reads:
        mm = re.match(r"\s*(?:VMOps::)?GetField\s*\(|\s*[\w\.\->\(\)]+->GetFieldByName\s*\(", r)
        if not mm:
            ok = False
            continue
        p0 = r.index("(", mm.end() - 1)
        a = [norm_atom(x) for x in split_args(r[p0 + 1:match_close(r, p0, "(", ")")])]
        if fv + ".Sandboxed" not in a:
            ok = False
    return ok


def _setfield_only_under_init_dict(node, under=False):
    if node is None:
        return True
    if node[0] in ("simple", "loop"):
        return under or "SetField" not in node[1]
    if node[0] == "block":
        return all(_setfield_only_under_init_dict(b, under) for b in node[1])
    if node[0] == "if":
        u = under or conjuncts(node[1]) == ["init_dict"]
        return ("SetField" not in node[1]) and _setfield_only_under_init_dict(node[2], u) and _setfield_only_under_init_dict(node[3], under)
    return True


def extract(repo, build=None, cache=None, use_ast=True):
    t = {}
    expr = read(repo, "lib/config/expression.cpp")
    if build and os.path.isdir(build):
        # token-level analysis on the PREPROCESSED main file when possible: guard macros read like their expansion
        ef = os.path.join(repo, "lib/config/expression.cpp")
        pp = preprocess_many(repo, build, cache, [ef]).get(ef)
        if pp and len(DO_EVALUATE_SIG.findall(pp)) >= 40:
            expr = pp

    # --- node guards
    ev3 = do_evaluate_defs(expr)
    ev = [(k, b) for k, _, b in ev3]
    if len(ev) < 40:
        raise Lost("expression.cpp: only %d DoEvaluate definitions found (anchor `ExpressionResult X::DoEvaluate(ScriptFrame& frame, DebugHint *dhint) const`)" % len(ev))
    names = [k for k, _ in ev]
    if len(set(names)) != len(names):
        raise Lost("expression.cpp: duplicate DoEvaluate definition")
    for must in ("SetExpression", "SetConstExpression", "FunctionCallExpression", "IndexerExpression", "LiteralExpression"):
        if must not in names:
            raise Lost("expression.cpp: %s::DoEvaluate not found" % must)
    text_guards = [(k, text_node_guard(b, v, expr)) for k, v, b in ev3]
    ast = ast_expression_tables(repo, build, cache) if use_ast else None
    t["method"] = "text"
    t["ast_text_disagree"] = []
    if ast and all(k in ast["guards"] for k in names) and ast.get("callCheck") is not None:
        # the AST is authoritative (it sees through macros, typedefs and layout); the token-level result is kept
        # as a cross-check and reported when it differs
        t["method"] = "clang-ast"
        t["nodeGuards"] = [(k, bool(ast["guards"][k])) for k in names]
        t["ast_text_disagree"] = [k for k, g in text_guards if bool(ast["guards"][k]) != g]
    else:
        t["nodeGuards"] = text_guards

    # --- reference guards
    rf = get_reference_defs(expr)
    if not any(k == "IndexerExpression" for k, _ in rf):
        raise Lost("expression.cpp: IndexerExpression::GetReference not found")
    refs = []
    for k, b in rf:
        if text_node_guard(b) or "SetField" not in b:
            ok = True
        else:
            # init_dict is switched off under frame.Sandboxed before its first use, and every SetField sits
            # under `if (init_dict)`
            ok = text_init_dict_off(b) and all(_setfield_only_under_init_dict(n) for n in parse_stmts(b))
        refs.append((k, ok))
    t["refGuards"] = refs

    # --- the init_dict guard itself (expression.cpp:758-759), as an entry of its own
    ib = dict(rf)["IndexerExpression"]
    t["initDictOff"] = text_init_dict_off(ib)

    # --- references (lib/base/reference.cpp): which sandbox flag does a read through a Reference use
    rsrc = read(repo, "lib/base/reference.cpp")
    gb = bodies(rsrc, re.compile(r"^Value\s+(Reference)::Get\s*\(\s*\)\s*const\s*\{", re.M))
    if len(gb) != 1:
        raise Lost("reference.cpp: Value Reference::Get() const not found")
    m = re.search(r"GetFieldByName\s*\(", gb[0][1])
    if not m:
        raise Lost("reference.cpp: GetFieldByName call not found in Reference::Get")
    p0 = gb[0][1].index("(", m.end() - 1)
    a = split_args(gb[0][1][p0 + 1:match_close(gb[0][1], p0, "(", ")")])
    if len(a) < 2:
        raise Lost("reference.cpp: cannot read the sandboxed argument of GetFieldByName in Reference::Get")
    t["refGetSandboxed"] = resolve_bool(a[1], gb[0][1] + "\n" + rsrc) is True

    # --- F-C19c: does ANY Application destructor clear the process-wide singleton?  (lib/base/application.cpp:105-108:
    # `Application::~Application() { m_Instance = nullptr; }`.)  True iff the destructor's body contains an assignment /
    # reset of m_Instance that is not under a condition; a conditional clear (`if (m_Instance == this) …`) or none is false.
    asrc = read(repo, "lib/base/application.cpp")
    m = re.search(r"\bApplication::~Application\s*\(\s*\)\s*\{", asrc)
    if not m:
        raise Lost("application.cpp: Application::~Application() not found")
    ab0 = m.end() - 1
    abody = asrc[ab0 + 1:match_close(asrc, ab0)]
    depth0 = re.sub(r"\{[^{}]*\}", "", abody)            # drop braced sub-blocks (one level is all a destructor this small has)
    depth0 = re.sub(r"\bif\s*\([^;]*;", "", depth0)      # and single-statement ifs
    t["appDtorClearsSingleton"] = re.search(r"\bm_Instance\s*(=\s*(nullptr|NULL|0)\b|\.reset\s*\(\s*\))", depth0) is not None

    # --- call check
    fc = dict(ev)["FunctionCallExpression"]
    call = fc.find("VMOps::FunctionCall")
    if call < 0:
        raise Lost("expression.cpp: VMOps::FunctionCall not found in FunctionCallExpression::DoEvaluate")
    tc = text_call_check(fc, [v for k, v, _ in ev3 if k == "FunctionCallExpression"][0])
    if t["method"] == "clang-ast":
        t["callCheck"] = bool(ast["callCheck"])
        if bool(ast["callCheck"]) != tc:
            t["ast_text_disagree"].append("callCheck")
    else:
        t["callCheck"] = tc

    # --- hidden fields
    obj = read(repo, "lib/base/object.cpp")
    gb = bodies(obj, re.compile(r"^Value\s+(Object)::GetFieldByName\s*\([^)]*bool\s+sandboxed[^)]*\)\s*const\s*\{", re.M))
    if len(gb) != 1:
        raise Lost("object.cpp: Object::GetFieldByName(const String&, bool sandboxed, ...) not found")
    b = gb[0][1]
    if "GetField(fid)" not in b:
        raise Lost("object.cpp: `GetField(fid)` not found in GetFieldByName")
    t["fieldCheck"] = text_field_check(b, obj)

    # --- frame inheritance
    sf = read(repo, "lib/base/scriptframe.cpp")
    ib = bodies(sf, re.compile(r"^void\s+(ScriptFrame)::InitializeFrame\s*\(\s*\)\s*\{", re.M))
    if len(ib) != 1:
        raise Lost("scriptframe.cpp: ScriptFrame::InitializeFrame not found")
    t["frameInherits"] = bool(re.search(r"\bSandboxed\s*=\s*\w+->Sandboxed\s*;", ib[0][1]))

    # --- script functions are not side-effect free
    vm = read(repo, "lib/config/vmops.hpp")
    m = re.search(r"static\s+inline\s+Value\s+NewFunction\s*\(", vm)
    if not m:
        raise Lost("vmops.hpp: VMOps::NewFunction not found")
    b0 = vm.index("{", vm.index(")", m.end()))
    nb = vm[b0:match_close(vm, b0)]
    m = re.search(r"return\s+new\s+Function\s*\(", nb)
    if not m:
        raise Lost("vmops.hpp: `return new Function(` not found in NewFunction")
    p0 = nb.index("(", m.end() - 1)
    args = split_args(nb[p0 + 1:match_close(nb, p0, "(", ")")])
    t["scriptFunctionsUnsafe"] = len(args) <= 3 or resolve_bool(args[3], nb + "\n" + vm) is False

    # --- imports: VMOps::FindVarImport must read the imported name through GetField with the frame's sandbox flag
    t["importReadSandboxed"] = text_import_read(vm)

    # --- where the sandbox flag of a frame is assigned (evidence only — an assignment of `false` can be legitimate for
    # a trusted frame, so this never alarms; the auto-complete / execute / event / filter sites are DRIVEN by the harness)
    sites = []
    for f in sorted(glob.glob(os.path.join(repo, "lib", "**", "*.[ch]pp"), recursive=True)):
        try:
            raw = open(f, encoding="utf-8", errors="replace").read()
        except OSError:
            continue
        if "Sandboxed" not in raw:
            continue
        for mm in re.finditer(r"([\w\.\->]*Sandboxed)\s*=(?!=)\s*([^;]+);", strip_comments(raw)):
            sites.append("%s: %s = %s" % (os.path.relpath(f, repo), mm.group(1), re.sub(r"\s+", " ", mm.group(2).strip())))
    t["sandboxedAssignments"] = sites

    # --- natives: every `new [icinga::]Function("Ns#name", callback, args, flag…)` AFTER PREPROCESSING (so any
    # registration macro, wrapper macro or named constant for the flag reads the same); a file that cannot be
    # preprocessed (library not configured in this build) is read with the registration macros of function.hpp
    natives, invokers, unknown = {}, [], []
    files = sorted(glob.glob(os.path.join(repo, "lib", "**", "*.cpp"), recursive=True))
    cand = []
    for f in files:
        raw = open(f, encoding="utf-8", errors="replace").read()
        if "Function" in raw or "FUNCTION" in raw or "function.hpp" in raw:
            cand.append((f, raw))
    pre = preprocess_many(repo, build, cache, [f for f, _ in cand]) if build and os.path.isdir(build) else {}
    n_reg = 0
    t["natives_preprocessed_files"] = sum(1 for f, _ in cand if pre.get(f) is not None)
    for f, raw in cand:
        text = pre.get(f)
        if text is None:
            text = expand_known_macros(strip_comments(raw))
        for m in re.finditer(r"new\s+(?:icinga::)?Function\s*\(", text):
            p0 = text.index("(", m.end() - 1)
            try:
                args = split_args(text[p0 + 1:match_close(text, p0, "(", ")")])
            except Lost:
                continue
            if not args:
                continue
            lits = re.findall(r'"((?:[^"\\\\]|\\\\.)*)"', args[0])
            if not lits or re.sub(r'"(?:[^"\\\\]|\\\\.)*"|\s+', "", args[0]) != "":
                continue        # name is not a (concatenation of) string literal(s): e.g. the script function wrapper
            name = "".join(lits)
            if "#" not in name:
                continue        # temporaries that never enter a namespace or prototype
            n_reg += 1
            flag = False if len(args) < 4 else resolve_bool(args[3], text)
            if flag is None:
                unknown.append(name)
                continue
            natives[name] = flag
            # does the callback invoke a script-supplied function, and does it test that function's flag first?
            cb = args[1].strip().lstrip("&").strip() if len(args) > 1 else ""
            if re.fullmatch(r"\w+", cb):
                fb = _find_function(text, cb)
                if fb:
                    iv = re.search(r"->\s*Invoke(This)?\s*\(", fb[1])
                    if iv:
                        invokers.append((name, flag, callback_checked(fb[1], text)))
    t["natives_unknown_flag"] = sorted(set(unknown))
    if n_reg < 60:
        raise Lost("native registrations: only %d `new Function(\"Ns#name\", …)` registrations found" % n_reg)
    if "Array#map" not in natives or "System#regex" not in natives:
        raise Lost("native registrations: Array#map / System#regex not found")
    t["natives"] = sorted(natives.items())
    t["callbackInvokers"] = sorted(invokers)
    return t


# ------------------------------------------------------------------------------------------------
# Self-test: fragments with equivalent spellings (must be recognised) and removed/weakened guards (must not)

def selftest(use_ast=True, d=None):
    """Runs both extractors over gen/c19_selftest/*.cpp; returns a list of failure descriptions."""
    import glob as _glob
    import shutil
    import subprocess
    d = d or os.path.join(os.path.dirname(os.path.abspath(__file__)), "c19_selftest")
    files = sorted(_glob.glob(os.path.join(d, "*.cpp")))
    fails, checked = [], 0
    if len(files) < 20:
        return ["self-test corpus incomplete: %d fragments in %s" % (len(files), d)], 0
    clang = (shutil.which("clang++-14") or shutil.which("clang++")) if use_ast else None
    sig = re.compile(r"^ExpressionResult\s+(\w+)::DoEvaluate\s*\(\s*ScriptFrame\s*&\s*frame\s*,\s*DebugHint\s*\*\s*dhint\s*\)\s*const\s*\{", re.M)
    for f in files:
        raw = open(f, encoding="utf-8").read()
        exp = {}
        for m in re.finditer(r"//\s*EXPECT\s+(.*)", raw):
            for kv in m.group(1).split():
                k, v = kv.rsplit("=", 1)
                exp[k] = v == "1"
        src = strip_comments(raw)
        if not f.endswith(".txt.cpp") and shutil.which("g++"):
            # as on the real tree: the token-level extractor reads the preprocessed main file (macros expanded)
            pp = subprocess.run(["g++", "-E", "-std=c++17", "-w", "-I" + d, f], stdout=subprocess.PIPE, stderr=subprocess.DEVNULL)
            if pp.returncode == 0:
                out, keep, real = [], False, os.path.realpath(f)
                for line in pp.stdout.decode("utf-8", "replace").split("\n"):
                    if line.startswith("# "):
                        m = re.match(r'# \d+ "([^"]*)"', line)
                        if m:
                            keep = os.path.realpath(m.group(1)) == real
                        continue
                    if keep:
                        out.append(line)
                if len(do_evaluate_defs("\n".join(out))) == len(do_evaluate_defs(src)):
                    src = "\n".join(out)
        got = {}
        for k, v, b in do_evaluate_defs(src):
            got[k] = text_node_guard(b, v, src)
            if k == "FunctionCallExpression":
                got = {"callCheck": text_call_check(b, v)}
        for _, b in bodies(src, re.compile(r"^Value\s+(Object)::GetFieldByName\s*\([^)]*bool\s+sandboxed[^)]*\)\s*const\s*\{", re.M)):
            got["fieldCheck"] = text_field_check(b, src)
        for k, b in get_reference_defs(src):
            if k == "IndexerExpression":
                got["initDictOff"] = text_init_dict_off(b)
        if "FindVarImport" in src and "importReadSandboxed" in exp:
            got["importReadSandboxed"] = text_import_read(src)
        for _, b in bodies(src, re.compile(r"^Value\s+(Reference)::Get\s*\(\s*\)\s*const\s*\{", re.M)):
            m = re.search(r"GetFieldByName\s*\(", b)
            p0 = b.index("(", m.end() - 1)
            got["refGetSandboxed"] = resolve_bool(split_args(b[p0 + 1:match_close(b, p0, "(", ")")])[1], b + "\n" + src) is True
        if any(k.startswith(("native:", "invoker:")) for k in exp):
            text = expand_known_macros(src)
            for m in re.finditer(r"new\s+(?:icinga::)?Function\s*\(", text):
                p0 = text.index("(", m.end() - 1)
                args = split_args(text[p0 + 1:match_close(text, p0, "(", ")")])
                lits = re.findall(r'"((?:[^"\\\\]|\\\\.)*)"', args[0])
                name = "".join(lits)
                if "#" not in name:
                    continue
                flag = False if len(args) < 4 else resolve_bool(args[3], text)
                got["native:" + name] = flag
                cb = args[1].strip().lstrip("&").strip() if len(args) > 1 else ""
                fb = _find_function(text, cb) if re.fullmatch(r"\w+", cb) else None
                if fb and re.search(r"->\s*Invoke(This)?\s*\(", fb[1]):
                    got["invoker:" + name] = callback_checked(fb[1], text)
        for k, v in exp.items():
            checked += 1
            if got.get(k) is not v:
                fails.append("%s: token-level extractor says %s=%s, expected %s" % (os.path.basename(f), k, got.get(k), v))
        if clang and not f.endswith(".txt.cpp"):
            errs = []

            def dump(filt, f=f, errs=errs):
                p = subprocess.run([clang, "-std=gnu++17", "-fsyntax-only", "-w", "-I" + d, "-Xclang", "-ast-dump=json",
                                    "-Xclang", "-ast-dump-filter=" + filt, f], stdout=subprocess.PIPE, stderr=subprocess.PIPE)
                if p.returncode != 0:
                    errs.append(p.stderr.decode()[-300:])
                    return None
                return p.stdout.decode("utf-8", "replace")
            a = ast_analyse(dump)
            if errs:
                fails.append("%s: fragment does not compile: %s" % (os.path.basename(f), errs[0]))
                continue
            if a is None:
                fails.append("%s: no AST result" % os.path.basename(f))
                continue
            for k, v in exp.items():
                if ":" in k:
                    continue
                checked += 1
                g = a["callCheck"] if k == "callCheck" else a["guards"].get(k)
                if g is not v:
                    fails.append("%s: AST extractor says %s=%s, expected %s" % (os.path.basename(f), k, g, v))
    return fails, checked


def lean_str(s):
    return '"' + s.replace("\\", "\\\\").replace('"', '\\"') + '"'


def lean_bool(b):
    return "true" if b else "false"


def render(t):
    o = []
    o.append("/-")
    o.append("  GENERATED by gen/c19_sandbox_guards.py from /repo on every `./check C19` — do not edit.")
    o.append("  Sources: lib/config/expression.cpp, lib/config/vmops.hpp, lib/base/object.cpp,")
    o.append("  lib/base/scriptframe.cpp, native registrations under lib/.")
    o.append("-/")
    o.append("namespace Icinga.Gen.SandboxGuards")
    o.append("")
    o.append("/-- (class, body of `X::DoEvaluate` starts with `if (frame.Sandboxed) BOOST_THROW_EXCEPTION(ScriptError(...))`) -/")
    o.append("def nodeGuards : List (String × Bool) := [")
    o.append(",\n".join("  (%s, %s)" % (lean_str(k), lean_bool(v)) for k, v in t["nodeGuards"]))
    o.append("]")
    o.append("")
    o.append("/-- (class, `X::GetReference` cannot write in a sandboxed frame) -/")
    o.append("def refGuards : List (String × Bool) := [")
    o.append(",\n".join("  (%s, %s)" % (lean_str(k), lean_bool(v)) for k, v in t["refGuards"]))
    o.append("]")
    o.append("")
    o.append("/-- FunctionCallExpression: `!func->IsSideEffectFree() && frame.Sandboxed` throws before the call -/")
    o.append("def callCheck : Bool := " + lean_bool(t["callCheck"]))
    o.append("/-- Object::GetFieldByName: `sandboxed` + FANoUserView throws before the field is read -/")
    o.append("def fieldCheck : Bool := " + lean_bool(t["fieldCheck"]))
    o.append("/-- IndexerExpression::GetReference forces `init_dict = false` under frame.Sandboxed before using it -/")
    o.append("def initDictOff : Bool := " + lean_bool(t["initDictOff"]))
    o.append("/-- Reference::Get reads its field with the literal `sandboxed = true` -/")
    o.append("def refGetSandboxed : Bool := " + lean_bool(t["refGetSandboxed"]))
    o.append("/-- VMOps::FindVarImport reads an imported name through GetField(…, frame.Sandboxed, …) -/")
    o.append("def importReadSandboxed : Bool := " + lean_bool(t["importReadSandboxed"]))
    o.append("/-- Application::~Application() clears Application::m_Instance unconditionally (F-C19c) -/")
    o.append("def appDtorClearsSingleton : Bool := " + lean_bool(t["appDtorClearsSingleton"]))
    o.append("/-- ScriptFrame::InitializeFrame inherits `Sandboxed` from the enclosing frame -/")
    o.append("def frameInherits : Bool := " + lean_bool(t["frameInherits"]))
    o.append("/-- VMOps::NewFunction creates script functions that are not side-effect free -/")
    o.append("def scriptFunctionsUnsafe : Bool := " + lean_bool(t["scriptFunctionsUnsafe"]))
    o.append("")
    o.append("/-- (registered name, side-effect-free flag) of every native function and prototype method -/")
    o.append("def natives : List (String × Bool) := [")
    o.append(",\n".join("  (%s, %s)" % (lean_str(k), lean_bool(v)) for k, v in t["natives"]))
    o.append("]")
    o.append("")
    o.append("/-- natives that invoke a script-supplied function: (name, side-effect-free flag, tests the callback's flag under Sandboxed first) -/")
    o.append("def callbackInvokers : List (String × Bool × Bool) := [")
    o.append(",\n".join("  (%s, %s, %s)" % (lean_str(k), lean_bool(a), lean_bool(b)) for k, a, b in t["callbackInvokers"]))
    o.append("]")
    o.append("")
    o.append("end Icinga.Gen.SandboxGuards")
    return "\n".join(o) + "\n"


def default_build():
    root = os.path.dirname(os.path.dirname(os.path.abspath(__file__)))
    work = os.environ.get("VERIF_WORK", os.path.join(root, "_work"))
    return os.path.join(work, "build-hooks"), os.path.join(work, "c19", "astcache")


def generate(repo, out_path, build=None, cache=None, use_ast=True):
    if build is None:
        build, cache = default_build()
    t = extract(repo, build, cache, use_ast)
    text = render(t)
    os.makedirs(os.path.dirname(out_path), exist_ok=True)
    old = open(out_path, encoding="utf-8").read() if os.path.exists(out_path) else None
    if old != text:          # keep the mtime when nothing changed (no needless lake rebuild)
        tmp = out_path + ".tmp%d" % os.getpid()
        with open(tmp, "w", encoding="utf-8") as f:
            f.write(text)
        os.replace(tmp, out_path)
    return t


if __name__ == "__main__":
    if len(sys.argv) > 1 and sys.argv[1] == "--selftest":
        fails, n = selftest(True, sys.argv[2] if len(sys.argv) > 2 else None)
        print("self-test: %d expectations checked, %d failures" % (n, len(fails)))
        for x in fails:
            print("  " + x)
        sys.exit(1 if fails else 0)
    repo = sys.argv[1] if len(sys.argv) > 1 else "/repo"
    out = sys.argv[2] if len(sys.argv) > 2 else os.path.join(os.path.dirname(os.path.dirname(os.path.abspath(__file__))), "lean", "IcingaProofs", "Gen", "SandboxGuards.lean")
    try:
        t = generate(repo, out)
    except Lost as e:
        print("LOST ANCHOR: %s" % e)
        sys.exit(1)
    print("method=%s disagree=%s nodes=%d guarded=%d natives=%d safe=%d invokers=%d callCheck=%s fieldCheck=%s" % (
        t["method"], t["ast_text_disagree"],
        len(t["nodeGuards"]), sum(v for _, v in t["nodeGuards"]), len(t["natives"]), sum(v for _, v in t["natives"]),
        len(t["callbackInvokers"]), t["callCheck"], t["fieldCheck"]))

#!/usr/bin/env python3
"""Shared translator (C01, C02, C03, C06, C10): the numeric values of the enumerations the models and the line
protocol rely on — ServiceState, HostState, StateType (lib/icinga/checkresult.ti), NotificationFilter state bits and
NotificationType (lib/icinga/notification.hpp), AcknowledgementType (lib/icinga/checkable.ti), HAMode
(lib/base/configobject.ti) — become `Icinga.Gen.Enums.*` in lean/IcingaProofs/Gen/Enums.lean.

Semantic, not textual: a probe program that includes the real headers (and the class-compiler output of the hook
build tree) is compiled and run, so `1 << 5`, implicit numbering, a moved definition or a reformatted block all
yield the same table; only a changed VALUE or a removed enumerator changes the output (the latter: the probe no
longer compiles => anchor lost).  The probe's output is cached under the key of the preprocessed-independent
inputs (content hash of the defining files and their generated headers), so an unchanged tree costs nothing.

The theorems over the table are in lean/IcingaProofs/Tie/Enums<Cxx>.lean: the encodings the models use equal the
source's values, and the filter bits are distinct powers of two.

Usage: enums.py <repo> <build> <out.lean> <cachedir>      (exit 3: anchor lost, nothing written)
"""
import hashlib
import os
import subprocess
import sys


class Lost(Exception):
    pass


NAMES = [
    ("ServiceState", "lib/icinga/checkresult.ti", ["ServiceOK", "ServiceWarning", "ServiceCritical", "ServiceUnknown"]),
    ("HostState", "lib/icinga/checkresult.ti", ["HostUp", "HostDown"]),
    ("StateType", "lib/icinga/checkresult.ti", ["StateTypeSoft", "StateTypeHard"]),
    ("NotificationFilter", "lib/icinga/notification.hpp",
     ["StateFilterOK", "StateFilterWarning", "StateFilterCritical", "StateFilterUnknown", "StateFilterUp", "StateFilterDown"]),
    ("NotificationType", "lib/icinga/notification.hpp",
     ["NotificationDowntimeStart", "NotificationDowntimeEnd", "NotificationDowntimeRemoved", "NotificationCustom",
      "NotificationAcknowledgement", "NotificationProblem", "NotificationRecovery", "NotificationFlappingStart",
      "NotificationFlappingEnd"]),
    ("AcknowledgementType", "lib/icinga/checkable.ti", ["AcknowledgementNone", "AcknowledgementNormal", "AcknowledgementSticky"]),
    ("HAMode", "lib/base/configobject.ti", ["HARunOnce", "HARunEverywhere"]),
]

HEADERS = ["icinga/checkresult.hpp", "icinga/notification.hpp", "icinga/checkable.hpp", "base/configobject.hpp"]
INPUTS = ["lib/icinga/checkresult.ti", "lib/icinga/checkresult.hpp", "lib/icinga/notification.hpp", "lib/icinga/notification.ti",
          "lib/icinga/checkable.ti", "lib/icinga/checkable.hpp", "lib/base/configobject.ti", "lib/base/configobject.hpp"]
GENERATED = ["lib/icinga/checkresult-ti.hpp", "lib/icinga/notification-ti.hpp", "lib/icinga/checkable-ti.hpp",
             "lib/base/configobject-ti.hpp"]


def lean_name(n):
    return n[0].lower() + n[1:]


def probe_source():
    lines = ["#include \"%s\"" % h for h in HEADERS] + ["#include <cstdio>", "using namespace icinga;",
             "#define P(x) std::printf(\"%s %ld\\n\", #x, static_cast<long>(x))", "int main() {"]
    for _, _, names in NAMES:
        lines += ["  P(%s);" % n for n in names]
    lines += ["  return 0;", "}"]
    return "\n".join(lines) + "\n"


def values(repo, build, cachedir):
    h = hashlib.sha256(probe_source().encode())
    for rel, base in [(r, repo) for r in INPUTS] + [(r, build) for r in GENERATED]:
        p = os.path.join(base, rel)
        if not os.path.exists(p):
            raise Lost(rel + " not found (under %s)" % base)
        h.update(rel.encode() + b"\0" + open(p, "rb").read())
    key = h.hexdigest()[:24]
    os.makedirs(cachedir, exist_ok=True)
    cf = os.path.join(cachedir, "enums-" + key + ".txt")
    if not os.path.exists(cf):
        src = os.path.join(cachedir, "enums-probe-%d.cpp" % os.getpid())
        exe = src[:-4]
        open(src, "w").write(probe_source())
        cmd = ["g++", "-std=c++17", "-O0", "-w", "-DICINGA2_VERIF", "-DBOOST_ASIO_USE_TS_EXECUTOR_AS_DEFAULT",
               "-DBOOST_COROUTINES_NO_DEPRECATION_WARNING", "-DBOOST_FILESYSTEM_NO_DEPRECATED", "-D_GNU_SOURCE",
               "-I" + repo, "-I" + os.path.join(repo, "lib"), "-I" + build, "-I" + os.path.join(build, "lib"),
               "-isystem", os.path.join(repo, "third-party/nlohmann_json"),
               "-isystem", os.path.join(repo, "third-party/utf8cpp/source"),
               "-isystem", os.path.join(repo, "third-party"), src, "-o", exe, "-lssl", "-lcrypto", "-pthread"]
        r = subprocess.run(cmd, stdout=subprocess.PIPE, stderr=subprocess.STDOUT, text=True)
        try:
            if r.returncode != 0:
                raise Lost("enum probe does not compile any more (an enumerator was renamed or removed):\n" + r.stdout[-1500:])
            out = subprocess.run([exe], stdout=subprocess.PIPE, text=True, timeout=60).stdout
        finally:
            for f in (src, exe):
                if os.path.exists(f):
                    os.remove(f)
        tmp = cf + ".%d" % os.getpid()
        open(tmp, "w").write(out)
        os.replace(tmp, cf)
    vals = {}
    for line in open(cf).read().splitlines():
        k, v = line.split()
        vals[k] = int(v)
    want = [n for _, _, ns in NAMES for n in ns]
    missing = [n for n in want if n not in vals]
    if missing:
        raise Lost("enum probe printed no value for " + ",".join(missing))
    neg = [n for n in want if vals[n] < 0]
    if neg:
        raise Lost("negative enumerator value (the models use Nat): " + ",".join(neg))
    return vals


def generate(repo, build, out_path, cachedir):
    vals = values(repo, build, cachedir)
    body = ["/-", "  GENERATED by gen/enums.py from /repo (probe program compiled against the real headers).",
            "  Regenerated at the start of every check of C01, C02, C03, C06, C10; do not edit.", "-/",
            "namespace Icinga.Gen.Enums", ""]
    for enum, rel, names in NAMES:
        body.append(f"/-! `{enum}` ({rel}) -/")
        for n in names:
            body.append(f"def {lean_name(n)} : Nat := {vals[n]}")
        body.append("")
    body.append("/-- `NotificationType` enumerators in declaration order. -/")
    body.append("def notificationTypes : List Nat := [" + ", ".join(lean_name(n) for n in NAMES[4][2]) + "]")
    body.append("/-- `NotificationFilter` state bits in declaration order. -/")
    body.append("def stateFilters : List Nat := [" + ", ".join(lean_name(n) for n in NAMES[3][2]) + "]")
    body += ["", "end Icinga.Gen.Enums", ""]
    text = "\n".join(body)
    old = open(out_path).read() if os.path.exists(out_path) else None
    if old != text:
        tmp = out_path + ".tmp%d" % os.getpid()
        open(tmp, "w").write(text)
        os.replace(tmp, out_path)
    return vals


if __name__ == "__main__":
    try:
        print(generate(*sys.argv[1:5]))
    except Lost as e:
        print("ANCHOR LOST: " + str(e), file=sys.stderr)
        sys.exit(3)

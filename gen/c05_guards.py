#!/usr/bin/env python3
"""Translator for C05: the four window predicates of <repo>/lib/icinga/downtime.cpp,

    bool Downtime::IsTriggered() / IsInEffect() / IsExpired() / CanBeTriggered()

become the Lean functions `isTriggeredSrc`, `isInEffectSrc`, `isExpiredSrc`, `canBeTriggeredSrc` of
lean/IcingaProofs/Gen/DowntimeGuards.lean (over the model's `Dt`: GetFixed() -> d.fixed, GetStartTime() -> d.start,
GetEndTime() -> d.fin, GetTriggerTime() -> d.trigger, GetDuration() -> d.duration, Utility::GetTime() -> now; doubles
become integers, the abstraction of the whole model).  The theorem `guards_match_source`
(IcingaProofs/C05/SourceTie.lean, restated in IcingaProofs/C05.lean) proves them equal to the hand-written
`isTriggered` / `isInEffect` / `isExpired` / `canBeTriggered` of the model for ALL instants and downtimes, so a changed
comparison, bound or guard in one of these functions breaks a proof obligation even where no sampled run reaches it.

Semantic rather than textual: the function bodies are parsed (declarations of locals, if / else, return, blocks,
`?:`, `||`, `&&`, `!`, comparisons, `+`, `-`, parentheses, std::fmin/fmax/min/max, calls of the getters and of the four predicates themselves)
and translated statement by statement; the proof is by case split and linear arithmetic, so any equivalent spelling
(negated forms, merged or split ifs, ternaries, reordered declarations, extra locals) is accepted - see
corpus/C05/negative_controls/n6_guard_spellings.diff.

Usage: c05_guards.py <repo> <out.lean>      (exit 3: anchor lost / construct outside the translated subset, nothing written)
"""
import os
import re
import sys

REL = "lib/icinga/downtime.cpp"
FUNCS = [("IsTriggered", "isTriggeredSrc"), ("IsInEffect", "isInEffectSrc"), ("IsExpired", "isExpiredSrc"),
         ("CanBeTriggered", "canBeTriggeredSrc")]
GETTERS = {"GetFixed": "d.fixed", "GetStartTime": "d.start", "GetEndTime": "d.fin", "GetTriggerTime": "d.trigger",
           "GetDuration": "d.duration"}
MINMAX = {"std::fmin": "min", "std::min": "min", "fmin": "min", "std::fmax": "max", "std::max": "max", "fmax": "max"}
TYPES = {"double", "bool", "auto", "int", "long", "float", "const", "time_t"}


class Lost(Exception):
    pass


def strip_comments(text):
    out, i, n = [], 0, len(text)
    while i < n:
        if text[i] == '"':
            j = i + 1
            while j < n and text[j] != '"':
                j += 2 if text[j] == "\\" else 1
            out.append(text[i:j + 1])
            i = j + 1
        elif text.startswith("/*", i):
            j = text.find("*/", i + 2)
            j = n if j < 0 else j + 2
            out.append("".join(ch if ch == "\n" else " " for ch in text[i:j]))
            i = j
        elif text.startswith("//", i):
            j = text.find("\n", i)
            j = n if j < 0 else j
            out.append(" " * (j - i))
            i = j
        else:
            out.append(text[i])
            i += 1
    return "".join(out)


TOK = re.compile(r"\s*(?:(\d+(?:\.\d*)?(?:[eE][-+]?\d+)?[fFlLuU]*)|([A-Za-z_][A-Za-z_0-9]*(?:::[A-Za-z_][A-Za-z_0-9]*)*)|"
                 r"(&&|\|\||==|!=|<=|>=|->|[-+*/<>!?:(){};,=]))")


def tokenize(src, fn):
    toks, i = [], 0
    src = src.strip()
    while i < len(src):
        m = TOK.match(src, i)
        if not m:
            raise Lost(f"{REL}: {fn}: cannot tokenize near {src[i:i + 30]!r}")
        if m.group(1) is not None:
            toks.append(("num", m.group(1)))
        elif m.group(2) is not None:
            toks.append(("id", m.group(2)))
        else:
            toks.append(("op", m.group(3)))
        i = m.end()
    return toks


def body_of(text, cname):
    """Token source of the body of `bool Downtime::<cname>(...) [const] {...}` and its line."""
    ms = list(re.finditer(r"\bbool\s+Downtime::" + cname + r"\s*\(\s*(?:void)?\s*\)\s*(?:const\s*)?(?:noexcept\s*)?\{", text))
    if len(ms) != 1:
        raise Lost(f"{REL}: expected exactly one definition of bool Downtime::{cname}(), found {len(ms)}")
    start = ms[0].end()
    depth, i = 1, start
    while i < len(text) and depth:
        depth += {"{": 1, "}": -1}.get(text[i], 0)
        i += 1
    if depth:
        raise Lost(f"{REL}: unbalanced braces in Downtime::{cname}")
    return text[start:i - 1], text.count("\n", 0, ms[0].start()) + 1


class Parser:
    def __init__(self, toks, fn):
        self.t, self.i, self.fn = toks, 0, fn
        self.locals = set()

    def lost(self, why):
        near = " ".join(v for _, v in self.t[self.i:self.i + 8])
        raise Lost(f"{REL}: Downtime::{self.fn}: {why} near `{near}` (outside the translated subset)")

    def peek(self, k=0):
        return self.t[self.i + k] if self.i + k < len(self.t) else ("eof", "")

    def at(self, v):
        return self.peek()[1] == v and self.peek()[0] != "num"

    def eat(self, v):
        if not self.at(v):
            self.lost(f"expected `{v}`")
        self.i += 1

    # ---- statements: each becomes ('let', name, expr) | ('ret', expr) | ('if', cond, [stmts], [stmts])
    def stmts_until_end(self):
        out = []
        while self.peek()[0] != "eof" and not self.at("}"):
            out += self.stmt()
        return out

    def stmt(self):
        k, v = self.peek()
        if self.at("{"):
            self.eat("{")
            out = self.stmts_until_end()
            self.eat("}")
            return out
        if self.at(";"):
            self.eat(";")
            return []
        if k == "id" and v == "if":
            self.eat("if")
            self.eat("(")
            c = self.expr()
            self.eat(")")
            a = self.stmt()
            b = []
            if self.at("else"):
                self.eat("else")
                b = self.stmt()
            return [("if", c, a, b)]
        if k == "id" and v == "return":
            self.eat("return")
            e = self.expr()
            self.eat(";")
            return [("ret", e)]
        if k == "id" and v in TYPES:
            while self.peek()[0] == "id" and self.peek()[1] in TYPES:
                self.i += 1
            if self.peek()[0] != "id":
                self.lost("expected the name of a local")
            name = self.peek()[1]
            self.i += 1
            if self.at("="):
                self.eat("=")
                e = self.expr()
            elif self.at("(") or self.at("{"):
                close = ")" if self.at("(") else "}"
                self.i += 1
                e = self.expr()
                self.eat(close)
            else:
                self.lost("local without initialiser")
            self.eat(";")
            self.locals.add(name)
            return [("let", name, e)]
        self.lost("statement")

    # ---- expressions (precedence climbing); result: Lean source text
    def expr(self):
        c = self.lor()
        if self.at("?"):
            self.eat("?")
            a = self.expr()
            self.eat(":")
            b = self.expr()
            return f"(if {c} then {a} else {b})"
        return c

    def lor(self):
        a = self.land()
        while self.at("||"):
            self.eat("||")
            a = f"({a} || {self.land()})"
        return a

    def land(self):
        a = self.eq()
        while self.at("&&"):
            self.eat("&&")
            a = f"({a} && {self.eq()})"
        return a

    def eq(self):
        a = self.rel()
        while self.at("==") or self.at("!="):
            op = self.peek()[1]
            self.i += 1
            a = f"({a} {op} {self.rel()})"
        return a

    def rel(self):
        a = self.add()
        while self.peek()[0] == "op" and self.peek()[1] in ("<", "<=", ">", ">="):
            op = self.peek()[1]
            self.i += 1
            b = self.add()
            a = f"(decide ({a} {op.replace('<=', '≤').replace('>=', '≥')} {b}))"
        return a

    def add(self):
        a = self.unary()
        while self.peek()[0] == "op" and self.peek()[1] in ("+", "-"):
            op = self.peek()[1]
            self.i += 1
            a = f"({a} {op} {self.unary()})"
        return a

    def unary(self):
        if self.at("!"):
            self.eat("!")
            return f"(!{self.unary()})"
        if self.at("("):
            self.eat("(")
            e = self.expr()
            self.eat(")")
            return e
        k, v = self.peek()
        if k == "num":
            self.i += 1
            m = re.match(r"(\d+)(?:\.(\d*))?(?:[fFlLuU]*)$", v)
            if not m or (m.group(2) and int(m.group(2) or "0") != 0):
                self.lost(f"non-integer literal {v}")
            return f"({int(m.group(1))} : Int)"
        if k == "id":
            self.i += 1
            if v == "this" and self.at("->"):
                self.eat("->")
                return self.unary()
            if v in ("true", "false"):
                return v
            if self.at("(") and v in MINMAX:
                self.eat("(")
                a = self.expr()
                self.eat(",")
                b = self.expr()
                self.eat(")")
                return f"({MINMAX[v]} {a} {b})"
            if self.at("("):
                self.eat("(")
                self.eat(")")
                if v == "Utility::GetTime":
                    return "now"
                if v in GETTERS:
                    return GETTERS[v]
                for cname, lname in FUNCS:
                    if v == cname:
                        return f"({lname} now d)"
                self.lost(f"call of {v}()")
            if v in self.locals:
                return "l_" + v
            self.lost(f"unknown name {v}")
        self.lost("expression")


def lean_of(stmts, rest, fn, ind):
    """Lean term (Bool) of the statement list `stmts` followed by the continuation `rest`."""
    seq = stmts + rest
    if not seq:
        raise Lost(f"{REL}: Downtime::{fn}: a path reaches the end of the function without `return`")
    s, tail = seq[0], seq[1:]
    pad = "  " * ind
    if s[0] == "ret":
        return f"{pad}{s[1]}"
    if s[0] == "let":
        return f"{pad}let l_{s[1]} := {s[2]}\n" + lean_of(tail, [], fn, ind)
    if s[0] == "if":
        return (f"{pad}if {s[1]} then\n" + lean_of(s[2], tail, fn, ind + 1) + f"\n{pad}else\n" +
                lean_of(s[3], tail, fn, ind + 1))
    raise Lost("internal")


def generate(repo, out_path):
    p = os.path.join(repo, REL)
    if not os.path.exists(p):
        raise Lost(REL + " not found")
    text = strip_comments(open(p, encoding="utf-8", errors="replace").read())
    defs = []
    for cname, lname in FUNCS:
        src, line = body_of(text, cname)
        ps = Parser(tokenize(src, cname), cname)
        stmts = ps.stmts_until_end()
        if ps.peek()[0] != "eof":
            ps.lost("trailing tokens")
        term = lean_of(stmts, [], cname, 1)
        defs.append(f"/-- downtime.cpp:{line}: `bool Downtime::{cname}()`. -/\ndef {lname} (now : Int) (d : Dt) : Bool :=\n{term}\n")
    body = ("/-\n  GENERATED by gen/c05_guards.py from /repo/" + REL + " (Downtime::IsTriggered / IsInEffect / IsExpired /\n"
            "  CanBeTriggered).  Regenerated at the start of every `./check C05`; do not edit.\n-/\n"
            "import IcingaModel.C05.Model\n\nnamespace Icinga.Gen.DowntimeGuards\nopen Icinga.C05\n\n" +
            "\n".join(defs) + "\nend Icinga.Gen.DowntimeGuards\n")
    old = open(out_path).read() if os.path.exists(out_path) else None
    if old != body:
        tmp = out_path + ".tmp%d" % os.getpid()
        with open(tmp, "w") as fh:
            fh.write(body)
        os.replace(tmp, out_path)
    return [l for _, l in FUNCS]


if __name__ == "__main__":
    try:
        print(generate(sys.argv[1], sys.argv[2]))
    except Lost as e:
        print("anchor lost: " + str(e), file=sys.stderr)
        sys.exit(3)

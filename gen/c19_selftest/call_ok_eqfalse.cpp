/* FunctionCallExpression call check, variant call_ok_eqfalse */
#include "prelude.hpp"
// EXPECT callCheck=1
namespace icinga { NODE(FunctionCallExpression); }

ExpressionResult FunctionCallExpression::DoEvaluate(ScriptFrame& frame, DebugHint *dhint) const
{
	Value self, vfunc;
	FunctionPtr func;
	if ((frame.Sandboxed == true) && (func->IsSideEffectFree() == false))
		BOOST_THROW_EXCEPTION(ScriptError("no", m_DebugInfo));
	return VMOps::FunctionCall(frame, self, func, 0);
}

/* Reference::Get, variant ref_bad_negtrue (token-level extractor only) */
// EXPECT refGetSandboxed=0
Value Reference::Get() const
{
	return m_Parent->GetFieldByName(m_Index, !true, DebugInfo());
}

/* FunctionCallExpression call check, variant call_ok_swapped */
#include "prelude.hpp"
// EXPECT callCheck=1
namespace icinga { NODE(FunctionCallExpression); }

ExpressionResult FunctionCallExpression::DoEvaluate(ScriptFrame& frame, DebugHint *dhint) const
{
	Value self, vfunc;
	FunctionPtr func;
	/* whitelist */
	if (frame.Sandboxed && !func->IsSideEffectFree()) {
		BOOST_THROW_EXCEPTION(ScriptError("This function may not be called from a sandboxed script.", m_DebugInfo));
	}
	return VMOps::FunctionCall(frame, self, func, 0);
}

/* Object::GetFieldByName no_user_view check, variant field_bad_log (token-level extractor only; not compiled) */
// EXPECT fieldCheck=0
Value Object::GetFieldByName(const String& field, bool sandboxed, const DebugInfo& debugInfo) const
{
	Type::Ptr type = GetReflectionType();

	if (!type)
		return Empty;

	int fid = type->GetFieldId(field);

	if (fid == -1)
		return GetPrototypeField(const_cast<Object *>(this), field, true, debugInfo);

	if (sandboxed) {
		Field fieldInfo = type->GetFieldInfo(fid);

		if (fieldInfo.Attributes & FANoUserView)
			Log(LogWarning, "base") << "Accessing the field is not allowed in sandbox mode.";
	}
	return GetField(fid);
}

/* IndexerExpression::GetReference with renamed parameters, guard first */
// EXPECT initDictOff=1
bool IndexerExpression::GetReference(ScriptFrame& sf, bool create, Value *parent, String *index, DebugHint **dhint) const
{
	/* nothing is ever created on behalf of a sandboxed script */
	if (sf.Sandboxed) {
		create = false;
	}

	Value vparent;
	String vindex;

	if (m_Operand1->GetReference(sf, create, &vparent, &vindex, &psdhint)) {
		if (create) {
			VMOps::SetField(vparent, vindex, new Dictionary(), m_OverrideFrozen, m_Operand1->GetDebugInfo());
		}
	}
	return true;
}

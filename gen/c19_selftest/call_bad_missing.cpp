/* FunctionCallExpression call check, variant call_bad_missing */
#include "prelude.hpp"
// EXPECT callCheck=0
namespace icinga { NODE(FunctionCallExpression); }

ExpressionResult FunctionCallExpression::DoEvaluate(ScriptFrame& frame, DebugHint *dhint) const
{
	Value self, vfunc;
	FunctionPtr func;
	Mutate("nothing here");
	return VMOps::FunctionCall(frame, self, func, 0);
}

/* Object::GetFieldByName no_user_view check, variant field_bad_predicate_false (token-level extractor only; not compiled) */
// EXPECT fieldCheck=0
static bool IsHiddenFromUsers(const Type::Ptr& type, int fid)
{
	return false;
}

Value Object::GetFieldByName(const String& field, bool sandboxed, const DebugInfo& debugInfo) const
{
	Type::Ptr type = GetReflectionType();

	if (!type)
		return Empty;

	int fid = type->GetFieldId(field);

	if (fid == -1)
		return GetPrototypeField(const_cast<Object *>(this), field, true, debugInfo);

	if (!sandboxed)
		return GetField(fid);

	if (IsHiddenFromUsers(type, fid))
		BOOST_THROW_EXCEPTION(ScriptError("hidden", debugInfo));
	return GetField(fid);
}

/* VMOps::FindVarImport, variant import_ok_renamed_byname (token-level extractor only) */
// EXPECT importReadSandboxed=1
	static inline bool FindVarImport(ScriptFrame& sf, const std::vector<Expression::Ptr>& imports, const String& name, Value *result, const DebugInfo& debugInfo = DebugInfo())
	{
		/* one lookup per import */
		for (const auto& import : imports) {
			Object::Ptr obj = import->Evaluate(sf).GetValue();
			if (obj->HasOwnField(name)) {
				*result = obj->GetFieldByName(name, (sf.Sandboxed), debugInfo);
				return true;
			}
		}
		return false;
	}

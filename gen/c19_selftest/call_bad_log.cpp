/* FunctionCallExpression call check, variant call_bad_log */
#include "prelude.hpp"
// EXPECT callCheck=0
namespace icinga { NODE(FunctionCallExpression); }

ExpressionResult FunctionCallExpression::DoEvaluate(ScriptFrame& frame, DebugHint *dhint) const
{
	Value self, vfunc;
	FunctionPtr func;
	if (!func->IsSideEffectFree() && frame.Sandboxed)
		Log(1, "config") << "Function is not marked as safe for sandbox mode.";
	return VMOps::FunctionCall(frame, self, func, 0);
}

/* VMOps::FindVarImport, variant import_bad_default (token-level extractor only) */
// EXPECT importReadSandboxed=0
	static inline bool FindVarImport(ScriptFrame& frame, const std::vector<Expression::Ptr>& imports, const String& name, Value *result, const DebugInfo& debugInfo = DebugInfo())
	{
		Value parent;

		if (FindVarImportRef(frame, imports, name, &parent, debugInfo)) {
			*result = GetField(parent, name);
			return true;
		}
		return false;
	}

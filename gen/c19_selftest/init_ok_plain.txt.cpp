/* IndexerExpression::GetReference init_dict guard, variant init_ok_plain (token-level extractor only) */
// EXPECT initDictOff=1
bool IndexerExpression::GetReference(ScriptFrame& frame, bool init_dict, Value *parent, String *index, DebugHint **dhint) const
{
	Value vparent;
	String vindex;
	DebugHint *psdhint = nullptr;
	bool free_psd = false;

	if (dhint)
		psdhint = *dhint;

	if (frame.Sandboxed)
		init_dict = false;
	if (m_Operand1->GetReference(frame, init_dict, &vparent, &vindex, &psdhint)) {
		if (init_dict) {
			Value old_value;
			if (old_value.IsEmpty() && !old_value.IsString())
				VMOps::SetField(vparent, vindex, new Dictionary(), m_OverrideFrozen, m_Operand1->GetDebugInfo());
		}
		*parent = VMOps::GetField(vparent, vindex, frame.Sandboxed, m_DebugInfo);
	}
	return true;
}

/* FunctionCallExpression call check, variant call_bad_positive */
#include "prelude.hpp"
// EXPECT callCheck=0
namespace icinga { NODE(FunctionCallExpression); }

ExpressionResult FunctionCallExpression::DoEvaluate(ScriptFrame& frame, DebugHint *dhint) const
{
	Value self, vfunc;
	FunctionPtr func;
	if (func->IsSideEffectFree() && frame.Sandboxed)
		BOOST_THROW_EXCEPTION(ScriptError("no", m_DebugInfo));
	return VMOps::FunctionCall(frame, self, func, 0);
}

/* More equivalent spellings: helper function, macro, inverted if/else, harmless locals first, renamed parameter. */
#include "prelude.hpp"
// EXPECT ViaHelper=1 ViaHelperSecondArg=1 ViaMacro=1 Inverted=1 InvertedEqFalse=1 InvertedReturn=1 LocalsFirst=1 Renamed=1 HelperThenLocals=1
namespace icinga { NODE(ViaHelper); NODE(ViaHelperSecondArg); NODE(ViaMacro); NODE(Inverted); NODE(InvertedEqFalse); NODE(InvertedReturn); NODE(LocalsFirst); NODE(Renamed); NODE(HelperThenLocals); }

static void RequireUnsandboxed(const ScriptFrame& frame, const char *what, const DebugInfo& di)
{
	if (frame.Sandboxed)
		BOOST_THROW_EXCEPTION(ScriptError(std::string(what) + " are not allowed in sandbox mode.", di));
}

static void RefuseIfRestricted(const char *what, ScriptFrame& f)
{
	/* restricted scripts */
	if (f.Sandboxed) {
		throw ScriptError(what);
	}
}

#define SANDBOX_GUARD(frame, msg) \
	do { \
		if ((frame).Sandboxed) \
			BOOST_THROW_EXCEPTION(ScriptError(msg, m_DebugInfo)); \
	} while (0)

ExpressionResult ViaHelper::DoEvaluate(ScriptFrame& frame, DebugHint *dhint) const
{
	RequireUnsandboxed(frame, "Assignments", m_DebugInfo);

	Mutate("x");
	return Empty;
}

ExpressionResult ViaHelperSecondArg::DoEvaluate(ScriptFrame& frame, DebugHint *dhint) const
{
	RefuseIfRestricted("no", frame);
	Mutate("x");
	return Empty;
}

ExpressionResult ViaMacro::DoEvaluate(ScriptFrame& frame, DebugHint *dhint) const
{
	SANDBOX_GUARD(frame, "Imports are not allowed in sandbox mode.");
	Mutate("x");
	return Empty;
}

ExpressionResult Inverted::DoEvaluate(ScriptFrame& frame, DebugHint *dhint) const
{
	if (!frame.Sandboxed) {
		Mutate("x");
		return Empty;
	} else {
		BOOST_THROW_EXCEPTION(ScriptError("no", m_DebugInfo));
	}
}

ExpressionResult InvertedEqFalse::DoEvaluate(ScriptFrame& frame, DebugHint *dhint) const
{
	if (frame.Sandboxed == false) {
		/* fine */
	} else
		BOOST_THROW_EXCEPTION(ScriptError("no", m_DebugInfo));
	Mutate("x");
	return Empty;
}

ExpressionResult InvertedReturn::DoEvaluate(ScriptFrame& frame, DebugHint *dhint) const
{
	if (!frame.Sandboxed) {
		Mutate("x");
		return Empty;
	}
	BOOST_THROW_EXCEPTION(ScriptError("no", m_DebugInfo));
}

ExpressionResult LocalsFirst::DoEvaluate(ScriptFrame& frame, DebugHint *dhint) const
{
	DebugHint *psdhint = dhint;
	Value parent;
	std::string index, other;
	int n = 0;

	if (frame.Sandboxed)
		BOOST_THROW_EXCEPTION(ScriptError("no", m_DebugInfo));
	Mutate("x");
	return Empty;
}

ExpressionResult Renamed::DoEvaluate(ScriptFrame& sf, DebugHint *hint) const
{
	// loops could run forever
	if ( sf.Sandboxed )
	{
		BOOST_THROW_EXCEPTION(ScriptError("no", m_DebugInfo));
	}
	Mutate("x");
	return Empty;
}

ExpressionResult HelperThenLocals::DoEvaluate(ScriptFrame& frame, DebugHint *dhint) const
{
	Value parent;
	RequireUnsandboxed(frame, "x", m_DebugInfo);
	Mutate("x");
	return Empty;
}

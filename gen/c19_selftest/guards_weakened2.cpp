/* The same shapes, weakened: NONE of these is a guard. */
#include "prelude.hpp"
// EXPECT HelperNoThrow=0 HelperOtherFrame=0 HelperConditional=0 HelperAfterMutation=0 MacroExtra=0 InvertedNoElse=0 InvertedElseLogs=0 EffectInLocals=0 EffectBeforeThrow=0 WrongParam=0 HelperWrongArg=0
namespace icinga { NODE(HelperNoThrow); NODE(HelperOtherFrame); NODE(HelperConditional); NODE(HelperAfterMutation); NODE(MacroExtra); NODE(InvertedNoElse); NODE(InvertedElseLogs); NODE(EffectInLocals); NODE(EffectBeforeThrow); NODE(WrongParam); NODE(HelperWrongArg); }

static void WarnIfSandboxed(const ScriptFrame& frame, const char *what)
{
	if (frame.Sandboxed)
		Log(1, "config") << "not allowed in sandbox mode";
}

static void RequireFlag(const ScriptFrame& frame, bool flag)
{
	if (frame.Sandboxed && flag)
		BOOST_THROW_EXCEPTION(ScriptError("no"));
}

static void RequireUnsandboxed(const ScriptFrame& frame, const char *what)
{
	if (frame.Sandboxed)
		BOOST_THROW_EXCEPTION(ScriptError(what));
}

static void RefuseSecond(const ScriptFrame& a, const ScriptFrame& b)
{
	if (b.Sandboxed)
		BOOST_THROW_EXCEPTION(ScriptError("no"));
}

#define WEAK_GUARD(frame, msg) \
	do { \
		if ((frame).Sandboxed && m_Flag) \
			BOOST_THROW_EXCEPTION(ScriptError(msg, m_DebugInfo)); \
	} while (0)

ExpressionResult HelperNoThrow::DoEvaluate(ScriptFrame& frame, DebugHint *dhint) const
{
	WarnIfSandboxed(frame, "x");
	Mutate("x");
	return Empty;
}

ExpressionResult HelperOtherFrame::DoEvaluate(ScriptFrame& frame, DebugHint *dhint) const
{
	ScriptFrame other{false, Value()};
	RequireUnsandboxed(other, "x");
	Mutate("x");
	return Empty;
}

ExpressionResult HelperConditional::DoEvaluate(ScriptFrame& frame, DebugHint *dhint) const
{
	RequireFlag(frame, m_Flag);
	Mutate("x");
	return Empty;
}

ExpressionResult HelperAfterMutation::DoEvaluate(ScriptFrame& frame, DebugHint *dhint) const
{
	Mutate("x");
	RequireUnsandboxed(frame, "x");
	return Empty;
}

ExpressionResult MacroExtra::DoEvaluate(ScriptFrame& frame, DebugHint *dhint) const
{
	WEAK_GUARD(frame, "no");
	Mutate("x");
	return Empty;
}

ExpressionResult InvertedNoElse::DoEvaluate(ScriptFrame& frame, DebugHint *dhint) const
{
	if (!frame.Sandboxed) {
		Log(1, "config") << "ok";
	}
	Mutate("x");
	return Empty;
}

ExpressionResult InvertedElseLogs::DoEvaluate(ScriptFrame& frame, DebugHint *dhint) const
{
	if (!frame.Sandboxed) {
		/* fine */
	} else {
		Log(1, "config") << "not allowed in sandbox mode";
	}
	Mutate("x");
	return Empty;
}

ExpressionResult EffectInLocals::DoEvaluate(ScriptFrame& frame, DebugHint *dhint) const
{
	bool done = Other();
	if (frame.Sandboxed)
		BOOST_THROW_EXCEPTION(ScriptError("no", m_DebugInfo));
	Mutate("x");
	return Empty;
}

ExpressionResult EffectBeforeThrow::DoEvaluate(ScriptFrame& frame, DebugHint *dhint) const
{
	if (frame.Sandboxed) {
		Mutate("x");
		BOOST_THROW_EXCEPTION(ScriptError("no", m_DebugInfo));
	}
	Mutate("x");
	return Empty;
}

ExpressionResult WrongParam::DoEvaluate(ScriptFrame& sf, DebugHint *hint) const
{
	ScriptFrame frame{false, Value()};
	if (frame.Sandboxed)
		BOOST_THROW_EXCEPTION(ScriptError("no", m_DebugInfo));
	Mutate("x");
	return Empty;
}

ExpressionResult HelperWrongArg::DoEvaluate(ScriptFrame& frame, DebugHint *dhint) const
{
	ScriptFrame other{false, Value()};
	RefuseSecond(frame, other);
	Mutate("x");
	return Empty;
}

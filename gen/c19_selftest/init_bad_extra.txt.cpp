/* IndexerExpression::GetReference init_dict guard, variant init_bad_extra (token-level extractor only) */
// EXPECT initDictOff=0
bool IndexerExpression::GetReference(ScriptFrame& frame, bool init_dict, Value *parent, String *index, DebugHint **dhint) const
{
	Value vparent;
	String vindex;
	DebugHint *psdhint = nullptr;
	bool free_psd = false;

	if (dhint)
		psdhint = *dhint;

	if (frame.Sandboxed && dhint)
		init_dict = false;
	if (m_Operand1->GetReference(frame, init_dict, &vparent, &vindex, &psdhint)) {
		if (init_dict) {
			Value old_value;
			if (old_value.IsEmpty() && !old_value.IsString())
				VMOps::SetField(vparent, vindex, new Dictionary(), m_OverrideFrozen, m_Operand1->GetDebugInfo());
		}
		*parent = VMOps::GetField(vparent, vindex, frame.Sandboxed, m_DebugInfo);
	}
	return true;
}

/* VMOps::FindVarImport, variant import_bad_getownfield (token-level extractor only) */
// EXPECT importReadSandboxed=0
	static inline bool FindVarImport(ScriptFrame& frame, const std::vector<Expression::Ptr>& imports, const String& name, Value *result, const DebugInfo& debugInfo = DebugInfo())
	{
		for (const auto& import : imports) {
			ExpressionResult res = import->Evaluate(frame);
			Object::Ptr obj = res.GetValue();
			if (obj->GetOwnField(name, result))
				return true;
		}
		return false;
	}

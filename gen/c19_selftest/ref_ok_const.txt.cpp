/* Reference::Get with a named constant */
// EXPECT refGetSandboxed=1
Value Reference::Get() const
{
	const bool sandboxed = true; /* references never reveal hidden fields */
	return m_Parent->GetFieldByName(m_Index, sandboxed, DebugInfo());
}

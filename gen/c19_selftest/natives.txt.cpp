/* registrations: equivalent macro, named constants, literal flags, concatenated names */
// EXPECT native:System#len=1 native:System#log=0 native:String#len=1 native:String#upper=1 native:Array#add=0 native:Array#map=1 native:Array#sort=1 native:Array#bad=1 native:Array#helper=1
// EXPECT invoker:Array#map=1 invoker:Array#sort=1 invoker:Array#bad=0 invoker:Array#helper=1
static const bool Pure = true;
static void f0() { Function::Ptr pf = new icinga::Function("System" "#" "len", &ScriptUtils::Len, String("value").Split(":"), Pure); }
REGISTER_FUNCTION(System, log, &ScriptUtils::Log, "severity:facility:value");

static void RequireSafeCallback(ScriptFrame *vframe, const Function::Ptr& function)
{
	if (!function->IsSideEffectFree() && vframe->Sandboxed)
		BOOST_THROW_EXCEPTION(ScriptError("not on the whitelist"));
}

static Array::Ptr ArrayMap(const Function::Ptr& function)
{
	ScriptFrame *vframe = ScriptFrame::GetCurrentFrame();
	Array::Ptr self = static_cast<Array::Ptr>(vframe->Self);
	if (vframe->Sandboxed) {
		if (function->IsSideEffectFree() == false)
			BOOST_THROW_EXCEPTION(ScriptError("The callback passed to map() is not on the whitelist."));
	}
	ArrayData result;
	for (const Value& item : self) {
		result.push_back(function->Invoke({ item }));
	}
	return new Array(std::move(result));
}

static Array::Ptr ArraySort(const std::vector<Value>& args)
{
	ScriptFrame *vframe = ScriptFrame::GetCurrentFrame();
	Array::Ptr arr = self->ShallowClone();
	if (args.empty()) {
		std::sort(arr->Begin(), arr->End());
	} else {
		Function::Ptr function = args[0];
		if (vframe->Sandboxed && !function->IsSideEffectFree())
			BOOST_THROW_EXCEPTION(ScriptError("Sort function must be side-effect free."));
		std::sort(arr->Begin(), arr->End(), [&args](const Value& a, const Value& b) -> bool {
			Function::Ptr cmp = args[0];
			return cmp->Invoke({ a, b });
		});
	}
	return arr;
}

static Array::Ptr ArrayBad(const Function::Ptr& function)
{
	ScriptFrame *vframe = ScriptFrame::GetCurrentFrame();
	if (vframe->Sandboxed && !function->IsSideEffectFree())
		Log(LogWarning, "base") << "callback is not side-effect free";
	return function->Invoke({ 1 });
}

static Array::Ptr ArrayHelper(const Function::Ptr& function)
{
	ScriptFrame *vframe = ScriptFrame::GetCurrentFrame();
	RequireSafeCallback(vframe, function);
	return function->Invoke({ 1 });
}

Object::Ptr String::GetPrototype()
{
	constexpr bool SideEffectFree = true;
	static Dictionary::Ptr prototype = new Dictionary({
		{ "len", new Function("String#len", StringLen, {}, SideEffectFree) },
		{ "upper", new Function("String#upper", StringUpper, {}, (true)) },
		{ "add", new Function("Array#add", ArrayAdd, { "value" }) },
		{ "map", new Function("Array#map", ArrayMap, { "func" }, true) },
		{ "sort", new Function("Array#sort", ArraySort, { "less_cmp" }, true) },
		{ "bad", new Function("Array#bad", ArrayBad, { "func" }, true) },
		{ "helper", new Function("Array#helper", ArrayHelper, { "func" }, true) },
	});
	return prototype;
}

/* FunctionCallExpression call check placed AFTER the call */
#include "prelude.hpp"
// EXPECT callCheck=0
namespace icinga { NODE(FunctionCallExpression); }

ExpressionResult FunctionCallExpression::DoEvaluate(ScriptFrame& frame, DebugHint *dhint) const
{
	Value self, vfunc;
	FunctionPtr func;
	Value r = VMOps::FunctionCall(frame, self, func, 0);
	if (!func->IsSideEffectFree() && frame.Sandboxed)
		BOOST_THROW_EXCEPTION(ScriptError("no", m_DebugInfo));
	return r;
}

/* Object::GetFieldByName no_user_view check, variant field_bad_early_return_inverted (token-level extractor only; not compiled) */
// EXPECT fieldCheck=0

Value Object::GetFieldByName(const String& field, bool sandboxed, const DebugInfo& debugInfo) const
{
	Type::Ptr type = GetReflectionType();

	if (!type)
		return Empty;

	int fid = type->GetFieldId(field);

	if (fid == -1)
		return GetPrototypeField(const_cast<Object *>(this), field, true, debugInfo);

	if (sandboxed)
		return GetField(fid);

	if (type->GetFieldInfo(fid).Attributes & FANoUserView)
		BOOST_THROW_EXCEPTION(ScriptError("hidden", debugInfo));
	return GetField(fid);
}

/* Stubs that make the self-test fragments of gen/c19_sandbox_guards.py compile on their own (clang AST path). */
#pragma once
#include <stdexcept>
#include <string>
namespace boost { template<class E> [[noreturn]] void throw_exception(const E& e) { throw e; } }
#define BOOST_THROW_EXCEPTION(x) ::boost::throw_exception(x)
namespace icinga {
struct DebugInfo { };
struct DebugHint;
struct Value { Value() { } Value(int) { } };
struct ScriptFrame { bool Sandboxed; Value Self; };
struct ScriptError : std::runtime_error {
	ScriptError(const char *m, const DebugInfo& = DebugInfo()) : std::runtime_error(m) { }
	ScriptError(const std::string& m, const DebugInfo& = DebugInfo()) : std::runtime_error(m) { }
};
struct ExpressionResult { ExpressionResult(Value = Value()) { } };
struct Function { bool IsSideEffectFree() const; };
struct FunctionPtr { Function *operator->() const; };
struct VMOps { static Value FunctionCall(ScriptFrame&, const Value&, const FunctionPtr&, int); };
struct LogStream { LogStream& operator<<(const char *); };
LogStream Log(int, const char *);
void Mutate(const char *);
bool Other();
extern Value Empty;
#define NODE(X) struct X { ExpressionResult DoEvaluate(ScriptFrame& frame, DebugHint *dhint) const; DebugInfo m_DebugInfo; bool m_Flag; }
}
using namespace icinga;

/* Removed or weakened guards: every class here is NOT guarded. */
#include "prelude.hpp"
// EXPECT NoGuard=0 ExtraConjunct=0 ExtraConjunct2=0 NestedIf=0 AfterMutation=0 Negated=0 OtherFlag=0 OrCond=0 ReturnBeforeThrow=0 ThrowInLoop=0 EqFalse=0 OnlyLog=0 OtherFrame=0 CommentedOut=0
namespace icinga { NODE(NoGuard); NODE(ExtraConjunct); NODE(ExtraConjunct2); NODE(NestedIf); NODE(AfterMutation); NODE(Negated); NODE(OtherFlag); NODE(OrCond); NODE(ReturnBeforeThrow); NODE(ThrowInLoop); NODE(EqFalse); NODE(OnlyLog); NODE(OtherFrame); NODE(CommentedOut); }

ExpressionResult NoGuard::DoEvaluate(ScriptFrame& frame, DebugHint *dhint) const
{
	Mutate("x");
	return Empty;
}

ExpressionResult ExtraConjunct::DoEvaluate(ScriptFrame& frame, DebugHint *dhint) const
{
	if (frame.Sandboxed && m_Flag)
		BOOST_THROW_EXCEPTION(ScriptError("no", m_DebugInfo));
	Mutate("x");
	return Empty;
}

ExpressionResult ExtraConjunct2::DoEvaluate(ScriptFrame& frame, DebugHint *dhint) const
{
	if (Other() && (frame.Sandboxed == true))
		BOOST_THROW_EXCEPTION(ScriptError("no", m_DebugInfo));
	Mutate("x");
	return Empty;
}

ExpressionResult NestedIf::DoEvaluate(ScriptFrame& frame, DebugHint *dhint) const
{
	if (frame.Sandboxed) {
		if (m_Flag)
			BOOST_THROW_EXCEPTION(ScriptError("no", m_DebugInfo));
	}
	Mutate("x");
	return Empty;
}

ExpressionResult AfterMutation::DoEvaluate(ScriptFrame& frame, DebugHint *dhint) const
{
	Mutate("x");
	if (frame.Sandboxed)
		BOOST_THROW_EXCEPTION(ScriptError("no", m_DebugInfo));
	return Empty;
}

ExpressionResult Negated::DoEvaluate(ScriptFrame& frame, DebugHint *dhint) const
{
	if (!frame.Sandboxed)
		BOOST_THROW_EXCEPTION(ScriptError("no", m_DebugInfo));
	Mutate("x");
	return Empty;
}

ExpressionResult OtherFlag::DoEvaluate(ScriptFrame& frame, DebugHint *dhint) const
{
	if (m_Flag)
		BOOST_THROW_EXCEPTION(ScriptError("not allowed in sandbox mode", m_DebugInfo));
	Mutate("x");
	return Empty;
}

ExpressionResult OrCond::DoEvaluate(ScriptFrame& frame, DebugHint *dhint) const
{
	if (frame.Sandboxed || m_Flag)
		BOOST_THROW_EXCEPTION(ScriptError("no", m_DebugInfo));
	Mutate("x");
	return Empty;
}

ExpressionResult ReturnBeforeThrow::DoEvaluate(ScriptFrame& frame, DebugHint *dhint) const
{
	if (frame.Sandboxed) {
		if (m_Flag) { Mutate("x"); return Empty; }
		BOOST_THROW_EXCEPTION(ScriptError("no", m_DebugInfo));
	}
	Mutate("x");
	return Empty;
}

ExpressionResult ThrowInLoop::DoEvaluate(ScriptFrame& frame, DebugHint *dhint) const
{
	if (frame.Sandboxed) {
		while (m_Flag)
			BOOST_THROW_EXCEPTION(ScriptError("no", m_DebugInfo));
	}
	Mutate("x");
	return Empty;
}

ExpressionResult EqFalse::DoEvaluate(ScriptFrame& frame, DebugHint *dhint) const
{
	if (frame.Sandboxed == false)
		BOOST_THROW_EXCEPTION(ScriptError("no", m_DebugInfo));
	Mutate("x");
	return Empty;
}

ExpressionResult OnlyLog::DoEvaluate(ScriptFrame& frame, DebugHint *dhint) const
{
	if (frame.Sandboxed)
		Log(1, "config") << "Assignments are not allowed in sandbox mode.";
	Mutate("x");
	return Empty;
}

ExpressionResult OtherFrame::DoEvaluate(ScriptFrame& frame, DebugHint *dhint) const
{
	ScriptFrame other{false, Value()};
	if (other.Sandboxed)
		BOOST_THROW_EXCEPTION(ScriptError("no", m_DebugInfo));
	Mutate("x");
	return Empty;
}

ExpressionResult CommentedOut::DoEvaluate(ScriptFrame& frame, DebugHint *dhint) const
{
	/* if (frame.Sandboxed)
		BOOST_THROW_EXCEPTION(ScriptError("no", m_DebugInfo)); */
	// if (frame.Sandboxed) BOOST_THROW_EXCEPTION(ScriptError("no", m_DebugInfo));
	Mutate("x");
	return Empty;
}

/* FunctionCallExpression call check as nested ifs, flag test outside */
#include "prelude.hpp"
// EXPECT callCheck=1
namespace icinga { NODE(FunctionCallExpression); }

ExpressionResult FunctionCallExpression::DoEvaluate(ScriptFrame& frame, DebugHint *dhint) const
{
	Value self, vfunc;
	FunctionPtr func;
	if (!func->IsSideEffectFree()) {
		if (frame.Sandboxed == true) {
			throw ScriptError("no", m_DebugInfo);
		}
	}
	return VMOps::FunctionCall(frame, self, func, 0);
}

/* nested, but something with an effect runs before the inner test */
#include "prelude.hpp"
// EXPECT callCheck=0
namespace icinga { NODE(FunctionCallExpression); }

ExpressionResult FunctionCallExpression::DoEvaluate(ScriptFrame& frame, DebugHint *dhint) const
{
	Value self, vfunc;
	FunctionPtr func;
	if (frame.Sandboxed) {
		if (Other())
			return Empty;
		if (!func->IsSideEffectFree())
			BOOST_THROW_EXCEPTION(ScriptError("no", m_DebugInfo));
	}
	return VMOps::FunctionCall(frame, self, func, 0);
}

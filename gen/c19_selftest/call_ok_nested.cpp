/* FunctionCallExpression call check as nested ifs, renamed local and parameter */
#include "prelude.hpp"
// EXPECT callCheck=1
namespace icinga { NODE(FunctionCallExpression); }

ExpressionResult FunctionCallExpression::DoEvaluate(ScriptFrame& sf, DebugHint *hint) const
{
	Value self, vfunc;
	FunctionPtr callee;
	if (sf.Sandboxed) {
		/* the whitelist */
		if (callee->IsSideEffectFree() == false)
			BOOST_THROW_EXCEPTION(ScriptError("only functions from the whitelist may be called", m_DebugInfo));
	}
	const FunctionPtr& func = callee;
	return VMOps::FunctionCall(sf, self, func, 0);
}

/* Object::GetFieldByName no_user_view check, variant field_ok_early_return (token-level extractor only; not compiled) */
// EXPECT fieldCheck=1

Value Object::GetFieldByName(const String& field, bool sandboxed, const DebugInfo& debugInfo) const
{
	Type::Ptr type = GetReflectionType();

	if (!type)
		return Empty;

	int fid = type->GetFieldId(field);

	if (fid == -1)
		return GetPrototypeField(const_cast<Object *>(this), field, true, debugInfo);

	/* the common case first */
	if (!sandboxed)
		return GetField(fid);

	if (type->GetFieldInfo(fid).Attributes & FANoUserView) {
		BOOST_THROW_EXCEPTION(ScriptError("hidden", debugInfo));
	}
	return GetField(fid);
}

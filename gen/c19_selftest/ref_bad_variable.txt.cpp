/* Reference::Get with a flag that is not a constant */
// EXPECT refGetSandboxed=0
Value Reference::Get() const
{
	bool sandboxed = m_Sandboxed;
	return m_Parent->GetFieldByName(m_Index, sandboxed, DebugInfo());
}

/* Reference::Get, variant ref_ok_true (token-level extractor only) */
// EXPECT refGetSandboxed=1
Value Reference::Get() const
{
	return m_Parent->GetFieldByName(m_Index, true, DebugInfo());
}

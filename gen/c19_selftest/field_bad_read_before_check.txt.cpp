/* Object::GetFieldByName no_user_view check, variant field_bad_read_before_check (token-level extractor only; not compiled) */
// EXPECT fieldCheck=0

Value Object::GetFieldByName(const String& field, bool sandboxed, const DebugInfo& debugInfo) const
{
	Type::Ptr type = GetReflectionType();

	if (!type)
		return Empty;

	int fid = type->GetFieldId(field);

	if (fid == -1)
		return GetPrototypeField(const_cast<Object *>(this), field, true, debugInfo);

	Value result = GetField(fid);

	if (sandboxed && (type->GetFieldInfo(fid).Attributes & FANoUserView))
		Log(LogWarning, "base") << "hidden field read";

	return result;
	return GetField(fid);
}

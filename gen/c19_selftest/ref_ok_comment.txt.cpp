/* Reference::Get, variant ref_ok_comment (token-level extractor only) */
// EXPECT refGetSandboxed=1
Value Reference::Get() const
{
	return m_Parent->GetFieldByName(m_Index, /* sandboxed = */ (true), DebugInfo());
}

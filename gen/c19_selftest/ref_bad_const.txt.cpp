/* Reference::Get with a named constant that is false */
// EXPECT refGetSandboxed=0
Value Reference::Get() const
{
	const bool sandboxed = false;
	return m_Parent->GetFieldByName(m_Index, sandboxed, DebugInfo());
}

/* VMOps::FindVarImport, variant import_bad_false (token-level extractor only) */
// EXPECT importReadSandboxed=0
	static inline bool FindVarImport(ScriptFrame& frame, const std::vector<Expression::Ptr>& imports, const String& name, Value *result, const DebugInfo& debugInfo = DebugInfo())
	{
		Value parent;

		if (FindVarImportRef(frame, imports, name, &parent, debugInfo)) {
			*result = GetField(parent, name, false, debugInfo);
			return true;
		}
		return false;
	}

/* Object::GetFieldByName no_user_view check, variant field_ok_conj (token-level extractor only; not compiled) */
// EXPECT fieldCheck=1
Value Object::GetFieldByName(const String& field, bool sandboxed, const DebugInfo& debugInfo) const
{
	Type::Ptr type = GetReflectionType();

	if (!type)
		return Empty;

	int fid = type->GetFieldId(field);

	if (fid == -1)
		return GetPrototypeField(const_cast<Object *>(this), field, true, debugInfo);

	/* hidden from API users */
	if ((type->GetFieldInfo(fid).Attributes & FANoUserView) != 0 && sandboxed == true) {
		BOOST_THROW_EXCEPTION(ScriptError("Field " + field + " is hidden.", debugInfo));
	}
	return GetField(fid);
}

/* Equivalent spellings of the node guard: every class here IS guarded. */
#include "prelude.hpp"
// EXPECT Plain=1 Braces=1 Commented=1 Parens=1 EqTrue=1 TrueEq=1 NeFalse=1 OtherText=1 RawThrow=1 LogThenThrow=1 WithElse=1 StringMsg=1
namespace icinga { NODE(Plain); NODE(Braces); NODE(Commented); NODE(Parens); NODE(EqTrue); NODE(TrueEq); NODE(NeFalse); NODE(OtherText); NODE(RawThrow); NODE(LogThenThrow); NODE(WithElse); NODE(StringMsg); }

ExpressionResult Plain::DoEvaluate(ScriptFrame& frame, DebugHint *dhint) const
{
	if (frame.Sandboxed)
		BOOST_THROW_EXCEPTION(ScriptError("Assignments are not allowed in sandbox mode.", m_DebugInfo));

	Mutate("x");
	return Empty;
}

ExpressionResult Braces::DoEvaluate(ScriptFrame& frame, DebugHint *dhint) const
{
	if (frame.Sandboxed) {
		BOOST_THROW_EXCEPTION(ScriptError("Loops are not allowed in sandboxed scripts.", m_DebugInfo));
	}
	Mutate("x");
	return Empty;
}

ExpressionResult Commented::DoEvaluate(ScriptFrame& frame, DebugHint *dhint) const
{
	/* no loops for sandboxed scripts */

	// really not
	if (frame.Sandboxed) {
		/* refuse */
		BOOST_THROW_EXCEPTION(ScriptError("Loops are not allowed in sandboxed scripts.", m_DebugInfo));
	}
	Mutate("x");
	return Empty;
}

ExpressionResult Parens::DoEvaluate(ScriptFrame& frame, DebugHint *dhint) const
{
	if (((frame.Sandboxed)))
		BOOST_THROW_EXCEPTION(ScriptError("no", m_DebugInfo));
	Mutate("x");
	return Empty;
}

ExpressionResult EqTrue::DoEvaluate(ScriptFrame& frame, DebugHint *dhint) const
{
	if (frame.Sandboxed == true)
		BOOST_THROW_EXCEPTION(ScriptError("no", m_DebugInfo));
	Mutate("x");
	return Empty;
}

ExpressionResult TrueEq::DoEvaluate(ScriptFrame& frame, DebugHint *dhint) const
{
	if (true == (frame.Sandboxed))
		BOOST_THROW_EXCEPTION(ScriptError("no", m_DebugInfo));
	Mutate("x");
	return Empty;
}

ExpressionResult NeFalse::DoEvaluate(ScriptFrame& frame, DebugHint *dhint) const
{
	if (frame.Sandboxed != false)
		BOOST_THROW_EXCEPTION(ScriptError("no", m_DebugInfo));
	Mutate("x");
	return Empty;
}

ExpressionResult OtherText::DoEvaluate(ScriptFrame& frame, DebugHint *dhint) const
{
	if (frame.Sandboxed)
		BOOST_THROW_EXCEPTION(ScriptError("This statement (\"x; y\") { is } refused.", m_DebugInfo));
	Mutate("x");
	return Empty;
}

ExpressionResult RawThrow::DoEvaluate(ScriptFrame& frame, DebugHint *dhint) const
{
	if (frame.Sandboxed)
		throw ScriptError("no", m_DebugInfo);
	Mutate("x");
	return Empty;
}

ExpressionResult LogThenThrow::DoEvaluate(ScriptFrame& frame, DebugHint *dhint) const
{
	if (frame.Sandboxed) {
		Log(1, "config") << "refused";
		BOOST_THROW_EXCEPTION(ScriptError("no", m_DebugInfo));
	}
	Mutate("x");
	return Empty;
}

ExpressionResult WithElse::DoEvaluate(ScriptFrame& frame, DebugHint *dhint) const
{
	if (frame.Sandboxed)
		BOOST_THROW_EXCEPTION(ScriptError("no", m_DebugInfo));
	else
		Mutate("x");
	return Empty;
}

ExpressionResult StringMsg::DoEvaluate(ScriptFrame& frame, DebugHint *dhint) const
{
	if (frame.Sandboxed)
		BOOST_THROW_EXCEPTION(ScriptError(std::string("no ") + "way", m_DebugInfo));
	Mutate("x");
	return Empty;
}

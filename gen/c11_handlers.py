#!/usr/bin/env python3
"""C11 translator: the table "cluster event -> does the received origin reach RelayMessage, which security object is named"
read from lib/icinga/clusterevents.cpp.  Output: one line `H <method> <passesOrigin 0|1> <o|n>` per re-relaying event and a
final `H rows <k>`; the Lean driver compares the rows with `Icinga.C11.handlers` (theorem `handlers_pass_origin`).

For `event::X` with API handler A (REGISTER_APIFUNCTION) the translator looks at
  * A: the calls to which A hands its MessageOrigin parameter (setter / Process… / signal / RelayMessage).  Every call in A to one
    of THOSE callees must pass it; allowed exception: CheckResult's command-endpoint branch `ProcessCheckResult(cr)`, which
    deliberately starts a new local event (clusterevents.cpp:178-179).
  * the relaying function F: A itself when it builds the `event::X` message, else the `void ClusterEvents::…Handler` that
    does.  Every RelayMessage call in F must have F's MessageOrigin parameter as first argument; the second argument is the
    security object (`nullptr` -> n, else o).
Usage: c11_handlers.py <repo>            prints the table
"""
import re
import sys

METHODS = ["CheckResult", "SetNextCheck", "SetLastCheckStarted", "SetStateBeforeSuppression", "SetSuppressedNotifications",
           "SetSuppressedNotificationTypes", "SetNextNotification", "UpdateLastNotifiedStatePerUser",
           "ClearLastNotifiedStatePerUser", "SetForceNextCheck", "SetForceNextNotification", "SetAcknowledgement",
           "ClearAcknowledgement", "SendNotifications", "NotificationSentUser", "NotificationSentToAllUsers",
           "UpdateExecutions", "SetRemovalInfo"]
ALLOWED_LOCAL_CALLS = {"CheckResult": 1}


def strip_comments(src):
    src = re.sub(r"/\*.*?\*/", lambda m: re.sub(r"[^\n]", " ", m.group(0)), src, flags=re.S)
    return re.sub(r"//[^\n]*", "", src)


def functions(src):
    """name -> (parameter text, body)"""
    out = {}
    for m in re.finditer(r"^[\w:<>]+\s+ClusterEvents::(\w+)\s*\(", src, flags=re.M):
        i = src.index("(", m.end() - 1)
        depth, j = 0, i
        while True:
            if src[j] == "(":
                depth += 1
            elif src[j] == ")":
                depth -= 1
                if depth == 0:
                    break
            j += 1
        params = src[i + 1:j]
        k = src.index("{", j)
        depth, e = 0, k
        while True:
            if src[e] == "{":
                depth += 1
            elif src[e] == "}":
                depth -= 1
                if depth == 0:
                    break
            e += 1
        out[m.group(1)] = (params, src[k:e + 1])
    return out


def origin_param(params):
    m = re.search(r"MessageOrigin::Ptr\s*&?\s*(\w+)", params)
    return m.group(1) if m else None


def calls(body):
    """(callee name, [argument texts]) of every call expression in the body"""
    res = []
    for m in re.finditer(r"(\w+)\s*\(", body):
        name = m.group(1)
        if name in ("if", "for", "while", "switch", "return", "catch", "sizeof"):
            continue
        i = m.end() - 1
        depth, j, args, cur = 0, i, [], ""
        while j < len(body):
            c = body[j]
            if c in "([{":
                depth += 1
                if depth > 1:
                    cur += c
            elif c in ")]}":
                depth -= 1
                if depth == 0:
                    break
                cur += c
            elif c == "," and depth == 1:
                args.append(cur.strip())
                cur = ""
            else:
                cur += c
            j += 1
        if cur.strip():
            args.append(cur.strip())
        res.append((name, args))
    return res


def table(repo):
    src = strip_comments(open(repo + "/lib/icinga/clusterevents.cpp", encoding="utf-8", errors="replace").read())
    fns = functions(src)
    reg = dict(re.findall(r"REGISTER_APIFUNCTION\(\s*(\w+)\s*,\s*event\s*,\s*&ClusterEvents::(\w+)\s*\)", src))
    rows = []
    for meth in METHODS:
        api = reg.get(meth)
        if api is None or api not in fns:
            rows.append((meth, "?", "?"))
            continue
        params, body = fns[api]
        op = origin_param(params)
        cs = calls(body)
        # local aliases of the parameter (`MessageOrigin::Ptr o = origin;`, `auto o (origin);`)
        names = {op} | set(re.findall(r"(?:MessageOrigin::Ptr|auto)\s*&?\s*(\w+)\s*(?:=|\(|\{)\s*%s\s*[;)}]" % re.escape(op or "origin"), body))
        has = lambda a: any(x in names for x in a)
        takers = {n for n, a in cs if op and has(a) and n not in ("Log",)}
        dropped = sum(1 for n, a in cs if n in takers and not has(a))
        api_ok = bool(takers) and dropped == ALLOWED_LOCAL_CALLS.get(meth, 0)
        lit = '"event::%s"' % meth
        if lit in body and "RelayMessage" in body:
            relayer = api
        else:
            makers = {n for n, (p, b) in fns.items() if lit in b}       # e.g. MakeCheckResultMessage
            cands = [n for n, (p, b) in fns.items() if not n.endswith("APIHandler") and "RelayMessage" in b
                     and (lit in b or any(c in makers for c, _ in calls(b)))]
            direct = [n for n in cands if lit in fns[n][1]]
            relayer = cands[0] if len(cands) == 1 else direct[0] if len(direct) == 1 else \
                (meth + "Handler") if (meth + "Handler") in cands else None
        if relayer is None:
            rows.append((meth, "?", "?"))
            continue
        rparams, rbody = fns[relayer]
        rop = origin_param(rparams)
        relays = [a for n, a in calls(rbody) if n == "RelayMessage"]
        rnames = {rop} | set(re.findall(r"(?:MessageOrigin::Ptr|auto)\s*&?\s*(\w+)\s*(?:=|\(|\{)\s*%s\s*[;)}]" % re.escape(rop or "origin"), rbody))
        sig_ok = bool(relays) and all(len(a) == 4 and a[0] in rnames for a in relays)
        secs = {("n" if (len(a) > 1 and a[1] == "nullptr") else "o") for a in relays}
        sec = secs.pop() if len(secs) == 1 else "?"
        rows.append((meth, "1" if api_ok and sig_ok else "0", sec))
    return rows


def main():
    repo = sys.argv[1] if len(sys.argv) > 1 else "/repo"
    rows = table(repo)
    for r in rows:
        print("H %s %s %s" % r)
    print("H rows %d" % len(rows))


if __name__ == "__main__":
    main()

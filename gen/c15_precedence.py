#!/usr/bin/env python3
"""Translator for C15 (DESIGN.md §0.4): the `%left/%right/%nonassoc` block of
<repo>/lib/config/config_parser.yy becomes the table `Icinga.Gen.Precedence.grammarLevels`
(lowest precedence first, exactly as bison reads it), together with

  * `lexemes`      token -> source text, from the `text  return TOKEN;` rules of config_lexer.ll,
  * `binaryRules`  token -> Expression class, from `rterm TOKEN rterm { MakeRBinaryOp<Class> ... }`,
  * `unaryRules`   (first token of the rule, precedence token it takes, Expression class / "identity"),
                   from the prefix rules `TOKEN rterm [%prec NAME] { ... }`,
  * `postfixRules` the three postfix forms  rterm '.' T_IDENTIFIER | rterm '[' rterm ']' | rterm '(' rterm_items ')'.

  * `documented`   the rows (precedence, operator) of the table in section "Operators" of doc/17-language-reference.md, in file order
                   (`reference_matches_document`: the hand-written reference table of C15.lean is this table; the harness prints every
                   program a third time with the parentheses THIS table requires, `doc <level> <operator>` lines of the .tbl output).

`precedence_matches_reference` (IcingaProofs/C15.lean) normalises these tables to operator levels and
compares them with the table of doc/17-language-reference.md; a second output (plain text, for the C++
harness) carries the same normalised levels so that generated programs are printed with exactly the
parentheses THIS grammar requires.

Usage: c15_precedence.py <repo> <out.lean> [<out.tbl>]      (exit 3: anchor lost, nothing written)
"""
import os
import re
import sys


class Lost(Exception):
    pass


def _read(repo, rel):
    p = os.path.join(repo, rel)
    if not os.path.exists(p):
        raise Lost(rel + " not found")
    return open(p, encoding="utf-8", errors="replace").read()


DIRECTIVE = re.compile(r"%(left|right|nonassoc|precedence)\b")
TOK = re.compile(r"'(?:[^'\\]|\\.)'|[A-Za-z_][A-Za-z0-9_]*")


def strip_c_comments(text):
    """remove /* … */ and // … comments (keeping the line structure) outside of character literals"""
    out, i, n = [], 0, len(text)
    while i < n:
        c = text[i]
        if c == "'" and i + 2 < n:                       # character literal such as '/' or '\''
            j = i + 1
            if text[j] == "\\":
                j += 1
            j += 1
            if j < n and text[j] == "'":
                out.append(text[i:j + 1])
                i = j + 1
                continue
        if text.startswith("/*", i):
            j = text.find("*/", i + 2)
            j = n if j < 0 else j + 2
            out.append("".join(ch if ch == "\n" else " " for ch in text[i:j]))
            i = j
        elif text.startswith("//", i):
            j = text.find("\n", i)
            j = n if j < 0 else j
            i = j
        else:
            out.append(c)
            i += 1
    return "".join(out)


def precedence_block(yy):
    """[(assoc, [tokens], line)] in file order = ascending precedence.

    Read the way bison reads it: every %left/%right/%nonassoc/%precedence directive in the declarations part (before the
    first `%%`) opens a new level; its tokens are everything up to the next `%` directive, however the lines are broken,
    with comments and `<type>` tags ignored."""
    decl_end = yy.find("\n%%")
    if decl_end < 0:
        raise Lost("config_parser.yy: no `%%` separator found")
    head = yy[:decl_end]
    # prologue blocks %{ … %} are C code, not declarations
    head = re.sub(r"%\{.*?%\}", lambda m: "".join(ch if ch == "\n" else " " for ch in m.group(0)), head, flags=re.S)
    head = strip_c_comments(head)
    ms = list(DIRECTIVE.finditer(head))
    if not ms:
        raise Lost("config_parser.yy: no %left/%right/%nonassoc declaration found")
    out = []
    for m in ms:
        nxt = re.compile(r"^[ \t]*%", re.M).search(head, m.end())
        body = head[m.end(): nxt.start() if nxt else len(head)]
        body = re.sub(r"<[^>]*>", " ", body)
        toks = TOK.findall(body)
        leftover = TOK.sub(" ", body).strip()
        if not toks or leftover:
            raise Lost("config_parser.yy:%d: cannot tokenise precedence declaration (%r left over)" % (head.count("\n", 0, m.start()) + 1, leftover[:40]))
        assoc = "nonassoc" if m.group(1) == "precedence" else m.group(1)
        out.append((assoc, toks, head.count("\n", 0, m.start()) + 1))
    return out


def unescape_flex(pat):
    """Source text of a flex pattern that consists only of literal (possibly backslash-escaped) characters."""
    out = []
    i = 0
    while i < len(pat):
        c = pat[i]
        if c == "\\" and i + 1 < len(pat):
            out.append(pat[i + 1])
            i += 2
        elif c in "[](){}*+?|.^$/\"<>" and not (c in "+|<>" and False):
            return None
        else:
            out.append(c)
            i += 1
    return "".join(out)


LEXRULE = re.compile(r"^(\S+)\s+(.*)$")
LEXRET = re.compile(r"\breturn\s+(T_[A-Z_]+)\s*;")


def lexemes(ll):
    found = {}
    for n, line in enumerate(ll.split("\n"), 1):
        m = LEXRULE.match(line.strip())
        if not m:
            continue
        r = LEXRET.search(m.group(2))          # the first `return TOKEN;` of the action, whatever surrounds it
        if not r:
            continue
        tok = r.group(1)
        pat = m.group(1)
        # flex: characters + - | < > = ! & % ^ * / are written escaped or bare; letters bare
        txt = []
        i = 0
        ok = True
        while i < len(pat):
            c = pat[i]
            if c == "\\" and i + 1 < len(pat):
                txt.append(pat[i + 1])
                i += 2
            elif c.isalnum() or c in "_=!&-":
                txt.append(c)
                i += 1
            else:
                ok = False
                break
        if not ok:
            continue
        if tok in found and found[tok] != "".join(txt):
            # e.g. T_BOOLEAN (true/false), T_NUMBER: not operator tokens; keep the first, mark ambiguous
            found[tok] = found[tok] + "|" + "".join(txt)
        else:
            found[tok] = "".join(txt)
    need = ["T_PLUS", "T_MINUS", "T_MULTIPLY", "T_DIVIDE_OP", "T_MODULO", "T_XOR", "T_BINARY_AND", "T_BINARY_OR",
            "T_LESS_THAN", "T_GREATER_THAN", "T_LESS_THAN_OR_EQUAL", "T_GREATER_THAN_OR_EQUAL", "T_EQUAL", "T_NOT_EQUAL",
            "T_IN", "T_NOT_IN", "T_LOGICAL_AND", "T_LOGICAL_OR", "T_SHIFT_LEFT", "T_SHIFT_RIGHT", "T_SET", "T_FOLLOWS"]
    miss = [t for t in need if t not in found]
    if miss:
        raise Lost("config_lexer.ll: no `text return TOKEN;` rule found for " + ", ".join(miss))
    return sorted(found.items())


def _action_after(text, pos):
    """the brace-balanced action block starting at or after pos: (content, end index)"""
    i = text.find("{", pos)
    if i < 0:
        return "", pos
    depth, j = 0, i
    while j < len(text):
        if text[j] == "{":
            depth += 1
        elif text[j] == "}":
            depth -= 1
            if depth == 0:
                return text[i + 1:j], j + 1
        j += 1
    return text[i + 1:], len(text)


def _nonterminal(yy, name):
    m = re.search(r"^%s\s*:" % re.escape(name), yy, re.M)
    if not m:
        raise Lost("config_parser.yy: nonterminal %s not found" % name)
    # up to the terminating `;` at the start of a line (possibly indented)
    e = re.compile(r"^\s*;\s*$", re.M).search(yy, m.end())
    return yy[m.end(): e.start() if e else len(yy)]


def _alternatives(body):
    """[(symbols before the action, action text)] of one nonterminal; nested braces are respected"""
    alts, i, cur = [], 0, ""
    while i < len(body):
        c = body[i]
        if c == "{":
            act, i = _action_after(body, i)
            alts.append((cur.strip(), act))
            cur = ""
            continue
        if c == "|":
            if cur.strip():
                alts.append((cur.strip(), ""))
            cur = ""
        else:
            cur += c
        i += 1
    if cur.strip():
        alts.append((cur.strip(), ""))
    return alts


def rules(yy):
    yy = strip_c_comments(yy)
    grammar = yy[yy.find("\n%%"):]
    binary, unary, postfix = {}, [], []
    seen_ternary = seen_set = False
    for nt in re.findall(r"^([a-z_][a-z0-9_]*)\s*:", grammar, re.M):
        try:
            body = _nonterminal(grammar, nt)
        except Lost:
            continue
        for syms, action in _alternatives(body):
            w = syms.split()
            prec = None
            if "%prec" in w:
                k = w.index("%prec")
                prec = w[k + 1] if k + 1 < len(w) else None
                w = w[:k]
            w = [x for x in w if not x.startswith("%dprec") and not x.isdigit()]
            cls = re.search(r"\b([A-Z][A-Za-z]*Expression)\b", action)
            if len(w) == 3 and w[0] == "rterm" and w[2] == "rterm" and re.fullmatch(r"T_[A-Z_]+", w[1]) and cls:
                if w[1] in binary and binary[w[1]] != cls.group(1):
                    raise Lost("config_parser.yy: binary operator token %s has two rules" % w[1])
                binary[w[1]] = cls.group(1)
            elif len(w) == 2 and w[1] == "rterm" and (re.fullmatch(r"T_[A-Z_]+", w[0]) or re.fullmatch(r"'.'", w[0])) \
                    and w[0] in ("T_MULTIPLY", "T_BINARY_AND", "T_PLUS", "T_MINUS", "'!'", "'~'"):
                if cls:
                    c = cls.group(1)
                    if c == "SubtractExpression" and re.search(r"MakeLiteral\s*\(\s*0\s*\)", action):
                        c = "SubtractExpression(0,_)"
                elif re.search(r"\$\$\s*=\s*\$2\s*;", action):
                    c = "identity"
                else:
                    raise Lost("config_parser.yy: cannot read the action of prefix rule %s rterm" % w[0])
                unary.append((w[0], prec or w[0], c))
            elif w == ["rterm", "'.'", "T_IDENTIFIER"]:
                postfix.append("'.'")
            elif w == ["rterm", "'['", "rterm", "']'"]:
                postfix.append("'['")
            elif w == ["rterm", "'('", "rterm_items", "')'"]:
                postfix.append("'('")
            elif w == ["rterm", "'?'", "rterm", "':'", "rterm"]:
                seen_ternary = True
            elif w == ["rterm", "combined_set_op", "rterm"]:
                seen_set = True
    if len(binary) < 20:
        raise Lost("config_parser.yy: expected the 20 `rterm TOKEN rterm { … XExpression … }` rules, found %d" % len(binary))
    if len(unary) < 6:
        raise Lost("config_parser.yy: expected the 6 prefix-operator rules (! ~ + - & *), found %d" % len(unary))
    postfix = sorted(set(postfix), key=["'.'", "'['", "'('"].index)
    if len(postfix) != 3:
        raise Lost("config_parser.yy: postfix rules (member, subscript, call) not found: have " + " ".join(postfix))
    if not seen_ternary or not seen_set:
        raise Lost("config_parser.yy: ternary / assignment rule not found")
    return sorted(binary.items()), unary, postfix


DOC_ROW = re.compile(r"^(?:`([^`]+)`|<code>(.*?)</code>)\s*\|\s*(\d+)\s*\|")


def documented(md):
    """doc/17-language-reference.md, section "### Operators": the rows `operator | precedence | …` in file order as (level, operator text).
    The document is the REFERENCE of the property: the table is read from it on every run (no hand-made copy)."""
    m = re.search(r"^###\s+Operators\b.*$", md, re.M)
    if not m:
        raise Lost("doc/17-language-reference.md: section `### Operators` not found")
    rest = md[m.end():]
    n = re.search(r"^#{1,3}\s", rest, re.M)
    sect = rest[:n.start()] if n else rest
    if "descending precedence" not in sect:
        raise Lost("doc/17-language-reference.md: the operator table no longer says it is sorted by descending precedence")
    rows = []
    for line in sect.splitlines():
        r = DOC_ROW.match(line.strip())
        if r:
            op = (r.group(1) if r.group(1) is not None else r.group(2)).replace("&#124;", "|").strip()
            rows.append((int(r.group(3)), op))
        elif line.strip().startswith(("`", "<code>")):
            raise Lost("doc/17-language-reference.md: cannot read operator table row %r" % line[:60])
    if len(rows) < 30:
        raise Lost("doc/17-language-reference.md: operator table has only %d readable rows" % len(rows))
    return rows


EXAMPLE = re.compile(r'(?:^|,\s*)(.+?)\s+\((true|false|-?\d+(?:\.\d+)?|"[^"]*")\)')


def documented_examples(md):
    """the `expression (result)` pairs of the column "Examples (Result)" of the same table whose result is a literal, in file order"""
    m = re.search(r"^###\s+Operators\b.*$", md, re.M)
    if not m:
        raise Lost("doc/17-language-reference.md: section `### Operators` not found")
    rest = md[m.end():]
    n = re.search(r"^#{1,3}\s", rest, re.M)
    out = []
    for line in (rest[:n.start()] if n else rest).splitlines():
        if not DOC_ROW.match(line.strip()):
            continue
        cells = [c.strip() for c in line.replace("&#124;", "\x00").split("|")]
        if len(cells) < 3:
            continue
        cell = cells[2].replace("\x00", "|")
        for e in EXAMPLE.finditer(cell):
            out.append((e.group(1).strip(), e.group(2)))
    if len(out) < 25:
        raise Lost("doc/17-language-reference.md: only %d `expression (result)` examples readable in the operator table" % len(out))
    return out


def extract(repo):
    yy = _read(repo, "lib/config/config_parser.yy")
    ll = _read(repo, "lib/config/config_lexer.ll")
    block = precedence_block(yy)
    lex = lexemes(ll)
    binary, unary, postfix = rules(yy)
    md = _read(repo, "doc/17-language-reference.md")
    doc = documented(md)
    return {"block": block, "lexemes": lex, "binary": binary, "unary": unary, "postfix": postfix, "documented": doc,
            "examples": documented_examples(md)}


def _q(s):
    return '"' + s.replace("\\", "\\\\").replace('"', '\\"') + '"'


def render(t):
    out = ["/-",
           "  GENERATED by gen/c15_precedence.py from /repo/lib/config/config_parser.yy (the %left/%right/%nonassoc block and",
           "  the operator rules of `rterm`) and /repo/lib/config/config_lexer.ll (token -> source text).",
           "  Regenerated at the start of every `./check C15`; do not edit.",
           "-/",
           "namespace Icinga.Gen.Precedence",
           "",
           "inductive Assoc | left | right | nonassoc",
           "  deriving DecidableEq, Repr",
           "",
           "/-- The precedence declarations in file order: bison gives LATER lines HIGHER precedence. -/",
           "def grammarLevels : List (Assoc × List String) := ["]
    for i, (assoc, toks, line) in enumerate(t["block"]):
        comma = "," if i + 1 < len(t["block"]) else ""
        out.append("  (.%s, [%s])%s  -- config_parser.yy:%d" % (assoc, ", ".join(_q(x) for x in toks), comma, line))
    out += ["]", "", "/-- Token -> source text (config_lexer.ll rules of the shape `text return TOKEN;`). -/",
            "def lexemes : List (String × String) := ["]
    out.append(",\n".join("  (%s, %s)" % (_q(k), _q(v)) for k, v in t["lexemes"]))
    out += ["]", "", "/-- `rterm TOKEN rterm { MakeRBinaryOp<Class> }`: token -> Expression class. -/",
            "def binaryRules : List (String × String) := ["]
    out.append(",\n".join("  (%s, %s)" % (_q(k), _q(v)) for k, v in t["binary"]))
    out += ["]", "", "/-- Prefix rules `TOKEN rterm [%prec NAME]`: (token, precedence token, Expression class). -/",
            "def unaryRules : List (String × String × String) := ["]
    out.append(",\n".join("  (%s, %s, %s)" % (_q(a), _q(b), _q(c)) for a, b, c in t["unary"]))
    out += ["]", "", "/-- Postfix forms present in the grammar (member, subscript, call). -/",
            "def postfixRules : List String := [" + ", ".join(_q(x) for x in t["postfix"]) + "]",
            "", "/-- doc/17-language-reference.md, table of section \"Operators\" (\"sorted by descending precedence\"): (precedence, operator)",
            "    rows in file order, read from the document on every run. -/",
            "def documented : List (Nat × String) := [",
            ",\n".join("  (%d, %s)" % (l, _q(o)) for l, o in t["documented"]),
            "]",
            "", "end Icinga.Gen.Precedence", ""]
    return "\n".join(out)


def render_tbl(t):
    """Plain text for the harness: one line per declaration `assoc tok...` in file order, then `lex TOKEN text`."""
    out = []
    for assoc, toks, _ in t["block"]:
        out.append("level %s %s" % (assoc, " ".join(toks)))
    for k, v in t["lexemes"]:
        out.append("lex %s %s" % (k, v))
    for k, v in t["binary"]:
        out.append("binary %s %s" % (k, v))
    for a, b, c in t["unary"]:
        out.append("unary %s %s %s" % (a, b, c))
    for l, o in t["documented"]:
        out.append("doc %d %s" % (l, o))
    return "\n".join(out) + "\n"


def _write_if_changed(path, text):
    os.makedirs(os.path.dirname(path), exist_ok=True)
    if os.path.exists(path) and open(path, encoding="utf-8").read() == text:
        return
    tmp = path + ".tmp"
    with open(tmp, "w", encoding="utf-8") as f:
        f.write(text)
    os.replace(tmp, path)


def generate(repo, out_lean, out_tbl=None):
    t = extract(repo)
    _write_if_changed(out_lean, render(t))
    if out_tbl:
        _write_if_changed(out_tbl, render_tbl(t))
    return t


if __name__ == "__main__":
    try:
        t = generate(sys.argv[1], sys.argv[2], sys.argv[3] if len(sys.argv) > 3 else None)
    except Lost as e:
        print("anchor lost: " + str(e), file=sys.stderr)
        sys.exit(3)
    print("levels=%d lexemes=%d binary=%d unary=%d" % (len(t["block"]), len(t["lexemes"]), len(t["binary"]), len(t["unary"])))

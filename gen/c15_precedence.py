#!/usr/bin/env python3
"""Translator for C15 (DESIGN.md §0.4): the `%left/%right/%nonassoc` block of
<repo>/lib/config/config_parser.yy becomes the table `Icinga.Gen.Precedence.grammarLevels`
(lowest precedence first, exactly as bison reads it), together with

  * `lexemes`      token -> source text, from the `text  return TOKEN;` rules of config_lexer.ll,
  * `binaryRules`  token -> Expression class, from `rterm TOKEN rterm { MakeRBinaryOp<Class> ... }`,
  * `unaryRules`   (first token of the rule, precedence token it takes, Expression class / "identity"),
                   from the prefix rules `TOKEN rterm [%prec NAME] { ... }`,
  * `postfixRules` the three postfix forms  rterm '.' T_IDENTIFIER | rterm '[' rterm ']' | rterm '(' rterm_items ')'.

`precedence_matches_reference` (IcingaProofs/C15.lean) normalises these tables to operator levels and
compares them with the table of doc/17-language-reference.md; a second output (plain text, for the C++
harness) carries the same normalised levels so that generated programs are printed with exactly the
parentheses THIS grammar requires.

Usage: c15_precedence.py <repo> <out.lean> [<out.tbl>]      (exit 3: anchor lost, nothing written)
"""
import os
import re
import sys


class Lost(Exception):
    pass


def _read(repo, rel):
    p = os.path.join(repo, rel)
    if not os.path.exists(p):
        raise Lost(rel + " not found")
    return open(p, encoding="utf-8", errors="replace").read()


DECL = re.compile(r"^%(left|right|nonassoc)\s+(.*?)\s*$")
TOK = re.compile(r"'(?:[^'\\]|\\.)'|[A-Za-z_][A-Za-z0-9_]*")


def precedence_block(yy):
    """[(assoc, [tokens])] in file order = ascending precedence.  The block is the maximal run of
    %left/%right/%nonassoc lines before the first `%{` that follows the %type declarations."""
    lines = yy.split("\n")
    idx = [i for i, l in enumerate(lines) if DECL.match(l)]
    if not idx:
        raise Lost("config_parser.yy: no %left/%right/%nonassoc declaration found")
    # must be contiguous (blank lines allowed): otherwise the block was split and the order is ambiguous
    for a, b in zip(idx, idx[1:]):
        if any(lines[k].strip() for k in range(a + 1, b)):
            raise Lost("config_parser.yy: precedence declarations are not one contiguous block (lines %d..%d)" % (a + 1, b + 1))
    out = []
    for i in idx:
        m = DECL.match(lines[i])
        toks = TOK.findall(m.group(2))
        if not toks or " ".join(toks) != " ".join(m.group(2).split()):
            raise Lost("config_parser.yy:%d: cannot tokenise precedence declaration %r" % (i + 1, lines[i]))
        out.append((m.group(1), toks, i + 1))
    if "%glr-parser" not in yy and "%pure-parser" not in yy:
        raise Lost("config_parser.yy: parser directives not found (file rewritten?)")
    return out


def unescape_flex(pat):
    """Source text of a flex pattern that consists only of literal (possibly backslash-escaped) characters."""
    out = []
    i = 0
    while i < len(pat):
        c = pat[i]
        if c == "\\" and i + 1 < len(pat):
            out.append(pat[i + 1])
            i += 2
        elif c in "[](){}*+?|.^$/\"<>" and not (c in "+|<>" and False):
            return None
        else:
            out.append(c)
            i += 1
    return "".join(out)


LEXRULE = re.compile(r"^(\S+)\s+(?:\{[^}]*\breturn\s+(T_[A-Z_]+)\s*;\s*\}|return\s+(T_[A-Z_]+)\s*;)\s*$")


def lexemes(ll):
    found = {}
    for n, line in enumerate(ll.split("\n"), 1):
        m = LEXRULE.match(line.strip())
        if not m:
            continue
        tok = m.group(2) or m.group(3)
        pat = m.group(1)
        # flex: characters + - | < > = ! & % ^ * / are written escaped or bare; letters bare
        txt = []
        i = 0
        ok = True
        while i < len(pat):
            c = pat[i]
            if c == "\\" and i + 1 < len(pat):
                txt.append(pat[i + 1])
                i += 2
            elif c.isalnum() or c in "_=!&-":
                txt.append(c)
                i += 1
            else:
                ok = False
                break
        if not ok:
            continue
        if tok in found and found[tok] != "".join(txt):
            # e.g. T_BOOLEAN (true/false), T_NUMBER: not operator tokens; keep the first, mark ambiguous
            found[tok] = found[tok] + "|" + "".join(txt)
        else:
            found[tok] = "".join(txt)
    need = ["T_PLUS", "T_MINUS", "T_MULTIPLY", "T_DIVIDE_OP", "T_MODULO", "T_XOR", "T_BINARY_AND", "T_BINARY_OR",
            "T_LESS_THAN", "T_GREATER_THAN", "T_LESS_THAN_OR_EQUAL", "T_GREATER_THAN_OR_EQUAL", "T_EQUAL", "T_NOT_EQUAL",
            "T_IN", "T_NOT_IN", "T_LOGICAL_AND", "T_LOGICAL_OR", "T_SHIFT_LEFT", "T_SHIFT_RIGHT", "T_SET", "T_FOLLOWS"]
    miss = [t for t in need if t not in found]
    if miss:
        raise Lost("config_lexer.ll: no `text return TOKEN;` rule found for " + ", ".join(miss))
    return sorted(found.items())


BINRULE = re.compile(r"\|\s*rterm\s+(T_[A-Z_]+)\s+rterm\s*\{\s*MakeRBinaryOp<([A-Za-z]+)>\(&\$\$,\s*\$1,\s*\$3,")
UNRULE = re.compile(r"\|\s*('(?:[^'\\]|\\.)'|T_[A-Z_]+)\s+rterm(?:\s+%prec\s+([A-Z_]+))?\s*\{(.*?)\n\t\}", re.S)


def rules(yy):
    binary = sorted(set(BINRULE.findall(yy)))
    if len(binary) < 20:
        raise Lost("config_parser.yy: expected the 20 `rterm TOKEN rterm { MakeRBinaryOp<...> }` rules, found %d" % len(binary))
    toks = [b[0] for b in binary]
    if len(set(toks)) != len(toks):
        raise Lost("config_parser.yy: a binary operator token has two rules")
    # prefix rules inside the rterm_no_side_effect_no_dict nonterminal only
    m = re.search(r"^rterm_no_side_effect_no_dict:(.*?)^\t;", yy, re.S | re.M)
    if not m:
        raise Lost("config_parser.yy: nonterminal rterm_no_side_effect_no_dict not found")
    body = m.group(1)
    unary = []
    for um in UNRULE.finditer(body):
        first, prec, action = um.group(1), um.group(2), um.group(3)
        cm = re.search(r"new\s+([A-Za-z]+Expression)\s*\(", action)
        if cm:
            cls = cm.group(1)
            if cls == "SubtractExpression" and "MakeLiteral(0)" in action:
                cls = "SubtractExpression(0,_)"
        elif re.search(r"\$\$\s*=\s*\$2\s*;", action):
            cls = "identity"
        else:
            raise Lost("config_parser.yy: cannot read the action of prefix rule %s rterm" % first)
        unary.append((first, prec or first, cls))
    if len(unary) < 6:
        raise Lost("config_parser.yy: expected the 6 prefix-operator rules (! ~ + - & *), found %d" % len(unary))
    postfix = []
    if re.search(r"\|\s*rterm\s+'\.'\s+T_IDENTIFIER\b", body):
        postfix.append("'.'")
    if re.search(r"\|\s*rterm\s+'\['\s+rterm\s+'\]'", body):
        postfix.append("'['")
    if re.search(r"rterm_side_effect:\s*rterm\s+'\('\s+rterm_items\s+'\)'", yy):
        postfix.append("'('")
    if len(postfix) != 3:
        raise Lost("config_parser.yy: postfix rules (member, subscript, call) not found: have " + " ".join(postfix))
    ternary = re.search(r"\|\s*rterm\s+'\?'\s+rterm\s+':'\s+rterm", yy) is not None
    setrule = re.search(r"\|\s*rterm\s+combined_set_op\s+rterm", yy) is not None
    if not ternary or not setrule:
        raise Lost("config_parser.yy: ternary / assignment rule not found")
    return binary, unary, postfix


def extract(repo):
    yy = _read(repo, "lib/config/config_parser.yy")
    ll = _read(repo, "lib/config/config_lexer.ll")
    block = precedence_block(yy)
    lex = lexemes(ll)
    binary, unary, postfix = rules(yy)
    return {"block": block, "lexemes": lex, "binary": binary, "unary": unary, "postfix": postfix}


def _q(s):
    return '"' + s.replace("\\", "\\\\").replace('"', '\\"') + '"'


def render(t):
    out = ["/-",
           "  GENERATED by gen/c15_precedence.py from /repo/lib/config/config_parser.yy (the %left/%right/%nonassoc block and",
           "  the operator rules of `rterm`) and /repo/lib/config/config_lexer.ll (token -> source text).",
           "  Regenerated at the start of every `./check C15`; do not edit.",
           "-/",
           "namespace Icinga.Gen.Precedence",
           "",
           "inductive Assoc | left | right | nonassoc",
           "  deriving DecidableEq, Repr",
           "",
           "/-- The precedence declarations in file order: bison gives LATER lines HIGHER precedence. -/",
           "def grammarLevels : List (Assoc × List String) := ["]
    for i, (assoc, toks, line) in enumerate(t["block"]):
        comma = "," if i + 1 < len(t["block"]) else ""
        out.append("  (.%s, [%s])%s  -- config_parser.yy:%d" % (assoc, ", ".join(_q(x) for x in toks), comma, line))
    out += ["]", "", "/-- Token -> source text (config_lexer.ll rules of the shape `text return TOKEN;`). -/",
            "def lexemes : List (String × String) := ["]
    out.append(",\n".join("  (%s, %s)" % (_q(k), _q(v)) for k, v in t["lexemes"]))
    out += ["]", "", "/-- `rterm TOKEN rterm { MakeRBinaryOp<Class> }`: token -> Expression class. -/",
            "def binaryRules : List (String × String) := ["]
    out.append(",\n".join("  (%s, %s)" % (_q(k), _q(v)) for k, v in t["binary"]))
    out += ["]", "", "/-- Prefix rules `TOKEN rterm [%prec NAME]`: (token, precedence token, Expression class). -/",
            "def unaryRules : List (String × String × String) := ["]
    out.append(",\n".join("  (%s, %s, %s)" % (_q(a), _q(b), _q(c)) for a, b, c in t["unary"]))
    out += ["]", "", "/-- Postfix forms present in the grammar (member, subscript, call). -/",
            "def postfixRules : List String := [" + ", ".join(_q(x) for x in t["postfix"]) + "]",
            "", "end Icinga.Gen.Precedence", ""]
    return "\n".join(out)


def render_tbl(t):
    """Plain text for the harness: one line per declaration `assoc tok...` in file order, then `lex TOKEN text`."""
    out = []
    for assoc, toks, _ in t["block"]:
        out.append("level %s %s" % (assoc, " ".join(toks)))
    for k, v in t["lexemes"]:
        out.append("lex %s %s" % (k, v))
    for k, v in t["binary"]:
        out.append("binary %s %s" % (k, v))
    for a, b, c in t["unary"]:
        out.append("unary %s %s %s" % (a, b, c))
    return "\n".join(out) + "\n"


def _write_if_changed(path, text):
    os.makedirs(os.path.dirname(path), exist_ok=True)
    if os.path.exists(path) and open(path, encoding="utf-8").read() == text:
        return
    tmp = path + ".tmp"
    with open(tmp, "w", encoding="utf-8") as f:
        f.write(text)
    os.replace(tmp, path)


def generate(repo, out_lean, out_tbl=None):
    t = extract(repo)
    _write_if_changed(out_lean, render(t))
    if out_tbl:
        _write_if_changed(out_tbl, render_tbl(t))
    return t


if __name__ == "__main__":
    try:
        t = generate(sys.argv[1], sys.argv[2], sys.argv[3] if len(sys.argv) > 3 else None)
    except Lost as e:
        print("anchor lost: " + str(e), file=sys.stderr)
        sys.exit(3)
    print("levels=%d lexemes=%d binary=%d unary=%d" % (len(t["block"]), len(t["lexemes"]), len(t["binary"]), len(t["unary"])))

#!/usr/bin/env python3
"""Translator for C07: the constants the reachability model hard-codes, read from the source on every run and
written to lean/IcingaProofs/Gen/DepConsts.lean; theorems in IcingaProofs/C07.lean (`recursion_limit_matches_source`,
`state_filter_bits_match_source`, `config_defaults_match_source`) compare them with the model, so a changed constant
breaks a proof obligation instead of passing silently.

  * `l_MaxDependencyRecursionLevel`                      lib/icinga/checkable-dependency.cpp   (model: `topFuel`)
  * `StateFilter{OK,Warning,Critical,Unknown,Up,Down}`    lib/icinga/notification.hpp           (model: `stateBit`)
  * the two default filters of `Dependency::OnConfigLoaded`  lib/icinga/dependency.cpp          (model: `defaultFilter`)
  * the defaults of `ignore_soft_states`, `disable_checks`, `disable_notifications`
                                                          lib/icinga/dependency.ti              (model: `DepDecl.resolve`)

Semantic rather than textual: comments are stripped; any integer spelling, `=`/`(..)`/`{..}` initialisation; the
default filters are evaluated as `|`-expressions over the StateFilter enumerators, whichever branch order or
negation of `GetParentServiceName().IsEmpty()` is used; a .ti attribute without a `default` block is `false`.

Usage: c07_consts.py <repo> <out.lean>      (exit 3: anchor lost, nothing written)
"""
import os
import re
import sys


class Lost(Exception):
    pass


def strip_comments(text):
    out, i, n = [], 0, len(text)
    while i < n:
        if text[i] == '"':
            j = i + 1
            while j < n and text[j] != '"':
                j += 2 if text[j] == "\\" else 1
            out.append(text[i:j + 1])
            i = j + 1
        elif text.startswith("/*", i):
            j = text.find("*/", i + 2)
            j = n if j < 0 else j + 2
            out.append("".join(ch if ch == "\n" else " " for ch in text[i:j]))
            i = j
        elif text.startswith("//", i):
            j = text.find("\n", i)
            j = n if j < 0 else j
            out.append(" " * (j - i))
            i = j
        else:
            out.append(text[i])
            i += 1
    return "".join(out)


def read(repo, rel):
    p = os.path.join(repo, rel)
    if not os.path.exists(p):
        raise Lost(rel + " not found")
    return strip_comments(open(p, encoding="utf-8", errors="replace").read())


INT = r"(0[xX][0-9a-fA-F']+|[0-9][0-9']*)"


def lit(s):
    s = s.replace("'", "")
    return int(s, 16) if s.lower().startswith("0x") else int(s, 10)


def recursion_limit(repo):
    rel = "lib/icinga/checkable-dependency.cpp"
    text = read(repo, rel)
    name = "l_MaxDependencyRecursionLevel"
    defs = list(re.finditer(r"\b" + name + r"\s*(?:=|\(|\{)\s*\(?\s*" + INT + r"\s*[uUlL]*\s*\)?\s*[)};,]?", text))
    if len(defs) != 1:
        raise Lost(f"{rel}: expected exactly one definition of {name} with a literal value, found {len(defs)}")
    # the guard of IsReachable must still use it
    m = re.search(r"bool\s+Checkable::IsReachable\s*\([^)]*\)\s*const\s*\{", text)
    if not m:
        raise Lost(f"{rel}: Checkable::IsReachable not found")
    body = text[m.end():m.end() + 1500]
    if name not in body:
        raise Lost(f"{rel}: Checkable::IsReachable no longer compares rstack with {name}")
    return lit(defs[0].group(1))


FILTERS = ["StateFilterOK", "StateFilterWarning", "StateFilterCritical", "StateFilterUnknown", "StateFilterUp", "StateFilterDown"]


def state_filters(repo):
    rel = "lib/icinga/notification.hpp"
    text = read(repo, rel)
    vals = {}
    for f in FILTERS:
        ms = list(re.finditer(r"\b" + f + r"\s*=\s*\(?\s*(?:" + INT + r"|1\s*<<\s*([0-9]+))\s*\)?\s*[,}]", text))
        if len(ms) != 1:
            raise Lost(f"{rel}: expected exactly one enumerator {f} with a literal value, found {len(ms)}")
        vals[f] = lit(ms[0].group(1)) if ms[0].group(1) else 1 << int(ms[0].group(2))
    return vals


def eval_filter(expr, vals, rel):
    expr = expr.strip()
    total = 0
    for part in expr.split("|"):
        part = part.strip().strip("()").strip()
        if part in vals:
            total |= vals[part]
        elif re.fullmatch(INT, part):
            total |= lit(part)
        else:
            raise Lost(f"{rel}: cannot evaluate default filter expression '{expr}'")
    return total


def default_filters(repo, vals):
    rel = "lib/icinga/dependency.cpp"
    text = read(repo, rel)
    m = re.search(r"void\s+Dependency::OnConfigLoaded\s*\(\s*\)\s*\{", text)
    if not m:
        raise Lost(f"{rel}: Dependency::OnConfigLoaded not found")
    depth, i = 1, m.end()
    while i < len(text) and depth:
        depth += {"{": 1, "}": -1}.get(text[i], 0)
        i += 1
    body = text[m.end():i - 1]
    cond = re.search(r"if\s*\(\s*(!?)\s*GetParentServiceName\s*\(\s*\)\s*\.\s*IsEmpty\s*\(\s*\)\s*\)\s*\{?\s*(\w+)\s*=\s*([^;]+);\s*\}?\s*"
                     r"else\s*\{?\s*(\w+)\s*=\s*([^;]+);", body)
    if not cond or cond.group(2) != cond.group(4):
        raise Lost(f"{rel}: Dependency::OnConfigLoaded: 'if (GetParentServiceName().IsEmpty()) X = a; else X = b;' not recognised")
    var = cond.group(2)
    if not re.search(r"SetStateFilter\s*\(\s*FilterArrayToInt\s*\(\s*GetStates\s*\(\s*\)\s*,[^;]*\b" + var + r"\b\s*\)\s*\)\s*;", body):
        raise Lost(f"{rel}: Dependency::OnConfigLoaded no longer passes {var} as the default to FilterArrayToInt(GetStates(), ...)")
    a, b = eval_filter(cond.group(3), vals, rel), eval_filter(cond.group(5), vals, rel)
    host, svc = (b, a) if cond.group(1) == "!" else (a, b)
    return host, svc


def ti_defaults(repo):
    rel = "lib/icinga/dependency.ti"
    text = read(repo, rel)
    out = {}
    for name in ("ignore_soft_states", "disable_checks", "disable_notifications"):
        ms = list(re.finditer(r"\]\s*bool\s+" + name + r"\s*(;|\{)", text))
        if len(ms) != 1:
            raise Lost(f"{rel}: expected exactly one bool attribute {name}, found {len(ms)}")
        m = ms[0]
        if m.group(1) == ";":
            out[name] = False
            continue
        end = text.find("};", m.end())
        block = text[m.end():end if end >= 0 else m.end() + 400]
        d = re.search(r"default\s*\{\{\{\s*return\s+(true|false)\s*;\s*\}\}\}", block)
        if "default" in block and not d:
            raise Lost(f"{rel}: default of {name} is not a literal true/false")
        out[name] = (d.group(1) == "true") if d else False
    return out


def generate(repo, out_path):
    limit = recursion_limit(repo)
    vals = state_filters(repo)
    host, svc = default_filters(repo, vals)
    ti = ti_defaults(repo)
    b = lambda v: "true" if v else "false"
    body = f"""/-
  GENERATED by gen/c07_consts.py from /repo (lib/icinga/checkable-dependency.cpp, notification.hpp, dependency.cpp,
  dependency.ti).  Regenerated at the start of every `./check C07`; do not edit.
-/
namespace Icinga.Gen.DepConsts

/-- checkable-dependency.cpp: `l_MaxDependencyRecursionLevel`. -/
def maxDependencyRecursionLevelSrc : Nat := {limit}

/-- notification.hpp: the state filter bits. -/
def stateFilterOKSrc : Nat := {vals['StateFilterOK']}
def stateFilterWarningSrc : Nat := {vals['StateFilterWarning']}
def stateFilterCriticalSrc : Nat := {vals['StateFilterCritical']}
def stateFilterUnknownSrc : Nat := {vals['StateFilterUnknown']}
def stateFilterUpSrc : Nat := {vals['StateFilterUp']}
def stateFilterDownSrc : Nat := {vals['StateFilterDown']}

/-- dependency.cpp, `Dependency::OnConfigLoaded`: the filter of a dependency without `states`. -/
def defaultFilterHostParentSrc : Nat := {host}
def defaultFilterServiceParentSrc : Nat := {svc}

/-- dependency.ti: defaults of the flags. -/
def ignoreSoftStatesDefaultSrc : Bool := {b(ti['ignore_soft_states'])}
def disableChecksDefaultSrc : Bool := {b(ti['disable_checks'])}
def disableNotificationsDefaultSrc : Bool := {b(ti['disable_notifications'])}

end Icinga.Gen.DepConsts
"""
    old = open(out_path, encoding="utf-8").read() if os.path.exists(out_path) else None
    if old != body:
        os.makedirs(os.path.dirname(out_path), exist_ok=True)
        with open(out_path, "w", encoding="utf-8") as f:
            f.write(body)
    return {"limit": limit, "filters": vals, "default_host": host, "default_service": svc, "ti": ti}


if __name__ == "__main__":
    try:
        print(generate(sys.argv[1], sys.argv[2]))
    except Lost as e:
        print("anchor lost: " + str(e), file=sys.stderr)
        sys.exit(3)

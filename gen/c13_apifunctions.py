#!/usr/bin/env python3
"""Translator for C13 (DESIGN.md §0.4): every `REGISTER_APIFUNCTION(name, ns, callback)` under <repo>/lib
becomes one entry "ns::name" of `Icinga.Gen.apiFunctions` in lean/IcingaProofs/Gen/ApiFunctions.lean.

The theorem `table_covers_registered_methods` (IcingaProofs/C13.lean) states that the model's decision
table has exactly these rows, so a method that is added, removed or renamed in the source breaks the build.

Usage: c13_apifunctions.py <repo> <out.lean>      (exit 3: anchor lost, nothing written)
"""
import os
import re
import sys

CALL = re.compile(r"\bREGISTER_APIFUNCTION\s*\(")


def calls(text):
    """(start offset, [top-level arguments]) of every REGISTER_APIFUNCTION( … ) in comment/string-free text."""
    for m in CALL.finditer(text):
        depth, i, args, cur = 1, m.end(), [], []
        while i < len(text) and depth:
            c = text[i]
            if c in "([{":
                depth += 1
            elif c in ")]}":
                depth -= 1
                if depth == 0:
                    break
            if c == "," and depth == 1:
                args.append("".join(cur))
                cur = []
            else:
                cur.append(c)
            i += 1
        args.append("".join(cur))
        yield m.start(), [a.strip() for a in args]


DEFINE = re.compile(r"#\s*define\s+REGISTER_APIFUNCTION\s*\(\s*(\w+)\s*,\s*(\w+)\s*,\s*(\w+)\s*\)((?:[^\n]*\\\n)*[^\n]*)")


class AnchorLost(Exception):
    pass


def strip_comments(text):
    """Blank out comments, string/character literals (also raw strings) and `#if 0 … #endif` blocks, keeping
    every newline, so that only real code is searched: a comment or a log text that mentions the macro is not a
    registration, and a `/*` or `//` inside a string literal does not start a comment."""
    out = []
    i, n = 0, len(text)
    while i < n:
        c = text[i]
        two = text[i:i + 2]
        if two == "//":
            j = text.find("\n", i)
            j = n if j < 0 else j
            # a line comment continues after a backslash-newline
            while j < n and text[j - 1] == "\\":
                k = text.find("\n", j + 1)
                out.append("\n")
                j = n if k < 0 else k
            i = j
        elif two == "/*":
            j = text.find("*/", i + 2)
            j = n if j < 0 else j + 2
            out.append("\n" * text.count("\n", i, j))
            i = j
        elif c == "R" and text[i:i + 2] == 'R"' and (i == 0 or not (text[i - 1].isalnum() or text[i - 1] == "_")):
            m = re.match(r'R"([^()\\ \n]{0,16})\(', text[i:])
            if not m:
                out.append(c)
                i += 1
                continue
            end = ")" + m.group(1) + '"'
            j = text.find(end, i + m.end())
            j = n if j < 0 else j + len(end)
            out.append('""' + "\n" * text.count("\n", i, j))
            i = j
        elif c == '"' or c == "'":
            j = i + 1
            while j < n and text[j] != c and text[j] != "\n":
                j += 2 if text[j] == "\\" else 1
            out.append(c + c)
            i = min(j + 1, n)
        else:
            out.append(c)
            i += 1
    text = "".join(out)
    # `#if 0` blocks (nested conditionals inside are skipped with them)
    lines = text.split("\n")
    depth = 0
    for k, line in enumerate(lines):
        t = line.strip()
        if depth:
            if re.match(r"#\s*if", t):
                depth += 1
            elif re.match(r"#\s*endif", t):
                depth -= 1
            elif depth == 1 and re.match(r"#\s*(else|elif)", t):
                depth = 0
            lines[k] = ""
        elif re.match(r"#\s*if\s+0\b", t):
            depth = 1
            lines[k] = ""
    return "\n".join(lines)


def extract(repo):
    """[(qualified name, callback text, file, line)] sorted by qualified name."""
    lib = os.path.join(repo, "lib")
    hdr = os.path.join(lib, "remote", "apifunction.hpp")
    if not os.path.exists(hdr):
        raise AnchorLost("lib/remote/apifunction.hpp not found")
    m = DEFINE.search(open(hdr, encoding="utf-8", errors="replace").read())
    # which macro argument becomes the namespace and which the name: the registered key is built as  #A "::" #B
    key = re.search(r'#\s*(\w+)\s*"::"\s*#\s*(\w+)', m.group(4)) if m else None
    params = list(m.groups()[:3]) if m else []
    if not key or key.group(1) not in params or key.group(2) not in params:
        raise AnchorLost('REGISTER_APIFUNCTION no longer registers #ns "::" #name (lib/remote/apifunction.hpp)')
    ns_pos, name_pos = params.index(key.group(1)), params.index(key.group(2))
    found = []
    for root, _dirs, files in os.walk(lib):
        for fn in sorted(files):
            if not fn.endswith((".cpp", ".hpp", ".ti")):
                continue
            path = os.path.join(root, fn)
            raw = open(path, encoding="utf-8", errors="replace").read()
            if "REGISTER_APIFUNCTION" not in raw:
                continue
            text = strip_comments(raw)
            for start, args in calls(text):
                if "define" in text[text.rfind("\n", 0, start) + 1:start]:
                    continue
                if len(args) > 3 and max(ns_pos, name_pos) < 2:      # commas inside the callback expression
                    args = args[:2] + [", ".join(args[2:])]
                if len(args) != 3 or not all(re.fullmatch(r"[A-Za-z_]\w*", args[k]) for k in (ns_pos, name_pos)):
                    raise AnchorLost("unreadable REGISTER_APIFUNCTION call in %s" % os.path.relpath(path, repo))
                line = text.count("\n", 0, start) + 1
                cb = [a for k, a in enumerate(args) if k not in (ns_pos, name_pos)][0]
                found.append((args[ns_pos] + "::" + args[name_pos], " ".join(cb.split()), os.path.relpath(path, repo), line))
    if not found:
        raise AnchorLost("no REGISTER_APIFUNCTION(...) registration found under lib/")
    names = [f[0] for f in found]
    dup = sorted({n for n in names if names.count(n) > 1})
    if dup:
        raise AnchorLost("method registered twice: " + ", ".join(dup))
    return sorted(found)


def render(found):
    out = ["/-",
           "  GENERATED by gen/c13_apifunctions.py from every REGISTER_APIFUNCTION(name, ns, callback) under /repo/lib.",
           "  Regenerated at the start of every `./check C13`; do not edit.",
           "-/",
           "namespace Icinga.Gen",
           "",
           "/-- The JSON-RPC methods the source registers (`ns::name`), sorted. -/",
           "def apiFunctions : List String := ["]
    for i, (name, cb, path, line) in enumerate(found):
        comma = "," if i + 1 < len(found) else ""
        out.append(f'  "{name}"{comma}  -- {path}:{line}  {cb}')
    out += ["]", "", "end Icinga.Gen", ""]
    return "\n".join(out)


def generate(repo, out_path):
    text = render(extract(repo))
    os.makedirs(os.path.dirname(out_path), exist_ok=True)
    old = open(out_path, encoding="utf-8").read() if os.path.exists(out_path) else None
    if old != text:  # keep the mtime when nothing changed so that lake does not rebuild
        tmp = out_path + ".tmp"
        with open(tmp, "w", encoding="utf-8") as f:
            f.write(text)
        os.replace(tmp, out_path)
    return text


if __name__ == "__main__":
    try:
        generate(sys.argv[1], sys.argv[2])
    except AnchorLost as e:
        print("anchor lost: " + str(e), file=sys.stderr)
        sys.exit(3)

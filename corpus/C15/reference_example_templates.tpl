P docex1 blk 1 arr 2 ! s 48656c6c6f b0
P docex2 blk 1 arr 2 ! b0 b1
P docex3 blk 1 arr 2 ~ b1 neg n 0 2
P docex4 blk 1 arr 2 op mul n 0 5m n 0 10 n 0 3000
P docex5 blk 1 arr 2 op div n 0 5m n 0 5 n 0 60
P docex6 blk 1 arr 2 op mod n 0 17 n 0 12 n 0 5
P docex7 blk 1 arr 2 op add n 0 1 n 0 3 n 0 4
P docex8 blk 1 arr 2 op add s 68656c6c6f20 s 776f726c64 s 68656c6c6f20776f726c64
P docex9 blk 1 arr 2 op sub n 0 3 n 0 1 n 0 2
P docex10 blk 1 arr 2 op shl n 0 4 n 0 8 n 0 1024
P docex11 blk 1 arr 2 op shr n 0 1024 n 0 4 n 0 64
P docex12 blk 1 arr 2 op lt n 0 3 n 0 5 b1
P docex13 blk 1 arr 2 op gt n 0 3 n 0 5 b0
P docex14 blk 1 arr 2 op le n 0 3 n 0 3 b1
P docex15 blk 1 arr 2 op ge n 0 3 n 0 3 b1
P docex16 blk 1 arr 2 in s 666f6f arr 2 s 666f6f s 626172 b1
P docex17 blk 1 arr 2 !in s 666f6f arr 2 s 626172 s 62617a b1
P docex18 blk 1 arr 2 op eq s 68656c6c6f s 68656c6c6f b1
P docex19 blk 1 arr 2 op eq n 0 3 n 0 5 b0
P docex20 blk 1 arr 2 op ne s 68656c6c6f s 776f726c64 b1
P docex21 blk 1 arr 2 op ne n 0 3 n 0 3 b0
P docex22 blk 1 arr 2 op band n 0 7 n 0 3 n 0 3
P docex23 blk 1 arr 2 op xor n 0 17 n 0 12 n 0 29
P docex24 blk 1 arr 2 op bor n 0 2 n 0 3 n 0 3
P docex25 blk 1 arr 2 land b1 b0 b0
P docex26 blk 1 arr 2 land n 0 3 n 0 7 n 0 7
P docex27 blk 1 arr 2 land n 0 0 n 0 7 n 0 0
P docex28 blk 1 arr 2 lor b1 b0 b1
P docex29 blk 1 arr 2 lor n 0 0 n 0 7 n 0 7
P docex30 blk 1 arr 2 tern par op gt op mul n 0 2 n 0 3 n 0 5 n 0 1 n 0 0 n 0 1

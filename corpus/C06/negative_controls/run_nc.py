"""run_nc.py <harness> [tier]: the full ./check C06 flow (build, audit, corpus, generated cases, spec on the trace, shrink, verdict)
with the harness binary replaced; evidence and replays go to scratch."""
import os, sys
sys.path.insert(0, '/verif')
from vlib import core, runner
import checks.c06 as m
h = sys.argv[1]
tier = sys.argv[2] if len(sys.argv) > 2 else "quick"
scratch = os.path.join(os.path.dirname(os.path.abspath(h)), "flow")
core.EVIDENCE = os.path.join(scratch, "evidence")
core.REPLAYS = os.path.join(scratch, "replays")
chk = m.CHECK
chk.build_harness = lambda: h
def work(*parts):
    p = os.path.join(scratch, "work", *parts)
    os.makedirs(os.path.dirname(p), exist_ok=True)
    return p
chk.work = work
sys.argv = ["check", "C06", "--tier", tier]
runner.main(chk)

#!/usr/bin/env python3
"""build_nc.py <name>: apply the replacements of control <name> to scratch copies of the sources, write the unified diff,
compile the changed files and link a scratch harness h_c06_<name> with those objects swapped in.  /repo is never written."""
import os, subprocess, sys
sys.path.insert(0, '/verif')
from vlib import core

HERE = os.path.dirname(os.path.abspath(__file__))
CONTROLS = {}

def control(name, doc):
    def deco(f):
        CONTROLS[name] = (doc, f())
        return f
    return deco

@control("nc1_refactor_pcr", "(a) ProcessCheckResult: acknowledgement rule extracted into a lambda, locals renamed, independent statements reordered, comment removal flag as one expression")
def _():
    return {"lib/icinga/checkable-check.cpp": [
("""	/* Store the current last state change for the next iteration. */
	SetPreviousStateChange(GetLastStateChange());

	if (stateChange) {
		SetLastStateChange(cr->GetExecutionEnd());

		/* remove acknowledgements */
		if (GetAcknowledgement() == AcknowledgementNormal ||
			(GetAcknowledgement() == AcknowledgementSticky && IsStateOK(new_state))) {
			ClearAcknowledgement("");
		}
	}

	bool remove_acknowledgement_comments = false;

	if (GetAcknowledgement() == AcknowledgementNone)
		remove_acknowledgement_comments = true;
""",
"""	/* Does a change into `target` end an acknowledgement of kind `kind`? */
	auto ackEndsWith = [this](AcknowledgementType kind, ServiceState target) {
		switch (kind) {
			case AcknowledgementNormal:
				return true;
			case AcknowledgementSticky:
				return IsStateOK(target);
			default:
				return false;
		}
	};

	const double previousChange = GetLastStateChange();

	if (stateChange) {
		const AcknowledgementType currentAck = GetAcknowledgement();

		if (ackEndsWith(currentAck, new_state))
			ClearAcknowledgement("");

		SetLastStateChange(cr->GetExecutionEnd());
	}

	/* Store the current last state change for the next iteration. */
	SetPreviousStateChange(previousChange);

	const bool remove_acknowledgement_comments = (GetAcknowledgement() == AcknowledgementNone);
"""),
    ]}

@control("nc2_message_texts", "(b) different log / status / exception texts and exception type (ScriptError instead of std::invalid_argument) in the API action, the external commands, the cluster handler and Checkable")
def _():
    return {
    "lib/icinga/apiactions.cpp": [
        ("\"Acknowledgement 'expiry' timestamp must be in the future for object \" + checkable->GetName()", "\"Refusing: expiry is not ahead of the clock (\" + checkable->GetName() + \")\""),
        ("\"Host \" + checkable->GetName() + \" is UP.\"", "\"Nothing to acknowledge on host \" + checkable->GetName()"),
        ("\"Service \" + checkable->GetName() + \" is OK.\"", "\"Nothing to acknowledge on service \" + checkable->GetName()"),
        ("(service ? \"Service \" : \"Host \") + checkable->GetName() + \" is already acknowledged.\"", "\"Object \" + checkable->GetName() + \" carries an acknowledgement.\""),
        ("\"Successfully acknowledged problem for object '\" + checkable->GetName() + \"'.\"", "\"Acknowledged \" + checkable->GetName()"),
        ("\"Successfully removed acknowledgement for object '\" + checkable->GetName() + \"'.\"", "\"Acknowledgement of \" + checkable->GetName() + \" removed\""),
    ],
    "lib/icinga/externalcommandprocessor.cpp": [
        ("BOOST_THROW_EXCEPTION(std::invalid_argument(\"The service '\" + arguments[1] + \"' is OK.\"));", "BOOST_THROW_EXCEPTION(ScriptError(\"service \" + arguments[1] + \" has no problem\"));"),
        ("BOOST_THROW_EXCEPTION(std::invalid_argument(\"The service '\" + arguments[1] + \"' is already acknowledged.\"));", "BOOST_THROW_EXCEPTION(ScriptError(\"service \" + arguments[1] + \": acknowledgement present\"));"),
        ("BOOST_THROW_EXCEPTION(std::invalid_argument(\"The host '\" + arguments[0] + \"' is OK.\"));", "BOOST_THROW_EXCEPTION(ScriptError(\"host \" + arguments[0] + \" has no problem\"));"),
        ("BOOST_THROW_EXCEPTION(std::invalid_argument(\"The host '\" + arguments[1] + \"' is already acknowledged.\"));", "BOOST_THROW_EXCEPTION(ScriptError(\"host \" + arguments[0] + \": acknowledgement present\"));"),
        ("BOOST_THROW_EXCEPTION(std::invalid_argument(\"Acknowledgement expire time must be in the future for service '\" + arguments[1] + \"' on host '\" + arguments[0] + \"'\"));", "BOOST_THROW_EXCEPTION(ScriptError(\"expire time not ahead of the clock\"));"),
        ("BOOST_THROW_EXCEPTION(std::invalid_argument(\"Acknowledgement expire time must be in the future for host '\" + arguments[0] + \"'\"));", "BOOST_THROW_EXCEPTION(ScriptError(\"expire time not ahead of the clock\"));"),
    ],
    "lib/icinga/checkable.cpp": [
        ("<< \"Acknowledgement set for checkable '\" << GetName() << \"'.\";", "<< \"ack+ \" << GetName();"),
        ("<< \"Acknowledgement cleared for checkable '\" << GetName() << \"'.\";", "<< \"ack- \" << GetName();"),
    ],
    "lib/icinga/clusterevents.cpp": [
        ("<< \"' from '\" << origin->FromClient->GetIdentity() << \"': Checkable is already acknowledged.\";", "<< \"' (sender \" << origin->FromClient->GetIdentity() << \"): duplicate acknowledgement.\";"),
    ]}

@control("nc3_iteration_order", "(c) RemoveAckComments and the comment-expiry timer walk the comments in reverse entry order via a sorted vector; AcknowledgeProblem / ClearAcknowledgement set their two attributes in the other order")
def _():
    return {
    "lib/icinga/checkable-comment.cpp": [
("""void Checkable::RemoveAckComments(const String& removedBy, double createdBefore)
{
	for (const Comment::Ptr& comment : GetComments()) {""",
"""void Checkable::RemoveAckComments(const String& removedBy, double createdBefore)
{
	std::set<Comment::Ptr> unordered (GetComments());
	std::vector<Comment::Ptr> newestFirst (unordered.begin(), unordered.end());

	std::sort(newestFirst.begin(), newestFirst.end(), [](const Comment::Ptr& a, const Comment::Ptr& b) {
		return a->GetEntryTime() > b->GetEntryTime();
	});

	for (const Comment::Ptr& comment : newestFirst) {"""),
("#include <utility>\n", "#include <utility>\n#include <algorithm>\n#include <vector>\n"),
    ],
    "lib/icinga/comment.cpp": [
("""	for (const Comment::Ptr& comment : comments) {
		/* Only remove comments which are activated after daemon start. */""",
"""	std::reverse(comments.begin(), comments.end());

	for (const Comment::Ptr& comment : comments) {
		/* Only remove comments which are activated after daemon start. */"""),
    ],
    "lib/icinga/checkable.cpp": [
("""	SetAcknowledgementRaw(type);
	SetAcknowledgementExpiry(expiry);
""", """	SetAcknowledgementExpiry(expiry);
	SetAcknowledgementRaw(type);
"""),
("""	SetAcknowledgementRaw(AcknowledgementNone);
	SetAcknowledgementExpiry(0);
""", """	SetAcknowledgementExpiry(0);
	SetAcknowledgementRaw(AcknowledgementNone);
"""),
    ]}

@control("nc4_guard_spellings", "(d) equivalent guards: GetAcknowledgement with early returns, API action with the OK/Up test before the expiry test and `!(t > now)`, cluster handler with if/else instead of early return, ClearAcknowledgement returning early when nothing is set, RemoveAckComments with one combined condition")
def _():
    return {
    "lib/icinga/checkable.cpp": [
("""	auto avalue = static_cast<AcknowledgementType>(GetAcknowledgementRaw());

	if (avalue != AcknowledgementNone) {
		double expiry = GetAcknowledgementExpiry();

		if (expiry != 0 && expiry < Utility::GetTime()) {
			avalue = AcknowledgementNone;
			ClearAcknowledgement("");
		}
	}

	return avalue;
""",
"""	const auto stored = static_cast<AcknowledgementType>(GetAcknowledgementRaw());

	if (stored == AcknowledgementNone)
		return AcknowledgementNone;

	const double until = GetAcknowledgementExpiry();

	if (until == 0)
		return stored;

	if (!(until < Utility::GetTime()))
		return stored;

	ClearAcknowledgement("");

	return AcknowledgementNone;
"""),
("""	bool wasAcked = GetAcknowledgementRaw() != AcknowledgementNone;

	SetAcknowledgementRaw(AcknowledgementNone);
	SetAcknowledgementExpiry(0);

	Log(LogInformation, "Checkable")
		<< "Acknowledgement cleared for checkable '" << GetName() << "'.";

	if (wasAcked) {
		OnAcknowledgementCleared(this, removedBy, changeTime, origin);

		SetAcknowledgementLastChange(changeTime);
	}
""",
"""	Log(LogInformation, "Checkable")
		<< "Acknowledgement cleared for checkable '" << GetName() << "'.";

	if (GetAcknowledgementRaw() == AcknowledgementNone) {
		/* nothing set: nothing to report (the expiry of an unset acknowledgement is 0 already) */
		SetAcknowledgementExpiry(0);
		return;
	}

	SetAcknowledgementRaw(AcknowledgementNone);
	SetAcknowledgementExpiry(0);

	OnAcknowledgementCleared(this, removedBy, changeTime, origin);

	SetAcknowledgementLastChange(changeTime);
"""),
    ],
    "lib/icinga/apiactions.cpp": [
("""	if (params->Contains("expiry")) {
		timestamp = HttpUtility::GetLastParameter(params, "expiry");

		if (timestamp <= Utility::GetTime())
			return ApiActions::CreateResult(409, "Acknowledgement 'expiry' timestamp must be in the future for object " + checkable->GetName());
	} else
		timestamp = 0;

	ObjectLock oLock (checkable);

	Host::Ptr host;
	Service::Ptr service;
	tie(host, service) = GetHostService(checkable);

	if (!service) {
		if (host->GetState() == HostUp)
			return ApiActions::CreateResult(409, "Host " + checkable->GetName() + " is UP.");
	} else {
		if (service->GetState() == ServiceOK)
			return ApiActions::CreateResult(409, "Service " + checkable->GetName() + " is OK.");
	}
""",
"""	const bool hasExpiry = params->Contains("expiry");

	if (hasExpiry)
		timestamp = HttpUtility::GetLastParameter(params, "expiry");

	ObjectLock oLock (checkable);

	Host::Ptr host;
	Service::Ptr service;
	tie(host, service) = GetHostService(checkable);

	if (service && service->GetState() == ServiceOK)
		return ApiActions::CreateResult(409, "Service " + checkable->GetName() + " is OK.");
	else if (!service && host->GetState() == HostUp)
		return ApiActions::CreateResult(409, "Host " + checkable->GetName() + " is UP.");

	if (hasExpiry && !(timestamp > Utility::GetTime()))
		return ApiActions::CreateResult(409, "Acknowledgement 'expiry' timestamp must be in the future for object " + checkable->GetName());
"""),
    ],
    "lib/icinga/clusterevents.cpp": [
("""	if (checkable->IsAcknowledged()) {
		Log(LogWarning, "ClusterEvents")
			<< "Discarding 'acknowledgement set' message for checkable '" << checkable->GetName()
			<< "' from '" << origin->FromClient->GetIdentity() << "': Checkable is already acknowledged.";
		return Empty;
	}

	checkable->AcknowledgeProblem(params->Get("author"), params->Get("comment"),
		static_cast<AcknowledgementType>(static_cast<int>(params->Get("acktype"))),
		params->Get("notify"), params->Get("persistent"), params->Get("change_time"), params->Get("expiry"), origin);

	return Empty;
""",
"""	if (!checkable->IsAcknowledged()) {
		checkable->AcknowledgeProblem(params->Get("author"), params->Get("comment"),
			static_cast<AcknowledgementType>(static_cast<int>(params->Get("acktype"))),
			params->Get("notify"), params->Get("persistent"), params->Get("change_time"), params->Get("expiry"), origin);
	} else {
		Log(LogWarning, "ClusterEvents")
			<< "Discarding 'acknowledgement set' message for checkable '" << checkable->GetName()
			<< "' from '" << origin->FromClient->GetIdentity() << "': Checkable is already acknowledged.";
	}

	return Empty;
"""),
    ],
    "lib/icinga/checkable-comment.cpp": [
("""		if (comment->GetEntryType() == CommentAcknowledgement) {
			/* Do not remove persistent comments from an acknowledgement */
			if (comment->GetPersistent()) {
				continue;
			}

			if (comment->GetEntryTime() > createdBefore) {
				continue;
			}

			{""",
"""		if (comment->GetEntryType() == CommentAcknowledgement && !comment->GetPersistent()
			&& !(comment->GetEntryTime() > createdBefore)) {
			{"""),
    ]}

@control("nc5_layout_and_names", "(e) layout only: comment block inserted at the top of every anchored file (all line numbers move), braces added, a non-anchored static renamed (l_CommentsExpireTimer), the ext-command flag parsing spelled differently")
def _():
    banner = "/* " + "layout-only control: this block moves every line of the file. */\n/* ".join(["x"] * 1)[0:0] + "layout-only control: this block moves every line of the file.\n" + " *\n" * 25 + " */\n"
    def top(path, marker):
        return (marker, banner + marker)
    return {
    "lib/icinga/checkable.cpp": [top("checkable.cpp", "/* Icinga 2 | (c) 2012 Icinga GmbH | GPLv2+ */\n"),
        ("	if (notify && !IsPaused())\n		OnNotificationsRequested(this, NotificationAcknowledgement, GetLastCheckResult(), author, comment, nullptr);\n",
         "	if (notify && !IsPaused()) {\n		OnNotificationsRequested(this, NotificationAcknowledgement, GetLastCheckResult(), author, comment, nullptr);\n	}\n")],
    "lib/icinga/checkable-check.cpp": [top("checkable-check.cpp", "/* Icinga 2 | (c) 2012 Icinga GmbH | GPLv2+ */\n")],
    "lib/icinga/apiactions.cpp": [top("apiactions.cpp", "/* Icinga 2 | (c) 2012 Icinga GmbH | GPLv2+ */\n")],
    "lib/icinga/clusterevents.cpp": [top("clusterevents.cpp", "/* Icinga 2 | (c) 2012 Icinga GmbH | GPLv2+ */\n")],
    "lib/icinga/comment.cpp": [top("comment.cpp", "/* Icinga 2 | (c) 2012 Icinga GmbH | GPLv2+ */\n"),
        ("l_CommentsExpireTimer", "l_ExpiredCommentsSweep")],
    "lib/icinga/externalcommandprocessor.cpp": [top("externalcommandprocessor.cpp", "/* Icinga 2 | (c) 2012 Icinga GmbH | GPLv2+ */\n"),
        ("bool sticky = (Convert::ToLong(arguments[2]) == 2 ? true : false);", "const bool sticky = Convert::ToLong(arguments[2]) == 2;"),
        ("bool sticky = (Convert::ToLong(arguments[1]) == 2 ? true : false);", "const bool sticky = Convert::ToLong(arguments[1]) == 2;")],
    }

@control("nc6_signal_order_handled", "(a/c) AcknowledgeProblem records the change time and fires OnAcknowledgementSet before it requests the notification; ClearAcknowledgement records the change time before its signal; GetHandled tests IsAcknowledged() before IsInDowntime(); GetProblem via a local")
def _():
    return {"lib/icinga/checkable.cpp": [
("""	if (notify && !IsPaused())
		OnNotificationsRequested(this, NotificationAcknowledgement, GetLastCheckResult(), author, comment, nullptr);

	Log(LogInformation, "Checkable")
		<< "Acknowledgement set for checkable '" << GetName() << "'.";

	OnAcknowledgementSet(this, author, comment, type, notify, persistent, changeTime, expiry, origin);

	SetAcknowledgementLastChange(changeTime);
""",
"""	SetAcknowledgementLastChange(changeTime);

	Log(LogInformation, "Checkable")
		<< "Acknowledgement set for checkable '" << GetName() << "'.";

	OnAcknowledgementSet(this, author, comment, type, notify, persistent, changeTime, expiry, origin);

	const bool wantsNotification = notify && !IsPaused();

	if (wantsNotification)
		OnNotificationsRequested(this, NotificationAcknowledgement, GetLastCheckResult(), author, comment, nullptr);
"""),
("""	if (wasAcked) {
		OnAcknowledgementCleared(this, removedBy, changeTime, origin);

		SetAcknowledgementLastChange(changeTime);
	}
""",
"""	if (wasAcked) {
		SetAcknowledgementLastChange(changeTime);

		OnAcknowledgementCleared(this, removedBy, changeTime, origin);
	}
"""),
("""	return GetProblem() && (IsInDowntime() || IsAcknowledged());""",
"""	if (!GetProblem())
		return false;

	const bool acknowledged = IsAcknowledged();

	return acknowledged || IsInDowntime();"""),
("""	auto cr (GetLastCheckResult());

	return cr && !IsStateOK(cr->GetState());""",
"""	const CheckResult::Ptr latest = GetLastCheckResult();

	if (!latest)
		return false;

	const ServiceState reported = latest->GetState();

	return !IsStateOK(reported);"""),
    ]}

def build(name):
    doc, files = CONTROLS[name]
    d = os.path.join(HERE, name)
    os.makedirs(d, exist_ok=True)
    rsp = open(os.path.join(core.BIN, "c06.rsp")).read().split("\n")
    diff_all = ""
    for src, reps in files.items():
        text = open(os.path.join("/repo", src)).read()
        for old, new in reps:
            if old not in text:
                raise SystemExit(f"{name}: pattern not found in {src}: {old[:60]!r}")
            text = text.replace(old, new)
        base = os.path.basename(src)
        out = os.path.join(d, base)
        open(out, "w").write(text)
        p = subprocess.run(["diff", "-u", "--label", "a/" + src, "--label", "b/" + src, os.path.join("/repo", src), out], capture_output=True, text=True)
        diff_all += p.stdout
        obj = os.path.join(d, base + ".o")
        libdir = os.path.dirname(src)
        cmd = ["c++"] + [f for f in core.CXXFLAGS if f not in ("-O1", "-g0")] + ["-O2", "-DNDEBUG"] + core.include_flags() + ["-I/repo/" + libdir, "-c", out, "-o", obj]
        r = subprocess.run(cmd, capture_output=True, text=True)
        if r.returncode != 0:
            raise SystemExit(f"{name}: compile of {src} failed:\n{r.stderr[-3000:]}")
        orig = os.path.join(core.BUILD, libdir, "CMakeFiles", os.path.basename(libdir) + ".dir", base + ".o")
        if orig not in rsp:
            raise SystemExit("object not in rsp: " + orig)
        rsp = [obj if o == orig else o for o in rsp]
    open(os.path.join(d, "objs.rsp"), "w").write("\n".join(rsp))
    exe = os.path.join(d, "h_c06_" + name)
    r = subprocess.run(["g++", "-pthread", "-o", exe, os.path.join(core.BIN, "c06.o"), "@" + os.path.join(d, "objs.rsp")] + core.LIBS, capture_output=True, text=True)
    if r.returncode != 0:
        raise SystemExit(f"{name}: link failed:\n{r.stderr[-3000:]}")
    hdr = f"# negative control {name}: {doc}\n# documentation only — not applied by the check; built in scratch against /repo, ./check C06 flow must stay silent\n"
    open(os.path.join("/verif/corpus/C06/negative_controls", name + ".diff"), "w").write(hdr + diff_all)
    print("built", exe, "diff lines:", diff_all.count("\n"))

if __name__ == "__main__":
    names = sys.argv[1:] or list(CONTROLS)
    for n in names:
        build(n)

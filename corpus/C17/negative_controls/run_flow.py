#!/usr/bin/env python3
"""run_flow.py HARNESS [seed] [tier]: the check's flow (corpus, generator, spec on the implementation's trace, correspondence,
shrinking, known-finding classification) on a given harness binary; prints VIOLATION lines like ./check and exits 1 on any."""
import os, sys
sys.path.insert(0, "/verif")
os.environ.setdefault("VERIF_WORK", "/verif/_work/scratch/c17/negctl/_vwork_" + os.path.basename(os.path.dirname(os.path.abspath(sys.argv[1]))))
from vlib import core
from checks.c17 import CHECK
harness = os.path.abspath(sys.argv[1]); seed = int(sys.argv[2]) if len(sys.argv) > 2 else 1; tier = sys.argv[3] if len(sys.argv) > 3 else "quick"
driver = "/verif/lean/.lake/build/bin/vd_c17"
res = CHECK.correspondence(tier, seed, harness, driver)
known = [k for k in core.known_findings("C17") if k.get("status") == "known"]
viol = 0; seen = set()
for f in res.spec_failures:
    if f.what in seen: continue
    seen.add(f.what)
    ks = [k["id"] for k in known if CHECK.matches_known(k, f)]
    if ks: print("KNOWN-FINDING", ks[0], f.what)
    else:
        viol += 1; print("VIOLATION", f.what, "|", (f.case_lines[-1] if f.case_lines else "")[:200])
if viol == 0:
    for f in res.corr_failures[:1]:
        viol += 1; print("VIOLATION corr", f.what, f.detail.get("driver", "")[:300])
print("stats", {k: res.stats.get(k) for k in ("steps", "created", "text_identical", "creates", "mismatches", "specfails")})
print("RESULT", "violations=%d" % viol)
sys.exit(1 if viol else 0)

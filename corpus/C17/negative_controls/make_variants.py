import os
CW = open("/repo/lib/base/configwriter.cpp").read()
CO = open("/repo/lib/remote/configobjectutility.cpp").read()
def rep(s, old, new, count=1):
    assert s.count(old) >= 1, old
    if count: assert s.count(old) == count, (s.count(old), old)
    return s.replace(old, new)
def put(name, files):
    os.makedirs(name, exist_ok=True)
    for fn, txt in files.items():
        open(os.path.join(name, fn), "w").write(txt)

# ---- NC1: formatting only ---------------------------------------------------------------------
cw = CW
cw = rep(cw, 'fp << "\\t";', 'fp << "    ";')
cw = rep(cw, 'fp << " = ";', 'fp << "=";')
cw = rep(cw, 'fp << "[ ";', 'fp << "[";')
cw = rep(cw, '\tif (val->GetLength() > 0)\n\t\tfp << " ";\n\tfp << "]";', '\tfp << "]";')
cw = rep(cw, 'fp << ", ";', 'fp << ",";')
cw = rep(cw, '\tfp << " ";\n\tEmitScope(fp, 1, attrs, imports, true);', '\tfp << "  ";\n\tEmitScope(fp, 1, attrs, imports, true);')
co = rep(CO, 'ConfigWriter::EmitRaw(config, "\\n");', 'ConfigWriter::EmitRaw(config, "\\n\\n");')
put("nc1_formatting", {"lib__base__configwriter.cpp": cw, "lib__remote__configobjectutility.cpp": co})

# ---- NC2: refactoring of CreateObjectConfig / CreateObject / DeleteObject(Helper) ---------------
co = CO
co = rep(co, '''			int fid = type->GetFieldId(kv.first.SubStr(0, kv.first.FindFirstOf(".")));

			if (fid < 0)
				BOOST_THROW_EXCEPTION(ScriptError("Invalid attribute specified: " + kv.first));

			Field field = type->GetFieldInfo(fid);

			if (!(field.Attributes & FAConfig) || kv.first == "name")
				BOOST_THROW_EXCEPTION(ScriptError("Attribute is marked for internal use only and may not be set: " + kv.first));''',
'''			const String& attrKey = kv.first;
			String fieldName = attrKey.SubStr(0, attrKey.FindFirstOf("."));
			int fieldId = type->GetFieldId(fieldName);

			if (fieldId < 0)
				BOOST_THROW_EXCEPTION(ScriptError("Invalid attribute specified: " + attrKey));

			Field field = type->GetFieldInfo(fieldId);
			bool settable = true;

			if (attrKey == "name")
				settable = false;
			else if (!(field.Attributes & FAConfig))
				settable = false;

			if (!settable)
				BOOST_THROW_EXCEPTION(ScriptError("Attribute is marked for internal use only and may not be set: " + attrKey));''')
# extracted helper for the duplicated error collection
co = rep(co, '''bool ConfigObjectUtility::CreateObject(const Type::Ptr& type, const String& fullName,''',
'''static void CollectQueueErrors(WorkQueue& queue, const Array::Ptr& errors, const Array::Ptr& diagnosticInformation)
{
	for (const boost::exception_ptr& ex : queue.GetExceptions()) {
		errors->Add(DiagnosticInformation(ex, false));

		if (diagnosticInformation)
			diagnosticInformation->Add(DiagnosticInformation(ex));
	}
}

bool ConfigObjectUtility::CreateObject(const Type::Ptr& type, const String& fullName,''')
co = rep(co, '''				for (const boost::exception_ptr& ex : upq.GetExceptions()) {
					errors->Add(DiagnosticInformation(ex, false));

					if (diagnosticInformation)
						diagnosticInformation->Add(DiagnosticInformation(ex));
				}''', '''				CollectQueueErrors(upq, errors, diagnosticInformation);''', count=2)
# reordered independent statements, renamed local
co = rep(co, '''		ScriptFrame frame(true);
		expr->Evaluate(frame);
		expr.reset();

		WorkQueue upq;
		upq.SetName("ConfigObjectUtility::CreateObject");

		std::vector<ConfigItem::Ptr> newItems;
''', '''		std::vector<ConfigItem::Ptr> newItems;

		WorkQueue upq;
		upq.SetName("ConfigObjectUtility::CreateObject");

		{
			ScriptFrame evalFrame(true);
			expr->Evaluate(evalFrame);
		}

		expr.reset();
''')
# guard spellings in delete
co = rep(co, '''	if (!parents.empty() && !cascade) {
		if (errors) {''', '''	if (cascade) {
		/* dependents are removed below */
	} else if (!parents.empty()) {
		if (errors) {''')
co = rep(co, '''	if (object->GetPackage() != "_api") {
		if (errors)
			errors->Add("Object cannot be deleted because it was not created using the API.");

		return false;
	}

	return DeleteObjectHelper(object, cascade, errors, diagnosticInformation, cookie);''',
'''	const bool createdAtRuntime = (object->GetPackage() == "_api");

	if (createdAtRuntime)
		return DeleteObjectHelper(object, cascade, errors, diagnosticInformation, cookie);

	if (errors)
		errors->Add("Object cannot be deleted because it was not created using the API.");

	return false;''')
put("nc2_refactor", {"lib__remote__configobjectutility.cpp": co})

# ---- NC3: other message texts --------------------------------------------------------------------
co = CO
co = rep(co, '"Invalid attribute specified: "', '"No attribute of that name: "')
co = rep(co, '"Attribute is marked for internal use only and may not be set: "', '"This attribute cannot be set at creation: "')
co = rep(co, 'errors->Add("Object \'" + fullName + "\' already exists.");', 'errors->Add("There already is an object called \'" + fullName + "\'.");')
co = rep(co, '"Config package broken: "', '"The _api package is damaged: "')
co = rep(co, '"Object cannot be deleted because it was not created using the API."', '"Only objects created at runtime can be deleted at runtime."')
co = rep(co, '''"' cannot be deleted because other objects depend on it. "
				"Use cascading delete to delete it anyway."''', '''"' still has dependent objects; "
				"repeat the request with cascade to remove them too."''')
co = rep(co, '"Created and activated object \'"', '"Runtime object created: \'"')
co = rep(co, '<< "Deleted object \'"', '<< "Runtime object removed: \'"')
cw = rep(CW, 'std::invalid_argument("Invalid identifier")', 'std::invalid_argument("Not an identifier")')
put("nc3_messages", {"lib__remote__configobjectutility.cpp": co, "lib__base__configwriter.cpp": cw})

# ---- NC4: iteration order / representation where the code is free ----------------------------------
co = CO
co = rep(co, '''	for (auto& parentObj : parents) {
		DeleteObjectHelper(parentObj, cascade, errors, diagnosticInformation, cookie);
	}''', '''	/* dependents last-to-first, counting them */
	size_t dependentsSeen = 0;

	for (auto it = parents.rbegin(); it != parents.rend(); ++it) {
		++dependentsSeen;
		DeleteObjectHelper(*it, cascade, errors, diagnosticInformation, cookie);
	}

	(void) dependentsSeen;''')
co = rep(co, '''	allAttrs->Remove("name");

	/* update the version for config sync */
	allAttrs->Set("version", Utility::GetTime());
''', '''	/* update the version for config sync */
	allAttrs->Set("version", Utility::GetTime());

	allAttrs->Remove("name");
''')
cw = CW
cw = rep(cw, '''	if (val) {
		ObjectLock olock(val);
		for (const Dictionary::Pair& kv : val) {
			fp << "\\n";''', '''	if (val) {
		/* snapshot of the entries: nested dictionaries are written last-to-first, the object body
		 * starts with "version" (independent of every other entry) */
		std::vector<std::pair<String, Value>> entries;

		{
			ObjectLock olock(val);
			for (const Dictionary::Pair& kv : val)
				entries.emplace_back(kv.first, kv.second);
		}

		if (!splitDot)
			std::reverse(entries.begin(), entries.end());
		else
			std::stable_partition(entries.begin(), entries.end(), [](const std::pair<String, Value>& kv) { return kv.first == "version"; });

		for (const auto& kv : entries) {
			fp << "\\n";''')
cw = rep(cw, '#include <iterator>', '#include <iterator>\n#include <algorithm>\n#include <vector>')
put("nc4_order", {"lib__remote__configobjectutility.cpp": co, "lib__base__configwriter.cpp": cw})

# ---- NC5: equivalent re-implementations inside ConfigWriter ----------------------------------------
cw = CW
cw = rep(cw, '''	fp << std::fixed << val;''', '''	char buf[512];
	snprintf(buf, sizeof(buf), "%.6f", val);
	fp << buf;''')
cw = rep(cw, '#include <iterator>', '#include <iterator>\n#include <cstdio>')
cw = rep(cw, '''	String result = str;
	boost::algorithm::replace_all(result, "\\\\", "\\\\\\\\");
	boost::algorithm::replace_all(result, "\\n", "\\\\n");
	boost::algorithm::replace_all(result, "\\t", "\\\\t");
	boost::algorithm::replace_all(result, "\\r", "\\\\r");
	boost::algorithm::replace_all(result, "\\b", "\\\\b");
	boost::algorithm::replace_all(result, "\\f", "\\\\f");
	boost::algorithm::replace_all(result, "\\"", "\\\\\\"");
	return result;''', '''	String result;

	for (char ch : str) {
		switch (ch) {
			case '\\\\': result += "\\\\\\\\"; break;
			case '\\n': result += "\\\\n"; break;
			case '\\t': result += "\\\\t"; break;
			case '\\r': result += "\\\\r"; break;
			case '\\b': result += "\\\\b"; break;
			case '\\f': result += "\\\\f"; break;
			case '"': result += "\\\\\\""; break;
			default: result += ch;
		}
	}

	return result;''')
cw = rep(cw, '''	boost::regex expr("^[a-zA-Z_][a-zA-Z0-9\\\\_]*$");
	boost::smatch what;
	if (boost::regex_match(identifier.GetData(), what, expr))
		fp << identifier;
	else if (inAssignment)
		EmitString(fp, identifier);
	else
		BOOST_THROW_EXCEPTION(std::invalid_argument("Invalid identifier"));''', '''	bool plain = !identifier.IsEmpty();

	for (size_t i = 0; plain && i < identifier.GetLength(); i++) {
		char ch = identifier[i];
		bool letter = (ch >= 'a' && ch <= 'z') || (ch >= 'A' && ch <= 'Z') || ch == '_';
		bool digit = ch >= '0' && ch <= '9';
		plain = letter || (i > 0 && digit);
	}

	if (!plain && !inAssignment)
		BOOST_THROW_EXCEPTION(std::invalid_argument("Invalid identifier"));

	if (plain)
		fp << identifier;
	else
		EmitString(fp, identifier);''')
cw = rep(cw, '''	if (val.IsObjectType<Array>())
		EmitArray(fp, indentLevel, val);
	else if (val.IsObjectType<Dictionary>())
		EmitScope(fp, indentLevel, val);
	else if (val.IsObjectType<ConfigIdentifier>())
		EmitIdentifier(fp, static_cast<ConfigIdentifier::Ptr>(val)->GetName(), false);
	else if (val.IsString())
		EmitString(fp, val);
	else if (val.IsNumber())
		EmitNumber(fp, val);
	else if (val.IsBoolean())
		EmitBoolean(fp, val);
	else if (val.IsEmpty())
		EmitEmpty(fp);''', '''	/* NB: Value::IsEmpty() is also true for an empty string, so strings are tested first */
	if (val.IsString()) {
		EmitString(fp, val);
		return;
	}

	if (val.IsBoolean()) {
		EmitBoolean(fp, val);
		return;
	}

	if (val.IsNumber()) {
		EmitNumber(fp, val);
		return;
	}

	if (val.IsEmpty()) {
		EmitEmpty(fp);
		return;
	}

	if (val.IsObjectType<ConfigIdentifier>())
		EmitIdentifier(fp, static_cast<ConfigIdentifier::Ptr>(val)->GetName(), false);
	else if (val.IsObjectType<Dictionary>())
		EmitScope(fp, indentLevel, val);
	else if (val.IsObjectType<Array>())
		EmitArray(fp, indentLevel, val);''')
put("nc5_equivalent_writer", {"lib__base__configwriter.cpp": cw})

# ---- seeded changes that must still be caught -------------------------------------------------------
cw = rep(CW, '''	boost::algorithm::replace_all(result, "\\"", "\\\\\\"");\n''', '')
put("m1_quote_not_escaped", {"lib__base__configwriter.cpp": cw})
co = rep(CO, '''	Defer removeConfigPath([&path]{
		Utility::Remove(path);
	});
''', '''	Defer removeConfigPath([&path]{
		Utility::Remove(path);
	});
	removeConfigPath.Cancel();
''')
put("m2_removal_cancelled_early", {"lib__remote__configobjectutility.cpp": co})
cw = rep(CW, '''	if (keywords.find(identifier) != keywords.end()) {''', '''	if (false && keywords.find(identifier) != keywords.end()) {''')
put("m3_keyword_test_dropped", {"lib__base__configwriter.cpp": cw})
co = rep(CO, '''	if (object->GetPackage() != "_api") {
		if (errors)
			errors->Add("Object cannot be deleted because it was not created using the API.");''', '''	if (false && object->GetPackage() != "_api") {
		if (errors)
			errors->Add("Object cannot be deleted because it was not created using the API.");''')
put("m4_api_test_skipped", {"lib__remote__configobjectutility.cpp": co})
cw = rep(CW, 'boost::regex_match(identifier.GetData(), what, expr)', 'boost::regex_search(identifier.GetData(), what, expr)')
put("m5_regex_search_again", {"lib__base__configwriter.cpp": cw})
cw = rep(CW, '''			fp << "import ";
			EmitString(fp, import);''', '''			fp << "import \\"" << import << "\\"";''')
put("m6_template_raw_again", {"lib__base__configwriter.cpp": cw})
print("ok")

#!/usr/bin/env python3
"""build_variant.py NAME: compile the mutated sources in ./NAME/ (files named like lib__base__configwriter.cpp),
link a harness ./NAME/h_c17 with those objects swapped in, write ./NAME/NAME.diff.  /repo is never touched."""
import glob, os, subprocess, sys
name = sys.argv[1]
d = os.path.join(os.path.dirname(os.path.abspath(__file__)), name)
B = "/verif/_work/build-hooks"
rsp = open("/verif/_work/bin/c17.rsp").read().split("\n")
diff = ""
for src in sorted(glob.glob(os.path.join(d, "lib__*.cpp"))):
    rel = os.path.basename(src).replace("__", "/")            # lib/base/configwriter.cpp
    lib = rel.split("/")[1]
    obj = f"lib/{lib}/CMakeFiles/{lib}.dir/{os.path.basename(rel)}.o"
    cmd = subprocess.run(["ninja", "-C", B, "-t", "commands", obj], capture_output=True, text=True).stdout.strip().split("\n")[-1]
    out = src[:-4] + ".o"
    cmd = cmd.replace("-o " + obj, "-o " + out).replace("-c /repo/" + rel, "-c " + src)
    import re
    cmd = re.sub(r"-MF \S+", "-MF " + out + ".d", cmd)
    cmd = re.sub(r"^ccache ", "", cmd)
    # the copy lives elsewhere: keep relative includes of the original directory working
    cmd = cmd.replace(" -c ", f" -I/repo/{os.path.dirname(rel)} -c ")
    if os.path.isdir(os.path.join(d, "inc")):
        cmd = cmd.replace(" -I", " -I" + os.path.join(d, "inc") + " -I", 1)
    r = subprocess.run(cmd, shell=True, cwd=B, capture_output=True, text=True)
    if r.returncode != 0:
        print(r.stderr[-3000:]); sys.exit(1)
    full = os.path.join(B, obj)
    assert full in rsp, full
    rsp = [out if l == full else l for l in rsp]
    diff += subprocess.run(["diff", "-u", "--label", "a/" + rel, "--label", "b/" + rel, "/repo/" + rel, src], capture_output=True, text=True).stdout
open(os.path.join(d, "c17.rsp"), "w").write("\n".join(rsp))
libs = "-ldl -lboost_coroutine -lboost_context -lboost_date_time -lboost_filesystem -lboost_iostreams -lboost_thread -lboost_system -lboost_program_options -lboost_regex -lboost_atomic -lssl -lcrypto -ledit -ltermcap".split()
r = subprocess.run(["g++", "-pthread", "-o", os.path.join(d, "h_c17"), "/verif/_work/bin/c17.o", "@" + os.path.join(d, "c17.rsp")] + libs, capture_output=True, text=True)
if r.returncode != 0:
    print(r.stderr[-3000:]); sys.exit(1)
for hdr in sorted(glob.glob(os.path.join(d, "inc", "*", "*.hpp"))):
    rel = "lib/" + os.path.relpath(hdr, os.path.join(d, "inc"))
    diff += subprocess.run(["diff", "-u", "--label", "a/" + rel, "--label", "b/" + rel, "/repo/" + rel, hdr], capture_output=True, text=True).stdout
open(os.path.join(d, name + ".diff"), "w").write(diff)
print("built", name, "diff lines", diff.count("\n"))

#!/bin/sh
# tools/round3.sh <Cxx> <n> [<n> ...] : confirm the sub-agent's seeded changes /tmp/mut-cxx/_seeded/<n> (suite passes, demo fails with /
# passes without), copy the confirmed ones to seeded/Cxx-<n>/ and print one line each.
P=$1; shift
p=$(echo $P | tr 'C' 'c')
cd "$(dirname "$0")/.."
. /tmp/mut-$p/_env.sh
for n in "$@"; do
  python3 tools/confirm_seeded.py /tmp/mut-$p $n $P-$n | python3 -c "
import json,sys
d=json.loads(sys.stdin.read().strip().splitlines()[-1])
print('$P-$n', 'confirmed' if d['confirmed'] else 'NOT-CONFIRMED', d['suite_with_change'], d['demo_target'], d['demo_rc_with_change'], d['demo_rc_without_change'])"
done

#!/bin/sh
# tools/mutate.sh <patch.diff> <Cxx> [<Cyy> ...]   — apply a seeded change to the persistent scratch worktree,
# run the named checks against it (evidence/replays go below the scratch work dir), and undo the change.
set -u
WT=${WT:-/tmp/wt-test}
PATCH=$(readlink -f "$1"); shift
cd "$(dirname "$0")/.."
git -C $WT checkout -q -- . || exit 2
git -C $WT apply "$PATCH" 2>/dev/null || (cd $WT && patch -p1 -s --fuzz=3 < "$PATCH") || { echo "PATCH DOES NOT APPLY"; exit 2; }
git -C $WT diff --stat | tail -1
for P in "$@"; do
  echo "=== $P on $(basename $(dirname $PATCH))"
  VERIF_REPO=$WT VERIF_WORK=$WT/_vwork ${VERIF_TIMEOUT:+timeout $VERIF_TIMEOUT} ./check $P ${TIER:+--tier $TIER} 2>&1 | grep -E "VIOLATION|KNOWN-FINDING|INFRA|done in|Traceback|Error" | head -8
  echo "exit=$?"
done
git -C $WT checkout -q -- .

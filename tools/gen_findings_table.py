#!/usr/bin/env python3
"""Regenerate the findings table of DESIGN.md §6.2 between <!-- FINDINGS-BEGIN --> and <!-- FINDINGS-END --> from known_findings.json."""
import json, os
ROOT = os.path.dirname(os.path.dirname(os.path.abspath(__file__)))
k = json.load(open(os.path.join(ROOT, "known_findings.json")))["findings"]
rows = ["| id | property | disposition | what failed |", "|---|---|---|---|"]
for e in sorted(k, key=lambda e: (e["property"], e["id"])):
    disp = "fixed (%s)" % e.get("commit", "?") if e.get("status") == "fixed" else "known"
    d = e["description"].replace("\n", " ").replace("|", "\\|")
    if len(d) > 330: d = d[:330] + "…"
    rows.append("| %s | %s | %s | %s |" % (e["id"], e["property"], disp, d))
text = "\n".join(rows) + "\n"
path = os.path.join(ROOT, "DESIGN.md")
s = open(path).read()
a, b = "<!-- FINDINGS-BEGIN -->", "<!-- FINDINGS-END -->"
if a in s:
    s = s[:s.index(a) + len(a)] + "\n" + text + s[s.index(b):]
else:
    st = s.index("| id | disposition | what failed |")
    en = s.index("\n\n", st)
    s = s[:st] + a + "\n" + text + b + s[en:]
open(path, "w").write(s)
n_fixed = sum(1 for e in k if e.get("status") == "fixed")
print("findings table:", len(k), "rows,", n_fixed, "fixed,", len(k) - n_fixed, "known")

#!/usr/bin/env python3
"""Print the prompt for an independent 'seeded change' sub-agent for property Cxx (gets only the property text and a scratch worktree)."""
import json, sys
pid = sys.argv[1]
wt = sys.argv[2]
rec = [json.loads(l) for l in open('/verif/properties.jsonl') if json.loads(l)['id'] == pid][0]
print(f"""You are a software engineer working on Icinga 2 (C++ monitoring server). You have your own scratch git worktree of the repository at {wt} (a detached checkout; work ONLY inside {wt}; never touch /repo or /verif and do not read anything under /verif).

Here is a semantic property the code base is supposed to satisfy:

ID: {rec['id']} — {rec['title']}
STATEMENT: {rec['statement']}
QUANTIFIED OVER: {rec['quantifier']['text']}
RELEVANT FILES: {', '.join(rec['anchors']['files'])}
MECHANISMS: {json.dumps(rec['anchors']['mechanism'])}

Your task: produce THREE different, independent, realistic changes to the Icinga 2 source (each a small patch, like a plausible refactoring slip or well-meant "optimisation" a developer could make) such that each one BREAKS the property above while the code still compiles and the existing test suite still passes. Prefer changes that need something specific to manifest — a particular multi-step sequence of operations, an unusual input, a boundary value, a particular interleaving/crash point, or two cooperating sites that each look fine alone — NOT changes that ordinary use would expose at once. The three changes should touch different mechanisms/clauses of the property.

For each change deliver, in the directory {wt}/_seeded/<n>/ (n = 1,2,3):
  * patch.diff — `git diff` of the change against the worktree's HEAD (source files only; apply with `git apply`);
  * a demonstration: a Boost.Test case file `demo.cpp` (plus the few lines to add to test/CMakeLists.txt, given as `demo_cmake.diff`) OR a small standalone program with its build command, that FAILS with the change and PASSES without it — and you must actually run it both ways and record the two outputs in `demo_output.txt`;
  * meta.json — {{"property": "{pid}", "summary": "...", "needs_to_manifest": "<the specific sequence/input/boundary it needs>", "files_changed": [...], "suite_result_with_change": "<N passed / M failed>", "commands_run": [...]}}.

How to build and run the existing suite in your worktree (takes several minutes; use at most 8 parallel jobs because the machine is shared):
  cmake -S {wt} -B {wt}/_build -G Ninja -DCMAKE_BUILD_TYPE=RelWithDebInfo -DCMAKE_CXX_FLAGS=-Wno-error -DICINGA2_UNITY_BUILD=ON -DUSE_SYSTEMD=OFF > {wt}/_cmake.log 2>&1
  ninja -C {wt}/_build -j8 > {wt}/_ninja.log 2>&1
  ctest --test-dir {wt}/_build -j8 --timeout 900 > {wt}/_ctest.log 2>&1; tail -5 {wt}/_ctest.log     (baseline: 182 tests, all pass)
Build once on the unmodified tree first (baseline), then for each change: apply, rebuild incrementally, run the full suite (it must still show 182 passed, 0 failed — a change that any existing test catches is NOT acceptable; pick another), build and run your demonstration, then `git checkout -- .` (keep _seeded/ and _build/, they are untracked) before the next change. The tests live in {wt}/test (Boost.Test; see test/CMakeLists.txt for how cases are registered with add_boost_test and how test/icinga-checkresult.cpp, test/icinga-notification.cpp etc. construct objects without a running daemon).

There is no network access. Do not commit anything. When done, reply with a short summary (≤ 250 words): for each of the three changes one line saying what it alters, what it needs in order to manifest, and that you confirmed (a) suite passes with it, (b) demo fails with it and passes without it. If you could not produce three, deliver as many as you confirmed and say why.""")

#!/usr/bin/env python3
"""tools/mut_prepare.py <Cxx> [first-new-number]
Create the scratch worktree /tmp/mut-cxx for an independent 'seeded change' sub-agent: detached worktree of /repo HEAD,
_seeded/<n>/meta.json of every earlier change of that property (summary only, so that the prompt can tell the agent what
to avoid), a configured NON-unity build tree with a shared ccache (/var/tmp/ccache-mut) so that baselines cost a minute.
Prints the prompt for the agent (property text + instructions, nothing else from /verif)."""
import glob, json, os, re, subprocess, sys
ROOT = os.path.dirname(os.path.dirname(os.path.abspath(__file__)))
pid = sys.argv[1].upper()
wt = f"/tmp/mut-{pid.lower()}"
prev = {}
for d in sorted(glob.glob(os.path.join(ROOT, "seeded", pid + "-*"))):
    n = int(d.rsplit("-", 1)[1])
    try:
        prev[n] = json.load(open(os.path.join(d, "meta.json"))).get("summary", "")
    except Exception:
        pass
# changes whose files were lost with an earlier sandbox: keep their (truncated) summaries from DESIGN.md's table
for line in open(os.path.join(ROOT, "DESIGN.md"), encoding="utf-8"):
    m = re.match(r"\| (%s-(\d+)) \| (.*?) \|" % pid, line)
    if m and int(m.group(2)) not in prev:
        prev[int(m.group(2))] = m.group(3)
first = int(sys.argv[2]) if len(sys.argv) > 2 else max(list(prev) + [0]) + 1
if len(sys.argv) > 2 and first <= max(list(prev) + [0]):
    pass
nums = [first, first + 1, first + 2]

def sh(cmd):
    return subprocess.run(cmd, shell=True, stdout=subprocess.PIPE, stderr=subprocess.STDOUT, text=True)

if not os.path.isdir(wt):
    r = sh(f"git -C /repo worktree add --detach {wt} HEAD")
    if r.returncode != 0:
        print(r.stdout, file=sys.stderr); sys.exit(2)
os.makedirs(os.path.join(wt, "_seeded"), exist_ok=True)
for n, s in prev.items():
    os.makedirs(os.path.join(wt, "_seeded", str(n)), exist_ok=True)
    json.dump({"property": pid, "summary": s}, open(os.path.join(wt, "_seeded", str(n), "meta.json"), "w"), indent=1)
env = ("export CCACHE_DIR=/var/tmp/ccache-mut CCACHE_BASEDIR=%s CCACHE_NOHASHDIR=1 "
       "CCACHE_SLOPPINESS=time_macros,include_file_mtime,include_file_ctime" % wt)
open(os.path.join(wt, "_env.sh"), "w").write(env + "\n")
if not os.path.exists(os.path.join(wt, "_build", "build.ninja")):
    r = sh(f"{env}; cmake -S {wt} -B {wt}/_build -G Ninja -DCMAKE_BUILD_TYPE=RelWithDebInfo -DCMAKE_CXX_FLAGS=-Wno-error "
           f"-DICINGA2_UNITY_BUILD=OFF -DUSE_SYSTEMD=OFF -DCMAKE_CXX_COMPILER_LAUNCHER=ccache -DCMAKE_C_COMPILER_LAUNCHER=ccache "
           f"'-DCMAKE_CXX_FLAGS_RELWITHDEBINFO=-O1 -g0' > {wt}/_cmake.log 2>&1")
    if r.returncode != 0:
        print("cmake failed", file=sys.stderr); sys.exit(2)

rec = [json.loads(l) for l in open(os.path.join(ROOT, "properties.jsonl")) if json.loads(l)["id"] == pid][0]
prevtxt = "\n".join(f"- ({n}) " + s[:420].replace("\n", " ") for n, s in sorted(prev.items()))
print(f"""You are a software engineer working on Icinga 2 (C++ monitoring server). You have your own scratch git worktree of the repository at {wt} (a detached checkout; work ONLY inside {wt}; never touch /repo or /verif and do not read anything under /verif).

Here is a semantic property the code base is supposed to satisfy:

ID: {rec['id']} — {rec['title']}
STATEMENT: {rec['statement']}
QUANTIFIED OVER: {rec['quantifier']['text']}
RELEVANT FILES: {', '.join(rec['anchors']['files'])}
MECHANISMS: {json.dumps(rec['anchors']['mechanism'])}

Your task: produce THREE different, independent, realistic changes to the Icinga 2 source (each a small patch, like a plausible refactoring slip or well-meant "optimisation" a developer could make) such that each one BREAKS the property above while the code still compiles and the existing test suite still passes. Prefer changes that need something specific to manifest — a particular multi-step sequence of operations, an unusual input, a boundary value, a particular interleaving/crash point, or two cooperating sites that each look fine alone — NOT changes that ordinary use would expose at once. The three changes should touch different mechanisms/clauses of the property.

IMPORTANT — earlier engineers already delivered the following changes (do NOT repeat them or trivial variants of them; the directories _seeded/<n>/ of those numbers hold nothing but this summary):
{prevtxt}
Your three changes must break the property through OTHER mechanisms, clauses or code sites than these — look at the parts of the STATEMENT and of the MECHANISMS list the earlier rounds did not touch, at boundary values (exact instants, empty/one-element collections, equal keys), at rarely used configuration options, at error paths, at the glue around the core (parsing, conversions, registration, entry points other than the obvious one), and at pairs of cooperating sites.

For each change deliver, in the directory {wt}/_seeded/<n>/ (n = {nums[0]}, {nums[1]}, {nums[2]}):
  * patch.diff — `git diff` of the change against the worktree's HEAD (source files under lib/ etc. only, NOT the test directory; must apply with `git apply`);
  * a demonstration: a Boost.Test case file `demo.cpp` (plus the few lines to add to test/CMakeLists.txt, given as `demo_cmake.diff`: a new `add_boost_test(<name> SOURCES ... LIBRARIES ... TESTS ...)` block or new case names in an existing block, whatever test/CMakeLists.txt's conventions need) OR a small standalone program with its exact build command, that FAILS with the change and PASSES without it — and you must actually run it both ways and record the two outputs in `demo_output.txt`;
  * meta.json — {{"property": "{pid}", "summary": "<what the change alters and why it breaks the property>", "needs_to_manifest": "<the specific sequence/input/boundary it needs>", "files_changed": [...], "suite_result_with_change": "<N passed / M failed>", "commands_run": [...]}}.

How to build and run the existing suite in your worktree. The build tree {wt}/_build is already configured (non-unity, with a shared compiler cache, so a full build takes a few minutes at most and incremental builds are quick). ALWAYS source the cache settings first and use at most 6 parallel jobs because the machine is shared:
  . {wt}/_env.sh; ninja -C {wt}/_build -j6 > {wt}/_ninja.log 2>&1; tail -3 {wt}/_ninja.log
  ctest --test-dir {wt}/_build -j6 --timeout 900 > {wt}/_ctest.log 2>&1; tail -5 {wt}/_ctest.log     (baseline: 182 tests, all pass)
Build once on the unmodified tree first (baseline), then for each change: apply, rebuild incrementally, run the full suite (it must still show 182 passed, 0 failed — a change that any existing test catches is NOT acceptable; pick another), build and run your demonstration, then `git checkout -- .` and remove your demo file from test/ (keep _seeded/ and _build/, they are untracked) before the next change. The tests live in {wt}/test (Boost.Test; see test/CMakeLists.txt for how cases are registered with add_boost_test and how test/icinga-checkresult.cpp, test/icinga-notification.cpp etc. construct objects without a running daemon).

There is no network access. Do not commit anything. Do not spend more than about 75 minutes in total; deliver what you have confirmed by then. When done, reply with a short summary (≤ 250 words): for each of the changes one line saying what it alters, what it needs in order to manifest, and that you confirmed (a) suite passes with it, (b) demo fails with it and passes without it. If you could not produce three, deliver as many as you confirmed and say why.""")

#!/usr/bin/env python3
"""Build every harness and driver named by MANIFEST.json's checks (used by setup.sh)."""
import concurrent.futures
import importlib
import json
import os
import sys

ROOT = os.path.dirname(os.path.dirname(os.path.abspath(__file__)))
sys.path.insert(0, ROOT)
from vlib import core

man = json.load(open(os.path.join(ROOT, "MANIFEST.json")))
props = [c["property_id"] for c in man["checks"]]


def one(p):
    try:
        mod = importlib.import_module("checks." + p.lower())
        mod.CHECK.build_harness()
        return p, "ok"
    except Exception as e:  # noqa
        return p, "FAILED: " + str(e)[:500] + getattr(e, "detail", "")[-1500:]


with concurrent.futures.ThreadPoolExecutor(max_workers=6) as ex:
    for p, r in ex.map(one, props):
        print(p, r)
for p in props:
    mod = importlib.import_module("checks." + p.lower())
    try:
        mod.CHECK.generate()
    except Exception as e:  # noqa
        print(p, "generate FAILED:", e)
    rc, out = core.lake_build([f"IcingaProofs.{p}"])
    print(p, "proofs", "ok" if rc == 0 else "FAILED\n" + out[-1500:])
    try:
        core.shared_ties(p)
    except Exception as e:  # noqa
        print(p, "shared ties FAILED:", e)
    if mod.CHECK.has_driver:
        try:
            core.build_driver(p)
        except Exception as e:  # noqa
            print(p, "driver FAILED:", e)

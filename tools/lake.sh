#!/bin/sh
# Serialised `lake` for interactive use (the checks take the same lock): tools/lake.sh build IcingaProofs.C05
mkdir -p "$(dirname "$0")/../_work"
cd "$(dirname "$0")/../lean" && exec flock ../_work/lake.lock lake "$@"

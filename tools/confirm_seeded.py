#!/usr/bin/env python3
"""tools/confirm_seeded.py <worktree> <n> <dest-id>
Independently confirm a seeded change delivered in <worktree>/_seeded/<n>/: (a) it compiles and the pinned suite
still passes with it, (b) the demonstration fails with it, (c) the demonstration passes without it.
On success copy it to /verif/seeded/<dest-id>/ with a confirmation record."""
import json, os, re, shutil, subprocess, sys

wt, n, dest = sys.argv[1], sys.argv[2], sys.argv[3]
sd = os.path.join(wt, "_seeded", n)
B = os.path.join(wt, "_build")
log = []

def sh(cmd, **kw):
    p = subprocess.run(cmd, shell=True, cwd=wt, stdout=subprocess.PIPE, stderr=subprocess.STDOUT, text=True, **kw)
    log.append(f"$ {cmd}\n[rc={p.returncode}] " + p.stdout[-600:])
    return p.returncode, p.stdout

def clean():
    sh("git checkout -q -- . && git clean -fdq test lib 2>/dev/null")

def demo_setup():
    cm = open(os.path.join(sd, "demo_cmake.diff")).read()
    rc, _ = sh(f"git apply {sd}/demo_cmake.diff")
    if rc != 0:
        return None
    # the demo source name: a .cpp mentioned in the added lines that does not exist yet
    names = []
    for line in cm.splitlines():
        if line.startswith("+") and not line.startswith("+++") and not line.lstrip("+ ").startswith("#"):
            names += re.findall(r"([A-Za-z0-9_./-]+[.]cpp)", line)
    target = None
    for nm in names:
        if "_seeded" in nm or nm.startswith("/") or nm.startswith("$"):
            continue  # the demo is compiled in place from _seeded/<n>/
        path = os.path.join(wt, "test", nm)
        if not os.path.exists(path):
            shutil.copy(os.path.join(sd, "demo.cpp"), path)
            target = nm
            break
    m = re.search(r"^\+\s*add_boost_test\((\w+)", cm, re.M)
    if m:
        return m.group(1)
    cases = re.findall(r"^\+\s+([A-Za-z0-9_]+)/[A-Za-z0-9_]+\s*$", cm, re.M)
    if cases:
        return "ctest:" + "|".join(sorted(set(c + "/" for c in cases)))
    return None

def run_demo(tname):
    if tname and tname.startswith("ctest:"):
        # demo cases were added to an existing test binary: build everything, run them through ctest -R
        pats = tname[6:]
        rc, out = sh(f"ninja -C {B} -j8 2>&1 | tail -3")
        if rc != 0 or "FAILED" in out:
            return None
        rc, out = sh(f"ctest --test-dir {B} -R '{pats}' --timeout 600 2>&1 | grep -E 'tests passed|Failed|Passed' | tail -12")
        m = re.search(r"(\d+)% tests passed, (\d+) tests failed out of (\d+)", out)
        if not m or int(m.group(3)) == 0:
            return None
        return 0 if m.group(2) == "0" else 201
    exe = os.path.join(B, "Bin", "RelWithDebInfo", f"boosttest-test-{tname}")
    if os.path.exists(exe):
        os.unlink(exe)  # never run a stale binary
    rc, out = sh(f"ninja -C {B} -j8 boosttest-test-{tname} 2>&1 | tail -3")
    if not os.path.exists(exe):
        return None
    p = subprocess.run(["timeout", "600", exe], cwd=wt, stdout=subprocess.PIPE, stderr=subprocess.STDOUT, text=True)
    log.append(f"demo rc={p.returncode}: " + p.stdout[-400:])
    return p.returncode

res = {"worktree": wt, "n": n}
clean()
rc, _ = sh(f"git apply {sd}/patch.diff")
res["patch_applies"] = rc == 0
rc, out = sh(f"ninja -C {B} -j8 2>&1 | tail -3")
res["compiles_with_change"] = rc == 0 and "FAILED" not in out
rc, out = sh(f"ctest --test-dir {B} -j8 --timeout 900 2>&1 | tail -6")
m = re.search(r"(\d+)% tests passed, (\d+) tests failed out of (\d+)", out)
res["suite_with_change"] = m.group(0) if m else out[-200:]
res["suite_passes_with_change"] = bool(m and m.group(2) == "0" and int(m.group(3)) >= 182)
t = demo_setup()
res["demo_target"] = t
res["demo_rc_with_change"] = run_demo(t) if t else None
# without the change
sh("git stash -q -u -- test 2>/dev/null; git checkout -q -- lib; git stash pop -q 2>/dev/null")
res["demo_rc_without_change"] = run_demo(t) if t else None
clean()
sh(f"ninja -C {B} -j8 2>&1 | tail -1")
ok = (res["patch_applies"] and res["compiles_with_change"] and res["suite_passes_with_change"]
      and res["demo_rc_with_change"] not in (None, 0) and res["demo_rc_without_change"] == 0)
res["confirmed"] = ok
out = os.path.join("/verif/seeded", dest)
if ok:
    os.makedirs(out, exist_ok=True)
    for f in ("patch.diff", "demo.cpp", "demo_cmake.diff", "demo_output.txt"):
        if os.path.exists(os.path.join(sd, f)):
            shutil.copy(os.path.join(sd, f), out)
    meta = json.load(open(os.path.join(sd, "meta.json")))
    meta["confirmed_by_coordinator"] = res
    json.dump(meta, open(os.path.join(out, "meta.json"), "w"), indent=1)
print(json.dumps(res))
open(os.path.join(sd, "confirm.log"), "w").write("\n".join(log))

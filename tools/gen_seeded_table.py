#!/usr/bin/env python3
"""Regenerate the table of DESIGN.md §6.3 between <!-- SEEDED-BEGIN --> and <!-- SEEDED-END --> from
tools/seeded_results.json (hand-kept: clause + note per change), tools/seeded_auto.json (written by tools/run_seeded.py:
what the last automatic regression run against the kept patch reported) and the meta.json of each change."""
import json, os, re
ROOT = os.path.dirname(os.path.dirname(os.path.abspath(__file__)))
hand = json.load(open(os.path.join(ROOT, "tools", "seeded_results.json")))
try:
    auto = json.load(open(os.path.join(ROOT, "tools", "seeded_auto.json")))
except Exception:
    auto = {}
ids = sorted(set(hand) | set(auto) | {d for d in os.listdir(os.path.join(ROOT, "seeded")) if re.fullmatch(r"C\d\d-\d+", d)})

def meta(i):
    for p in (os.path.join(ROOT, "seeded", i, "meta.json"),
              "/tmp/mut-%s/_seeded/%s/meta.json" % (i.split("-")[0].lower(), i.split("-")[1])):
        try:
            return json.load(open(p))
        except Exception:
            pass
    return {}

rows = ["| id | change | caught by (spec clause / tie) | last regression run | note |", "|---|---|---|---|---|"]
for i in ids:
    m = meta(i)
    summ = (m.get("summary") or "").replace("\n", " ").replace("|", "\\|")
    if len(summ) > 170: summ = summ[:170] + "…"
    h = hand.get(i, ["", ""])
    a = auto.get(i)
    if a:
        if a["violations"] == 0:
            last = "**not reported** (exit %s)" % a["exit"]
        elif a["no_failing_input_only"]:
            last = "tie broken only (no-failing-input-found)"
        else:
            last = "%d replay(s): %s" % (a["violations"], ", ".join(w.split(":", 2)[-1] for w in a["what"][:3]))
        last += " [seed %s, %s s]" % (a["seed"], a["secs"])
    else:
        last = "—"
    conf = "" if os.path.isdir(os.path.join(ROOT, "seeded", i)) else " (confirmation by coordinator pending)"
    rows.append("| %s | %s | %s | %s | %s%s |" % (i, summ, h[0].replace("|", "\\|"), last, h[1].replace("|", "\\|"), conf))
text = "\n".join(rows) + "\n"
path = os.path.join(ROOT, "DESIGN.md")
s = open(path).read()
a, b = "<!-- SEEDED-BEGIN -->", "<!-- SEEDED-END -->"
if a in s:
    s = s[:s.index(a) + len(a)] + "\n" + text + s[s.index(b):]
else:
    # first use: replace the old hand-pasted table
    st = s.index("| id | change | caught by | note |")
    en = s.index("\n\n", st)
    s = s[:st] + a + "\n" + text + b + s[en:]
open(path, "w").write(s)
print("seeded table:", len(ids), "rows")

#!/usr/bin/env python3
"""Regenerate the table of DESIGN.md §6.3 between <!-- SEEDED-BEGIN --> and <!-- SEEDED-END --> from
tools/seeded_results.json (hand-kept: clause + note per change), tools/seeded_auto.json (written by tools/run_seeded.py:
what the last automatic regression run against the kept patch reported) and the meta.json of each change."""
import json, os, re
ROOT = os.path.dirname(os.path.dirname(os.path.abspath(__file__)))
hand = json.load(open(os.path.join(ROOT, "tools", "seeded_results.json")))
try:
    auto = json.load(open(os.path.join(ROOT, "tools", "seeded_auto.json")))
except Exception:
    auto = {}
try:
    first3 = json.load(open(os.path.join(ROOT, "tools", "seeded_round3_first.json")))
except Exception:
    first3 = {}


def first_class(d):
    if d["exit"] == 0:
        return "MISSED (exit 0)"
    if d.get("no_failing_input_only"):
        return "broken tie only (" + ", ".join(d["what"])[:60] + ")"
    return "caught"


ids = sorted(set(hand) | set(auto) | {d for d in os.listdir(os.path.join(ROOT, "seeded")) if re.fullmatch(r"C\d\d-\d+", d)})

def meta(i):
    for p in (os.path.join(ROOT, "seeded", i, "meta.json"),
              "/tmp/mut-%s/_seeded/%s/meta.json" % (i.split("-")[0].lower(), i.split("-")[1])):
        try:
            return json.load(open(p))
        except Exception:
            pass
    return {}

rows = ["| id | change | caught by (spec clause / tie) | last regression run | note |", "|---|---|---|---|---|"]
for i in ids:
    m = meta(i)
    summ = (m.get("summary") or "").replace("\n", " ").replace("|", "\\|")
    if len(summ) > 170: summ = summ[:170] + "…"
    h = hand.get(i, ["", ""])
    a = auto.get(i)
    if i not in hand and i in first3:
        f = first_class(first3[i])
        now = ""
        if a and a["violations"] and not a["no_failing_input_only"]:
            now = ", ".join(sorted({w.split(":")[2] for w in a["what"] if w.count(":") >= 2}))[:90]
        note = "round 3; first run: " + f
        if f != "caught" and now:
            note += "; STRENGTHENED by the property's builder"
        h = [now or "(see last regression run)", note]
    if a:
        if a["violations"] == 0:
            last = "**not reported** (exit %s)" % a["exit"]
        elif a["no_failing_input_only"]:
            last = "tie broken only (no-failing-input-found)"
        else:
            last = "%d replay(s): %s" % (a["violations"], ", ".join(w.split(":", 2)[-1] for w in a["what"][:3]))
        last += " [seed %s, %s s]" % (a["seed"], a["secs"])
    else:
        last = "—"
    conf = "" if os.path.isdir(os.path.join(ROOT, "seeded", i)) else " (patch file lost with an earlier sandbox; result of the last run while it existed)"
    rows.append("| %s | %s | %s | %s | %s%s |" % (i, summ, h[0].replace("|", "\\|"), last, h[1].replace("|", "\\|"), conf))
text = "\n".join(rows) + "\n"
path = os.path.join(ROOT, "DESIGN.md")
s = open(path).read()
a, b = "<!-- SEEDED-BEGIN -->", "<!-- SEEDED-END -->"
if a in s:
    s = s[:s.index(a) + len(a)] + "\n" + text + s[s.index(b):]
else:
    # first use: replace the old hand-pasted table
    st = s.index("| id | change | caught by | note |")
    en = s.index("\n\n", st)
    s = s[:st] + a + "\n" + text + b + s[en:]
open(path, "w").write(s)
print("seeded table:", len(ids), "rows")

#!/usr/bin/env python3
"""tools/run_negctl.py [--wt DIR] [--seed N] <Cxx> [<Cxx> ...] | all

Soundness regression: every behaviour-preserving rewrite kept under corpus/Cxx/negative_controls/*.diff is applied to a
persistent scratch worktree of /repo (never /repo itself), the property's quick check is run against it (VERIF_REPO /
VERIF_WORK point into the worktree) and must exit 0 without a VIOLATION line.  Outcomes are merged into
tools/negctl_auto.json: {"<Cxx>/<file>": {"exit": rc, "violations": n, "what": [...], "head": <repo commit>, "secs": t}}.
Patches that no longer apply to the current HEAD (the code they rewrite was repaired since) are recorded as
"stale": true and skipped.  The patch is reverted afterwards.
"""
import fcntl, glob, json, os, re, subprocess, sys, time
ROOT = os.path.dirname(os.path.dirname(os.path.abspath(__file__)))
args = sys.argv[1:]
wt, seed = "/tmp/wt-test", os.environ.get("VERIF_SEED", "1")
props = []
while args:
    a = args.pop(0)
    if a == "--wt": wt = args.pop(0)
    elif a == "--seed": seed = args.pop(0)
    else: props.append(a.upper())
if props == ["ALL"]:
    props = ["C%02d" % n for n in range(1, 21)]
out_path = os.path.join(ROOT, "tools", "negctl_auto.json")


def sh(cmd, **kw):
    return subprocess.run(cmd, shell=True, stdout=subprocess.PIPE, stderr=subprocess.STDOUT, text=True, **kw)


def record(key, rec):
    with open(out_path + ".lock", "w") as lk:
        fcntl.flock(lk, fcntl.LOCK_EX)
        try:
            res = json.load(open(out_path))
        except Exception:
            res = {}
        res[key] = rec
        json.dump(res, open(out_path + ".tmp", "w"), indent=1, sort_keys=True)
        os.replace(out_path + ".tmp", out_path)
    print(key, json.dumps(rec)[:300], flush=True)


head = sh(f"git -C {wt} rev-parse --short HEAD").stdout.strip()
for pid in props:
    for patch in sorted(glob.glob(os.path.join(ROOT, "corpus", pid, "negative_controls", "*.diff"))):
        key = pid + "/" + os.path.basename(patch)
        sh(f"git -C {wt} checkout -q -- .")
        r = sh(f"git -C {wt} apply {patch}")
        if r.returncode != 0:
            r = sh(f"cd {wt} && patch -p1 -s --fuzz=3 < {patch}")
            if r.returncode != 0:
                sh(f"git -C {wt} checkout -q -- . && git -C {wt} clean -fdq lib")
                record(key, {"stale": True, "head": head, "note": "patch does not apply to this HEAD"})
                continue
        env = dict(os.environ, VERIF_REPO=wt, VERIF_WORK=os.path.join(wt, "_vwork"), VERIF_SEED=str(seed))
        t0 = time.time()
        r = subprocess.run([os.path.join(ROOT, "check"), pid, "--tier", "quick"], cwd=ROOT, env=env,
                           stdout=subprocess.PIPE, stderr=subprocess.STDOUT, text=True)
        secs = round(time.time() - t0)
        sh(f"git -C {wt} checkout -q -- . && git -C {wt} clean -fdq lib")
        viol = [l for l in r.stdout.splitlines() if l.startswith("VIOLATION ")]
        what = []
        for l in viol:
            m = re.search(r"replay=(\S+)", l)
            if m and os.path.exists(m.group(1)):
                try:
                    what.append(json.load(open(m.group(1))).get("what", "?"))
                except Exception:
                    what.append("?")
        rec = {"exit": r.returncode, "violations": len(viol), "what": sorted(set(what))[:6], "seed": str(seed),
               "head": head, "secs": secs}
        if r.returncode != 0:
            rec["tail"] = r.stdout[-500:]
        if r.returncode == 2:
            # a multi-file control kept as several patches (n5_..._header.diff + n5_..._moves.diff) does not compile
            # alone: it is judged by the combined run below
            prefix = os.path.basename(patch).split("_")[0] + "_"
            sibs = sorted(glob.glob(os.path.join(os.path.dirname(patch), prefix + "*.diff")))
            if len(sibs) > 1:
                rec["part_of"] = pid + "/" + prefix + "*"
                if patch == sibs[0]:
                    ok = all(sh(f"git -C {wt} apply {q}").returncode == 0 for q in sibs)
                    if ok:
                        t0 = time.time()
                        r2 = subprocess.run([os.path.join(ROOT, "check"), pid, "--tier", "quick"], cwd=ROOT, env=env,
                                            stdout=subprocess.PIPE, stderr=subprocess.STDOUT, text=True)
                        v2 = [l for l in r2.stdout.splitlines() if l.startswith("VIOLATION ")]
                        rec2 = {"exit": r2.returncode, "violations": len(v2), "combined": [os.path.basename(q) for q in sibs],
                                "seed": str(seed), "head": head, "secs": round(time.time() - t0)}
                        if r2.returncode != 0:
                            rec2["tail"] = r2.stdout[-500:]
                        record(pid + "/" + prefix + "*(combined)", rec2)
                    sh(f"git -C {wt} checkout -q -- . && git -C {wt} clean -fdq lib")
        record(key, rec)

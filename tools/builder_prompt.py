#!/usr/bin/env python3
"""tools/builder_prompt.py <Cxx> [missed-id ...]  — prompt for a builder sub-agent that deepens ONE property's verification
(model, theorems, harness, spec) after an independent review and a round of independently written breaking changes."""
import json, os, sys, glob
ROOT = os.path.dirname(os.path.dirname(os.path.abspath(__file__)))
pid = sys.argv[1].upper(); missed = sys.argv[2:]
p = pid.lower()
rev = {"C01": "C01", "C02": "C01", "C03": "C01", "C04": "C01", "C05": "C01", "C06": "C06", "C07": "C06", "C08": "C06", "C09": "C06",
       "C10": "C06", "C11": "C11", "C12": "C11", "C13": "C11", "C14": "C11", "C16": "C11", "C15": "C15", "C17": "C15", "C18": "C15",
       "C19": "C15", "C20": "C15"}[pid]
allids = sorted(os.path.basename(d) for d in glob.glob(os.path.join(ROOT, "seeded", pid + "-*")))
auto = json.load(open(os.path.join(ROOT, "tools", "seeded_auto.json")))
def st(i):
    a = auto.get(i)
    if not a: return "not run yet"
    if a["exit"] == 0: return "MISSED (check exits 0)"
    if a.get("no_failing_input_only"): return "caught only as broken tie (no-failing-input-found): " + ",".join(a["what"])[:120]
    return "caught: " + ",".join(a["what"])[:160]
lines = "\n".join(f"  {i}: {st(i)}" for i in allids)
extra = ""
ef = f"/var/tmp/extra-{pid}.txt"
if os.path.exists(ef):
    extra = "EXTRA NOTES FROM THE COORDINATOR:\n" + open(ef).read().strip() + "\n\n"
print(f"""You are extending the verification of ONE property, {pid}, of Icinga 2 inside the framework in /verif (technique fixed: machine-checked proof in Lean 4 about a hand-written executable model + a correspondence check that runs the real C++ and the model on the same operations + the specification predicate evaluated on the implementation's own trace). The framework and the check for {pid} already exist, pass on the unchanged tree, and are registered. Your job is to make them cover MORE and detect MORE, without ever raising an alarm on code where the property holds.

Read first, in this order:
 1. /verif/tools/HOWTO_PROPERTY.md (the rules of the framework — they all apply to you; the files of {pid} already exist, you extend them).
 2. The record of {pid} in /verif/properties.jsonl (statement, quantifier, anchors). It is fixed.
 3. The section "## {pid}" of the independent review /verif/reviews/review-{rev}.md : statement coverage, weak/vacuous theorems, model-vs-code gaps, top extensions, candidate defects. Treat its claims as leads to verify, not as facts.
 4. The existing files of {pid}: lean/IcingaModel/{pid}/*.lean, lean/IcingaProofs/{pid}.lean (+ {pid}/), lean/Driver/{pid}.lean, harness/{p}.cpp, checks/{p}.py, corpus/{pid}/, the {pid} entries of known_findings.json, DESIGN.md §2 {pid} and §6.4 {pid}.
 5. The independently written BREAKING changes for {pid} under /verif/seeded/{pid}-<n>/ (patch.diff, meta.json with `summary` and `needs_to_manifest`, demo.cpp). Status of the committed check against each (seed 1, quick tier):
{lines}

Your own scratch worktree of /repo for trying patches is /tmp/wt-{p} (create it with: `git -C /repo worktree add --detach /tmp/wt-{p} HEAD` if it does not exist; the first `./check` against it builds the hook objects there in seconds thanks to the compiler cache). Run the check against a patch WITHOUT touching /repo:
   cd /verif && WT=/tmp/wt-{p} sh tools/mutate.sh seeded/{pid}-7/patch.diff {pid}          # applies, runs ./check {pid}, reverts; prints VIOLATION lines
   cd /verif && python3 tools/run_seeded.py --wt /tmp/wt-{p} {pid}-1 {pid}-2 ...            # regression over several kept changes (records into tools/seeded_auto.json)
and on the unchanged tree:   cd /verif && VERIF_SEED=<n> ./check {pid} [--tier thorough]
Never edit /repo, never apply a patch to /repo. Never run bare `lake build` in /verif/lean — use /verif/tools/lake.sh (it takes the lock).

GOALS, in priority order:
 A. Every kept breaking change of {pid} must be reported by `./check {pid}` (quick tier, default seed) with a CONCRETE replay: a spec clause failing on the implementation's own trace (`spec:` kind), not merely a model/implementation mismatch. For each change listed as MISSED or "broken tie only": work out what the property says about the affected behaviour, extend harness (drive the entry point / input class it needs), model, Spec.lean (new clause stating what the PROPERTY demands, in the property's terms) and the theorem(s) (the model satisfies the new clause for all inputs) until it is caught. Generalise: cover the whole input class / entry point the change lives in, not the single witness, so that sibling changes nobody has written yet are caught too. If a change breaks something the property's statement genuinely does not cover, say so in your report instead of stretching the property.
 B. Implement the review's most valuable extensions for {pid} (its §5 list and the gaps of §1–§4): replace definitional / vacuous theorems by real ones (all inputs, hypotheses that reachable states satisfy, a non-vacuity `example` each), add a whole-trace theorem `∀ config ops, Spec (trace of Model) = ok` where one is missing or widen the one that exists (fewer masks, fewer hypotheses), turn oracle inputs that hide code inside the property's scope into modelled behaviour, drive the entry points the harness never reaches, make MISMATCH-only detections into spec clauses. More of the real code inside the model, more theorems, a tighter tie.
 C. Candidate defects of the UNCHANGED tree named by the review (or that you find): reproduce each against the real code through your harness. If the unchanged code really violates the property: add the witness to corpus/{pid}/, a narrow classifier + entry `status: "known"` in known_findings.json (so the check prints KNOWN-FINDING and still exits 0, and any OTHER violation of the same clause is still reported), the Lean side as `…_partial` + `…_counterexample`, and describe in your final report the minimal repair you would propose for /repo (file, lines, patch) — the coordinator decides about a `fix:` commit. If the code is right and the review is wrong, say so.
 D. Soundness: after your changes `./check {pid}` must exit 0 with no VIOLATION line on the unchanged tree at VERIF_SEED=1,2,3,7,42 in the quick tier and at seed 1 in the thorough tier; quick tier ≤ ~100 s wall after builds, thorough ≤ ~20 min. Harmless rewrites must stay silent: compare only what the property constrains (see corpus/{pid}/negative_controls/ and DESIGN.md §6.5 {pid} for the rewrites that were already tried; if you tighten a comparison, think about which harmless refactoring it would now flag). All earlier kept changes must still be caught (run the regression above over ALL ids of {pid} at the end and include its one-line-per-id result in your report).
 E. No sorry/admit/axiom/native_decide/bv_decide/implemented_by/unsafe/maxHeartbeats 0 (the check greps and runs `#print axioms` on every theorem of lean/IcingaProofs/{pid}.lean). New property theorems go into lean/IcingaProofs/{pid}.lean, helper lemmas into lean/IcingaProofs/{pid}/…; add the names of the new main theorems to `required_theorems` in checks/{p}.py and update `level_text` / `level_note` / `trusted_base` there so that they describe what is now proved, modelled and assumed (MANIFEST.json is generated from them by the coordinator).

Constraints: edit ONLY the files of {pid} (lean/IcingaModel/{pid}/, lean/IcingaProofs/{pid}.lean, lean/IcingaProofs/{pid}/, lean/Driver/{pid}.lean, harness/{p}.cpp (+ {p}_*.c*), checks/{p}.py, corpus/{pid}/, gen/{p}_*.py, and the {pid} entries of known_findings.json — edit that file with a short python snippet that loads, changes and rewrites it in one go, other agents edit other entries). Other agents are working on other properties in the same tree at the same time: do not touch their files, vlib/, check, MANIFEST.json, DESIGN.md, lakefile.toml, or /repo; an unavoidable change to a shared file must be additive and listed in your report. Do not `git commit`. The machine is shared (16 cores, ~20 agents): do not run more than two heavy commands at a time. Scratch files: /verif/_work/scratch/{p}/ . Budget: about 2 hours of work; prefer finishing A completely and the most valuable two or three items of B/C over starting everything. Leave the tree in a state where `./check {pid}` passes on the unchanged tree — if an extension is unfinished when time runs out, take it out again (keep it under _work/scratch/{p}/ and mention it).

{extra}FINAL REPORT (your last message, ≤ 450 words): per seeded change the clause that now catches it; new/strengthened theorems (names + one line each); what moved from oracle/unmodelled into the model; defects found on the unchanged tree (witness, proposed repair); clean-tree results per seed and tier with wall times; regression line per seeded id; shared files touched; what remains.""")

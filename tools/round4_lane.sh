#!/bin/sh
# tools/round4_lane.sh <worktree> <Cxx> [<Cxx> ...] : confirm _seeded/10..12 (C12: 13..15) of each property and run the check against them
WT=$1; shift
cd "$(dirname "$0")/.."
for P in "$@"; do
  if [ "$P" = "C12" ]; then NS="13 14 15"; else NS="10 11 12"; fi
  tools/round3.sh $P $NS
  IDS=""; for n in $NS; do [ -d seeded/$P-$n ] && IDS="$IDS $P-$n"; done
  [ -n "$IDS" ] && python3 tools/run_seeded.py --wt $WT $IDS
done

#!/usr/bin/env python3
"""Round-2 prompt: same as mutation_prompt.py but lists the first-round changes to avoid; results go to _seeded/4..6."""
import json, sys, os, subprocess, glob
pid = sys.argv[1]; wt = sys.argv[2]
base = subprocess.run([sys.executable, os.path.join(os.path.dirname(__file__), "mutation_prompt.py"), pid, wt], capture_output=True, text=True).stdout
prev = []
for m in sorted(glob.glob(os.path.join(wt, "_seeded", "[1-6]", "meta.json"))):
    try:
        d = json.load(open(m)); prev.append("- " + d.get("summary", "")[:330].replace("\n", " "))
    except Exception: pass
base = base.replace("(n = 1,2,3)", "(n = 7,8,9)").replace("_seeded/<n>/", "_seeded/<n>/")
extra = ("\n\nIMPORTANT — this is a THIRD round. An earlier engineer already delivered the following six changes (in _seeded/1..6 of this worktree; "
         "do not look for inspiration there beyond this list, and do NOT repeat them or trivial variants of them):\n" + "\n".join(prev) +
         "\nYour three changes must break the property through OTHER mechanisms, clauses or code sites than these — look at the parts of the STATEMENT and of the "
         "MECHANISMS list the earlier rounds did not touch, at boundary values (exact instants, empty/one-element collections, equal keys), at rarely used "
         "configuration options, at error paths, and at pairs of cooperating sites. The worktree already contains a finished build in _build (reuse it: "
         "`ninja -C _build -j8` is incremental); its source is at the current HEAD. Number your result directories 7, 8 and 9.")
print(base + extra)

#!/usr/bin/env python3
"""Regenerate MANIFEST.json from the check modules (checks/cXX.py) and properties.jsonl."""
import importlib
import json
import os
import subprocess
import sys

ROOT = os.path.dirname(os.path.dirname(os.path.abspath(__file__)))
sys.path.insert(0, ROOT)

props = [json.loads(l)["id"] for l in open(os.path.join(ROOT, "properties.jsonl"))]
checks, na = [], []
NA_REASONS = json.load(open(os.path.join(ROOT, "tools", "not_applicable.json")))
CLAIMED = json.load(open(os.path.join(ROOT, "tools", "claimed.json")))
for p in props:
    path = os.path.join(ROOT, "checks", p.lower() + ".py")
    if not os.path.exists(path) or p in NA_REASONS or p not in CLAIMED:
        na.append({"property_id": p, "reason": NA_REASONS.get(p, "no check built yet in this round; see DESIGN.md §2 for the planned model and theorems")})
        continue
    c = importlib.import_module("checks." + p.lower()).CHECK
    checks.append({
        "property_id": p,
        "quick_cmd": f"./check {p} --tier quick",
        "thorough_cmd": f"./check {p} --tier thorough",
        "evidence_file": f"/verif/evidence/{p}.json",
        "replay_cmd_template": f"./check {p} --replay {{path}}",
        "engine": "lean4-proof+correspondence",
        "level_claimed": {"category": c.level, "text": c.level_text, "design_ref": f"DESIGN.md §2 {p}"},
        "level_note": c.level_note,
        "technique": c.technique,
    })

hook_commits = subprocess.run(["git", "-C", "/repo", "log", "--format=%h %s", "--grep=^verif hooks"],
                              capture_output=True, text=True).stdout.strip().splitlines()
man = {
    "version": 1,
    "setup_cmd": "./setup.sh",
    "hooks": {
        "guard": "ICINGA2_VERIF",
        "enable": "cmake -S /repo -B /verif/_work/build-hooks -G Ninja -DICINGA2_UNITY_BUILD=OFF -DCMAKE_CXX_FLAGS='-Wno-error -DICINGA2_VERIF' (done by vlib/core.py build_repo on every check)",
        "baseline_off_cmd": "cmake --build /repo/_build && ctest --test-dir /repo/_build -j8 --timeout 900",
        "source_commits": [c.split()[0] for c in hook_commits],
        "add_only": True,
    },
    "engines": [{
        "name": "lean4-proof+correspondence",
        "path": "/verif/check",
        "serves_properties": [c["property_id"] for c in checks],
        "kind_free_text": "Lean 4 theorems about hand-written executable models (lean/IcingaModel, lean/IcingaProofs), audited with #print axioms on every run; models tied to /repo by a C++ harness that runs the real object code (rebuilt from the working tree with -DICINGA2_VERIF) and a compiled Lean driver that replays the same operations through the model and evaluates the specification predicate on the implementation's trace; translator-generated tables (gen/) where the fact is a table in the source",
    }],
    "checks": checks,
    "not_applicable": na,
    "notes": "All checks: exit 0 held / exit 1 with VIOLATION line / exit 2 machinery could not run (repo does not compile). known_findings.json lists recorded genuine defects (KNOWN-FINDING lines).",
}
with open(os.path.join(ROOT, "MANIFEST.json"), "w") as f:
    json.dump(man, f, indent=1)
    f.write("\n")
print("checks:", [c["property_id"] for c in checks], "not_applicable:", [n["property_id"] for n in na])

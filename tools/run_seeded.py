#!/usr/bin/env python3
"""tools/run_seeded.py [--wt DIR] [--tier quick] [--seed N] <ID> [<ID> ...] | all | round2

Regression of the checks against the kept seeded changes (seeded/<ID>/patch.diff): each patch is applied to a
persistent scratch worktree of /repo (never /repo itself), the property's check is run against it
(VERIF_REPO/VERIF_WORK point into the worktree), the VIOLATION lines and the replay files they name are parsed, and the
outcome is merged into tools/seeded_auto.json:
   {ID: {"exit": rc, "violations": n, "kinds": ["spec"|"corr"|"tie"...], "what": [...], "no_failing_input_only": bool,
         "seed": S, "tier": T, "head": <repo commit>, "secs": t}}
The patch is reverted afterwards. A patch source under /tmp/mut-*/_seeded/<n>/ is used when seeded/<ID>/ does not exist yet.
"""
import json, os, re, subprocess, sys, time
ROOT = os.path.dirname(os.path.dirname(os.path.abspath(__file__)))
args = sys.argv[1:]
wt, tier, seed = "/tmp/wt-test", "quick", os.environ.get("VERIF_SEED", "1")
ids = []
while args:
    a = args.pop(0)
    if a == "--wt": wt = args.pop(0)
    elif a == "--tier": tier = args.pop(0)
    elif a == "--seed": seed = args.pop(0)
    else: ids.append(a)
allids = sorted(d for d in os.listdir(os.path.join(ROOT, "seeded")) if re.fullmatch(r"C\d\d-\d+", d))
if ids == ["all"]: ids = allids
elif ids == ["round2"]: ids = [i for i in allids if int(i.split("-")[1]) >= 4]
out_path = os.path.join(ROOT, "tools", "seeded_auto.json")

def patch_of(i):
    p = os.path.join(ROOT, "seeded", i, "patch.diff")
    if os.path.exists(p): return p
    pid, n = i.split("-")
    q = f"/tmp/mut-{pid.lower()}/_seeded/{n}/patch.diff"
    return q if os.path.exists(q) else None

def sh(cmd, **kw):
    return subprocess.run(cmd, shell=True, stdout=subprocess.PIPE, stderr=subprocess.STDOUT, text=True, **kw)

head = sh(f"git -C {wt} rev-parse --short HEAD").stdout.strip()
for i in ids:
    pid = i.split("-")[0]
    patch = patch_of(i)
    if not patch:
        print(i, "no patch"); continue
    sh(f"git -C {wt} checkout -q -- .")
    r = sh(f"git -C {wt} apply {patch}")
    if r.returncode != 0:
        r = sh(f"cd {wt} && patch -p1 -s --fuzz=3 < {patch}")
        if r.returncode != 0:
            print(i, "PATCH DOES NOT APPLY"); sh(f"git -C {wt} checkout -q -- ."); continue
    env = dict(os.environ, VERIF_REPO=wt, VERIF_WORK=os.path.join(wt, "_vwork"), VERIF_SEED=str(seed))
    t0 = time.time()
    r = subprocess.run([os.path.join(ROOT, "check"), pid, "--tier", tier], cwd=ROOT, env=env,
                       stdout=subprocess.PIPE, stderr=subprocess.STDOUT, text=True)
    secs = round(time.time() - t0)
    sh(f"git -C {wt} checkout -q -- .")
    viol = [l for l in r.stdout.splitlines() if l.startswith("VIOLATION ")]
    kinds, what = [], []
    for l in viol:
        m = re.search(r"replay=(\S+)", l)
        if m and os.path.exists(m.group(1)):
            try:
                d = json.load(open(m.group(1)))
                kinds.append(d.get("kind", "?")); what.append(d.get("what", "?"))
            except Exception:
                kinds.append("?")
    rec = {"exit": r.returncode, "violations": len(viol), "kinds": sorted(set(kinds)), "what": sorted(set(what))[:8],
           "no_failing_input_only": bool(viol) and all(l.rstrip().endswith("no-failing-input-found") for l in viol),
           "seed": str(seed), "tier": tier, "head": head, "secs": secs}
    if r.returncode not in (0, 1):
        rec["tail"] = r.stdout[-400:]
    import fcntl
    with open(out_path + ".lock", "w") as lk:
        fcntl.flock(lk, fcntl.LOCK_EX)
        try:
            res = json.load(open(out_path))
        except Exception:
            res = {}
        res[i] = rec
        json.dump(res, open(out_path + ".tmp", "w"), indent=1, sort_keys=True)
        os.replace(out_path + ".tmp", out_path)
    print(i, json.dumps(rec)[:300], flush=True)

/-
  vd_c19 — replays the C19 harness lines through the abstract interpreter configured by the GENERATED
  tables (IcingaProofs/C19/Tables.lean) and evaluates the specification on the implementation's own
  observations.

  Input lines (harness/c19.cpp):
    T natives <name>=<0|1> ...
    P <site> cmp=<0|1> root=<class> abs=<s-expr> src=<hex> | <outcome> chg=<...> leak=<n>
    N <site> name=<native> safe=<0|1> src=<hex>            | <outcome> chg=<...> leak=<n>
    H <site> type=<T> field=<f> nuv=<0|1> src=<hex>        | <outcome> chg=<...> leak=<n>
    E events cmp=<0|1> abs=<a1>;<a2>;.. src=<hex>,<hex>,.. | <combined> ocs=<o1>,<o2>,.. dlv=<bits> chg=<...> leak=<n> inv=<n>
  Output:
    MISMATCH line=<n> case=<k> what=<...> impl=<...> model=<...>
    SPECFAIL line=<n> case=<k> clause=<name>
    BADLINE line=<n>
    STATS cases=.. steps=.. programs=.. natives=.. fields=.. ok=.. sandbox=.. hidden=.. err=.. changed=.. leaks=.. nontrivial=.. mismatches=.. specfails=..
-/
import IcingaModel.Common.Proto
import IcingaModel.C19.Model
import IcingaModel.C19.Spec
import IcingaProofs.C19.Tables

open Icinga Icinga.C19 Icinga.Proto

/-! ### s-expressions for abstract programs -/

inductive SX
  | atom (s : String)
  | list (l : List SX)
  deriving Inhabited

def parseToks : List String → List (List SX) → Option SX
  | [], [[x]] => some x
  | [], _ => none
  | "(" :: r, st => parseToks r ([] :: st)
  | ")" :: r, top :: nxt :: st => parseToks r ((nxt ++ [SX.list top]) :: st)
  | ")" :: _, _ => none
  | a :: r, top :: st => parseToks r ((top ++ [SX.atom a]) :: st)
  | _ :: _, [] => none

def tokenize (s : String) : List String :=
  words (((s.replace "(" " ( ").replace ")" " ) ").replace "," " ")

def unop? : String → Option UnOp
  | "negate" => some .negate | "logicalNegate" => some .logicalNegate | _ => none

def binop? : String → Option BinOp
  | "add" => some .add | "subtract" => some .subtract | "multiply" => some .multiply | "divide" => some .divide
  | "modulo" => some .modulo | "xor" => some .xor | "binaryAnd" => some .binaryAnd | "binaryOr" => some .binaryOr
  | "shiftLeft" => some .shiftLeft | "shiftRight" => some .shiftRight | "equal" => some .equal
  | "notEqual" => some .notEqual | "lessThan" => some .lessThan | "greaterThan" => some .greaterThan
  | "lessThanOrEqual" => some .lessThanOrEqual | "greaterThanOrEqual" => some .greaterThanOrEqual
  | "in_" => some .in_ | "notIn" => some .notIn | _ => none

def setop? : String → Option SetOp
  | "literal" => some .literal | "add" => some .add | "subtract" => some .subtract | "multiply" => some .multiply
  | "divide" => some .divide | "modulo" => some .modulo | "xor" => some .xor | "binaryAnd" => some .binaryAnd
  | "binaryOr" => some .binaryOr | _ => none

def scope? : String → Option Scope
  | "locals" => some .locals | "this" => some .this | "globals" => some .globals | _ => none

def inc? : String → Option IncKind
  | "regular" => some .regular | "recursive" => some .recursive | "zones" => some .zones | _ => none

def toExpr : Nat → SX → Option Expr
  | 0, _ => none
  | n + 1, sx =>
    let sub := toExpr n
    match sx with
    | .atom _ => none
    | .list (.atom h :: args) =>
      match h, args with
      | "num", [.atom v] => (parseInt? v).map fun i => .lit (.num i)
      | "str", [.atom v] => some (.lit (.str v))
      | "str", [] => some (.lit (.str ""))
      | "bool", [.atom v] => (parseBool? v).map fun b => .lit (.bool b)
      | "empty", [] => some (.lit .empty)
      | "obj", [.atom v] => some (.lit (.obj v))
      | "fn", [.atom v] => some (.lit (.fn v))
      | "type", [.atom v] => some (.lit (.type_ v))
      | "var", [.atom v] => some (.var v)
      | "varIn", args =>
        match args.reverse with
        | .atom nm :: imps => do pure (.varIn (← imps.reverse.mapM sub) nm)
        | _ => none
      | "ref", [e] => (sub e).map .ref
      | "setDeref", [r, .atom o, e] => do pure (.setDeref (← sub r) (← setop? o) (← sub e))
      | "deref", [e] => (sub e).map .deref
      | "unop", [.atom o, e] => do pure (.unop (← unop? o) (← sub e))
      | "binop", [.atom o, a, b] => do pure (.binop (← binop? o) (← sub a) (← sub b))
      | "land", [a, b] => do pure (.land (← sub a) (← sub b))
      | "lor", [a, b] => do pure (.lor (← sub a) (← sub b))
      | "call", f :: as => do pure (.call (← sub f) (← as.mapM sub))
      | "mcall", r :: .atom m :: as => do pure (.mcall (← sub r) m (← as.mapM sub))
      | "array", es => do pure (.array (← es.mapM sub))
      | "dict", .atom i :: es => do pure (.dict (← parseBool? i) (← es.mapM sub))
      | "getScope", [.atom s] => (scope? s).map .getScope
      | "setVar", [.atom x, .atom o, e] => do pure (.setVar x (← setop? o) (← sub e))
      | "setScoped", [.atom s, .atom x, .atom o, e] => do pure (.setScoped (← scope? s) x (← setop? o) (← sub e))
      | "setField", [ob, .atom f, .atom o, e] => do pure (.setField (← sub ob) f (← setop? o) (← sub e))
      | "setConst", [.atom x, e] => do pure (.setConst x (← sub e))
      | "cond", [c, t] => do pure (.cond (← sub c) (← sub t) none)
      | "cond", [c, t, f] => do pure (.cond (← sub c) (← sub t) (some (← sub f)))
      | "while", [c, b] => do pure (.while_ (← sub c) (← sub b))
      | "return", [e] => (sub e).map .return_
      | "break", [] => some .break_
      | "continue", [] => some .continue_
      | "index", [a, b] => do pure (.index (← sub a) (← sub b))
      | "throw", [e] => (sub e).map .throw_
      | "import", [e] => (sub e).map .import_
      | "importDefaults", [] => some .importDefaults
      | "function", [.atom f, b] => do pure (.function f [] (← sub b))
      | "apply", [.atom t, .atom tg, e] => do pure (.apply_ t tg (← sub e))
      | "namespace", [e] => (sub e).map .namespace_
      | "object", [t, nm] => do pure (.object_ (← sub t) (← sub nm))
      | "for", [.atom k, .atom v, e, b] => do pure (.for_ k (if v == "_" then "" else v) (← sub e) (← sub b))
      | "library", [e] => (sub e).map .library
      | "include", [.atom k, e] => do pure (.include_ (← inc? k) (← sub e))
      | "breakpoint", [] => some .breakpoint
      | "tryExcept", [t, e] => do pure (.tryExcept (← sub t) (← sub e))
      | _, _ => none
    | .list _ => none

def parseAbs (s : String) : Option Expr := (parseToks (tokenize s) [[]]) >>= toExpr 64

/-! ### the model configured by the generated tables -/

-- `driverNative` / `driverHidden` (the natives and the hidden-field table the driver instantiates the model with) live in
-- IcingaProofs/C19/Tables.lean, so that `driver_model_trace_meets_spec` is about exactly the model run here.

/-- The harness's set-up (harness/c19.cpp `Setup`), abstractly. -/
def env0 : Env :=
  { prot := { globals := [("C19Global", .num 5), ("C19Arr", .arr ["3", "1", "2"]), ("C19Dict", .dict [("a", "x")]),
                          ("TicketSalt", .str "c19-salt"), ("System", .scope .globals)],
              objects := [("c19-host", { type := "Host", attrs := [("name", .str "c19-host"), ("display_name", .str "c19 host"),
                                                                   ("vars", .dict [("os", "Linux")])] }),
                          ("c19-user", { type := "ApiUser", attrs := [("name", .str "c19-user"), ("password", .str "SECRET")] })],
              files := [("inc.conf", "globals.C19Included = 1")] } }

def fuel : Nat := 40

structure ImplObs where
  outcome : Outcome
  changed : Bool
  leak : Nat
  inv : Nat := 0

def kvOf (ws : List String) (key : String) : Option String :=
  ws.findSome? fun w => if w.startsWith (key ++ "=") then some (w.drop (key.length + 1)).toString else none

def parseImpl (post : List String) : Option ImplObs :=
  match post with
  | o :: rest => do
    let oc ← Outcome.ofName? o
    let chg ← kvOf rest "chg"
    let leak ← (kvOf rest "leak") >>= parseNat?
    let inv := ((kvOf rest "inv") >>= parseNat?).getD 0
    pure { outcome := oc, changed := chg.toList.any (· != '-'), leak := leak, inv := inv }
  | _ => none

structure DSt where
  caseNo : Nat := 0
  programs : Nat := 0
  natives : Nat := 0
  fields : Nat := 0
  events : Nat := 0
  filters : Nat := 0
  nOk : Nat := 0
  nSandbox : Nat := 0
  nHidden : Nat := 0
  nErr : Nat := 0
  changed : Nat := 0
  leaks : Nat := 0
  nontrivial : Nat := 0
  mismatches : Nat := 0
  specfails : Nat := 0
  tableChecked : Nat := 0
  crashes : Nat := 0
  kindDiff : Nat := 0
  tableUnknown : Nat := 0
  unsafeInvoked : Nat := 0

def tally (d : DSt) (io : ImplObs) : DSt :=
  let d := match io.outcome with
    | .ok => { d with nOk := d.nOk + 1 }
    | .sandbox => { d with nSandbox := d.nSandbox + 1 }
    | .hidden => { d with nHidden := d.nHidden + 1 }
    | .err => { d with nErr := d.nErr + 1 }
  let d := if io.changed then { d with changed := d.changed + 1 } else d
  let d := if io.leak != 0 then { d with leaks := d.leaks + 1 } else d
  -- non-trivial: the sandbox machinery was actually exercised (a refusal) or a value was computed
  if io.outcome != .err then { d with nontrivial := d.nontrivial + 1 } else d

def report (d : DSt) (n : Nat) (kind : OpKind) (flagged : Bool) (io : ImplObs)
    (model : Option (Outcome × Bool)) (cmpOutcome : Bool) (matchedDespiteError : Bool := false) : IO DSt := do
  let mut d := tally { d with caseNo := d.caseNo + 1 } io
  match model with
  | some (mo, mc) =>
    if mc != io.changed then
      IO.println s!"MISMATCH line={n} case={d.caseNo} what=changed impl={showBool io.changed} model={showBool mc}"
      d := { d with mismatches := d.mismatches + 1 }
    -- value-vs-error is compared; WHICH error (sandbox / hidden / other) is classified from message texts by the
    -- harness and therefore only counted, so that rewording a message cannot raise an alarm
    else if cmpOutcome && ((mo == .ok) != (io.outcome == .ok)) then
      IO.println s!"MISMATCH line={n} case={d.caseNo} what=outcome impl={io.outcome.name} model={mo.name}"
      d := { d with mismatches := d.mismatches + 1 }
    else if cmpOutcome && mo != io.outcome then
      d := { d with kindDiff := d.kindDiff + 1 }
  | none => pure ()
  let obs : Obs := { kind := kind, flagged := flagged, outcome := io.outcome, changed := io.changed, leak := io.leak != 0,
                     unsafeInvoked := io.inv != 0, matchedDespiteError := matchedDespiteError }
  if io.inv != 0 then d := { d with unsafeInvoked := d.unsafeInvoked + 1 }
  match specStep obs with
  | some cl =>
    let extra := if cl == .noLeak then s!" leak={io.leak}" else ""
    IO.println s!"SPECFAIL line={n} case={d.caseNo} clause={cl.name}{extra}"
    d := { d with specfails := d.specfails + 1 }
  | none => pure ()
  return d

def handle (d : DSt) (n : Nat) (line : String) : IO DSt := do
  let ws := words line
  let (pre, post) := splitBar ws
  match pre with
  | [] => return d
  | "T" :: "natives" :: flags =>
    let mut d := d
    for w in flags do
      match w.splitOn "=" with
      | [name, fl] =>
        d := { d with tableChecked := d.tableChecked + 1 }
        match genSafe name, parseBool? fl with
        | some g, some i =>
          if g != i then
            IO.println s!"MISMATCH line={n} case=0 what=safe-flag:{name} impl={fl} model={showBool g}"
            d := { d with mismatches := d.mismatches + 1 }
        | none, some _ =>
          -- registered in a way the translator could not read statically (flag computed at run time …): the
          -- implementation's own flag is used for this native and its calls are still snapshot-checked
          d := { d with tableUnknown := d.tableUnknown + 1 }
        | _, none => IO.println s!"BADLINE line={n}"
      | _ => IO.println s!"BADLINE line={n}"
    return d
  | "T" :: _ => return d
  | "X" :: sig :: _ =>
    -- the evaluating child died on this program: "it can only compute a value or raise an error"
    let clause := if sig == "14" then "no_hang" else "no_crash"
    IO.println s!"SPECFAIL line={n} case={d.caseNo + 1} clause={clause}"
    return { d with caseNo := d.caseNo + 1, specfails := d.specfails + 1, crashes := d.crashes + 1 }
  | "P" :: _site :: rest =>
    match parseImpl post, kvOf rest "abs", kvOf rest "root", (kvOf rest "cmp") >>= parseBool? with
    | some io, some abs, some root, some cmp =>
      match parseAbs abs with
      | none => IO.println s!"BADLINE line={n} (abs)"; return d
      | some e =>
        let cfg := genCfg driverNative driverHidden
        let mo := observe cfg fuel e env0
        let mut d := { d with programs := d.programs + 1 }
        if e.kind != root then
          IO.println s!"MISMATCH line={n} case={d.caseNo + 1} what=root-kind impl={root} model={e.kind}"
          d := { d with mismatches := d.mismatches + 1 }
        report d n .program false io (some mo) cmp
    | _, _, _, _ => IO.println s!"BADLINE line={n}"; return d
  | "E" :: _site :: rest =>
    match parseImpl post, kvOf rest "abs", (kvOf rest "cmp") >>= parseBool?, kvOf post "ocs", kvOf post "dlv" with
    | some io, some abs, some cmp, some ocs, some dlv =>
      match (abs.splitOn ";").mapM parseAbs, (ocs.splitOn ",").mapM Outcome.ofName? with
      | some filters, some implOcs =>
        let implDlv := dlv.toList.map (· == '1')
        if implOcs.length != filters.length || implDlv.length != filters.length then
          IO.println s!"BADLINE line={n} (counts)"; return d
        else
          let cfg := genCfg driverNative driverHidden
          let r := pushEvent cfg fuel filters env0
          let mo := modelEventsObs cfg fuel filters env0
          let mut d := { d with events := d.events + 1, filters := d.filters + filters.length }
          -- per filter: value-vs-error and delivery, as the model of EventsFilter::Push predicts them
          if cmp then
            let implOk := implOcs.map (· == .ok)
            let modelOk := r.1.map fun p => p.2 == .ok
            if implOk != modelOk then
              IO.println s!"MISMATCH line={n} case={d.caseNo + 1} what=filter-outcomes impl={ocs} model={",".intercalate (r.1.map fun p => p.2.name)}"
              d := { d with mismatches := d.mismatches + 1 }
            else if implDlv != r.1.map Prod.fst then
              IO.println s!"MISMATCH line={n} case={d.caseNo + 1} what=delivered impl={dlv} model={String.ofList (r.1.map fun p => if p.1 then '1' else '0')}"
              d := { d with mismatches := d.mismatches + 1 }
          let mde := (implDlv.zip implOcs).any fun p => p.1 && p.2 != .ok
          report d n .events false io (some (mo.outcome, mo.changed)) false mde
      | _, _ => IO.println s!"BADLINE line={n} (abs/ocs)"; return d
    | _, _, _, _, _ => IO.println s!"BADLINE line={n}"; return d
  | "N" :: _site :: rest =>
    match parseImpl post, kvOf rest "name", (kvOf rest "safe") >>= parseBool? with
    | some io, some name, some safe =>
      let native : String → Option Native := fun nm =>
        match driverNative nm with
        | some f => some f
        | none => if nm == name then some { safe := safe, run := fun _ _ p => (.ok .empty, p) } else none
      let cfg := genCfg native driverHidden
      let mo := observe cfg fuel (.call (.lit (.fn name)) []) env0
      let d := { d with natives := d.natives + 1 }
      -- a native flagged safe may legitimately return a value or raise its own error: outcome is an oracle input
      report d n .native safe io (some mo) (mo.1 == .sandbox)
    | _, _, _ => IO.println s!"BADLINE line={n}"; return d
  | "H" :: _site :: rest =>
    match parseImpl post, kvOf rest "type", kvOf rest "field", (kvOf rest "nuv") >>= parseBool? with
    | some io, some ty, some field, some nuv =>
      let cfg := genCfg driverNative (fun t f => t == ty && f == field && nuv)
      let env : Env := { prot := { objects := [("o", { type := ty, attrs := [(field, .str "value")] })] } }
      let direct : Expr := .index (.lit (.obj "o")) (.lit (.str field))
      let prog : Expr := match kvOf rest "how" with
        | some "deref" => .deref (.ref direct)
        | some "derefidx" => .deref (.ref direct)
        | some "refget" => .mcall (.ref direct) "get" []
        | some "using" => .varIn [.lit (.obj "o")] field
        | some "usingexpr" => .array [.varIn [.lit (.obj "o")] field]
        | some "usingcall" => .call (.lit (.fn "System#string")) [.varIn [.lit (.obj "o")] field]
        | some "forin" => .for_ "k" "v" (.lit (.obj "o")) (.dict true [])
        | some "getfield" => .mcall (.lit (.obj "o")) "get" [.lit (.str field)]
        | some "mlen" => .mcall direct "len" []
        | some "midxlen" => .mcall direct "len" []
        | some "mcontains" => .mcall direct "contains" [.lit (.str "S")]
        | some "mtostr" => .mcall direct "to_string" []
        | some "mcall" => .mcall (.index direct (.lit (.str "len"))) "call" [direct]
        | some "ctor" => .call (.lit (.type_ "String")) [direct]
        | _ => direct
      let mo := observe cfg fuel prog env
      let d := { d with fields := d.fields + 1 }
      -- `getobj` lines go through natives (get_objects, map …) the model does not interpret: outcome is not compared
      -- method calls on a VISIBLE field succeed or fail with the field's run-time type, which the model does not carry
      let how := (kvOf rest "how").getD ""
      let methodOnVisible := !nuv && ["mlen", "midxlen", "mcontains", "mtostr", "mcall"].contains how
      -- the pinned secrets count as hidden whatever the implementation's own flag says (Spec.lean `secretAttrs`)
      report d n .field (nuv || isSecretAttr ty field) io (some mo) (how != "getobj" && !methodOnVisible)
    | _, _, _, _ => IO.println s!"BADLINE line={n}"; return d
  | _ => IO.println s!"BADLINE line={n}"; return d

def main : IO Unit := do
  let stdin ← IO.getStdin
  let d ← foldLines stdin handle ({} : DSt)
  IO.println s!"STATS cases={d.caseNo} steps={d.caseNo} programs={d.programs} natives={d.natives} fields={d.fields} events={d.events} event_filters={d.filters} ok={d.nOk} sandbox={d.nSandbox} hidden={d.nHidden} err={d.nErr} changed={d.changed} leaks={d.leaks} nontrivial={d.nontrivial} table_checked={d.tableChecked} table_unknown={d.tableUnknown} crashes={d.crashes} unsafe_invoked={d.unsafeInvoked} error_kind_diff={d.kindDiff} mismatches={d.mismatches} specfails={d.specfails}"

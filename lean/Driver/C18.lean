/-
  vd_c18 — replays the harness's operation lines through the C18 model, compares the observations and
  evaluates the specification predicates on the implementation's own observations.

  Input lines (stdin), see harness/c18.cpp:
    M <pattern> <required> <form>                | <granted>
    C <inventory>
    P <pattern> <filter|-> <form>                | <truth|->
    Q <perm> <types> <prov c|l> [n:T=..] [p:T=..] [t=Type] [f=<filter>]
                                                 | ok <T/name,..|-> / err <kind>  log=.. ft=.. fast=.. tv=..
    A <perm> <types>                             | <granted> <bits>
    H <q|m|d|a:action> <Type> [n=name] [p=a,b] [f=<filter>] [j]   | <status> <T/name,..|-> jn=.. ft=.. fast=..
    G <templates|variables|types|status|console|cfgpackages|cfgcreate|debug|act:<typeless action>>   | <status> <count> [inv=..] [chg=..]
    H c <Type> n=<name> k=<mask>                 | <status> - cr=<created> nt=<filter values on the new object> ex=<existed>
    (H m: additionally ch=<changed objects of the whole inventory>; H a:<any action>: ty=<registered types>)
    X <Type> <name>                              | ok <T/name> / none        the by-name lookup of execute-command
    K <users> / B <header hex> | <user|none|throw> dec=.. / N <cn hex> | <user|none>       authentication
  Output lines:
    MISMATCH line=<n> case=<k> what=<result|grant|access|http|join|handler> impl=<...> model=<...>
      (compared: success/failure and the returned objects — never error kinds, message texts or the order of provider calls)
    SPECFAIL line=<n> case=<k> clause=<name>
    BADLINE line=<n>
    STATS cases=.. steps=.. ...
-/
import Std.Data.HashSet
import IcingaModel.Common.Proto
import IcingaModel.C18.Model
import IcingaModel.C18.Spec

open Icinga Icinga.C18 Icinga.Proto

def dec (s : String) : String := if s == "%e" then "" else s
def enc (s : String) : String := if s == "" then "%e" else s

def splitC (s : String) (sep : String) : List String := if s == "" then [] else s.splitOn sep

def typeOfTag (t : String) : Option String :=
  if t == "H" then some "Host" else if t == "S" then some "Service"
  else if t == "E" then some "Endpoint" else if t == "T" then some "TimePeriod" else none

/-- command_endpoint / check_period of the inventory's checkables ("" = none) -/
def parseInvJoins (s : String) : List (Obj × String × String) :=
  if s == "-" then [] else
  (s.splitOn ",").filterMap fun part =>
    match part.splitOn ":" with
    | t :: n :: _ :: rest =>
      (typeOfTag t).map fun ty =>
        let f := fun (x : Option String) => match x with | some "-" => "" | some v => v | none => ""
        (({ type := ty, name := n } : Obj), f rest.head?, f (rest.drop 1).head?)
    | _ => none

def parseInv (s : String) : Option (List Obj) :=
  if s == "-" then some [] else
  (s.splitOn ",").mapM fun part =>
    match part.splitOn ":" with
    | t :: n :: _ :: _ => (typeOfTag t).map fun ty => ({ type := ty, name := n } : Obj)
    | _ => none

def parseBits (s : String) (n : Nat) : Option (List Bool) :=
  if s == "-" then (if n == 0 then some [] else none) else
  let cs := s.toList
  if cs.length != n then none else
  cs.mapM fun c => if c == '1' then some true else if c == '0' then some false else none

def mkPred (inv : List Obj) (tt : List Bool) : Obj → Bool :=
  fun o => ((inv.zip tt).lookup o).getD false

/-- user-filter truth table: `e` = the evaluation raises an error -/
def parseTri (s : String) (n : Nat) : Option (List (Option Bool)) :=
  if s == "-" then (if n == 0 then some [] else none) else
  let cs := s.toList
  if cs.length != n then none else
  cs.mapM fun c => if c == '1' then some (some true) else if c == '0' then some (some false)
                   else if c == 'e' then some none else none

def mkTri (inv : List Obj) (tt : List (Option Bool)) : Obj → Option Bool :=
  fun o => ((inv.zip tt).lookup o).getD (some false)

/-- permission-filter table: first row = each object alone; further rows (if any) = the hosts with `service`
    bound to the k-th service of the inventory -/
def parseRows (s : String) (n : Nat) : Option (List (List (Option Bool))) :=
  (s.splitOn "/").mapM (parseTri · n)

def mkPFilter (inv : List Obj) (rows : List (List (Option Bool))) : PFilter :=
  fun b o =>
    let r0 := rows.headD []
    let row :=
      if o.type == "Service" then r0 else
      match b with
      | none => r0
      | some s =>
        match (inv.filter (·.type == "Service")).findIdx? (· == s) with
        | some i => (rows.drop 1).getD i r0
        | none => r0
    mkTri inv row o

def showObj (o : Obj) : String := s!"{o.type}/{o.name}"

def sortStrs (l : List String) : List String := l.mergeSort (fun a b => decide (a ≤ b))

def parseObjs (s : String) : Option (List Obj) :=
  if s == "-" then some [] else
  (s.splitOn ",").mapM fun part =>
    match part.splitOn "/" with
    | t :: rest => if rest.isEmpty then none else some ({ type := t, name := "/".intercalate rest } : Obj)
    | _ => none

/-- The harness reports the class of the exception only for information; which error it was is not compared. -/
def parseErr (_ : String) : Option Err := some .other

def showErr : Err → String
  | .permission => "perm" | .notFound => "notfound" | .denied => "denied" | .typeRequired => "notype"
  | .invalidType => "badtype" | .wrongType => "wrongtype" | .other => "other"

def showAccess : Access → String
  | .byName t n => s!"n.{t}.{enc n}"
  | .pluralName t => s!"p.{t}"
  | .validType t => s!"v.{t}"
  | .findAll t => s!"f.{t}"
  | .fastGet t n => s!"g.{t}.{enc n}"

def parseAccess (s : String) : Option Access :=
  match s.splitOn "." with
  | ["p", t] => some (.pluralName t)
  | ["v", t] => some (.validType t)
  | ["f", t] => some (.findAll t)
  | "n" :: t :: rest => if rest.isEmpty then none else some (.byName t (dec (".".intercalate rest)))
  | _ => none

def parseLog (s : String) : Option (Option (List Access)) :=
  if s == "?" then some none
  else if s == "-" then some (some [])
  else ((s.splitOn ";").mapM parseAccess).map some

def showResult : Except Err (List Obj) → String
  | .ok objs => let l := sortStrs (objs.map showObj); "ok " ++ (if l.isEmpty then "-" else ",".intercalate l)
  | .error _ => "err"

def showLog (l : List Access) : String := if l.isEmpty then "-" else ";".intercalate (l.map showAccess)

def kvOf (ws : List String) (key : String) : Option String :=
  ws.findSome? fun w => if w.startsWith (key ++ "=") then some ((w.drop (key.length + 1)).toString) else none

structure PQ where
  q : Query := {}
  filterSeen : Bool := false

/-- parse the query tokens (later tokens for the same key override earlier ones, like `Dictionary::Set`) -/
def parseQueryToks : List String → Query → Bool → Option (Query × Bool)
  | [], q, f => some (q, f)
  | tok :: rest, q, f =>
    if tok.startsWith "n:" || tok.startsWith "p:" then
      match ((tok.drop 2).toString).splitOn "=" with
      | [t, v] =>
        let names := (splitC v ",").map dec
        if tok.startsWith "n:" then
          let name := names.getLast?.getD ""
          parseQueryToks rest { q with single := (t, name) :: q.single } f
        else
          parseQueryToks rest { q with plural := (t, names) :: q.plural } f
      | _ => none
    else if tok.startsWith "t=" then
      parseQueryToks rest { q with type := some ((tok.drop 2).toString) } f
    else if tok.startsWith "f=" then
      parseQueryToks rest q true
    else none

/-- the request with the names of its plural lists sorted: requests with equal keys differ only in visit order -/
def orderKey (pre : List String) : String :=
  " ".intercalate (pre.map fun tok =>
    if tok.startsWith "p:" || tok.startsWith "p=" then
      match tok.splitOn "=" with
      | [k, v] => k ++ "=" ++ ",".intercalate (sortStrs (splitC v ","))
      | _ => tok
    else tok)

def insertAll {α : Type} (x : α) : List α → List (List α)
  | [] => [[x]]
  | y :: ys => (x :: y :: ys) :: (insertAll x ys).map (y :: ·)

def permutations {α : Type} : List α → List (List α)
  | [] => [[]]
  | x :: xs => (permutations xs).flatMap (insertAll x)

/-- The order in which the matching entries' filters are OR-ed is the code's own business; it shows only when
    one of them raises an error while another is true.  A disagreement that disappears under some order of
    the user's entries is therefore not a disagreement about the property. -/
def agreesUnderSomeOrder (u : User) (raises : Bool) (p : User → Bool) : Bool :=
  raises && u.length ≤ 5 && (permutations u).any p

structure DSt where
  /-- some permission filter of the case raises an error on some object -/
  userRaises : Bool := false
  orderTolerated : Nat := 0
  /-- outcomes already seen in this case, by `orderKey` -/
  seenOutcomes : List (String × Except Err (List Obj)) := []
  orderPairs : Nat := 0
  orderPairsMixed : Nat := 0     -- ... where the outcome was an error or the permission filter is not null
  authUsers : List AUser := []
  nAuth : Nat := 0
  nAuthOk : Nat := 0
  nConn : Nat := 0                -- connection-level attributions (HttpServerConnection's constructor)
  inv : List Obj := []
  invJoins : List (Obj × String × String) := []
  user : User := []
  /-- some permission filter of the case reads `service` (the shape of the former finding F-C18a) -/
  readsService : Bool := false
  readsServiceQueries : Nat := 0
  /-- VERIF_C18_SHARED_FRAME=1: compare against the variant before bce4be0 (one permission namespace per request) -/
  sharedFrame : Bool := false
  caseNo : Nat := 0
  steps : Nat := 0
  nM : Nat := 0
  nMgranted : Nat := 0
  nQ : Nat := 0
  nA : Nat := 0
  nH : Nat := 0
  h200 : Nat := 0
  h404 : Nat := 0
  hActions : Nat := 0
  hDeletes : Nat := 0
  /-- round 4: the inventory was created through the API (deletes really delete, schedule-downtime really runs) -/
  apiInv : Bool := false
  nGone : Nat := 0                -- delete requests on API-created objects whose gone-set was checked
  nGoneNonEmpty : Nat := 0
  nDowntime : Nat := 0            -- schedule-downtime requests with all_services whose downtime set was checked
  nSecondary : Nat := 0           -- ... of both kinds that acted on an object beyond their targets
  nCreate : Nat := 0
  nCreated : Nat := 0
  nCreateFilteredOnly : Nat := 0   -- created through a match all of whose matching entries carry a filter (F-C18b class)
  nLookup : Nat := 0
  nLookupOk : Nat := 0
  nLookupDenied : Nat := 0        -- the named object exists but the lookup refused it
  nChanged : Nat := 0             -- modify requests whose changed-object set was checked
  nChangedNonEmpty : Nat := 0
  hOtherActions : Nat := 0        -- dispatched actions other than reschedule-check / remove-acknowledgement
  nBare : Nat := 0                -- bare CheckPermission handlers (console, config, debug, typeless actions)
  nG : Nat := 0
  g200 : Nat := 0
  gCompared : Nat := 0
  hJoinShown : Nat := 0
  hJoinHidden : Nat := 0
  okNonEmpty : Nat := 0
  okEmpty : Nat := 0
  errPerm : Nat := 0
  errDenied : Nat := 0
  errNotFound : Nat := 0
  errType : Nat := 0
  errOther : Nat := 0
  pathSingle : Nat := 0
  pathPlural : Nat := 0
  pathFilterEval : Nat := 0
  pathFast : Nat := 0
  pathAll : Nat := 0
  permFiltered : Nat := 0      -- queries evaluated under a non-null permission filter
  multiMatch : Nat := 0        -- queries with at least two matching entries
  mixedMatch : Nat := 0        -- ... one of them filtered and one not (the over-restriction corner)
  filteredOut : Nat := 0       -- queries where the permission filter removed or denied something
  caseHash : UInt64 := 7
  caseNontrivial : Bool := false
  seen : Std.HashSet UInt64 := {}
  nontrivial : Nat := 0
  mismatches : Nat := 0
  specfails : Nat := 0
  badlines : Nat := 0

def closeCase (d : DSt) : DSt :=
  if d.caseNontrivial && !d.seen.contains d.caseHash then
    { d with seen := d.seen.insert d.caseHash, nontrivial := d.nontrivial + 1, caseNontrivial := false }
  else { d with caseNontrivial := false }

def bad (d : DSt) (n : Nat) : IO DSt := do
  IO.println s!"BADLINE line={n}"
  return { d with badlines := d.badlines + 1 }

def handleM (d : DSt) (n : Nat) (pre post : List String) : IO DSt := do
  match pre, post with
  | [_, pat, req, _form], [g] =>
    match parseBool? g with
    | some ig =>
      let u : User := [{ pattern := dec pat, filter := none }]
      let req := dec req
      let mg := hasPermission u req
      let mut d := { d with steps := d.steps + 1, nM := d.nM + 1, nMgranted := d.nMgranted + (if ig then 1 else 0) }
      if mg != ig then
        IO.println s!"MISMATCH line={n} case={d.caseNo} what=grant impl={showBool ig} model={showBool mg}"
        d := { d with mismatches := d.mismatches + 1 }
      match specGrant u req ig with
      | some cl =>
        IO.println s!"SPECFAIL line={n} case={d.caseNo} clause={cl.name}"
        d := { d with specfails := d.specfails + 1 }
      | none => pure ()
      return d
    | none => bad d n
  | _, _ => bad d n

def handleP (d : DSt) (n : Nat) (pre post : List String) : IO DSt := do
  match pre, post with
  | [_, pat, ast, _form], [tt] =>
    if ast == "-" then
      return { d with user := d.user ++ [{ pattern := dec pat, filter := none }] }
    else
      match parseRows tt d.inv.length with
      | some rows => return { d with user := d.user ++ [{ pattern := dec pat, filter := some (mkPFilter d.inv rows) }],
                                     readsService := d.readsService || rows.length > 1,
                                     userRaises := d.userRaises || rows.any (·.any (·.isNone)) }
      | none => bad d n
  | _, _ => bad d n

def handleQ (d : DSt) (n : Nat) (pre post : List String) : IO DSt := do
  match pre with
  | _ :: perm :: types :: prov :: toks =>
    let perm := dec perm
    let types := types.splitOn ","
    match parseQueryToks toks {} false, post with
    | some (q0, hasF), kind :: val :: kvs =>
      let ires : Option (Except Err (List Obj)) :=
        if kind == "ok" then (parseObjs val).map .ok
        else if kind == "err" then (parseErr val).map .error else none
      let ft := (kvOf kvs "ft").getD "-"
      let fast := (kvOf kvs "fast").getD "-"
      let tv := (kvOf kvs "tv").getD "0"
      let ilog := (kvOf kvs "log").getD "?"
      let ufilter : Option (Option UFilter) :=
        if !hasF then some none else
        match parseTri ft d.inv.length with
        | none => none
        | some bits =>
          let fastNames : Option (List String) :=
            if fast == "-" then none
            else some ((splitC ((fast.drop 1).dropEnd 1).toString ",").map dec)
          some (some { pred := mkTri d.inv bits, fast := fastNames })
      match ires, ufilter, parseLog ilog with
      | some ires, some uf, some plog =>
        let q : Query := { q0 with typeValid := tv == "1", filter := uf }
        let qd : QD := { types := types, permission := perm, cfgProvider := prov == "c" }
        let out := filterTargetsWith d.sharedFrame d.user qd q d.inv
        let mut d := { d with steps := d.steps + 1, nQ := d.nQ + 1, caseHash := mixHash d.caseHash (hash (" ".intercalate pre)) }
        if d.readsService && types.length > 1 && (!q.single.isEmpty || !q.plural.isEmpty) then
          d := { d with readsServiceQueries := d.readsServiceQueries + 1 }
        let ishow := showResult ires
        let mshow := showResult out.result
        if ishow != mshow then
          if agreesUnderSomeOrder d.user d.userRaises
              (fun u' => showResult (filterTargetsWith d.sharedFrame u' qd q d.inv).result == ishow) then
            d := { d with orderTolerated := d.orderTolerated + 1 }
          else
            IO.println s!"MISMATCH line={n} case={d.caseNo} what=result impl={ishow.replace " " ":"} model={mshow.replace " " ":"}"
            d := { d with mismatches := d.mismatches + 1 }
        -- the specification, on the implementation's own observation
        let obs : Obs := { result := ires, log := plog }
        match specQuery d.user qd q d.inv obs with
        | some cl =>
          IO.println s!"SPECFAIL line={n} case={d.caseNo} clause={cl.name}"
          d := { d with specfails := d.specfails + 1 }
        | none => pure ()
        -- visit-order independence, on the implementation's observations
        let key := orderKey pre
        match d.seenOutcomes.lookup key with
        | some prev =>
          d := { d with orderPairs := d.orderPairs + 1 }
          if !(permissionFilters d.user perm).isEmpty then d := { d with orderPairsMixed := d.orderPairsMixed + 1 }
          match specOrder prev ires with
          | some cl =>
            IO.println s!"SPECFAIL line={n} case={d.caseNo} clause={cl.name}"
            d := { d with specfails := d.specfails + 1 }
          | none => pure ()
        | none => d := { d with seenOutcomes := (key, ires) :: d.seenOutcomes }
        -- histogram (of the implementation's outcome and of the path the query takes)
        -- (the kind of a failure is the model's: the implementation's error objects and texts are not compared)
        d := match (match ires with | .ok l => Except.ok l | .error _ => (match out.result with | .error e => .error e | .ok _ => .error .other)) with
          | .ok [] => { d with okEmpty := d.okEmpty + 1 }
          | .ok _ => { d with okNonEmpty := d.okNonEmpty + 1 }
          | .error .permission => { d with errPerm := d.errPerm + 1 }
          | .error .denied => { d with errDenied := d.errDenied + 1 }
          | .error .notFound => { d with errNotFound := d.errNotFound + 1 }
          | .error .other => { d with errOther := d.errOther + 1 }
          | .error _ => { d with errType := d.errType + 1 }
        let granted := hasPermission d.user perm
        if granted then
          let matching := d.user.filter (permMatches perm)
          let nf := (permissionFilters d.user perm).length
          if !q.single.isEmpty then d := { d with pathSingle := d.pathSingle + 1 }
          if !q.plural.isEmpty then d := { d with pathPlural := d.pathPlural + 1 }
          match q.filter, q.type with
          | some uf, some t =>
            if (fastNames qd t uf).isSome then d := { d with pathFast := d.pathFast + 1 }
            else d := { d with pathFilterEval := d.pathFilterEval + 1 }
          | none, some _ => if (namedRequests types q).isEmpty then d := { d with pathAll := d.pathAll + 1 }
          | _, _ => pure ()
          if nf > 0 then d := { d with permFiltered := d.permFiltered + 1 }
          if matching.length ≥ 2 then d := { d with multiMatch := d.multiMatch + 1 }
          if nf > 0 && nf < matching.length then d := { d with mixedMatch := d.mixedMatch + 1 }
          let removed := d.inv.any (fun o => pfIso (permissionFilters d.user perm) o != some true)
          let interesting := match ires, out.result with
            | .ok (_ :: _), _ => nf > 0 && removed
            | .error _, .error .denied => true
            | _, _ => false
          if interesting then d := { d with filteredOut := d.filteredOut + 1, caseNontrivial := true }
        return d
      | _, _, _ => bad d n
    | _, _ => bad d n
  | _ => bad d n

def handleA (d : DSt) (n : Nat) (pre post : List String) : IO DSt := do
  match pre, post with
  | [_, perm, types], [g, bits] =>
    let perm := dec perm
    let types := types.splitOn ","
    let cs := if bits == "-" then [] else bits.toList
    match parseBool? g with
    | some ig =>
      if cs.length != d.inv.length then bad d n else
      let mut d := { d with steps := d.steps + 1, nA := d.nA + 1 }
      let mg := hasPermission d.user perm
      if mg != ig then
        IO.println s!"MISMATCH line={n} case={d.caseNo} what=grant impl={showBool ig} model={showBool mg}"
        d := { d with mismatches := d.mismatches + 1 }
      match specGrant d.user perm ig with
      | some cl =>
        IO.println s!"SPECFAIL line={n} case={d.caseNo} clause={cl.name}"
        d := { d with specfails := d.specfails + 1 }
      | none => pure ()
      let mbits := String.ofList (d.inv.map fun o =>
        if !types.contains o.type then 'x' else if accessGranted d.user perm o then '1' else '0')
      let mbits := if mbits == "" then "-" else mbits
      if mbits != bits then
        let bitsOf (u' : User) : String := String.ofList (d.inv.map fun o =>
          if !types.contains o.type then 'x' else if accessGranted u' perm o then '1' else '0')
        if agreesUnderSomeOrder d.user d.userRaises (fun u' => bitsOf u' == bits) then
          d := { d with orderTolerated := d.orderTolerated + 1 }
        else
          IO.println s!"MISMATCH line={n} case={d.caseNo} what=access impl={bits} model={mbits}"
          d := { d with mismatches := d.mismatches + 1 }
      for (o, c) in d.inv.zip cs do
        if c == '1' then
          match specAccess d.user perm o true with
          | some cl =>
            IO.println s!"SPECFAIL line={n} case={d.caseNo} clause={cl.name}"
            d := { d with specfails := d.specfails + 1 }
          | none => pure ()
      return d
    | none => bad d n
  | _, _ => bad d n

def hostOf (svc : Obj) : Obj := { type := "Host", name := (svc.name.splitOn "!").headD "" }

def handleH (d : DSt) (n : Nat) (pre post : List String) : IO DSt := do
  match pre, post with
  | _ :: verb :: type :: toks, status :: names :: kvs =>
    let isAction := verb.startsWith "a:"
    let verb? := if verb == "q" then some "query" else if verb == "m" then some "modify"
                 else if verb == "d" then some "delete" else if isAction then some (verb.drop 2).toString else none
    let pathName := (kvOf toks "n").map dec
    let plural : List (String × List String) := match kvOf toks "p" with
      | some v => [(type, (splitC v ",").map dec)]
      | none => []
    let hasF := (kvOf toks "f").isSome
    let cascade := toks.contains "cs=1"
    let allSvc := toks.contains "as=1"
    let deps (o : Obj) : List Obj :=
      if o.type == "Host" then d.inv.filter (fun s => s.type == "Service" && hostOf s == o) else []
    let apiInv := d.apiInv
    let wantJoin := toks.contains "j" && verb == "q"
    -- the joined objects of a returned object that are inventory objects: (field, joined object)
    let joinCands (o : Obj) : List (String × Obj) :=
      let (ce, cp) := ((d.invJoins.find? (·.1 == o)).map (·.2)).getD ("", "")
      ((if o.type == "Service" then [("host", hostOf o)] else [])
        ++ (if ce != "" then [("command_endpoint", ({ type := "Endpoint", name := ce } : Obj))] else [])
        ++ (if cp != "" then [("check_period", ({ type := "TimePeriod", name := cp } : Obj))] else [])).filter
        (fun fj => d.inv.contains fj.2)
    let ft := (kvOf kvs "ft").getD "-"
    let fast := (kvOf kvs "fast").getD "-"
    let jn := (kvOf kvs "jn").getD "-"
    let ufilter : Option (Option UFilter) :=
      if !hasF then some none else
      match parseTri ft d.inv.length with
      | none => none
      | some bits =>
        let fastNames : Option (List String) :=
          if fast == "-" then none
          else some ((splitC ((fast.drop 1).dropEnd 1).toString ",").map dec)
        some (some { pred := mkTri d.inv bits, fast := fastNames })
    match verb?, ufilter, parseNat? status, parseObjs names with
    | some verb, some uf, some istatus, some iobjs =>
      let svcName : List (String × String) := match kvOf toks "sn" with
        | some v => [("Service", dec v)]
        | none => []
      let q0 : Query := { single := svcName, plural := plural, filter := uf }
      let actTypes : List String := match kvOf kvs "ty" with
        | some v => splitC (if v == "-" then "" else v) ","
        | none => ["Host", "Service"]
      let qd := if isAction then actionQDT verb actTypes else handlerQD verb type
      let q := if isAction then actionQuery type pathName q0 else handlerQuery type pathName q0
      let mres := (filterTargetsWith d.sharedFrame d.user qd q d.inv).result
      let withResults := istatus == 200 || (verb == "delete" && istatus == 500)
      let mut d := { d with steps := d.steps + 1, nH := d.nH + 1,
                            caseHash := mixHash d.caseHash (hash (" ".intercalate pre)) }
      let joinOf (u' : User) : List String := match mres with
        | .ok objs => if !wantJoin then [] else
            sortStrs (objs.flatMap fun o =>
              ((joinCands o).filter fun fj => joinIncluded u' fj.2).map fun fj => s!"{o.name}>{fj.1}")
        | .error _ => []
      let showJoin (l : List String) : String := if l.isEmpty then "-" else ",".intercalate l
      let mjoin := joinOf d.user
      -- for actions the harness observes the set of objects acted on and the number of results
      let icnt := (kvOf kvs "cnt").getD "?"
      let showH (res : Except Err (List Obj)) : String :=
        let st := if isAction then actionStatus res
                  else if verb == "delete" then (if apiInv then deleteStatusApi deps cascade res else deleteStatusNonApi res)
                  else httpStatus res
        s!"{st}:" ++ (match res with
        | .ok objs =>
          let l := sortStrs ((if isAction then objs.eraseDups else objs).map showObj)
          (if l.isEmpty then "-" else ",".intercalate l) ++ (if st == 404 then "" else s!":{objs.length}")
        | .error _ => "-")
      let mshow := showH mres
      let ishow := s!"{istatus}:{names}" ++ (if istatus == 404 || istatus ≥ 590 then "" else s!":{icnt}")
      if ishow != mshow then
        if agreesUnderSomeOrder d.user d.userRaises
            (fun u' => showH (filterTargetsWith d.sharedFrame u' qd q d.inv).result == ishow) then
          d := { d with orderTolerated := d.orderTolerated + 1 }
        else
          IO.println s!"MISMATCH line={n} case={d.caseNo} what=http impl={ishow} model={mshow}"
          d := { d with mismatches := d.mismatches + 1 }
      else if wantJoin && jn != showJoin mjoin then
        if agreesUnderSomeOrder d.user d.userRaises (fun u' => showJoin (joinOf u') == jn) then
          d := { d with orderTolerated := d.orderTolerated + 1 }
        else
          IO.println s!"MISMATCH line={n} case={d.caseNo} what=join impl={jn} model={showJoin mjoin}"
          d := { d with mismatches := d.mismatches + 1 }
      -- the specification on the implementation's observation; a 404 does not say which error it was
      let obs : Obs := { result := if withResults then .ok iobjs else .error .permission, log := none }
      let bad := if withResults || istatus == 404 then specQuery d.user qd q d.inv obs else none
      match bad with
      | some cl =>
        IO.println s!"SPECFAIL line={n} case={d.caseNo} clause={cl.name}"
        d := { d with specfails := d.specfails + 1 }
      | none => pure ()
      if withResults || istatus == 404 then
        let key := orderKey pre
        match d.seenOutcomes.lookup key with
        | some prev =>
          d := { d with orderPairs := d.orderPairs + 1 }
          match specOrder prev obs.result with
          | some cl =>
            IO.println s!"SPECFAIL line={n} case={d.caseNo} clause={cl.name}"
            d := { d with specfails := d.specfails + 1 }
          | none => pure ()
        | none => d := { d with seenOutcomes := (key, obs.result) :: d.seenOutcomes }
      -- every joined object the implementation serialized must be allowed under the permission of ITS type
      for entry in splitC (if jn == "-" then "" else jn) "," do
        match entry.splitOn ">" with
        | [on, field] =>
          match (joinCands { type := type, name := on }).lookup field with
          | some joined =>
            match specJoin d.user joined true with
            | some cl =>
              IO.println s!"SPECFAIL line={n} case={d.caseNo} clause={cl.name}"
              d := { d with specfails := d.specfails + 1 }
            | none => pure ()
          | none =>
            IO.println s!"BADLINE line={n}"
            d := { d with badlines := d.badlines + 1 }
        | _ =>
          IO.println s!"BADLINE line={n}"
          d := { d with badlines := d.badlines + 1 }
      -- modify: the objects that were CHANGED, read off the whole inventory
      if verb == "modify" then
        match (kvOf kvs "ch").bind parseObjs with
        | some changed =>
          d := { d with nChanged := d.nChanged + 1, nChangedNonEmpty := d.nChangedNonEmpty + (if changed.isEmpty then 0 else 1) }
          let showSet (l : List Obj) : String := let x := sortStrs (l.eraseDups.map showObj); if x.isEmpty then "-" else ",".intercalate x
          let mchanged := modifyChanged d.user type pathName q0 d.inv
          if ishow == mshow && showSet changed != showSet mchanged then
            IO.println s!"MISMATCH line={n} case={d.caseNo} what=changed impl={showSet changed} model={showSet mchanged}"
            d := { d with mismatches := d.mismatches + 1 }
          match specChanged d.user qd.permission changed with
          | some cl =>
            IO.println s!"SPECFAIL line={n} case={d.caseNo} clause={cl.name}"
            d := { d with specfails := d.specfails + 1 }
          | none => pure ()
        | none =>
          IO.println s!"BADLINE line={n}"
          d := { d with badlines := d.badlines + 1 }
      -- round 4: a delete on API-created objects / schedule-downtime with all_services: every object of the WHOLE inventory
      -- that is gone / has a downtime now, against the targets the handler obtained
      let showSet4 (l : List Obj) : String := let x := sortStrs (l.eraseDups.map showObj); if x.isEmpty then "-" else ",".intercalate x
      let acted? : Option (List Obj × List Obj × String) :=
        if verb == "delete" && apiInv then
          ((kvOf kvs "gone").bind parseObjs).map fun g => (g, deleteGone d.user type pathName q0 d.inv deps cascade, "gone")
        else if allSvc then
          ((kvOf kvs "dt").bind parseObjs).map fun g => (g, downtimeActed d.user actTypes q d.inv deps, "downtimes")
        else none
      if (verb == "delete" && apiInv) || allSvc then
        match acted? with
        | some (acted, macted, what) =>
          if what == "gone" then
            d := { d with nGone := d.nGone + 1, nGoneNonEmpty := d.nGoneNonEmpty + (if acted.isEmpty then 0 else 1) }
          else d := { d with nDowntime := d.nDowntime + 1 }
          let targets := if withResults then iobjs else []
          if acted.any (fun o => !targets.contains o) then d := { d with nSecondary := d.nSecondary + 1, caseNontrivial := true }
          if ishow == mshow && showSet4 acted != showSet4 macted then
            IO.println s!"MISMATCH line={n} case={d.caseNo} what={what} impl={showSet4 acted} model={showSet4 macted}"
            d := { d with mismatches := d.mismatches + 1 }
          -- dependents count as "going with a target" only when the request asked for them (cascade / all_services); otherwise a
          -- forbidden object beyond the targets is reported like a forbidden target (changed_objects_allowed)
          let depsReq : Obj → List Obj := if cascade || allSvc then deps else fun _ => []
          match specActed d.user qd.permission depsReq targets acted with
          | some cl =>
            IO.println s!"SPECFAIL line={n} case={d.caseNo} clause={cl.name}"
            d := { d with specfails := d.specfails + 1 }
          | none => pure ()
        | none =>
          IO.println s!"BADLINE line={n}"
          d := { d with badlines := d.badlines + 1 }
      if withResults then d := { d with h200 := d.h200 + 1 } else d := { d with h404 := d.h404 + 1 }
      if isAction && verb != "reschedule-check" && verb != "remove-acknowledgement" then d := { d with hOtherActions := d.hOtherActions + 1 }
      if isAction then d := { d with hActions := d.hActions + 1 }
      if verb == "delete" then d := { d with hDeletes := d.hDeletes + 1 }
      if wantJoin then
        match mres with
        | .ok objs =>
          let cand := (objs.flatMap joinCands).length
          d := { d with hJoinShown := d.hJoinShown + mjoin.length, hJoinHidden := d.hJoinHidden + (cand - mjoin.length) }
          if cand > mjoin.length && mjoin.length > 0 then d := { d with caseNontrivial := true }
        | .error _ => pure ()
      return d
    | _, _, _, _ => bad d n
  | _, _ => bad d n

/-- the user with every filter replaced by its value on ONE object that is not part of the inventory (the object a
    create request brought into being): `nt` has one character per entry, `-` for an entry without filter -/
def userOn (u : User) (nt : String) : Option User :=
  let cs := nt.toList.drop 1    -- the harness writes a leading `.`
  if cs.length != u.length then none else
  some ((u.zip cs).map fun (p, c) =>
    { pattern := p.pattern,
      filter := p.filter.map fun _ => fun _ _ => if c == '1' then some true else if c == '0' then some false else none })

def handleCreate (d : DSt) (n : Nat) (pre post : List String) : IO DSt := do
  match pre, post with
  | _ :: _ :: type :: toks, status :: _ :: kvs =>
    match (kvOf toks "n").map dec, parseNat? status, kvOf kvs "cr", kvOf kvs "nt", kvOf kvs "ex" with
    | some name, some istatus, some cr, some nt, some ex =>
      let created := cr == "1"
      let o : Obj := { type := type, name := name }
      let perm := "objects/create/" ++ type
      let mut d := { d with steps := d.steps + 1, nH := d.nH + 1, nCreate := d.nCreate + 1,
                            nCreated := d.nCreated + (if created then 1 else 0),
                            caseHash := mixHash d.caseHash (hash (" ".intercalate pre)) }
      -- model: refused (404, nothing created) without a matching entry; otherwise created unless the name is taken
      let granted := createGranted d.user type
      let mcreated := granted && ex != "1"
      if created != mcreated || (istatus == 404) != !granted then
        IO.println s!"MISMATCH line={n} case={d.caseNo} what=create impl={istatus}:{cr} model={if granted then "granted" else "404"}:{showBool mcreated}"
        d := { d with mismatches := d.mismatches + 1 }
      if created then
        match userOn d.user nt with
        | some u' =>
          if someMatch d.user perm && (d.user.filter (permMatches perm)).all (·.filter.isSome) then
            d := { d with nCreateFilteredOnly := d.nCreateFilteredOnly + 1 }
          match specCreate u' type o true with
          | some cl =>
            IO.println s!"SPECFAIL line={n} case={d.caseNo} clause={cl.name}"
            d := { d with specfails := d.specfails + 1 }
          | none => pure ()
        | none =>
          IO.println s!"BADLINE line={n}"
          d := { d with badlines := d.badlines + 1 }
      return d
    | _, _, _, _, _ => bad d n
  | _, _ => bad d n

def handleX (d : DSt) (n : Nat) (pre post : List String) : IO DSt := do
  match pre with
  | [_, type, name] =>
    let name := dec name
    let ires : Option (Option Obj) := match post with
      | ["none"] => some none
      | ["ok", v] => match v.splitOn "/" with
        | t :: rest => if rest.isEmpty then none else some (some { type := t, name := dec ("/".intercalate rest) })
        | _ => none
      | _ => none
    match ires with
    | some ires =>
      let m := lookupByPermission d.user type name d.inv
      let mut d := { d with steps := d.steps + 1, nLookup := d.nLookup + 1, nLookupOk := d.nLookupOk + (if ires.isSome then 1 else 0),
                            caseHash := mixHash d.caseHash (hash (" ".intercalate pre)) }
      if ires.isNone && (lookup d.inv type name).isSome && someMatch d.user ("objects/query/" ++ type) then
        d := { d with nLookupDenied := d.nLookupDenied + 1, caseNontrivial := true }
      if ires != m then
        let sh (x : Option Obj) : String := match x with | some o => showObj o | none => "none"
        if agreesUnderSomeOrder d.user d.userRaises (fun u' => lookupByPermission u' type name d.inv == ires) then
          d := { d with orderTolerated := d.orderTolerated + 1 }
        else
          IO.println s!"MISMATCH line={n} case={d.caseNo} what=lookup impl={sh ires} model={sh m}"
          d := { d with mismatches := d.mismatches + 1 }
      match specLookup d.user type name d.inv ires with
      | some cl =>
        IO.println s!"SPECFAIL line={n} case={d.caseNo} clause={cl.name}"
        d := { d with specfails := d.specfails + 1 }
      | none => pure ()
      return d
    | none => bad d n
  | _ => bad d n

def handleG (d : DSt) (n : Nat) (pre post : List String) : IO DSt := do
  match pre, post with
  | [_, kind], status :: _ =>
    match handlerPermission kind, parseNat? status with
    | some perm, some istatus =>
      let mut d := { d with steps := d.steps + 1, nG := d.nG + 1, g200 := d.g200 + (if istatus == 200 then 1 else 0) }
      -- with a filtered matching entry the status depends on evaluating the DSL on targets this model does
      -- not describe (dictionaries, types); the console handler ignores filters altogether
      let comparable := bareCheck kind || (permissionFilters d.user perm).isEmpty || !hasPermission d.user perm
      if bareCheck kind then d := { d with nBare := d.nBare + 1 }
      -- the callback of a typeless action ran / the config package exists afterwards: the request was carried out
      let effect := (kvOf post "inv") == some "1" || (kvOf post "chg") == some "1"
      if comparable then
        d := { d with gCompared := d.gCompared + 1 }
        if istatus != grantStatus d.user perm || ((kvOf post "inv").isSome || (kvOf post "chg").isSome) && effect != (grantStatus d.user perm == 200) then
          IO.println s!"MISMATCH line={n} case={d.caseNo} what=handler impl={istatus}:{showBool effect} model={grantStatus d.user perm}"
          d := { d with mismatches := d.mismatches + 1 }
      match specGrant d.user perm (istatus == 200 || effect) with
      | some cl =>
        IO.println s!"SPECFAIL line={n} case={d.caseNo} clause={cl.name}"
        d := { d with specfails := d.specfails + 1 }
      | none => pure ()
      return d
    | _, _ => bad d n
  | _, _ => bad d n

def unhex (s : String) : Option String :=
  if s == "-" then some "" else
  let rec go : List Char → Option (List Char)
    | [] => some []
    | a :: b :: rest =>
      let v (c : Char) : Option Nat :=
        if '0' ≤ c && c ≤ '9' then some (c.toNat - '0'.toNat)
        else if 'a' ≤ c && c ≤ 'f' then some (c.toNat - 'a'.toNat + 10) else none
      match v a, v b, go rest with
      | some x, some y, some r => some (Char.ofNat (x * 16 + y) :: r)
      | _, _, _ => none
    | _ => none
  (go s.toList).map String.ofList

def parseAUsers (s : String) : Option (List AUser) :=
  if s == "-" then some [] else
  (s.splitOn ",").mapM fun part =>
    match part.splitOn ":" with
    | [nm, pw, cn] => do
      let pw ← unhex pw
      let cn ← unhex cn
      pure ({ name := nm, password := pw, clientCN := cn } : AUser)
    | _ => none

def handleAuth (d : DSt) (n : Nat) (pre post : List String) : IO DSt := do
  match pre, post with
  | ["K", us], _ =>
    match parseAUsers us with
    | some l => return { d with authUsers := l }
    | none => bad d n
  | ["B", hh], res :: kvs =>
    let decS := (kvOf kvs "dec").getD "-"
    let decoded : Option (Option String) :=
      if decS == "throw" then some none else if decS == "=" then some (some "")
      else if decS == "-" then some (some "") else (unhex decS).map some
    match unhex hh, decoded with
    | some header, some dec =>
      let m := authByHeader d.authUsers header dec
      let mshow := match m with | .user u => u.name | .nobody => "none" | .throws => "throw"
      let mut d := { d with steps := d.steps + 1, nAuth := d.nAuth + 1,
                            nAuthOk := d.nAuthOk + (if res != "none" && res != "throw" then 1 else 0) }
      if mshow != res then
        IO.println s!"MISMATCH line={n} case={d.caseNo} what=auth impl={res} model={mshow}"
        d := { d with mismatches := d.mismatches + 1 }
      if res != "none" && res != "throw" then
        -- attributed: the user record of that name (names are unique in the registry); an unknown name has no credential at all
        let cl := match d.authUsers.find? (·.name == res) with
          | some u => specAuthHeader header dec (some u)
          | none => some Clause.attributedWithoutCredential
        match cl with
        | some c =>
          IO.println s!"SPECFAIL line={n} case={d.caseNo} clause={c.name}"
          d := { d with specfails := d.specfails + 1 }
        | none => pure ()
      return d
    | _, _ => bad d n
  | ["N", ch], [res] =>
    match unhex ch with
    | some cn =>
      let cands := (authByCN d.authUsers cn).map (·.name)
      let mut d := { d with steps := d.steps + 1, nAuth := d.nAuth + 1, nAuthOk := d.nAuthOk + (if res != "none" then 1 else 0) }
      -- which of several users with that CN is returned is the registry's business
      if !(if res == "none" then cands.isEmpty else cands.contains res) then
        IO.println s!"MISMATCH line={n} case={d.caseNo} what=auth impl={res} model={",".intercalate cands}"
        d := { d with mismatches := d.mismatches + 1 }
      if res != "none" then
        let cl := match d.authUsers.find? (·.name == res) with
          | some u => specAuthCN cn (some u)
          | none => some Clause.attributedWithoutCredential
        match cl with
        | some c =>
          IO.println s!"SPECFAIL line={n} case={d.caseNo} clause={c.name}"
          d := { d with specfails := d.specfails + 1 }
        | none => pure ()
      return d
    | none => bad d n
  | ["V", ih, auth], [res] =>
    match unhex ih, (if auth == "1" then some true else if auth == "0" then some false else none) with
    | some identity, some authenticated =>
      let cands := (connUser d.authUsers identity authenticated).map (·.name)
      let mut d := { d with steps := d.steps + 1, nAuth := d.nAuth + 1, nConn := d.nConn + 1, nAuthOk := d.nAuthOk + (if res != "none" then 1 else 0) }
      if !(if res == "none" then cands.isEmpty else cands.contains res) then
        IO.println s!"MISMATCH line={n} case={d.caseNo} what=connuser impl={res} model={",".intercalate cands}"
        d := { d with mismatches := d.mismatches + 1 }
      if res != "none" then
        let cl := match d.authUsers.find? (·.name == res) with
          | some u => specConnUser identity authenticated (some u)
          | none => some Clause.attributedWithoutCredential
        match cl with
        | some c =>
          IO.println s!"SPECFAIL line={n} case={d.caseNo} clause={c.name}"
          d := { d with specfails := d.specfails + 1 }
        | none => pure ()
      return d
    | _, _ => bad d n
  | _, _ => bad d n

def handle (d : DSt) (n : Nat) (line : String) : IO DSt := do
  let ws := words line
  let (pre, post) := splitBar ws
  match pre with
  | [] => return d
  | "M" :: _ => handleM d n pre post
  | ["C", inv, "api"] =>
    match parseInv inv with
    | some objs =>
      let d := closeCase d
      return { d with apiInv := true, inv := objs, invJoins := parseInvJoins inv, user := [], readsService := false, userRaises := false, caseNo := d.caseNo + 1, caseHash := mixHash 11 (hash inv), seenOutcomes := [] }
    | none => bad d n
  | ["C", inv] =>
    match parseInv inv with
    | some objs =>
      let d := closeCase d
      return { d with apiInv := false, inv := objs, invJoins := parseInvJoins inv, user := [], readsService := false, userRaises := false, caseNo := d.caseNo + 1, caseHash := mixHash 7 (hash inv), seenOutcomes := [] }
    | none => bad d n
  | "P" :: _ =>
    let d := { d with caseHash := mixHash d.caseHash (hash (" ".intercalate pre)), seenOutcomes := [] }
    handleP d n pre post
  | "Q" :: _ => handleQ d n pre post
  | "A" :: _ => handleA d n pre post
  | "H" :: "c" :: _ => handleCreate d n pre post
  | "H" :: _ => handleH d n pre post
  | "X" :: _ => handleX d n pre post
  | "G" :: _ => handleG d n pre post
  | "K" :: _ => handleAuth d n pre post
  | "B" :: _ => handleAuth d n pre post
  | "N" :: _ => handleAuth d n pre post
  | "V" :: _ => handleAuth d n pre post
  | w :: _ => if w.startsWith "#" then return d else bad d n

def main : IO Unit := do
  let stdin ← IO.getStdin
  let shared := (← IO.getEnv "VERIF_C18_SHARED_FRAME") == some "1"
  let d ← foldLines stdin handle ({ sharedFrame := shared } : DSt)
  let d := closeCase d
  IO.println s!"STATS cases={d.caseNo} steps={d.steps} matches={d.nM} matches_granted={d.nMgranted} queries={d.nQ} access={d.nA} http={d.nH} http_200={d.h200} http_404={d.h404} http_actions={d.hActions} http_deletes={d.hDeletes} deletes_gone_checked={d.nGone} deletes_gone_nonempty={d.nGoneNonEmpty} downtimes_checked={d.nDowntime} secondary_acted={d.nSecondary} auth={d.nAuth} auth_attributed={d.nAuthOk} conn_users={d.nConn} creates={d.nCreate} created={d.nCreated} created_filtered_only={d.nCreateFilteredOnly} lookups={d.nLookup} lookups_ok={d.nLookupOk} lookups_denied={d.nLookupDenied} modify_changed_checked={d.nChanged} modify_changed_nonempty={d.nChangedNonEmpty} http_other_actions={d.hOtherActions} bare_checks={d.nBare} handlers={d.nG} handlers_200={d.g200} handlers_compared={d.gCompared} join_shown={d.hJoinShown} join_hidden={d.hJoinHidden} order_pairs={d.orderPairs} or_order_tolerated={d.orderTolerated} service_reading_two_type_named={d.readsServiceQueries} order_pairs_filtered={d.orderPairsMixed} ok_nonempty={d.okNonEmpty} ok_empty={d.okEmpty} err_perm={d.errPerm} err_denied={d.errDenied} err_notfound={d.errNotFound} err_type={d.errType} err_other={d.errOther} path_single={d.pathSingle} path_plural={d.pathPlural} path_filter_eval={d.pathFilterEval} path_fast={d.pathFast} path_all={d.pathAll} perm_filtered={d.permFiltered} multi_match={d.multiMatch} mixed_match={d.mixedMatch} filtered_out={d.filteredOut} nontrivial={d.nontrivial} mismatches={d.mismatches} specfails={d.specfails} badlines={d.badlines}"

/-
  vd_c12 — replays the harness's operation lines (harness/c12.cpp, header comment) through the C12 model,
  compares the observations (the glue is the one of IcingaModel/C12/Trace.lean — `zonesOf`, `newNames`, `outObs`, `rot` —
  with the oracle inputs taken from the line instead of `Codec`/`may`), and evaluates the specification predicate on the implementation's own trace.

  Output: MISMATCH line=<n> case=<k> op=<op> impl=<..> model=<..> · SPECFAIL line=<n> case=<k> clause=<name>
          (clause `confirmation_not_beyond_received kind=<replay_file_name|other>` is printed independently of the others;
           clause `no_crash`: the harness reported that the node process died in an operation;
           clauses `no_live_before_sync` / `sync_completes` (Spec `syncStep`) are evaluated on their own view of the trace;
           a failing `probe` step is reported every time, with `dmg=<kind of the first damaged frame>`) ·
          BADLINE line=<n> · STATS k=v …
-/
import IcingaModel.Common.Proto
import IcingaModel.C12.Model
import IcingaModel.C12.Spec
import IcingaModel.C12.Trace

open Icinga Icinga.C12 Icinga.C20 Icinga.Proto

def hexVal (c : Char) : Option Nat :=
  if '0' ≤ c && c ≤ '9' then some (c.toNat - 48) else if 'a' ≤ c && c ≤ 'f' then some (c.toNat - 87) else none

def unhexL : List Char → Option Bytes
  | [] => some []
  | a :: b :: r => do
    let x ← hexVal a
    let y ← hexVal b
    let t ← unhexL r
    pure (UInt8.ofNat (x * 16 + y) :: t)
  | _ => none

/-- `<hex>~<count>~<hex>`: a run of `count` padding bytes 'x' between two hex parts (harness `HexRle`). -/
def unhex (s : String) : Option Bytes :=
  if s == "-" then some []
  else match s.splitOn "~" with
    | [a] => unhexL a.toList
    | [a, n, b] => do
      let x ← unhexL a.toList
      let k ← n.toNat?
      let y ← unhexL b.toList
      pure (x ++ List.replicate k (120 : UInt8) ++ y)
    | _ => none

def fnv (bs : Bytes) : UInt64 :=
  bs.foldl (fun h b => (h ^^^ b.toUInt64) * 1099511628211) 1469598103934665603

structure DNode where
  snd : Sender := {}
  peers : List Peer := []
  paFirst : Bool := false
  satRev : Bool := false
  topRev : Bool := false
  table : List (Bytes × Entry) := []

def DNode.peer (n : DNode) (i : Nat) : Peer := n.peers.getD i { related := false, dur := 0, lpos := 0 }
def DNode.setPeer (n : DNode) (i : Nat) (f : Peer → Peer) : DNode := { n with peers := n.peers.set i (f (n.peer i)) }
def DNode.dec (n : DNode) (b : Bytes) : Option Entry := (n.table.find? (fun x => x.1 == b)).map (·.2)
def DNode.posStr (n : DNode) : String :=
  ",".intercalate ((List.range 6).flatMap (fun i => [toString (n.peer i).lpos, toString (n.peer i).rpos]))

def parseSec (s : String) : Option (Option Nat) :=
  match s with
  | "-" => some none | "m" => some (some 0) | "s" => some (some 1) | "a" => some (some 2)
  | "x" => some (some 3) | "g" => some (some 4)
  | "M" => some (some 5) | "S" => some (some 6) | "A" => some (some 7) | "X" => some (some 8) | "G" => some (some 9) | _ => none

def parsePeer (s : String) : Option Nat :=
  match s with | "A" => some 0 | "B" => some 1 | "C" => some 2 | "D" => some 3 | "E" => some 4 | "F" => some 5 | _ => none

def parseOptInt (s : String) : Option (Option Int) := if s == "-" then some none else (parseInt? s).map some

def parseIntList (s : String) : Option (List Int) :=
  if s == "-" then some [] else (s.splitOn ",").mapM parseInt?

def parseOutItem (s : String) : Option OutObs :=
  if s.startsWith "M" then
    match (s.drop 1).toString.splitOn "@" with
    | [a, b] => do pure (.m (← parseNat? a) (← parseInt? b))
    | _ => none
  else if s.startsWith "L" then (parseInt? (s.drop 1).toString).map .l
  else if s == "X" || s == "O" then some .x
  else none

def parseOut (s : String) : Option (List OutObs) :=
  if s == "-" then some [] else (s.splitOn ",").mapM parseOutItem

def showOut (o : List OutObs) : String :=
  if o.isEmpty then "-" else ",".intercalate (o.map fun
    | .m id ts => s!"M{id}@{ts}" | .l v => s!"L{v}" | .x => "X")

def fileTok (s : String) : Option (Option Int) := if s == "cur" then some none else (parseInt? s).map some

/-- Bytes of `file` from offset `k` on replaced by `hx` (a name that does not exist creates the file). -/
def setBytes (file : Option Int) (k : Nat) (hx : Bytes) (s : Sender) : Sender :=
  match file with
  | none => { s with current := some ((match s.current with | some b => b | none => []).take k ++ hx) }
  | some n =>
    if s.files.any (·.name == n) then { s with files := s.files.map (fun f => if f.name == n then { f with bytes := f.bytes.take k ++ hx } else f) }
    else { s with files := s.files ++ [⟨n, hx⟩] }

def lsStr (s : Sender) : String :=
  let fs := (sortByName s.files).map (fun f => toString f.name)
  (if fs.isEmpty then "-" else ",".intercalate fs) ++ " " ++ (match s.current with | none => "-" | some _ => "cur")

/-- The replayed events of a queue: what the comparison with the model is about.  WHEN a log::SetLogPosition is queued in
    between is not the property's business beyond the clause confirmation_not_beyond_received (judged on the
    implementation's own queue). -/
def eventsOnly (o : List OutObs) : List OutObs := o.filter (fun x => match x with | .m _ _ => true | .x => true | .l _ => false)

def showNames (l : List Int) : String := if l.isEmpty then "-" else ",".intercalate (l.map toString)

structure DSt where
  node : DNode := {}
  sp : SpecSt := {}
  caseNo : Nat := 0
  caseFailed : Bool := false
  caseDelivered : Bool := false
  steps : Nat := 0
  relays : Nat := 0
  logged : Nat := 0
  replays : Nat := 0
  probes : Nat := 0
  delivered : Nat := 0
  setposSeen : Nat := 0
  rotations : Nat := 0
  deletions : Nat := 0
  restarts : Nat := 0
  recvDropped : Nat := 0
  skippedAdv : Nat := 0
  damagedReplays : Nat := 0
  nontrivial : Nat := 0
  mismatches : Nat := 0
  specfails : Nat := 0
  setposDiff : Nat := 0
  dumps : Nat := 0
  caseConfReplay : Bool := false
  caseAdvance : Bool := false
  advanceBad : Nat := 0
  bigRecords : Nat := 0
  caseConfOther : Bool := false
  confReplay : Nat := 0
  confOther : Nat := 0
  died : Nat := 0
  sy : SyncSt := {}
  caseSync : Bool := false
  syncBad : Nat := 0
  attaches : Nat := 0
  liveSent : Nat := 0
  otherTypeSecs : Nat := 0
  framedJunk : Nat := 0
  torn : TornSt := {}
  caseTorn : Bool := false
  tornBad : Nat := 0
  behindTorn : Nat := 0

def limit : Nat := 50000

def mismatch (d : DSt) (n : Nat) (op impl model : String) : IO DSt := do
  IO.println s!"MISMATCH line={n} case={d.caseNo} op={op} impl={impl} model={model}"
  return { d with mismatches := d.mismatches + 1 }

/-- compare, then feed the observed step to the spec -/
def finish (d : DSt) (n : Nat) (op : String) (node : DNode) (implObs modelObs : String) (implPos : String) (ev : Option Ev)
    (dmgTag : String := "") : IO DSt := do
  let mut d := { d with steps := d.steps + 1 }
  let mp := node.posStr
  let mut node := node
  if implObs != modelObs || implPos != mp then
    d ← mismatch d n op s!"{implObs};{implPos}" s!"{modelObs};{mp}"
    -- resynchronise the positions on the implementation
    match parseIntList implPos with
    | some ps =>
      if ps.length == 12 then
        node := (List.range 6).foldl (fun nd i => nd.setPeer i (fun p => { p with lpos := ps.getD (2 * i) 0, rpos := ps.getD (2 * i + 1) 0 })) node
    | none => pure ()
  d := { d with node := node }
  match ev, parseIntList implPos with
  | some ev, some pos =>
    -- clause position_advance_justified, evaluated on its own: once per case
    if !advanceOk d.sp ⟨ev, pos⟩ then
      if !d.caseAdvance then IO.println s!"SPECFAIL line={n} case={d.caseNo} clause=position_advance_justified"
      d := { d with caseAdvance := true, advanceBad := d.advanceBad + 1 }
    -- clause confirmation_not_beyond_received, evaluated on its own: once per case and kind
    match confirmStep d.sp ⟨ev, pos⟩ with
    | some k =>
      let seen := if k == .replayFileName then d.caseConfReplay else d.caseConfOther
      if !seen then IO.println s!"SPECFAIL line={n} case={d.caseNo} clause=confirmation_not_beyond_received kind={k.name}"
      d := if k == .replayFileName then { d with caseConfReplay := true, confReplay := d.confReplay + 1 }
           else { d with caseConfOther := true, confOther := d.confOther + 1 }
    | none => pure ()
    -- clause persisted_after_crash_replayed, evaluated on its own: once per case
    let (okT, tn') := tornStep d.sp d.torn ⟨ev, pos⟩
    d := { d with behindTorn := d.behindTorn + (tn'.behind.length - d.torn.behind.length), torn := tn' }
    if !okT then
      if !d.caseTorn then IO.println s!"SPECFAIL line={n} case={d.caseNo} clause=persisted_after_crash_replayed"
      d := { d with caseTorn := true, tornBad := d.tornBad + 1 }
    let (bad, sp') := specStep d.sp ⟨ev, pos⟩
    d := { d with sp := sp' }
    match bad with
    | some cl =>
      -- a probe leaves no trace in the state (the file is restored): every failing probe is reported, with the kind of damage
      if dmgTag != "" then
        IO.println s!"SPECFAIL line={n} case={d.caseNo} clause={cl.name} dmg={dmgTag}"
        d := { d with specfails := d.specfails + 1 }
      else
        if !d.caseFailed then IO.println s!"SPECFAIL line={n} case={d.caseNo} clause={cl.name}"
        d := { d with specfails := d.specfails + 1, caseFailed := true }
    | none => pure ()
  | _, _ => pure ()
  return d

/-- clause no_live_before_sync / sync_completes on its own view of the trace: once per case -/
def syncEv (d : DSt) (n : Nat) (e : SyncEv) : IO DSt := do
  let (bad, sy') := syncStep d.sy e
  let mut d := { d with sy := sy' }
  match bad with
  | some b =>
    if !d.caseSync then IO.println s!"SPECFAIL line={n} case={d.caseNo} clause={b.name}"
    d := { d with caseSync := true, syncBad := d.syncBad + 1 }
  | none => pure ()
  return d

def doReplay (d : DSt) (n : Nat) (opName : String) (now : Int) (p : Nat) (sndView : Sender) (visS outS syncS posS : String)
    (dmg : Option Damage) (after : Sender) (garb : String := "") : IO DSt := do
  let d ← syncEv d n (.synced p (syncS != "0"))
  let node := d.node
  let visBits := visS.toList.map (· == '1')
  let vis : Nat → Bool := fun o => visBits.getD o false
  let pr := node.peer p
  let r := replay node.dec vis limit now pr.dur pr.lpos sndView
  let mo := outObs r.out
  let node' := ({ node with snd := after }).setPeer p (fun q => { q with syncing := false })
  let mut d := d
  if r.fuelOut then d ← mismatch d n "fuel" "-" "out-of-fuel"
  match parseOut outS with
  | none => IO.println s!"BADLINE line={n}"; return d
  | some io =>
    let nmsg := (outMsgs io).length
    d := { d with replays := d.replays + 1, delivered := d.delivered + nmsg,
                  setposSeen := d.setposSeen + (io.filter (fun o => match o with | .l _ => true | _ => false)).length }
    if nmsg > 0 && !d.caseDelivered then d := { d with caseDelivered := true, nontrivial := d.nontrivial + 1 }
    if dmg.isSome then d := { d with probes := d.probes + 1 }
    -- foreign bytes may decode to something the model cannot know: compare only without junk
    let junk := match dmg with | some g => g.junk | none => false
    let implS := if junk then "(junk)" else showOut (eventsOnly io)
    let modelS := if junk then "(junk)" else showOut (eventsOnly mo)
    if !junk && io != mo then d := { d with setposDiff := d.setposDiff + 1 }
    -- the kind of damage: the first damaged frame's description without its digits (see harness DescribeDamage)
    let cls := String.ofList (((garb.splitOn ",").headD "").toList.filter (fun ch => !ch.isDigit))
    finish d n opName node' implS modelS posS (some (.replay now p io dmg)) (if dmg.isSome then (if cls == "" then "-" else cls) else "")

def handle (d : DSt) (n : Nat) (line : String) : IO DSt := do
  let ws := words line
  let (pre, post) := splitBar ws
  let bad : IO DSt := do IO.println s!"BADLINE line={n}"; return d
  let node := d.node
  match pre, post with
  | [], _ => return d
  | _ :: _, ["DIED", _] =>
    -- the real code crashed during this operation: nothing is replayed at all
    if !d.caseFailed then IO.println s!"SPECFAIL line={n} case={d.caseNo} clause=no_crash"
    return { d with specfails := d.specfails + 1, caseFailed := true, died := d.died + 1 }
  | ["C", _, now, pf, dA, dB, dC, dD, dE, dF], [sr, tr] =>
    match parseInt? now, parseBool? pf, [dA, dB, dC, dD, dE, dF].mapM parseInt?, parseBool? sr, parseBool? tr with
    | some now, some pf, some ds, some sr, some tr =>
      let durs := ds.map (· * usec)
      let peers := (List.range 6).map (fun i => ({ related := related i, dur := durs.getD i 0, lpos := 0 } : Peer))
      return { d with node := { snd := start now {}, peers := peers, paFirst := pf, satRev := sr, topRev := tr, table := [] },
                      sp := specInit durs,
                      caseNo := d.caseNo + 1, caseFailed := false, caseDelivered := false,
                      caseConfReplay := false, caseConfOther := false, caseAdvance := false, sy := {}, caseSync := false, torn := {}, caseTorn := false }
    | _, _, _, _, _ => bad
  | "relay" :: now :: id :: sec :: _, [frame, live, nf, pos] =>
    match parseInt? now, parseNat? id, parseSec sec, unhex frame, parseNat? live, parseOptInt nf with
    | some now, some id, some sec, some fb, some live, some nf =>
      let master := if node.paFirst && (node.peer 0).connected then some 0 else none
      let r := relay node.peer master (zonesOf node.satRev node.topRev sec)
      let node1 := r.skipped.foldl (fun nd i => nd.setPeer i (fun p => { p with lpos := now })) node
      let logged := !fb.isEmpty
      -- the record as the implementation encoded it (oracle: the JSON text is not the property's business)
      let items := (nsReadAll none [fb]).items
      let payload := items.headD []
      let d ← syncEv d n (.live ((List.range 6).filter (fun i => (live >>> i) % 2 == 1)))
      let mut d := { d with relays := d.relays + 1, logged := d.logged + (if logged then 1 else 0),
                            liveSent := d.liveSent + (if live != 0 then 1 else 0),
                            otherTypeSecs := d.otherTypeSecs + (match sec with | some o => (if o ≥ 5 then 1 else 0) | none => 0),
                            bigRecords := d.bigRecords + (if fb.length > 1000000 then 1 else 0),
                            skippedAdv := d.skippedAdv + r.skipped.length }
      if logged && (items.length != 1 || nsEncode payload != fb) then
        d ← mismatch d n "frame" frame "not-one-netstring"
      let e : Entry := ⟨now, id, sec⟩
      let node2 := if r.needLog then
          -- WHEN PersistMessage rotates (a counter threshold) is not the property's business: follow the implementation
          let lim := if nf.isSome then 0 else 1000000000000000
          { node1 with table := (payload, e) :: node1.table, snd := persist lim now payload now node1.snd } else node1
      let mLogged := r.needLog && node1.snd.isOpen && node1.snd.current.isSome
      let mLive := r.live.foldl (fun m i => m ||| (1 <<< i)) 0
      let mNew := newNames node1.snd node2.snd
      if nf.isSome then d := { d with rotations := d.rotations + 1 }
      finish d n "relay" node2 s!"{showBool logged},{live},{nf.map toString |>.getD "-"}"
        s!"{showBool mLogged},{mLive},{showNames mNew}" pos
        (some (.relay now id sec (if logged then some fb.length else none) nf))
    | _, _, _, _, _, _ => bad
  | ["conn", p], [pos] =>
    match parsePeer p with
    | some p =>
      let d ← syncEv d n (.attach p)
      finish d n "conn" (node.setPeer p (fun q => { q with connected := true, syncing := true })) "" "" pos (some (.conn p))
    | none => bad
  | ["attach", p], [pos] =>
    match parsePeer p with
    | some p =>
      let d ← syncEv { d with attaches := d.attaches + 1 } n (.attach p)
      finish d n "attach" (node.setPeer p (fun q => { q with connected := true })) "" "" pos (some (.conn p))
    | none => bad
  | ["disc", p], [pos] =>
    match parsePeer p with
    | some p =>
      let d ← syncEv d n (.detach p)
      finish d n "disc" (node.setPeer p (fun q => { q with connected := false })) "" "" pos (some (.disc p))
    | none => bad
  | ["replay", now, p], [vis, out, sync, pos] =>
    match parseInt? now, parsePeer p with
    | some now, some p => doReplay d n "replay" now p node.snd vis out sync pos none (replaySender now (node.peer p).dur node.snd)
    | _, _ => bad
  | ["probe", file, k, hx, now, p], [vis, out, sync, garb, pos] =>
    match fileTok file, parseNat? k, unhex hx, parseInt? now, parsePeer p with
    | some file, some k, some hb, some now, some p =>
      let sz := match file with
        | none => (match node.snd.current with | some b => b.length | none => 0)
        | some nm => ((node.snd.files.find? (·.name == nm)).map (·.bytes.length)).getD 0
      let d := if k < sz || !hb.isEmpty then { d with damagedReplays := d.damagedReplays + 1 } else d
      let d := if garb != "-" && garb != "f" && !garb.startsWith "i" then { d with framedJunk := d.framedJunk + 1 } else d
      doReplay d n "probe" now p (setBytes file k hb (closeLog node.snd)) vis out sync pos (some ⟨file, k, !hb.isEmpty⟩) (openLog now node.snd) garb
    | _, _, _, _, _ => bad
  | ["rotate", now], [nf, pos] =>
    match parseInt? now, parseOptInt nf with
    | some now, some nf =>
      let s' := rot now node.snd
      let d := if nf.isSome then { d with rotations := d.rotations + 1 } else d
      finish d n "rotate" { node with snd := s' } (nf.map toString |>.getD "-") (showNames (newNames node.snd s')) pos (some (.rotate nf))
    | _, _ => bad
  | ["setcount", c], [pos] =>
    match parseNat? c with
    | some c => finish d n "setcount" { node with snd := { node.snd with count := c } } "" "" pos none
    | none => bad
  | ["drop"], [pos] => finish d n "drop" node "" "" pos (some .drop)
  | ["timer", now], [del, oA, oB, oC, oD, oE, oF, pos] =>
    match parseInt? now, parseIntList del, [oA, oB, oC, oD, oE, oF].mapM parseOut with
    | some now, some del, some outs =>
      let s' := cleanup now node.peers node.snd
      let mDel := (sortByName (node.snd.files.filter (fun f => !s'.files.any (·.name == f.name)))).map (·.name)
      let mOuts := (List.range 6).map (fun i => match timerSetPos (node.peer i) with | some v => [OutObs.l v] | none => [])
      let d := { d with deletions := d.deletions + del.length }
      -- the confirmations the timer queues are judged by the clause confirmation_not_beyond_received only
      let d := if outs != mOuts then { d with setposDiff := d.setposDiff + 1 } else d
      finish d n "timer" { node with snd := s' } (showNames del) (showNames mDel) pos (some (.timer now del outs))
    | _, _, _ => bad
  | ["ack", p, v], [pos] =>
    match parsePeer p, parseInt? v with
    | some p, some v => finish d n "ack" (node.setPeer p (fun q => { q with lpos := setLogPos q.lpos v })) "" "" pos (some (.ack p v))
    | _, _ => bad
  | ["recv", p, ts], [acc, pos] =>
    match parsePeer p, parseInt? ts, parseBool? acc with
    | some p, some ts, some acc =>
      let r := recv (node.peer p).rpos (some ts)
      let d := if !acc then { d with recvDropped := d.recvDropped + 1 } else d
      finish d n "recv" (node.setPeer p (fun q => { q with rpos := r.2 })) (showBool acc) (showBool r.1) pos (some (.recv p ts acc))
    | _, _, _ => bad
  | ["setbytes", file, k, hx], [pos] =>
    match fileTok file, parseNat? k, unhex hx with
    | some file, some k, some hb =>
      finish d n "setbytes" { node with snd := setBytes file k hb node.snd } "" "" pos (some (.damage ⟨file, k, !hb.isEmpty⟩))
    | _, _, _ => bad
  | ["dump", now], [vis, out, _, pos] =>
    match parseInt? now, parseOut out with
    | some now, some io =>
      let visBits := vis.toList.map (· == '1')
      let pr := node.peer 0
      let dur := if pr.dur == 0 then 86400 * usec else pr.dur
      let r := replay node.dec (fun o => visBits.getD o false) limit now dur 0 node.snd
      let d := { d with dumps := d.dumps + 1 }
      finish d n "dump" { node with snd := replaySender now dur node.snd } (showOut (eventsOnly io)) (showOut (eventsOnly (outObs r.out))) pos none
    | _, _ => bad
  | ["ls"], [fs, cur] =>
    let d := { d with steps := d.steps + 1 }
    let impl := fs ++ " " ++ cur
    let model := lsStr node.snd
    if impl != model then mismatch d n "ls" impl model else return d
  | ["stop", now], [nf, pos] =>
    match parseInt? now, parseOptInt nf with
    | some now, some nf =>
      let s' := stop now node.snd
      let node' := (List.range 6).foldl (fun nd i => nd.setPeer i (fun q => { q with connected := false })) { node with snd := s' }
      let d := if nf.isSome then { d with rotations := d.rotations + 1 } else d
      -- for the ghost history a stop is a rotation followed by the end of all connections
      let d ← finish d n "stop" node' (nf.map toString |>.getD "-") (showNames (newNames node.snd s')) pos (some (.rotate nf))
      let d ← syncEv d n .restart
      return { d with sp := (specStep d.sp ⟨.restart, d.sp.pos⟩).2 }
    | _, _ => bad
  | ["crash", k], [pos] =>
    match parseInt? k with
    | some k =>
      let sz := match node.snd.current with | some b => b.length | none => 0
      let kk := if k < 0 then sz else k.toNat
      let node' := (List.range 6).foldl (fun nd i => nd.setPeer i (fun q => { q with connected := false })) { node with snd := crash kk node.snd }
      let d ← syncEv d n .restart
      finish d n "crash" node' "" "" pos (some (.damage ⟨none, kk, false⟩))
    | none => bad
  | ["start", now], [sr, tr, pos] =>
    match parseInt? now, parseBool? sr, parseBool? tr with
    | some now, some sr, some tr =>
      let node' := (List.range 6).foldl (fun nd i => nd.setPeer i (fun q => { q with connected := false, syncing := false }))
        { node with snd := start now node.snd, satRev := sr, topRev := tr }
      let d ← syncEv d n .restart
      finish { d with restarts := d.restarts + 1 } n "start" node' "" "" pos (some .restart)
    | _, _, _ => bad
  | _, _ => bad

def main : IO Unit := do
  let stdin ← IO.getStdin
  let d ← foldLines stdin handle ({} : DSt)
  IO.println s!"STATS cases={d.caseNo} steps={d.steps} relays={d.relays} logged={d.logged} replays={d.replays} probes={d.probes} damaged_replays={d.damagedReplays} delivered={d.delivered} setpos_in_replay={d.setposSeen} rotations={d.rotations} deletions={d.deletions} restarts={d.restarts} recv_dropped={d.recvDropped} skipped_advances={d.skippedAdv} nontrivial={d.nontrivial} mismatches={d.mismatches} specfails={d.specfails} died={d.died} confirm_beyond_replay_file_name={d.confReplay} confirm_beyond_other={d.confOther} dumps={d.dumps} setpos_queue_differs_from_model={d.setposDiff} position_advance_unjustified={d.advanceBad} records_over_1MB={d.bigRecords} sync_clause_failures={d.syncBad} attach_without_sync={d.attaches} relays_sent_live={d.liveSent} events_about_other_type_objects={d.otherTypeSecs} probes_with_well_framed_junk={d.framedJunk} events_appended_behind_torn_frame={d.behindTorn} persisted_after_crash_not_replayed={d.tornBad}"

/-
  vd_c13 — replays the harness's lines through the C13 model, compares decisions and origin
  construction, and evaluates the specification predicate on the implementation's own observations.

  Input lines (stdin), see harness/c13.cpp:
    F <local> <n> <p0> ... <p(n-1)>                                  p: `-` root, `g` global, else parent index
    M <method> <sender> <origin> <objzone> <execzone> <cmdep> <acfg> <acmd> <exists> <var>
        | <objects> <files> <relayed> <executed> <replied> <fromzone> <hasendpoint> <foreign>
  Output lines:
    MISMATCH line=<n> case=<k> kind=decision|fromzone|endpoint|confined impl=<..> model=<..>
    SPECFAIL line=<n> case=<k> clause=<name> method=<m> fc13a=<0|1>      (fc13a: the case lies in the class F-C13a)
    BADLINE line=<n>
    STATS cases=.. forests=.. accepted=.. refused=.. nontrivial=.. <per class a_/r_ counts> fz_none=.. fz_sender=.. fz_claimed=.. ...
-/
import IcingaModel.Common.Proto
import IcingaModel.C13.Model
import IcingaModel.C13.Spec
import Std.Data.HashSet

open Icinga Icinga.C13 Icinga.Proto

structure DSt where
  forest : Option Forest := none
  localZone : Zone := 0
  forestTxt : String := ""
  nForests : Nat := 0
  caseNo : Nat := 0
  accepted : Nat := 0
  refused : Nat := 0
  mismatches : Nat := 0
  specfails : Nat := 0
  entitledRefused : Nat := 0          -- entitled but not applied (allowed: the property is "only if")
  fzNone : Nat := 0
  fzSender : Nat := 0
  fzClaimed : Nat := 0
  anon : Nat := 0
  accByClass : List (String × Nat) := []
  refByClass : List (String × Nat) := []
  methodsSeen : Std.HashSet String := {}
  seen : Std.HashSet String := {}
  nontrivial : Nat := 0

def bump (l : List (String × Nat)) (k : String) : List (String × Nat) :=
  match l with
  | [] => [(k, 1)]
  | (k', n) :: rest => if k' == k then (k', n + 1) :: rest else (k', n) :: bump rest k

def clsName : MClass → String
  | .stateUpdate => "state" | .checkResult => "checkresult" | .execResult => "execresult"
  | .zoneInternal => "zoneinternal" | .config => "config" | .command => "command"
  | .certUpdate => "certupdate" | .session => "session" | .certRequest => "certrequest"

def parseForest (ws : List String) : Option (Forest × Zone) :=
  match ws with
  | l :: n :: ps => do
    let l ← parseNat? l
    let n ← parseNat? n
    if ps.length != n then none
    let entries ← ps.mapM (fun p =>
      if p == "-" then some (none, false)
      else if p == "g" then some (none, true)
      else (parseNat? p).map (fun v => (some v, false)))
    let parents : List (Option Zone) := entries.map (·.1)
    let globals : List Bool := entries.map (·.2)
    pure ({ parent := fun z => match parents[z]? with | some p => p | none => none,
            isGlobal := fun z => match globals[z]? with | some g => g | none => false }, l)
  | _ => none

def parseZoneTok (s : String) : Option (Option Zone) :=
  if s == "-" || s == "?" then some none else (parseNat? s).map some

/-- sender token → (authenticated, zone of the endpoint the identity names) -/
def parseSender (s : String) : Option (Bool × Option Zone) :=
  if s == "u" then some (true, none)
  else if s == "x" then some (false, none)
  else if s.startsWith "a" then (parseNat? (s.drop 1).toString).map (fun z => (true, some z))
  else if s.startsWith "n" then (parseNat? (s.drop 1).toString).map (fun z => (false, some z))
  else none

def showOptZone : Option Zone → String
  | none => "-"
  | some z => toString z

def handle (d : DSt) (n : Nat) (line : String) : IO DSt := do
  let ws := words line
  match ws with
  | [] => return d
  | "F" :: rest =>
    match parseForest rest with
    | some (f, l) =>
      -- the forest must be one a configuration can load (hypothesis `Loaded` of the completeness theorems, `loadedB_sound`)
      if !loadedB f (rest.length - 2) harnessLevelBound then
        IO.println s!"BADLINE line={n} forest-not-loadable"
      return { d with forest := some f, localZone := l, forestTxt := line.trimAscii.toString, nForests := d.nForests + 1 }
    | none => IO.println s!"BADLINE line={n}"; return d
  | "M" :: rest =>
    let (pre, post) := splitBar rest
    match d.forest, pre, post with
    | some f, [mname, snd, org, oz, ez, cmdep, acfg, acmd, ex, var], [ob, fi, re, exe, _rep, fz, hasEp, frn] =>
      match Method.ofName? mname, parseSender snd, parseZoneTok org, parseZoneTok oz, parseZoneTok ez,
            parseNat? cmdep, parseBool? acfg, parseBool? acmd, parseBool? ex,
            parseBool? ob, parseBool? fi, parseBool? re, parseBool? exe, parseZoneTok fz, parseBool? hasEp,
            parseNat? var, parseBool? frn with
      | some m, some (auth, epz), some org, some oz, some ez, some cmdep, some acfg, some acmd, some ex,
        some ob, some fi, some re, some exe, some fz, some hasEp, some var, some frn =>
        -- config::UpdateObject: the variant says whether the target exists, whether a config text is sent and whether
        -- the version is newer (harness/c13.cpp, `var`); config::DeleteObject: variant 1 names a non-API object
        let updObj := m == .configUpdateObject
        let c : Ctx := { authenticated := auth, endpointZone := epz, originZone := org, localZone := d.localZone,
                         objExists := if updObj then (var == 1 || var == 2 || var == 4 || var == 5) else ex,
                         objZone := oz,
                         -- only command_endpoint == the sender's own endpoint counts (1); its zone mate (2) or the
                         -- receiver (3) as command endpoint give the sender nothing
                         senderIsCommandEndpoint := cmdep == 1 && epz.isSome,
                         execEndpointZone := if ex && m == .executedCommand then ez else none,
                         forwardZone := if m == .executeCommand then ez else none,
                         acceptConfig := acfg, acceptCommands := acmd,
                         configEmpty := updObj && (var == 3 || var == 4),
                         versionNewer := !(updObj && var == 2),
                         apiPackage := !(m == .configDeleteObject && var == 1),
                         childLacksCapability := m == .executeCommand && ez.isSome && var == 2,
                         hostInaccessibleToChild := m == .executeCommand && ez.isSome && var == 3 }
        let o : Obs := { objects := ob, files := fi, relayed := re, executed := exe, foreign := frn }
        let mut d := { d with caseNo := d.caseNo + 1 }
        -- origin construction (jsonrpcconnection.cpp:316-327) against the probe
        if c.endpoint.isSome != hasEp then
          IO.println s!"MISMATCH line={n} case={d.caseNo} kind=endpoint impl={showBool hasEp} model={showBool c.endpoint.isSome}"
          d := { d with mismatches := d.mismatches + 1 }
        if c.fromZone != fz then
          IO.println s!"MISMATCH line={n} case={d.caseNo} kind=fromzone impl={showOptZone fz} model={showOptZone c.fromZone}"
          d := { d with mismatches := d.mismatches + 1 }
        -- decision
        let acc := applies f m c
        if acc != o.applied then
          IO.println s!"MISMATCH line={n} case={d.caseNo} kind=decision method={mname} impl={showBool o.applied} model={showBool acc}"
          d := { d with mismatches := d.mismatches + 1 }
        -- connection bookkeeping stays on the sender's own Endpoint object (model: `observe`)
        if touchesOnlySenderEndpoint m && o != (observe f m c o) then
          IO.println s!"MISMATCH line={n} case={d.caseNo} kind=confined method={mname} impl=other model=own-endpoint-only"
          d := { d with mismatches := d.mismatches + 1 }
        -- the property on what the implementation's handlers are told about the sender
        match specOrigin c { hasEndpoint := hasEp, fromZone := fz } with
        | some cl =>
          IO.println s!"SPECFAIL line={n} case={d.caseNo} clause={cl.name} method={mname} fc13a=0"
          d := { d with specfails := d.specfails + 1 }
        | none => pure ()
        -- the property on the implementation's own observation
        match specStep f m c o with
        | some cl =>
          IO.println s!"SPECFAIL line={n} case={d.caseNo} clause={cl.name} method={mname} fc13a={showBool (inFC13a f m c)}"
          d := { d with specfails := d.specfails + 1 }
        | none => pure ()
        -- statistics
        let cn := clsName m.cls
        d := if o.applied then { d with accepted := d.accepted + 1, accByClass := bump d.accByClass cn }
             else { d with refused := d.refused + 1, refByClass := bump d.refByClass cn }
        if !o.applied && entitledB f m c then d := { d with entitledRefused := d.entitledRefused + 1 }
        d := match c.endpoint, c.fromZone with
          | none, _ => { d with anon := d.anon + 1 }
          | some _, none => { d with fzNone := d.fzNone + 1 }
          | some ez, some _ => if ez == d.localZone then { d with fzClaimed := d.fzClaimed + 1 }
                               else { d with fzSender := d.fzSender + 1 }
        d := { d with methodsSeen := d.methodsSeen.insert mname }
        -- a case is non-trivial when the connection has an endpoint, i.e. the zone guards decided
        let key := d.forestTxt ++ "|" ++ " ".intercalate pre
        if c.endpoint.isSome && !d.seen.contains key then
          d := { d with seen := d.seen.insert key, nontrivial := d.nontrivial + 1 }
        return d
      | _, _, _, _, _, _, _, _, _, _, _, _, _, _, _, _, _ => IO.println s!"BADLINE line={n}"; return d
    | _, _, _ => IO.println s!"BADLINE line={n}"; return d
  | _ => IO.println s!"BADLINE line={n}"; return d

def showCounts (pfx : String) (l : List (String × Nat)) : String :=
  " ".intercalate (l.map (fun (k, v) => s!"{pfx}{k}={v}"))

def main : IO Unit := do
  let stdin ← IO.getStdin
  let d ← foldLines stdin handle ({} : DSt)
  IO.println s!"STATS cases={d.caseNo} forests={d.nForests} accepted={d.accepted} refused={d.refused} nontrivial={d.nontrivial} methods={d.methodsSeen.size} entitled_not_applied={d.entitledRefused} anonymous={d.anon} fz_none={d.fzNone} fz_sender={d.fzSender} fz_claimed={d.fzClaimed} mismatches={d.mismatches} specfails={d.specfails} {showCounts "a_" d.accByClass} {showCounts "r_" d.refByClass}"

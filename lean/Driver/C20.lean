/-
  vd_c20 — replays the harness's operation lines through the C20 models (netstring readers, JSON
  codec), compares the observations and evaluates the specification predicates of
  IcingaModel/C20/Spec.lean on the implementation's own observations.

  Input lines: see harness/c20.cpp (T, F, B, J, K).  Output:
    MISMATCH line=<n> case=<k> kind=<T|F|B|J|K> what=<...>
    SPECFAIL line=<n> case=<k> clause=<name>          (clause=no_crash for an `X` line: the real code died on that operation)
    BADLINE line=<n>
    STATS cases=.. steps=.. t=.. f=.. b=.. j=.. k=.. <histogram> nontrivial=.. mismatches=.. specfails=..
-/
import IcingaModel.Common.Proto
import IcingaModel.C20.Model
import IcingaModel.C20.Spec
import IcingaModel.C20.Json
import IcingaModel.C20.Message
import IcingaModel.C20.Dict
import IcingaModel.C20.Limit
import IcingaModel.C20.Utf8
import IcingaModel.C20.SpecText
import IcingaModel.C20.Conn
import IcingaModel.C20.Number
import Std.Data.HashSet

open Icinga Icinga.C20 Icinga.Proto

/-! ### decoding of the line protocol -/

def hexNib (c : Char) : Option Nat :=
  if '0' ≤ c ∧ c ≤ '9' then some (c.toNat - 48)
  else if 'a' ≤ c ∧ c ≤ 'f' then some (c.toNat - 87) else none

def unhexAux : List Char → Array UInt8 → Option (Array UInt8)
  | [], acc => some acc
  | [_], _ => none
  | a :: b :: r, acc =>
    match hexNib a, hexNib b with
    | some x, some y => unhexAux r (acc.push (UInt8.ofNat (x * 16 + y)))
    | _, _ => none

def unhex (s : String) : Option Bytes :=
  if s == "-" || s == "" then some [] else (unhexAux s.toList #[]).map Array.toList

def hexOf (bs : Bytes) : String :=
  let d := "0123456789abcdef".toList.toArray
  String.ofList (bs.foldr (fun b acc => d[b.toNat / 16]! :: d[b.toNat % 16]! :: acc) [])

def parseMax (s : String) : Option (Option Nat) :=
  if s == "-1" then some none else (s.toNat?).map some

/-- The harness's `Cut`: sizes capped at 4096, zero sizes skipped, remainder in 4096-byte blocks. -/
def blocks (n : Nat) : Nat → Bytes → List Bytes
  | 0, _ => []
  | fuel + 1, bs => if bs.isEmpty then [] else bs.take n :: blocks n fuel (bs.drop n)

def cutBy : List Nat → Bytes → List Bytes
  | [], bs => blocks 4096 (bs.length + 1) bs
  | c :: cs, bs =>
    let c := if c > 4096 then 4096 else c
    if c == 0 || bs.isEmpty then cutBy cs bs else bs.take c :: cutBy cs (bs.drop c)

def parseCuts (s : String) : Option (List Nat) :=
  if s == "-" then some [] else (s.splitOn ",").mapM String.toNat?

def chunksFor (kind : String) (cuts : List Nat) (bs : Bytes) : List Bytes :=
  if kind == "s" then blocks 65536 (bs.length + 1) bs else cutBy cuts bs

def parseStatus (w : String) : Option SObs :=
  if w == "n" then some .need else if w == "e" then some .eof else if w == "h" then some .hang
  else if w.startsWith "x" then some .err
  else if w.startsWith "i" then (unhex (w.drop 1).toString).map .item else none

def showSObs : SObs → String
  | .item p => "i" ++ hexOf p | .need => "n" | .eof => "e" | .err => "x" | .hang => "h"

/-- Model statuses, one per call; kinds c/s: until end-of-file or error. -/
def modelCalls (max : Option Nat) : Nat → Ctx → List Bytes → Array SObs → Array SObs × Ctx
  | 0, ctx, _, acc => (acc.push .hang, ctx)
  | fuel + 1, ctx, stream, acc =>
    match nsBufCall max ctx stream with
    | (.eof, c, _) => (acc.push .eof, c)
    | (.error _, c, _) => (acc.push .err, c)
    | (.needData, c, s) => modelCalls max fuel c s (acc.push .need)
    | (.newItem p, c, s) => modelCalls max fuel c s (acc.push (.item p))

/-- FIFO feeding: after each chunk, call until need-data (or an error, which ends everything). -/
def modelFifoChunk (max : Option Nat) : Nat → Ctx → List Bytes → Array SObs → Array SObs × Ctx × Bool
  | 0, ctx, _, acc => (acc.push .hang, ctx, true)
  | fuel + 1, ctx, stream, acc =>
    match nsBufCall max ctx stream with
    | (.eof, c, _) => (acc.push .eof, c, true)
    | (.error _, c, _) => (acc.push .err, c, true)
    | (.needData, c, _) => (acc.push .need, c, false)
    | (.newItem p, c, s) => modelFifoChunk max fuel c s (acc.push (.item p))

def modelFifo (max : Option Nat) : List Bytes → Ctx → Array SObs → Array SObs
  | [], _, acc => acc
  | ch :: rest, ctx, acc =>
    let (acc, ctx, stop) := modelFifoChunk max (ctx.buf.length + ch.length + 3) ctx [ch] acc
    if stop then acc else modelFifo max rest ctx acc

def modelStatuses (kind : String) (max : Option Nat) (chunks : List Bytes) : List SObs :=
  if kind == "f" then (modelFifo max chunks {} #[]).toList
  else (modelCalls max (runFuel {} chunks) {} chunks #[]).1.toList

/-! ### JSON tokens -/

abbrev JV := JValue (List UInt8)

/-- JSON number grammar (RFC 8259): -?(0|[1-9][0-9]*)(\.[0-9]+)?([eE][+-]?[0-9]+)? -/
def jsonNumberOk (t : List UInt8) : Bool :=
  let isD (b : UInt8) := decide (48 ≤ b.toNat) && decide (b.toNat ≤ 57)
  let t := match t with | 45 :: r => r | r => r
  let intPart := t.takeWhile isD
  let r := t.drop intPart.length
  let intOk := match intPart with | [] => false | [_] => true | d :: _ => d != 48
  let (fracOk, r) := match r with
    | 46 :: r' => let f := r'.takeWhile isD; (!f.isEmpty, r'.drop f.length)
    | _ => (true, r)
  let expOk := match r with
    | [] => true
    | e :: r' => if e == 101 || e == 69 then
        let r'' := match r' with | 43 :: x => x | 45 :: x => x | x => x
        !r''.isEmpty && r''.all isD
      else false
  intOk && fracOk && expOk

/-- The model decoder recurses once per nesting level; texts with more than 20000 opening brackets are not run
    through it in the driver (the driver's own stack), only the specification clauses are evaluated on them.
    (The limit of the code under test is 1000; such texts are refused by code and model alike.) -/
def tooManyOpeners (bs : Bytes) : Bool := (bs.filter (fun b => b == 91 || b == 123)).length > 20000

/-- `sanitise`, skipping the (quadratic, length-recomputing) model loop on pure ASCII where it is the identity
    (theorem `sanitise_ascii` in IcingaProofs/C20/Utf8Lemmas.lean). -/
def sanitiseD (bs : Bytes) : Bytes := if bs.all (fun b => b.toNat < 0x80) then bs else sanitise bs

def tokCodec : NumCodec (List UInt8) := { fmt := id, parse := fun t => if jsonNumberOk t then some t else none }

/-- The characters an Icinga string (arbitrary bytes) stands for on the wire: sanitise (ValidateUTF8), decode —
    the model's `decodeLossy`; total. -/
def utf8ToChars (bs : Bytes) : Option (List Char) := some (decodeLossy bs)

def hexNat (s : String) : Option Nat :=
  s.toList.foldl (fun acc c => match acc, hexNib c with | some a, some x => some (a * 16 + x) | _, _ => none) (some 0)

/-- A plain decimal integer literal (what `AppendJson(i)` emits)? -/
def pureIntLiteral (t : List UInt8) : Bool :=
  let t := match t with | 45 :: r => r | r => r
  !t.isEmpty && t.all (fun b => decide (48 ≤ b.toNat) && decide (b.toNat ≤ 57))

/-- The oracle text of every `d<bits>:<text>` token against the model of NumberFloat: on the integer path the text is
    the model's literal; off it (floating-point printer) the text is not an integer literal. -/
def numberTokensOk (toks : List String) : Bool :=
  toks.all (fun t =>
    if t.startsWith "d" then
      match (t.drop 1).toString.splitOn ":" with
      | [b, h] =>
        match hexNat b, unhex h with
        | some bits, some txt =>
          (match numberFloatText bits with
           | some lit => txt == lit
           | none => !pureIntLiteral txt)
        | _, _ => true
      | _ => true
    else true)

/-- Parse value tokens (prefix order) into a model value.  `bits = false`: numbers become their wire text (what the
    encoder model prints: the decimal integer, resp. the oracle text of the number codec).  `bits = true`: numbers
    become their VALUE — `i<k>` the integer k, `d<bits>:…` the binary64 bit pattern — for the bit-exact comparison of
    the round trip (the text is ignored). -/
def parseTokV (bits : Bool) : Nat → List String → Option (JV × List String)
  | 0, _ => none
  | _, [] => none
  | fuel + 1, t :: rest =>
    if t == "z" then some (.null, rest)
    else if t == "t" then some (.bool true, rest)
    else if t == "f" then some (.bool false, rest)
    else if t.startsWith "i" then ((t.drop 1).toString.toInt?).map (fun i => (.num (if bits then 105 :: intCodec.fmt i else intCodec.fmt i), rest))
    else if t.startsWith "d" then
      match (t.drop 1).toString.splitOn ":" with
      | [b, h] =>
        if bits then (if b.length == 16 then some (.num (100 :: b.toUTF8.toList), rest) else none)
        else
          -- NumberFloat's integer path is MODELLED (Number.lean): the model prints the literal itself; only the
          -- floating-point printer's text is an oracle input
          match (hexNat b).bind numberFloatText with
          | some t => some (.num t, rest)
          | none => (unhex h).map (fun x => (.num x, rest))
      | _ => none
    else if t.startsWith "s" then ((unhex (t.drop 1).toString).bind utf8ToChars).map (fun s => (.str s, rest))
    else if t.startsWith "a" then
      match (t.drop 1).toString.toNat? with
      | none => none
      | some n =>
        let rec elems : Nat → Nat → List String → List JV → Option (List JV × List String)
          | 0, _, r, acc => some (acc.reverse, r)
          | k + 1, f, r, acc =>
            match parseTokV bits fuel r with
            | some (v, r') => elems k f r' (v :: acc)
            | none => none
        (elems n fuel rest []).map (fun (xs, r) => (.arr xs, r))
    else if t.startsWith "o" then
      match (t.drop 1).toString.toNat? with
      | none => none
      | some n =>
        let rec members : Nat → List String → List (List Char × JV) → Option (List (List Char × JV) × List String)
          | 0, r, acc => some (acc.reverse, r)
          | k + 1, r, acc =>
            match r with
            | kt :: r1 =>
              if kt.startsWith "k" then
                match (unhex (kt.drop 1).toString).bind utf8ToChars, parseTokV bits fuel r1 with
                | some key, some (v, r2) => members k r2 ((key, v) :: acc)
                | _, _ => none
              else none
            | [] => none
        (members n rest []).map (fun (kvs, r) => (.obj kvs, r))
    else none

def charsToHex (s : List Char) : String := hexOf (utf8Encode s)

def ltChars : List Char → List Char → Bool
  | [], [] => false
  | [], _ :: _ => true
  | _ :: _, [] => false
  | a :: as, b :: bs => if a.val < b.val then true else if b.val < a.val then false else ltChars as bs

mutual
  /-- Tokens of a model value as the harness renders an Icinga `Value`; `exact`: numbers as their wire
      text (J lines), otherwise only plain integers are comparable (K lines). -/
  def renderV (exact : Bool) : JV → List String
    | .null => ["z"]
    | .bool b => [if b then "t" else "f"]
    | .num t =>
      if exact then ["#" ++ hexOf t]
      else match intCodec.parse t with
        | some i => if i.natAbs ≤ 9007199254740992 then ["#" ++ hexOf (intCodec.fmt i)] else ["#?"]
        | none => ["#?"]
    | .str s => ["s" ++ charsToHex s]
    | .arr xs => ("a" ++ toString xs.length) :: renderElems exact xs
    | .obj kvs => ("o" ++ toString kvs.length) :: renderMembers exact kvs
  def renderElems (exact : Bool) : List JV → List String
    | [] => []
    | x :: xs => renderV exact x ++ renderElems exact xs
  def renderMembers (exact : Bool) : List (List Char × JV) → List String
    | [] => []
    | (k, v) :: r => ("k" ++ charsToHex k) :: (renderV exact v ++ renderMembers exact r)
end

mutual
  /-- Does the value contain a number whose range the grammar does not settle (exponent or very long)?
      Whether such a token overflows binary64 (`1e999` is rejected by the lexer) is the number codec's business. -/
  def hasRangeNum : JV → Bool
    | .num t => t.contains 101 || t.contains 69 || t.length > 300
    | .arr xs => hasRangeNumElems xs
    | .obj kvs => hasRangeNumMembers kvs
    | _ => false
  def hasRangeNumElems : List JV → Bool
    | [] => false
    | x :: xs => hasRangeNum x || hasRangeNumElems xs
  def hasRangeNumMembers : List (List Char × JV) → Bool
    | [] => false
    | (_, v) :: r => hasRangeNum v || hasRangeNumMembers r
end

/-- Nesting depth of the value the harness rendered (prefix tokens `a<n>` / `o<n>` open a container of n items,
    `k…` are keys); `?` = rendering stopped below depth 3000.  The stack holds the number of items still missing in
    every open container. -/
def tokDepth (toks : List String) : Nat :=
  let rec close : List Nat → List Nat
    | [] => []
    | 0 :: r => close r            -- unreachable: entries are > 0
    | 1 :: r => close r
    | (k + 1) :: r => k :: r
  let step (st : List Nat × Nat) (t : String) : List Nat × Nat :=
    let (stack, best) := st
    if t.startsWith "k" then (stack, best)
    else if t == "?" then (stack, Nat.max best 3001)
    else if t.startsWith "a" || t.startsWith "o" then
      match (t.drop 1).toString.toNat? with
      | some 0 => (close stack, Nat.max best (stack.length + 1))
      | some n => (n :: stack, Nat.max best (stack.length + 1))
      | none => (stack, best)
    else (close stack, best)
  (toks.foldl step ([], 0)).2

/-- The property's "within the declared limits" for decoded documents, on the implementation's own observation. -/
def depthSpec (toks : String) : Option Clause :=
  if tokDepth (toks.splitOn ",") > jsonMaxNestingDepth then some .depthLimit else none

/-- The implementation's tokens in the same normal form (`i5` → `#35`, `d…:<hex>` → `#<hex>`, "s-"/"s" alike). -/
def normTok (exact : Bool) (t : String) : String :=
  if t.startsWith "i" then
    match (t.drop 1).toString.toInt? with
    | some i => "#" ++ hexOf (intCodec.fmt i)
    | none => t
  else if t.startsWith "d" then
    (if exact then (match (t.drop 1).toString.splitOn ":" with | [_, h] => "#" ++ (if h == "-" then "" else h) | _ => t) else "#?")
  else t

def tokEq (m i : String) : Bool := m == i || (m == "#?" && i.startsWith "#")

def toksEq : List String → List String → Bool
  | [], [] => true
  | m :: ms, i :: is => tokEq m i && toksEq ms is
  | _, _ => false

/-! ### driver state -/

structure DSt where
  caseNo : Nat := 0
  steps : Nat := 0
  nT : Nat := 0
  nF : Nat := 0
  nB : Nat := 0
  nJ : Nat := 0
  nK : Nat := 0
  tOk : Nat := 0
  tErr : Nat := 0
  tEof : Nat := 0
  tKindDiff : Nat := 0
  tViolating : Nat := 0
  bItems : Nat := 0
  bErr : Nat := 0
  fChunks : Nat := 0
  jEsc : Nat := 0
  jSkipped : Nat := 0
  jSanitised : Nat := 0
  nU : Nat := 0
  uChanged : Nat := 0
  kImplOk : Nat := 0
  kModelOk : Nat := 0
  kModelStricter : Nat := 0
  kNumRange : Nat := 0
  nD : Nat := 0
  nM : Nat := 0
  dDict : Nat := 0
  dRejected : Nat := 0
  dModelSilent : Nat := 0
  mMsg : Nat := 0
  mRejected : Nat := 0
  crashes : Nat := 0
  nC : Nat := 0
  cDelivered : Nat := 0
  cOverLimit : Nat := 0
  nS : Nat := 0
  nR : Nat := 0
  rModelled : Nat := 0
  rBig : Nat := 0
  tAllocSeen : Nat := 0
  tAllocBig : Nat := 0
  sErr : Nat := 0
  sModelCrash : Nat := 0
  failedClauses : List String := []
  mismatchKinds : List String := []
  seen : Std.HashSet UInt64 := {}
  mismatches : Nat := 0
  specfails : Nat := 0

def DSt.mark (d : DSt) (line : String) : DSt :=
  -- take the set out of the structure first so that the insert finds it unshared (no copy per insert)
  let s := d.seen
  let d := { d with seen := {} }
  { d with seen := s.insert (hash (line.splitOn " | ").head!) }

def report (d : DSt) (n : Nat) (kind what : String) : IO DSt := do
  let first := !d.mismatchKinds.contains kind
  if d.mismatches < 50 || first then IO.println s!"MISMATCH line={n} case={d.caseNo} kind={kind} what={what}"
  return { d with mismatches := d.mismatches + 1, mismatchKinds := if first then kind :: d.mismatchKinds else d.mismatchKinds }

def specfail (d : DSt) (n : Nat) (cl : Clause) : IO DSt := do
  -- at most 50 lines, but the first failure of every clause is always printed
  let first := !d.failedClauses.contains cl.name
  if d.specfails < 50 || first then IO.println s!"SPECFAIL line={n} case={d.caseNo} clause={cl.name}"
  return { d with specfails := d.specfails + 1, failedClauses := if first then cl.name :: d.failedClauses else d.failedClauses }

def bad (d : DSt) (n : Nat) : IO DSt := do IO.println s!"BADLINE line={n}"; return d

/-- The trailing `a<N>` token of a T line: the largest single allocation made while the reader ran. -/
def splitAlloc (post : List String) : List String × Option Nat :=
  match post.getLast? with
  | some t => if t.startsWith "a" then (match (t.drop 1).toString.toNat? with | some a => (post.dropLast, some a) | none => (post, none)) else (post, none)
  | none => (post, none)

def handleT (d : DSt) (n : Nat) (line : String) (pre post0 : List String) : IO DSt := do
  let (post, alloc?) := splitAlloc post0
  match pre, post with
  | [_v, mx, hx, _cuts], o :: orest =>
    match parseMax mx, unhex hx with
    | some max, some bs =>
      let obs? : Option (TlsObs × Nat) :=
        match o, orest with
        | "ok", [ph, r] => match unhex ph, r.toNat? with | some p, some r => some (.ok p r, 0) | _, _ => none
        | "err", [c, r] => match c.toNat?, r.toNat? with | some c, some r => some (.err r, c) | _, _ => none
        | "eof", [] => some (.eof, 0)
        | _, _ => none
      match obs? with
      | none => bad d n
      | some (io, code) =>
        let mut d := { d with steps := d.steps + 1, nT := d.nT + 1 }
        let mr := nsReadTls max bs
        let mo := obsOfTls mr
        if mo != io then
          d ← report d n "T" s!"impl={o} model={repr mo}"
        else
          match mr.out with
          | .error e _ => if e.toNat != code then d := { d with tKindDiff := d.tKindDiff + 1 }
          | _ => pure ()
        match tlsSpec max bs io with
        | some cl => d ← specfail d n cl
        | none => pure ()
        match tlsRejectSpec max bs io with
        | some cl => d ← specfail d n cl
        | none => pure ()
        match alloc? with
        | some a =>
          match tlsAllocSpec max a with
          | some cl => d ← specfail d n cl
          | none => pure ()
          d := { d with tAllocSeen := d.tAllocSeen + 1, tAllocBig := d.tAllocBig + (if a > allocSlack then 1 else 0) }
        | none => pure ()
        if specViolation max bs then d := { d with tViolating := d.tViolating + 1 }
        d := match io with
          | .ok _ _ => { d with tOk := d.tOk + 1 }
          | .err _ => { d with tErr := d.tErr + 1 }
          | .eof => { d with tEof := d.tEof + 1 }
        if io != .eof then d := d.mark line
        return d
    | _, _ => bad d n
  | _, _ => bad d n

def handleF (d : DSt) (n : Nat) (line : String) (pre post : List String) : IO DSt := do
  match pre, post with
  | [kind, mx, pls, cuts], sh :: sts =>
    let ps? : Option (List Bytes) :=
      if pls == "-" then some [] else (pls.splitOn ",").mapM (fun h => if h == "e" then some [] else unhex h)
    match parseMax mx, ps?, parseCuts cuts, unhex sh, sts.mapM parseStatus with
    | some max, some ps, some cuts, some stream, some obs =>
      let mut d := { d with steps := d.steps + obs.length, nF := d.nF + 1 }
      if nsEncodeAll ps != stream then
        d ← report d n "F" "writer: stream differs from nsEncodeAll"
      let chunks := chunksFor kind cuts stream
      let ms := modelStatuses kind max chunks
      if ms != obs then
        d ← report d n "F" s!"impl={" ".intercalate (obs.map showSObs)} model={" ".intercalate (ms.map showSObs)}"
      match framedSpec max ps stream (kind != "f") obs with
      | some cl => d ← specfail d n cl
      | none => pure ()
      d := { d with fChunks := d.fChunks + chunks.length, bItems := d.bItems + (itemsOf obs).length }
      if chunks.length ≥ 2 && !(itemsOf obs).isEmpty then d := d.mark line
      return d
    | _, _, _, _, _ => bad d n
  | _, _ => bad d n

def handleB (d : DSt) (n : Nat) (line : String) (pre post : List String) : IO DSt := do
  match pre with
  | [kind, mx, hx, cuts] =>
    match parseMax mx, unhex hx, parseCuts cuts, post.mapM parseStatus with
    | some max, some stream, some cuts, some obs =>
      let mut d := { d with steps := d.steps + obs.length, nB := d.nB + 1 }
      let chunks := chunksFor kind cuts stream
      let ms := modelStatuses kind max chunks
      if ms != obs then
        d ← report d n "B" s!"impl={" ".intercalate (obs.map showSObs)} model={" ".intercalate (ms.map showSObs)}"
      match hostileSpec stream (kind != "f") obs with
      | some cl => d ← specfail d n cl
      | none => pure ()
      if obs.contains .err then d := { d with bErr := d.bErr + 1 }
      d := { d with bItems := d.bItems + (itemsOf obs).length }
      if obs.contains .err || !(itemsOf obs).isEmpty then d := d.mark line
      return d
    | _, _, _, _ => bad d n
  | _ => bad d n

def handleJ (d : DSt) (n : Nat) (line : String) (pre post : List String) : IO DSt := do
  match pre, post with
  | [toks], [eh, back] =>
    let tl := toks.splitOn ","
    match unhex eh with
    | none => bad d n
    | some enc =>
      let mut d := { d with steps := d.steps + 1, nJ := d.nJ + 1 }
      match parseTokV false (tl.length + 1) tl with
      | some (v, []) =>
        -- the property on the implementation's own observation: decoded value = original value, numbers compared
        -- BIT-EXACTLY (binary64 bit pattern in = bit pattern out; the harness renders both zeros as the integer 0:
        -- JsonEncode prints -0.0 as 0 by design) — for strings that are not well-formed UTF-8: the sanitised string;
        -- for keys that collide after sanitising: the dictionary `Set` builds (sorted, last wins)
        if back != toks then
          let bl := back.splitOn ","
          match parseTokV true (tl.length + 1) tl, parseTokV true (bl.length + 1) bl with
          | some (vo, []), some (vb, []) =>
            if renderV true (canonV vo) != renderV true (canonV vb) then
              d ← specfail d n .jsonRoundtrip
            else d := { d with jSanitised := d.jSanitised + 1 }
          | _, _ => d ← specfail d n .jsonRoundtrip
        if !numberTokensOk tl then
          d ← report d n "J" "NumberFloat: integer path taken/not taken against the model (Number.lean)"
        let me := jsonEncode tokCodec v
        if me != enc then
          d ← report d n "J" s!"encode impl={eh} model={hexOf me}"
        match jsonDecodeL tokCodec enc with
        | some v' =>
          if renderV true v' != renderV true v then
            d ← report d n "J" "decode: model decodes the implementation's text to a different value"
        | none => d ← report d n "J" "decode: model rejects the implementation's text"
        if enc.contains 92 then d := { d with jEsc := d.jEsc + 1 }
        if enc.contains 92 || enc.contains 91 || enc.contains 123 || enc.contains 46 then d := d.mark line
        return d
      | _ => return { d with jSkipped := d.jSkipped + 1 }   -- e.g. a string that is not valid UTF-8 (sanitised by the code)
  | _, _ => bad d n

def handleK (d : DSt) (n : Nat) (line : String) (pre post : List String) : IO DSt := do
  match pre with
  | [hx] =>
    match unhex hx with
    | none => bad d n
    | some txt =>
      let mut d := { d with steps := d.steps + 1, nK := d.nK + 1 }
      let implOk := post.head? == some "ok"
      if !(implOk || post == ["err"]) then return (← bad d n)
      if implOk then
        d := { d with kImplOk := d.kImplOk + 1 }
        match depthSpec ((post.drop 1).headD "") with
        | some cl => d ← specfail d n cl
        | none => pure ()
      -- JsonDecode sanitises the text first (json.cpp:211); the model decoder then speaks only about the
      -- whitespace-free ASCII language the encoder emits (raw non-ASCII inside strings: model silent)
      match (if tooManyOpeners txt then none else some (sanitiseD txt)) with
      | none => return d
      | some txt =>
        match jsonDecodeL tokCodec txt with
        | some v =>
          d := { d with kModelOk := d.kModelOk + 1 }
          d := d.mark line
          if !implOk then
            if hasRangeNum v then d := { d with kNumRange := d.kNumRange + 1 }
            else d ← report d n "K" "model accepts, implementation rejects"
          else
            let it := ((post.drop 1).headD "").splitOn "," |>.map (normTok false)
            let mt := renderV false (canonV v)
            -- "?" = the harness stopped rendering below depth 3000
            if !it.contains "?" && !toksEq mt it then
              d ← report d n "K" s!"value impl={",".intercalate it} model={",".intercalate mt}"
          return d
        | none =>
          if implOk then d := { d with kModelStricter := d.kModelStricter + 1 }
          return d
  | _ => bad d n

/-- Compare what DecodeMessage returned for `payload` with the model; `none` = agreement (or the model is silent:
    text outside the whitespace-free language it decodes, or not valid UTF-8). -/
def messageDiff (payload : Bytes) (obs : MsgObs) (toks : String) : Option String × Bool :=
  match (if tooManyOpeners payload then none else some (sanitiseD payload)) with
  | none => (none, true)
  | some payload =>
    match jsonDecodeL tokCodec payload with
    | none => (none, true)
    | some v =>
      match decodeMessage tokCodec payload with
      | .ok kvs =>
        if obs != .dict then (if hasRangeNum v then (none, true) else (some "model: dictionary, implementation: no dictionary", false))
        else
          let it := (toks.splitOn ",").map (normTok false)
          let mt := renderV false (canonV (.obj kvs))
          if it.contains "?" || toksEq mt it then (none, false) else (some s!"value impl={",".intercalate it} model={",".intercalate mt}", false)
      | .error _ =>
        if obs == .rejected then (none, false) else (some "model: rejected (not an object), implementation: not rejected", false)

def parseMsgObs (o : String) : Option MsgObs :=
  if o == "dict" || o == "msg" then some .dict else if o == "rejected" then some .rejected
  else if o == "null" then some .null else if o == "other" then some .other else none

def handleD (d : DSt) (n : Nat) (line : String) (pre post : List String) : IO DSt := do
  match pre, post with
  | [hx], o :: orest =>
    match unhex hx, parseMsgObs o with
    | some payload, some obs =>
      let mut d := { d with steps := d.steps + 1, nD := d.nD + 1 }
      match messageSpec payload obs with
      | some cl => d ← specfail d n cl
      | none => pure ()
      if obs == .dict then
        match depthSpec (orest.headD "") with
        | some cl => d ← specfail d n cl
        | none => pure ()
      let (diff, silent) := messageDiff payload obs (orest.headD "")
      match diff with
      | some w => d ← report d n "D" w
      | none => pure ()
      if silent then d := { d with dModelSilent := d.dModelSilent + 1 }
      if obs == .dict then d := { d with dDict := d.dDict + 1 }
      if obs == .rejected then d := { d with dRejected := d.dRejected + 1 }
      if !silent then d := d.mark line
      return d
    | _, _ => bad d n
  | _, _ => bad d n

def handleM (d : DSt) (n : Nat) (line : String) (pre post : List String) : IO DSt := do
  match pre, post with
  | [_v, mx, hx, _cuts], o :: orest =>
    match parseMax mx, unhex hx with
    | some max, some bs =>
      let mut d := { d with steps := d.steps + 1, nM := d.nM + 1 }
      let mr := (nsReadTls max bs).out
      -- frame layer
      let frameObs? : Option (Option TlsObs) :=      -- some none: a payload was delivered to DecodeMessage
        match o, orest with
        | "err", [_, r] => r.toNat?.map (fun r => some (.err r))
        | "eof", [] => some (some .eof)
        | "msg", [_, _] => some none
        | "rejected", [_] => some none
        | _, _ => none
      match frameObs? with
      | none => bad d n
      | some (some fo) =>
        if obsOfTls (nsReadTls max bs) != fo then
          d ← report d n "M" s!"frame layer impl={o} model={repr (obsOfTls (nsReadTls max bs))}"
        match tlsSpec max bs fo with
        | some cl => d ← specfail d n cl
        | none => pure ()
        match tlsRejectSpec max bs fo with
        | some cl => d ← specfail d n cl
        | none => pure ()
        return d
      | some none =>
        let restLen := (orest.getLast?.bind String.toNat?).getD 0
        let obs : MsgObs := if o == "msg" then .dict else .rejected
        -- specification on the implementation's observation: the frame the stream starts with, read off the format
        match specFrame bs with
        | some (p, r) =>
          if r.length != restLen || !withinLimit max p.length then d ← specfail d n .tlsOnlyCanonical
          else
            match messageSpec p obs with
            | some cl => d ← specfail d n cl
            | none => pure ()
            if obs == .dict then
              match depthSpec (orest.headD "") with
              | some cl => d ← specfail d n cl
              | none => pure ()
        | none => d ← specfail d n .tlsOnlyCanonical
        if specViolation max bs then d ← specfail d n .tlsViolationNotRejected
        -- model
        match mr with
        | .ok p rest =>
          if rest.length != restLen then d ← report d n "M" "rest of the stream differs"
          let (diff, _) := messageDiff p obs (orest.headD "")
          match diff with
          | some w => d ← report d n "M" w
          | none => pure ()
        | _ => d ← report d n "M" s!"frame layer impl=payload model={repr (obsOfTls (nsReadTls max bs))}"
        if obs == .dict then d := { d with mMsg := d.mMsg + 1 } else d := { d with mRejected := d.mRejected + 1 }
        return d.mark line
    | _, _ => bad d n
  | _, _ => bad d n

def handleU (d : DSt) (n : Nat) (line : String) (pre post : List String) : IO DSt := do
  match pre, post with
  | [hx], [oh] =>
    match unhex hx, unhex oh with
    | some inp, some out =>
      let mut d := { d with steps := d.steps + 1, nU := d.nU + 1 }
      let m := sanitise inp
      if m != out then
        d ← report d n "U" s!"impl={hexOf out} model={hexOf m}"
      match sanitiseSpec inp out with
      | some cl => d ← specfail d n cl
      | none => pure ()
      if out != inp then
        d := d.mark line
        d := { d with uChanged := d.uChanged + 1 }
      return d
    | _, _ => bad d n
  | _, _ => bad d n


/-! ### a started connection (C lines), the state file (S lines) -/

def ascii (s : String) : Bytes := s.toList.map (fun c => UInt8.ofNat c.toNat)

/-- The message the harness's `ProbePayload(idx, pad)` writes. -/
def probePayload (idx pad : Nat) : Bytes :=
  ascii ("{\"jsonrpc\":\"2.0\",\"method\":\"verif::probe\",\"params\":{\"i\":" ++ toString idx ++ ",\"pad\":\"") ++ List.replicate pad 120 ++ ascii "\"}}"

/-- items → the frames and the raw tail (a raw item is accepted only as the last one). -/
def parseConnItems (items : String) : Option (List ConnFrame × Bytes) :=
  if items == "-" then some ([], []) else
  let rec go : Nat → List String → List ConnFrame → Option (List ConnFrame × Bytes)
    | _, [], acc => some (acc.reverse, [])
    | idx, it :: rest, acc =>
      if it.startsWith "p" then
        match (it.drop 1).toString.toNat? with
        | some n => go (idx + 1) rest (⟨idx, probePayload idx n⟩ :: acc)
        | none => none
      else if it.startsWith "r" then
        if rest.isEmpty then (unhex (it.drop 1).toString).map (fun t => (acc.reverse, t)) else none
      else none
  go 0 (items.splitOn ",") []

def dictGetS (k : String) (kvs : List (List Char × JV)) : Option JV :=
  (kvs.reverse.find? (fun kv => kv.1 == k.toList)).map (·.2)

/-- The `i` of a verif::probe message. -/
def probeId (kvs : List (List Char × JV)) : Option Nat :=
  match dictGetS "method" kvs, dictGetS "params" kvs with
  | some (.str m), some (.obj ps) =>
    if m == "verif::probe".toList then
      match dictGetS "i" ps with
      | some (.num t) => (String.ofList (t.map (fun b => Char.ofNat b.toNat))).toNat?
      | _ => none
    else none
  | _, _ => none

/-- Ids the model delivers; `true` = it met a dictionary that is not a probe (what MessageHandler does with it is not
    modelled: the comparison stops there). -/
def modelDelivered : List (List (List Char × JV)) → List Nat → List Nat × Bool
  | [], acc => (acc.reverse, false)
  | kvs :: r, acc =>
    match probeId kvs with
    | some i => modelDelivered r (i :: acc)
    | none => (acc.reverse, true)

def handleC (d : DSt) (n : Nat) (line : String) (pre post : List String) : IO DSt := do
  match pre, post with
  | [a, e, items, _cuts], [dl, fin] =>
    let deliv? : Option (List Nat) :=
      if dl == "d-" then some [] else if dl.startsWith "d" then ((dl.drop 1).toString.splitOn ".").mapM String.toNat? else none
    match parseConnItems items, deliv? with
    | some (frames, tail), some delivered =>
      let auth := a == "1"
      let ep := e == "1"
      let mut d := { d with steps := d.steps + 1 + delivered.length, nC := d.nC + 1, cDelivered := d.cDelivered + delivered.length }
      match connSpec auth ep frames tail delivered (fin == "closed") with
      | some cl => d ← specfail d n cl
      | none => pure ()
      let stream := connStream frames tail
      -- model: the limit the constructor/receive loop select, the receive loop on the whole stream
      let (ids, silent) := modelDelivered (connRecv tokCodec auth ep stream) []
      if (if silent then !ids.isPrefixOf delivered else ids != delivered) then
        d ← report d n "C" s!"delivered impl={delivered} model={ids}{if silent then "…" else ""}"
      if (connExpected true frames).2 then d := { d with cOverLimit := d.cOverLimit + 1 }
      if !delivered.isEmpty || !tail.isEmpty then d := d.mark line
      return d
    | _, _ => bad d n
  | _, _ => bad d n

/-- The record of the harness that applies to its probe object, and the value it carries. -/
def goodRecord : Bytes := ascii "{\"type\":\"Host\",\"name\":\"vh\",\"update\":{\"type\":\"Host\",\"check_attempt\":3}}"

/-- Model of RestoreObjects on a file (< 64 KiB: one fill): the buffered read loop, every item to RestoreObject.
    (reader ended in an error, some record crashes) -/
def isWs (b : UInt8) : Bool := b == 32 || b == 9 || b == 10 || b == 13

/-- JSON whitespace around the value (the decoder model speaks about whitespace-free text). -/
def stripWs (bs : Bytes) : Bytes := ((bs.dropWhile isWs).reverse.dropWhile isWs).reverse

def modelRestore (file : Bytes) : Bool × Bool :=
  match restoreItems (blocks 65536 (file.length + 1) file) with
  | none => (true, false)
  | some items => (false, items.any (fun p => restoreRecord tokCodec (stripWs (sanitiseD p)) == .crash))

/-- The record the harness's S lines carry for the probe object: what it writes into check_attempt. -/
def applyGood (p : Bytes) : Option Nat := if p == goodRecord then some 3 else none

/-! ### the state file written and read by the real code (R lines) -/

def bytesToNat? (t : List UInt8) : Option Nat := (String.ofList (t.map (fun b => Char.ofNat b.toNat))).toNat?

/-- What the LAST record named `name` among the dictionaries the model restores carries for the observed attributes. -/
def modelObjState (good : Char) (withValue : Bool) (name : String) (ds : List JV) : Option (ObjState (List String)) :=
  let hit := ds.reverse.find? (fun d => match d with
    | .obj kvs => (match dictGetS "name" kvs with | some (.str s) => s == name.toList | _ => false)
    | _ => false)
  match hit with
  | some (.obj kvs) =>
    match dictGetS "update" kvs with
    | some (.obj up) =>
      match dictGetS "check_attempt" up, dictGetS "last_check_result" up with
      | some (.num t), some (.obj cr) =>
        match bytesToNat? t, dictGetS "output" cr, dictGetS "command" cr with
        | some k, some (.str out), some cmd =>
          some ⟨k, (utf8Encode out).length, (out.filter (· == good)).length, if withValue then renderV true (canonV cmd) else ["z"]⟩
        | _, _, _ => none
      | _, _ => none
    | _ => none
  | _ => none

def handleR (d : DSt) (n : Nat) (line : String) (pre post : List String) : IO DSt := do
  match pre, post with
  | [k1, n1, k2, n2, toks], fh :: o :: orest =>
    let canonToks (bits : Bool) (ts : List String) : Option (List String) :=
      match parseTokV bits (ts.length + 1) ts with
      | some (v, []) => some (renderV true (canonV v))
      | _ => none
    let file? : Option (Option Bytes) := if fh == "-" then some none else (unhex fh).map some
    -- (what the spec compares: numbers by their bits, what the model comparison uses: numbers by their wire text)
    let got? : Option (Option (List (ObjState (List String)) × List (ObjState (List String)))) :=
      match o, orest with
      | "err", [] => some none
      | "ok", [a1, l1, g1, a2, l2, g2, back] =>
        match a1.toNat?, l1.toNat?, g1.toNat?, a2.toNat?, l2.toNat?, g2.toNat?, canonToks true (back.splitOn ","), canonToks false (back.splitOn ",") with
        | some a1, some l1, some g1, some a2, some l2, some g2, some bv, some tv =>
          some (some ([⟨a1, l1, g1, bv⟩, ⟨a2, l2, g2, ["z"]⟩], [⟨a1, l1, g1, tv⟩, ⟨a2, l2, g2, ["z"]⟩]))
        | _, _, _, _, _, _, _, _ => none
      | _, _ => none
    match k1.toNat?, n1.toNat?, k2.toNat?, n2.toNat?, canonToks true (toks.splitOn ","), file?, got? with
    | some k1, some n1, some k2, some n2, some pv, some file?, some got =>
      let mut d := { d with steps := d.steps + 2, nR := d.nR + 1 }
      -- the property on the implementation's own observation
      match stateRoundtripSpec [⟨k1, n1, n1, pv⟩, ⟨k2, n2, n2, ["z"]⟩] (got.map (·.1)) with
      | some cl => d ← specfail d n cl
      | none => pure ()
      match file? with
      | some file =>
        match stateFileSpec file with
        | some cl => d ← specfail d n cl
        | none => pure ()
        -- model: the read loop and RestoreObject's decoding on the file the real DumpObjects wrote
        d := { d with rModelled := d.rModelled + 1 }
        match restoreObjectsM tokCodec (blocks 65536 (file.length + 1) file), got with
        | none, some _ => d ← report d n "R" "model refuses the file the implementation restored"
        | some _, none => d ← report d n "R" "implementation refuses the file the model restores"
        | none, none => pure ()
        | some ds, some (_, gt) =>
          if [modelObjState 'x' true "vh" ds, modelObjState 'y' false "vh2" ds] != gt.map some then
            d ← report d n "R" "restored attributes differ from the records of the file"
      | none => pure ()
      if n1 ≥ 65536 || n2 ≥ 65536 then d := { d with rBig := d.rBig + 1 }
      return d.mark line
    | _, _, _, _, _, _, _ => bad d n
  | _, _ => bad d n

def handleS (d : DSt) (n : Nat) (line : String) (pre post : List String) : IO DSt := do
  match pre with
  | [hx] =>
    let obs? : Option StateObs :=
      match post with
      | ["ok", k] => k.toNat?.map .ok
      | ["err"] => some .err
      | _ => none
    match unhex hx, obs? with
    | some file, some obs =>
      let mut d := { d with steps := d.steps + 1, nS := d.nS + 1 }
      match stateSpec goodRecord 3 file obs with
      | some cl => d ← specfail d n cl
      | none => pure ()
      let (mErr, mCrash) := modelRestore file
      if mCrash then d ← report d n "S" "model: a record crashes, implementation survived"
      -- a file the reader model gets through must not be refused; whether damaged framing is an exception of
      -- RestoreObjects or a silently shortened restore is not the property's business (compared on B lines, kind s)
      else if !mErr && obs == .err then d ← report d n "S" "reader impl=err model=ok"
      -- a file with exactly one applicable record: the model's outcome (theorem state_model_meets_spec) is the implementation's
      else if ((specFramesAll (file.length + 1) file).map (·.count goodRecord)) == some 1
              && stateObsM applyGood 1 (blocks 65536 (file.length + 1) file) != obs then
        d ← report d n "S" "well-framed file with one applicable record: outcome differs from the model's"
      if obs == .err then d := { d with sErr := d.sErr + 1 }
      return d.mark line
    | _, _ => bad d n
  | _ => bad d n

def handle (d : DSt) (n : Nat) (line : String) : IO DSt := do
  let ws := words line
  match ws with
  | [] => return d
  | tag :: rest =>
    if tag.startsWith "#" then return d
    let (pre, post) := splitBar rest
    let d := { d with caseNo := d.caseNo + 1 }
    if tag == "T" then handleT d n line pre post
    else if tag == "F" then handleF d n line pre post
    else if tag == "B" then handleB d n line pre post
    else if tag == "J" then handleJ d n line pre post
    else if tag == "K" then handleK d n line pre post
    else if tag == "D" then handleD d n line pre post
    else if tag == "U" then handleU d n line pre post
    else if tag == "M" then handleM d n line pre post
    else if tag == "C" then handleC d n line pre post
    else if tag == "S" then handleS d n line pre post
    else if tag == "R" then handleR d n line pre post
    else if tag == "X" then
      -- the real code crashed / aborted / hung on this operation: the property's "processed without crashing"
      let d ← specfail d n .noCrash
      -- a state file the model says crashes would be counted apart (none: theorem restore_record_safe)
      let known := match rest with
        | [_, "S", hx] => (match unhex hx with | some f => (modelRestore f).2 | none => false)
        | _ => false
      return { d with crashes := d.crashes + 1, sModelCrash := d.sModelCrash + (if known then 1 else 0) }
    else bad d n

def main : IO Unit := do
  let stdin ← IO.getStdin
  let d ← foldLines stdin handle ({} : DSt)
  IO.println s!"STATS cases={d.caseNo} steps={d.steps} t={d.nT} f={d.nF} b={d.nB} j={d.nJ} k={d.nK} t_ok={d.tOk} t_err={d.tErr} t_eof={d.tEof} t_errkind_diff={d.tKindDiff} t_violating={d.tViolating} buf_items={d.bItems} buf_err={d.bErr} f_chunks={d.fChunks} j_escaped={d.jEsc} j_skipped={d.jSkipped} j_sanitised={d.jSanitised} u={d.nU} u_changed={d.uChanged} k_impl_ok={d.kImplOk} k_model_ok={d.kModelOk} k_model_stricter={d.kModelStricter} k_num_range={d.kNumRange} d={d.nD} m={d.nM} d_dict={d.dDict} d_rejected={d.dRejected} d_model_silent={d.dModelSilent} m_msg={d.mMsg} m_rejected={d.mRejected} c={d.nC} c_delivered={d.cDelivered} c_overlimit={d.cOverLimit} s={d.nS} r={d.nR} r_modelled={d.rModelled} r_big={d.rBig} t_alloc_seen={d.tAllocSeen} t_alloc_big={d.tAllocBig} s_err={d.sErr} s_model_crash={d.sModelCrash} crashes={d.crashes} nontrivial={d.seen.size} mismatches={d.mismatches} specfails={d.specfails}"

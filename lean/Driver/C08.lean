/-
  vd_c08 — replays the harness's operation lines through the C08 model (interval algebra and
  calendar), compares the observations and evaluates the specification predicates on the
  implementation's own observations.

  Input lines (stdin), see harness/c08.cpp:
    Z <tzname> <lo>:<off>,<t1>:<off1>,...
    C <label>
    P <id> <prefer> <incs> <excs> <ranges>
    U <id> <b> <e> <clear> <own> | <vb> <ve> <segs> <fb> <fe> <ownret>
    Q <id> <t,t,...> | <bits>
    G <id> <now> | <bits>                  (is_inside attribute at the virtual present, read twice: replayed as Q <id> now,now)
    K <b> <e> <ranges> | <segs>
    A <id> <now> <own> | <vb> <ve> <segs> <fb> <fe> <ownret>           (real Start: replayed as U <id> now now+86400 1)
    T <now> <owns> | <fired> <order> {<id> <active> <vb> <ve> <segs> <fb> <fe> <ownret>}*
    X ...                                  (operation the harness could not execute: skipped)
  Output lines:
    MISMATCH line=<n> case=<k> what=<observable> impl=<...> model=<...>      (segment lists are compared in canonical form)
    SPECFAIL line=<n> case=<k> clause=<name> t=<t> impl=<0|1> expected=<0|1> corr_ok=<0|1>
    BADLINE line=<n>
    STATS cases=.. updates=.. queries=.. ...
-/
import Std.Data.HashSet
import IcingaModel.Common.Proto
import IcingaModel.C08.Model
import IcingaModel.C08.Spec
import IcingaModel.C08.Calendar
import IcingaModel.C08.CalSpec

open Icinga Icinga.C08 Icinga.Proto

/-- Coverage statistic only: does some excluded segment share its begin or end with an own/included
    segment (the situation of the repaired F-C08a)? -/
def sharesBoundary (own : List Seg) (incs excs : List (List Seg)) : Bool :=
  excs.flatten.any fun x => (own ++ incs.flatten).any fun s =>
    (s.1 == x.1 && decide (x.2 < s.2)) || (s.2 == x.2 && decide (s.1 < x.1))

structure PDef where
  id : Nat
  prefer : Bool
  incs : List Nat
  excs : List Nat
  ranges : Option (List (String × String))
  model : Period := {}
  impl : Period := {}
  last : Option UpdObs := none
  lastTick : Option TickObs := none
  refWin : List (Nat × Option Int × Option Int) := []   -- windows of the referenced periods when they were last merged
  active : Bool := false

structure DSt where
  tz : Tz := []
  tzName : String := "UTC"
  ps : List PDef := []
  caseNo : Nat := 0
  updates : Nat := 0
  queries : Nat := 0
  scripts : Nat := 0
  calSegs : Nat := 0
  calChecked : Nat := 0
  tzChecked : Nat := 0
  argsDiffer : Nat := 0      -- update function asked for another (covering) region / also when there was nothing to do
  reprDiffers : Nat := 0     -- updates where model and implementation store the same set as different lists
  strideDst : Nat := 0       -- calendar evaluations in which a stride > 1 is counted across a UTC-offset change
  noops : Nat := 0
  starts : Nat := 0          -- real TimePeriod::Start calls
  gets : Nat := 0            -- reads of the is_inside attribute at the virtual present (GetIsInside + reflected field)
  ticks : Nat := 0           -- runs of the real UpdateTimerHandler
  ticksNotFired : Nat := 0
  tickUpdates : Nat := 0     -- (period, timer run) pairs replayed
  tickNoops : Nat := 0
  tickPurged : Nat := 0      -- ... in which PurgeSegments dropped a segment
  refsChecked : Nat := 0      -- IsInside answers compared with the current answers of the referenced periods
  refsStale : Nat := 0        -- ... disagreements where a referenced period's window did not contain the instant when it was merged
  tickStale : Nat := 0       -- ... in which a referenced period had not been purged/updated yet (iterated later)
  nonClear : Nat := 0
  withInc : Nat := 0
  withExc : Nat := 0
  splitN : Nat := 0          -- updates whose result has more segments than were added (a cut happened)
  sharedBoundary : Nat := 0  -- updates in which an excluded segment shares its begin/end with a longer range
  insideYes : Nat := 0
  insideNo : Nat := 0
  outsideWindow : Nat := 0
  caseMismatch : Bool := false
  caseNontrivial : Bool := false
  caseHash : UInt64 := 7
  seen : Std.HashSet UInt64 := {}
  nontrivial : Nat := 0
  mismatches : Nat := 0
  specfails : Nat := 0
  dayForms : List (String × Nat) := []

def splitOnChar (s : String) (c : Char) : List String :=
  if s == "-" || s == "" then [] else s.splitOn (String.singleton c)

def parseSeg? (w : String) : Option Seg :=
  match w.splitOn ":" with
  | [a, b] => do let a ← a.toInt?; let b ← b.toInt?; pure (a, b)
  | _ => none

def parseSegs? (s : String) : Option (List Seg) := (splitOnChar s ',').mapM parseSeg?
def parseNats? (s : String) : Option (List Nat) := (splitOnChar s ',').mapM String.toNat?
def parseInts? (s : String) : Option (List Int) := (splitOnChar s ',').mapM String.toInt?
def parseOptInt? (s : String) : Option (Option Int) := if s == "-" then some none else s.toInt?.map some

def parseRanges? (s : String) : Option (Option (List (String × String))) :=
  if s == "-" then some none
  else
    let ents := s.splitOn ";"
    (ents.mapM fun (ent : String) =>
      match ent.splitOn "=" with
      | [k, v] => some ((k.replace "_" " " : String), v)
      | _ => none).map fun (l : List (String × String)) =>
        -- `Dictionary` is a std::map<String, Value>: iteration in byte-wise key order
        some (l.mergeSort fun a b => !decide (b.1 < a.1))

def showSegs (S : List Seg) : String :=
  if S.isEmpty then "-" else ",".intercalate (S.map fun s => s!"{s.1}:{s.2}")

def showOpt (v : Option Int) : String := match v with | none => "-" | some x => toString x

def findP (d : DSt) (id : Nat) : Option PDef := d.ps.find? (·.id == id)

def setP (d : DSt) (p : PDef) : DSt := { d with ps := p :: d.ps.filter (·.id != p.id) }

def mixStr (h : UInt64) (s : String) : UInt64 := (h ^^^ hash s) * 1099511628211 + 0x9e3779b97f4a7c15

def closeCase (d : DSt) : DSt :=
  if d.caseNontrivial && !d.seen.contains d.caseHash then
    { d with seen := d.seen.insert d.caseHash, nontrivial := d.nontrivial + 1 }
  else d

def bumpForm (forms : List (String × Nat)) (k : String) : List (String × Nat) :=
  match forms.find? (·.1 == k) with
  | some _ => forms.map fun p => if p.1 == k then (p.1, p.2 + 1) else p
  | none => forms ++ [(k, 1)]

def refWindows (d : DSt) (p : PDef) : List (Nat × Option Int × Option Int) :=
  (p.incs ++ p.excs).map fun j => match findP d j with
    | some q => (j, q.impl.vb, q.impl.ve)
    | none => (j, none, none)

/-- The current answers of the referenced periods at `t`; `none` when `t` is outside the window of one of them. -/
def refAnswers (d : DSt) (ids : List Nat) (t : Int) : Option (List Bool) :=
  (ids.filterMap (findP d)).mapM fun q =>
    match q.impl.vb, q.impl.ve with
    | some vb, some ve => if vb ≤ t ∧ t ≤ ve then some (q.impl.isInside t) else none
    | _, _ => none

def subsets : List Nat → List (List Nat)
  | [] => [[]]
  | x :: xs => let r := subsets xs; r ++ r.map (x :: ·)

def handle (d : DSt) (n : Nat) (line : String) : IO DSt := do
  let ws := words line
  let d := if ws.head? == some "C" || ws.head? == some "Z" then d else { d with caseHash := mixStr d.caseHash ((line.splitOn " | ").headD "") }
  -- `A id now own | obs`: the real Start, i.e. UpdateRegion(now, now + 24 h, clearing)
  let (ws, activated) : List String × Bool := match ws with
    | "A" :: id :: now :: own :: rest =>
      match now.toInt? with
      | some t => ("U" :: id :: now :: toString (t + 86400) :: "1" :: own :: rest, true)
      | none => (ws, false)
    | _ => (ws, false)
  -- `G id now | bits`: the `is_inside` attribute read at the (virtual) present, directly and through reflection:
  -- both are `IsInside(now)` as far as the property is concerned
  let (ws, d) : List String × DSt := match ws with
    | ["G", id, now, "|", bits] =>
      if bits.length == 2 then (["Q", id, now ++ "," ++ now, "|", bits], { d with gets := d.gets + 1 }) else (ws, d)
    | _ => (ws, d)
  match ws with
  | [] => return d
  | "X" :: _ => return d
  | ["Z", name, tr] =>
    match (splitOnChar tr ',').mapM parseSeg? with
    | some l =>
      -- the theorems' assumptions on the time-zone parameter, checked on the probed offsets (2023-01-01 … 2032-01-01)
      if !tzOkOn l 19358 22645 then
        IO.println s!"MISMATCH line={n} case={d.caseNo} what=tz-assumption impl={name} model=TzOk/TzDrift"
        return { d with tz := l, tzName := name, mismatches := d.mismatches + 1 }
      return { d with tz := l, tzName := name, tzChecked := d.tzChecked + 1 }
    | none => IO.println s!"BADLINE line={n}"; return d
  | "C" :: _ =>
    let d := closeCase d
    return { d with ps := [], caseNo := d.caseNo + 1, caseMismatch := false, caseNontrivial := false,
                    caseHash := mixStr 7 d.tzName }
  | ["P", id, pr, incs, excs, rg] =>
    match id.toNat?, parseBool? pr, parseNats? incs, parseNats? excs, parseRanges? rg with
    | some id, some pr, some incs, some excs, some rg =>
      return setP d { id := id, prefer := pr, incs := incs, excs := excs, ranges := rg }
    | _, _, _, _, _ => IO.println s!"BADLINE line={n}"; return d
  | "U" :: id :: b :: e :: cl :: own :: "|" :: vb :: ve :: segs :: fb :: fe :: rest =>
    match id.toNat?, b.toInt?, e.toInt?, parseBool? cl, parseSegs? own, parseOptInt? vb, parseOptInt? ve,
          parseSegs? segs, parseOptInt? fb, parseOptInt? fe with
    | some id, some b, some e, some cl, some own, some ivb, some ive, some isegs, some ifb, some ife =>
      match findP d id with
      | none => IO.println s!"BADLINE line={n} (unknown period)"; return d
      | some p =>
        let threw := rest.contains "!"
        let ownRet? : Option (List Seg) := match rest.filter (· != "!") with
          | [o] => parseSegs? o
          | _ => none
        let mut d := { d with updates := d.updates + 1 }
        -- model side --------------------------------------------------------------------------
        let mb := p.model.effBegin b cl
        let noop := !cl && decide (e < numOf p.model.ve)
        let mown : List Seg := match p.ranges with
          | none => own
          | some rg =>
            -- the region the update function was actually asked for is an oracle input (it only has to cover the
            -- refreshed region, checked below); fall back to the model's own region when it was not invoked
            match ifb, ife with
            | some fb, some fe => (scriptFunc d.tz rg fb fe).getD []
            | _, _ => (scriptFunc d.tz rg mb e).getD []
        let lookup (useImpl : Bool) (ids : List Nat) : List (List Seg) :=
          ids.filterMap fun j => (findP d j).map fun q => if useImpl then q.impl.segs else q.model.segs
        let mu : UpdIn := { prefer := p.prefer, own := mown, incs := lookup false p.incs, excs := lookup false p.excs }
        let m' := p.model.updateRegion mu b e cl
        let iobs : Period := { segs := isegs, vb := ivb, ve := ive }
        let mut bad := false
        if threw then
          IO.println s!"MISMATCH line={n} case={d.caseNo} what=update-threw impl=exception model=none"
          bad := true
        -- the covered set is compared, not its representation: canonical forms of both lists (+ the window)
        if canon m'.segs != canon isegs || m'.vb != ivb || m'.ve != ive then
          IO.println s!"MISMATCH line={n} case={d.caseNo} what=region impl={showOpt ivb},{showOpt ive},{showSegs (canon isegs)} model={showOpt m'.vb},{showOpt m'.ve},{showSegs (canon m'.segs)} witness={showOpt (firstDifference isegs m'.segs)}"
          bad := true
        else if m'.segs != isegs then
          d := { d with reprDiffers := d.reprDiffers + 1 }
        -- Property-relevant part of "when and how the update function is asked": whenever the call refreshes a region,
        -- the function must have been asked for a region that covers it.  Whether it is also asked when there is
        -- nothing to do, or for more than needed, does not matter.
        let argsOk := noop || (match ifb, ife with
          | some fb, some fe => decide (fb ≤ mb) && decide (e ≤ fe)
          | _, _ => false)
        if !argsOk then
          IO.println s!"MISMATCH line={n} case={d.caseNo} what=update-args impl={showOpt ifb},{showOpt ife} model={showOpt (some mb)},{showOpt (some e)}"
          bad := true
        else if (if noop then (none, none) else (some mb, some e)) != (ifb, ife) then
          d := { d with argsDiffer := d.argsDiffer + 1 }
        match ownRet?, noop with
        | some o, false =>
          if canon o != canon mown then
            IO.println s!"MISMATCH line={n} case={d.caseNo} what=own-segments impl={showSegs (canon o)} model={showSegs (canon mown)} witness={showOpt (firstDifference o mown)}"
            bad := true
        | _, _ => pure ()
        if bad then d := { d with mismatches := d.mismatches + 1, caseMismatch := true }
        -- specification on the implementation's observation ----------------------------------------
        let iown := match ownRet? with | some o => o | none => own
        let o : UpdObs := { prefer := p.prefer, clear := cl, b := b, e := e, own := iown,
                            incs := lookup true p.incs, excs := lookup true p.excs,
                            preSegs := p.impl.segs, preVe := p.impl.ve, vb := ivb, ve := ive, postSegs := isegs,
                            queries := [] }
        match specUpdate o with
        | some c =>
          IO.println s!"SPECFAIL line={n} case={d.caseNo} clause={c.name} t=- impl=- expected=- corr_ok={showBool !d.caseMismatch}"
          d := { d with specfails := d.specfails + 1 }
        | none => pure ()
        -- the own ranges must have been computed for (at least) the region that was refreshed
        match specAsk o (match ifb, ife with | some fb, some fe => some (fb, fe) | _, _ => none) with
        | some c =>
          IO.println s!"SPECFAIL line={n} case={d.caseNo} clause={c.name} t=- impl=- expected=- corr_ok={showBool !d.caseMismatch}"
          d := { d with specfails := d.specfails + 1 }
        | none => pure ()
        -- calendar specification on the segments the real ScriptFunc returned
        match p.ranges, ownRet?, ifb, ife with
        | some rg, some o, some fb, some fe =>
          d := { d with calSegs := d.calSegs + o.length }
          for (k, _) in rg do
            d := { d with dayForms := bumpForm d.dayForms (dayFormName k) }
          match calSpec d.tz rg fb fe o with
          | some (c, t) =>
            IO.println s!"SPECFAIL line={n} case={d.caseNo} clause={c} t={t} impl=- expected=- corr_ok={showBool !d.caseMismatch}"
            d := { d with specfails := d.specfails + 1 }
          | none => d := { d with calChecked := d.calChecked + 1 }
          if strideAcrossDst d.tz rg fb fe then d := { d with strideDst := d.strideDst + 1 }
        | _, _, _, _ => pure ()
        -- statistics
        let pre := if cl then [] else p.impl.segs
        let okR := noop || !sharesBoundary iown o.incs o.excs
        d := { d with noops := d.noops + (if noop then 1 else 0), nonClear := d.nonClear + (if cl then 0 else 1),
                      withInc := d.withInc + (if o.incs.isEmpty then 0 else 1),
                      withExc := d.withExc + (if o.excs.isEmpty then 0 else 1),
                      splitN := d.splitN + (if isegs.length > iown.length + o.incs.flatten.length + pre.length then 1 else 0),
                      sharedBoundary := d.sharedBoundary + (if okR then 0 else 1) }
        if (!o.incs.flatten.isEmpty || !o.excs.flatten.isEmpty || p.ranges.isSome) && isegs != iown then
          d := { d with caseNontrivial := true }
        -- always continue from the implementation's observed state: every step of the model is then compared on its
        -- own, a harmless difference of representation cannot pile up, and a divergence is reported once
        if activated then d := { d with starts := d.starts + 1 }
        return setP d { p with model := iobs, impl := iobs, last := some o, lastTick := none, active := p.active || activated,
                               refWin := if noop then p.refWin else refWindows d p }
    | _, _, _, _, _, _, _, _, _, _ => IO.println s!"BADLINE line={n}"; return d
  | ["Q", id, ts, "|", bits] =>
    match id.toNat?, parseInts? ts with
    | some id, some ts =>
      match findP d id with
      | none => IO.println s!"BADLINE line={n} (unknown period)"; return d
      | some p =>
        let bs := bits.toList.map (· == '1')
        if bs.length != ts.length then IO.println s!"BADLINE line={n}"; return d
        let mut d := d
        let mut reported := false
        let mut reportedSpec := false
        let mut reportedRefs := false
        for (t, r) in ts.zip bs do
          d := { d with queries := d.queries + 1 }
          let mr := p.model.isInside t
          if mr != r then
            if !reported then
              IO.println s!"MISMATCH line={n} case={d.caseNo} what=is-inside t={t} impl={showBool r} model={showBool mr}"
              reported := true
            d := { d with mismatches := d.mismatches + 1, caseMismatch := true }
          -- a period that has never been updated has no computed window: the documented default applies
          if p.last.isNone && p.lastTick.isNone && p.impl.vb.isNone && p.impl.ve.isNone then
            d := { d with outsideWindow := d.outsideWindow + 1 }
            if !r then
              if !reportedSpec then
                IO.println s!"SPECFAIL line={n} case={d.caseNo} clause={Clause.outsideWindow.name} t={t} impl={showBool r} expected=1 corr_ok={showBool !d.caseMismatch}"
                reportedSpec := true
              d := { d with specfails := d.specfails + 1 }
          match p.lastTick with
          | none => pure ()
          | some k =>
            let outside := match k.upd.vb, k.upd.ve with
              | some vb, some ve => decide (t < vb) || decide (t > ve)
              | _, _ => true
            d := if outside then { d with outsideWindow := d.outsideWindow + 1 }
                 else if r then { d with insideYes := d.insideYes + 1 } else { d with insideNo := d.insideNo + 1 }
            match specTick { k with upd := { k.upd with queries := [(t, r)] } } with
            | none => pure ()
            | some c =>
              if !reportedSpec then
                IO.println s!"SPECFAIL line={n} case={d.caseNo} clause={c.name} t={t} impl={showBool r} expected={showBool (expectTick k t)} corr_ok={showBool !d.caseMismatch}"
                reportedSpec := true
              d := { d with specfails := d.specfails + 1 }
          -- agreement with the referenced periods' own current answers (production shape: calendar periods only)
          let oo : Option UpdObs := match p.lastTick with | some k => some k.upd | none => p.last
          let allLegacy := p.ranges.isSome && !(p.incs ++ p.excs).isEmpty &&
            ((p.incs ++ p.excs).filterMap (findP d)).all (·.ranges.isSome)
          let purgedPast := match p.lastTick with | some k => decide (t < k.cutoff) | none => false
          match oo, allLegacy && !purgedPast, refAnswers d p.incs t, refAnswers d p.excs t with
          | some o, true, some incNow, some excNow =>
            d := { d with refsChecked := d.refsChecked + 1 }
            match specRefs o incNow excNow (t, r) with
            | none => pure ()
            | some c =>
              let stale := (p.incs ++ p.excs).any fun j => match p.refWin.find? (·.1 == j) with
                -- the segments a period has materialised speak about [valid_begin, valid_end): at valid_end itself nothing is computed
                | some (_, some vb, some ve) => decide (t < vb) || decide (t ≥ ve)
                | _ => (findP d j).isSome
              if stale then d := { d with refsStale := d.refsStale + 1 }
              if !reportedRefs then
                IO.println s!"SPECFAIL line={n} case={d.caseNo} clause={c.name} t={t} impl={showBool r} expected={showBool (expectWithRefs o (incNow.any (fun x => x)) (excNow.any (fun x => x)) t)} stale_reference={showBool stale} corr_ok={showBool !d.caseMismatch}"
                reportedRefs := true
              d := { d with specfails := d.specfails + 1 }
          | _, _, _, _ => pure ()
          match p.last with
          | none => pure ()
          | some o =>
            let outside := match o.vb, o.ve with
              | some vb, some ve => decide (t < vb) || decide (t > ve)
              | _, _ => true
            d := if outside then { d with outsideWindow := d.outsideWindow + 1 }
                 else if r then { d with insideYes := d.insideYes + 1 } else { d with insideNo := d.insideNo + 1 }
            match specUpdate { o with queries := [(t, r)] } with
            | none => pure ()
            | some c =>
              let ex := expectInside o t
              if !reportedSpec then
                IO.println s!"SPECFAIL line={n} case={d.caseNo} clause={c.name} t={t} impl={showBool r} expected={showBool ex} corr_ok={showBool !d.caseMismatch}"
                reportedSpec := true
              d := { d with specfails := d.specfails + 1 }
        return d
    | _, _ => IO.println s!"BADLINE line={n}"; return d
  | "T" :: now :: owns :: "|" :: fired :: order :: rest =>
    match now.toInt?, parseNats? order with
    | some now, some order =>
      let mut d := { d with ticks := d.ticks + 1 }
      if fired != "1" then
        return { d with ticksNotFired := d.ticksNotFired + 1 }
      -- what the native update functions were told to return
      let ownOf (id : Nat) : List Seg :=
        match (splitOnChar owns ';').filterMap (fun ent => match ent.splitOn "=" with
            | [i, sg] => if i.toNat? == some id then parseSegs? sg else none
            | _ => none) with
        | o :: _ => o
        | [] => []
      -- observed states: groups of 8 words
      let rec groups (l : List String) (fuel : Nat) : List (List String) :=
        match fuel, l with
        | fuel + 1, a :: b :: c :: e :: f :: g :: h :: i :: tl => [a, b, c, e, f, g, h, i] :: groups tl fuel
        | _, _ => []
      let gs := groups rest rest.length
      let c := now - 3600
      let e := now + 86400
      let preTick := d.ps
      -- periods whose update function was not asked: when the handler got to them cannot be observed
      let notAsked : List Nat := gs.filterMap fun g => match g with
        | [i, _, _, _, _, fb, _, _] => if fb == "-" then i.toNat? else none
        | _ => none
      -- the handler's loop, in the iteration order the implementation reported
      for id in order do
        match findP d id, gs.find? (fun g => g.head? == some (toString id)) with
        | some p, some [_, act, vb, ve, segs, fb, fe, oret] =>
          if act != "1" || !p.active then continue
          match parseOptInt? vb, parseOptInt? ve, parseSegs? segs, parseOptInt? fb, parseOptInt? fe with
          | some ivb, some ive, some isegs, some ifb, some ife =>
            d := { d with tickUpdates := d.tickUpdates + 1 }
            let ownRet? : Option (List Seg) := if oret == "-" && ifb.isNone then none else parseSegs? oret
            let noop := decide (e < numOf p.model.ve)
            let mb := numOf p.model.ve
            let mown : List Seg := match p.ranges with
              | none => ownOf id
              | some rg =>
                match ifb, ife with
                | some fb, some fe => (scriptFunc d.tz rg fb fe).getD []
                | _, _ => (scriptFunc d.tz rg mb e).getD []
            let lookup (ids : List Nat) : List (List Seg) :=
              ids.filterMap fun j => (findP d j).map fun q => q.impl.segs
            let stale := (p.incs ++ p.excs).any fun j => match findP d j with
              | some q => q.active && !(order.takeWhile (· != id)).contains j && (q.impl.segs.any fun s => decide (s.2 < c))
              | none => false
            -- Allowed set: a referenced period whose update function was not asked in this run was merged either as it
            -- was before the run or as it is after it (purged), depending on an iteration order that cannot be observed.
            let amb := ((p.incs ++ p.excs).filter fun j => notAsked.contains j).eraseDups
            let lookupV (pick ids : List Nat) : List (List Seg) :=
              ids.filterMap fun j =>
                if pick.contains j then (preTick.find? (·.id == j)).map (·.impl.segs) else (findP d j).map (·.impl.segs)
            let variants : List Period := (subsets (amb.take 4)).map fun pick =>
              p.model.tick { prefer := p.prefer, own := mown, incs := lookupV pick p.incs, excs := lookupV pick p.excs } now
            let m' := variants.headD p.model
            let iobs : Period := { segs := isegs, vb := ivb, ve := ive }
            let mut bad := false
            -- only the answers from the cut-off on are constrained after a timer run: the stored set is compared from the
            -- cut-off on, the window's begin only as far as it lies after the cut-off (how much past is kept is free)
            let clip (S : List Seg) : List Seg := S.filterMap fun s => if s.2 ≤ c then none else some (if s.1 < c then c else s.1, s.2)
            let lowB (v : Option Int) : Option Int := v.map fun x => if x < c then c else x
            if !(variants.any fun v => canon (clip v.segs) == canon (clip isegs) && lowB v.vb == lowB ivb && v.ve == ive) then
              IO.println s!"MISMATCH line={n} case={d.caseNo} what=timer-region period={id} impl={showOpt ivb},{showOpt ive},{showSegs (canon isegs)} model={showOpt m'.vb},{showOpt m'.ve},{showSegs (canon m'.segs)} witness={showOpt (firstDifference isegs m'.segs)}"
              bad := true
            let argsOk := noop || (match ifb, ife with
              | some fb, some fe => decide (fb ≤ mb) && decide (e ≤ fe)
              | _, _ => false)
            if !argsOk then
              IO.println s!"MISMATCH line={n} case={d.caseNo} what=timer-update-args period={id} impl={showOpt ifb},{showOpt ife} model={showOpt (some mb)},{showOpt (some e)}"
              bad := true
            match ownRet?, noop with
            | some o, false =>
              if canon o != canon mown then
                IO.println s!"MISMATCH line={n} case={d.caseNo} what=own-segments period={id} impl={showSegs (canon o)} model={showSegs (canon mown)} witness={showOpt (firstDifference o mown)}"
                bad := true
            | _, _ => pure ()
            if bad then d := { d with mismatches := d.mismatches + 1, caseMismatch := true }
            -- specification on the implementation's observation
            let iown := match ownRet? with | some o => o | none => ownOf id
            let k : TickObs := { upd := { prefer := p.prefer, clear := false, b := numOf p.impl.ve, e := e, own := iown,
                                          incs := lookup p.incs, excs := lookup p.excs, preSegs := p.impl.segs, preVe := p.impl.ve,
                                          vb := ivb, ve := ive, postSegs := isegs, queries := [] },
                                 cutoff := c, now := now, preVb := p.impl.vb }
            match specTick k with
            | some cl =>
              IO.println s!"SPECFAIL line={n} case={d.caseNo} clause={cl.name} t=- impl=- expected=- corr_ok={showBool !d.caseMismatch}"
              d := { d with specfails := d.specfails + 1 }
            | none => pure ()
            match specAsk k.upd (match ifb, ife with | some fb, some fe => some (fb, fe) | _, _ => none) with
            | some cl =>
              IO.println s!"SPECFAIL line={n} case={d.caseNo} clause={cl.name} t=- impl=- expected=- corr_ok={showBool !d.caseMismatch}"
              d := { d with specfails := d.specfails + 1 }
            | none => pure ()
            match p.ranges, ownRet?, ifb, ife with
            | some rg, some o, some fb, some fe =>
              d := { d with calSegs := d.calSegs + o.length }
              match calSpec d.tz rg fb fe o with
              | some (cn, t) =>
                IO.println s!"SPECFAIL line={n} case={d.caseNo} clause={cn} t={t} impl=- expected=- corr_ok={showBool !d.caseMismatch}"
                d := { d with specfails := d.specfails + 1 }
              | none => d := { d with calChecked := d.calChecked + 1 }
            | _, _, _, _ => pure ()
            d := { d with tickNoops := d.tickNoops + (if noop then 1 else 0),
                          tickPurged := d.tickPurged + (if p.impl.segs.any (fun s => decide (s.2 < c)) then 1 else 0),
                          tickStale := d.tickStale + (if stale then 1 else 0),
                          caseNontrivial := d.caseNontrivial || isegs != p.impl.segs }
            d := setP d { p with model := iobs, impl := iobs, last := none, lastTick := some k,
                                 refWin := if noop then p.refWin else refWindows d p }
          | _, _, _, _, _ => IO.println s!"BADLINE line={n}"
        | _, _ => pure ()
      return d
    | _, _ => IO.println s!"BADLINE line={n}"; return d
  | ["K", b, e, rg, "|", segs] =>
    match b.toInt?, e.toInt?, parseRanges? rg with
    | some b, some e, some (some rg) =>
      let mut d := { d with scripts := d.scripts + 1, caseNontrivial := true }
      let m := scriptFunc d.tz rg b e
      let i : Option (List Seg) := if segs == "!" then none else parseSegs? segs
      if segs != "!" && i.isNone then IO.println s!"BADLINE line={n}"; return d
      for (k, _) in rg do
        d := { d with dayForms := bumpForm d.dayForms (dayFormName k) }
      if m.map canon != i.map canon then
        IO.println s!"MISMATCH line={n} case={d.caseNo} what=script-func impl={(i.map (showSegs ∘ canon)).getD "!"} model={(m.map (showSegs ∘ canon)).getD "!"}"
        d := { d with mismatches := d.mismatches + 1, caseMismatch := true }
      match i with
      | some o =>
        d := { d with calSegs := d.calSegs + o.length }
        match calSpec d.tz rg b e o with
        | some (c, t) =>
          IO.println s!"SPECFAIL line={n} case={d.caseNo} clause={c} t={t} impl=- expected=- corr_ok={showBool !d.caseMismatch}"
          d := { d with specfails := d.specfails + 1 }
        | none => d := { d with calChecked := d.calChecked + 1 }
        if strideAcrossDst d.tz rg b e then d := { d with strideDst := d.strideDst + 1 }
      | none => pure ()
      return d
    | _, _, _ => IO.println s!"BADLINE line={n}"; return d
  | _ => IO.println s!"BADLINE line={n}"; return d

def main : IO Unit := do
  let stdin ← IO.getStdin
  let d ← foldLines stdin handle ({} : DSt)
  let d := closeCase d
  let forms := " ".intercalate (d.dayForms.map fun p => s!"form_{p.1}={p.2}")
  IO.println s!"STATS cases={d.caseNo} updates={d.updates} queries={d.queries} scripts={d.scripts} cal_segments={d.calSegs} cal_checked={d.calChecked} tz_assumptions_checked={d.tzChecked} stride_across_offset_change={d.strideDst} noops={d.noops} starts={d.starts} attribute_reads={d.gets} timer_runs={d.ticks} timer_not_fired={d.ticksNotFired} timer_period_updates={d.tickUpdates} timer_noops={d.tickNoops} timer_purged={d.tickPurged} timer_stale_reference={d.tickStale} refs_checked={d.refsChecked} refs_stale_disagreements={d.refsStale} non_clearing={d.nonClear} with_includes={d.withInc} with_excludes={d.withExc} cuts={d.splitN} shared_boundary_updates={d.sharedBoundary} inside_yes={d.insideYes} inside_no={d.insideNo} outside_window={d.outsideWindow} nontrivial={d.nontrivial} repr_differs={d.reprDiffers} args_differ={d.argsDiffer} mismatches={d.mismatches} specfails={d.specfails} {forms}"

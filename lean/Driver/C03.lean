/-
  vd_c03 — replays the C03 harness lines through the model, compares observations (events, executed
  commands, bookkeeping attributes) and evaluates the specification checkers on the implementation's own
  trace.  Line formats: corpus/C03/PROTOCOL.txt (summary in harness/c03.cpp).
-/
import IcingaModel.Common.Proto
import IcingaModel.C03.Model
import IcingaModel.C03.Spec

open Icinga Icinga.C03 Icinga.Proto

/-- One notification object of the case: its configuration, the model's state, the specification's bookkeeping. -/
structure ObjSt where
  cfg : Cfg
  st : C03.St := C03.init
  sp : C03.SpecSt := {}
  psLoose : List Nat := []   -- bookkeeping of `recipientsObsLoose` (classification of F-C03b only)
  remLoose : C03.RemSt := {} -- bookkeeping of `reminderObsLoose` (classification of F-C03c only)

structure DSt where
  objs : Array ObjSt := #[]
  isHost : Bool := false
  curKind : OpKind := .send      -- the operation the following "+ k" lines belong to
  curTy : NType := .problem
  ck : C03.CkSt := {}            -- the model of the checkable's side: force_next_notification, object registered
  pending : Bool := false        -- the specification's bit: a requester set force since the checkable's previous request
  curSpecForce : Bool := false   -- … as it was for the request the following "+ k" lines belong to
  unseen : Nat := 0              -- requests while the notification objects were not registered with the checkable
  forceSets : Nat := 0
  multi : Nat := 0               -- cases with more than one notification object
  coldStashed : Nat := 0         -- requests stashed during / behind the cold-start phase
  coldReplayed : Nat := 0        -- timer runs that replayed (or dropped) a stash
  requests : Nat := 0            -- requests raised by the code itself (ProcessCheckResult / FireSuppressedNotifications)
  caseNo : Nat := 0
  steps : Nat := 0
  sends : Nat := 0
  ticks : Nat := 0
  events : Nat := 0
  deliveries : Nat := 0
  reminders : Nat := 0
  recoveries : Nat := 0
  acks : Nat := 0
  filteredRecoveries : Nat := 0
  forced : Nat := 0
  stashed : Nat := 0
  released : Nat := 0
  caseFailed : List String := []
  caseNontrivial : Bool := false
  nontrivial : Nat := 0
  mismatches : Nat := 0
  specfails : Nat := 0

def sortNat (l : List Nat) : List Nat := ((l.toArray.qsort (· < ·)).toList).eraseDups

/-! Only the property-relevant denotation of the bookkeeping attributes is compared (DESIGN.md §0.3):
    * notified_problem_users as a set (order and multiplicity are the code's business);
    * last_notified_state_per_user as the function the code reads, `(uint8)Get(user)`: a missing entry is 0;
    * next_notification clamped to the present: two instants in the past are the same "due now";
    * no_more_notifications only where it is read (interval ≤ 0);
    * suppressed_notifications restricted to the four types the notification object ever withholds;
    * the stash as the ordered list of (type, force);
    * notification_number not at all (no delivery depends on it). -/
def lnsDenot (ids : List Nat) (f : Nat → Option Nat) : List (Nat × Nat) :=
  ids.filterMap fun u => let v := (f u).getD 0; if v == 0 then none else some (u, v)
def clampNext (now next : Int) : Int := if next < now then now else next
def sup4 (n : Nat) : Nat := (Sup.ofNat n).toNat

def splitSemi (ws : List String) : List (List String) :=
  let rec go (acc : List String) (out : List (List String)) : List String → List (List String)
    | [] => (acc.reverse :: out).reverse
    | ";" :: rest => go [] (acc.reverse :: out) rest
    | w :: rest => go (w :: acc) out rest
  go [] [] ws

def parseOptInt (s : String) : Option (Option Int) :=
  if s == "-" then some none else (parseInt? s).map some

def parseIds (s : String) : Option (List Nat) :=
  if s == "_" then some [] else (s.splitOn "+").mapM parseNat?

def parseList {α : Type} (s : String) (f : String → Option α) : Option (List α) :=
  if s == "-" then some [] else (s.splitOn ",").mapM f

def parseUser (s : String) : Option UEnv :=
  match s.splitOn ":" with
  | [i, en, po, tf, sf] => do
    pure { id := ← parseNat? i, enabled := ← parseBool? en, periodOpen := ← parseBool? po,
           typeFilter := ← parseNat? tf, stateFilter := ← parseNat? sf }
  | _ => none

def parseEvent (s : String) : Option Event :=
  match s.splitOn ":" with
  | [t, r, p, f, us] => do
    pure { ty := ← (parseNat? t) >>= NType.ofBit?, reminder := ← parseBool? r, passed := ← parseBool? p,
           force := ← parseBool? f, users := ← parseIds us }
  | _ => none

def parsePair (sep : String) (s : String) : Option (Nat × Nat) :=
  match s.splitOn sep with
  | [a, b] => do pure (← parseNat? a, ← parseNat? b)
  | _ => none

def parseLns (s : String) : Option (List (Nat × Nat)) :=
  if s == "_" then some [] else (s.splitOn "+").mapM (parsePair "=")

def parseEnv (ws : List String) (users : List UEnv) : Option (Env × Nat) :=
  match ws with
  | [now, state, hard, lhsc, vol, reach, indt, acked, flap, ckpp, po, glob, cken, paused, ha, likely, pa, ra, force, fired, au] => do
    let e : Env :=
      { now := ← parseInt? now, state := ← parseNat? state, hard := ← parseBool? hard, lhsc := ← parseInt? lhsc,
        volatile := ← parseBool? vol, reachable := ← parseBool? reach, inDowntime := ← parseBool? indt,
        acked := ← parseBool? acked, flapping := ← parseBool? flap, ckProblemPending := ← parseBool? ckpp,
        periodOpen := ← parseBool? po, globalEnabled := ← parseBool? glob, ckEnabled := ← parseBool? cken,
        paused := ← parseBool? paused, haSkip := ← parseBool? ha, likelySoon := ← parseBool? likely,
        problemApplies := ← parseBool? pa, recoveryApplies := ← parseBool? ra, force := ← parseBool? force,
        authUpdated := ← parseBool? au, users := users }
    pure (e, ← parseNat? fired)
  | _ => none

def showIds (l : List Nat) : String := if l.isEmpty then "_" else "+".intercalate (l.map toString)
def showEvents (l : List Event) : String :=
  if l.isEmpty then "-" else
  ",".intercalate (l.map fun ev => s!"{ev.ty.bit}:{showBool ev.reminder}:{showBool ev.passed}:{showBool ev.force}:{showIds ev.users}")
def showPairs (sep : String) (l : List (Nat × Nat)) (empty outer : String) : String :=
  if l.isEmpty then empty else outer.intercalate (l.map fun p => s!"{p.1}{sep}{p.2}")

def lnsList (f : Nat → Option Nat) : List (Nat × Nat) := (List.range 8).filterMap fun u => (f u).map fun v => (u, v)
def lnsOf (l : List (Nat × Nat)) : Nat → Option Nat := fun u => (l.find? (·.1 == u)).map (·.2)

def cmdsOf (evs : List Event) : List (Nat × Nat) :=
  let l := evs.foldr (fun ev acc => (if ev.passed then ev.users.map (fun u => (ev.ty.bit, u)) else []) ++ acc) []
  (l.toArray.qsort (fun a b => a.1 < b.1 || (a.1 == b.1 && a.2 < b.2))).toList

/-- The model's tick, `n` times (the pump may have fired the timer 0, 1 or more times). -/
def tickN (c : Cfg) (e : Env) : Nat → C03.St → List Event → C03.St × List Event
  | 0, s, acc => (s, acc)
  | n + 1, s, acc => let r := tickStep c s e; tickN c e n r.1 (acc ++ r.2)

def bump (d : DSt) : DSt :=
  if d.caseNontrivial then d else { d with caseNontrivial := true, nontrivial := d.nontrivial + 1 }

def handleOp (d : DSt) (n : Nat) (k : Nat) (kind : OpKind) (ty : NType) (post : List String)
    (modelForce : Option Bool := none) : IO DSt := do
  match d.objs[k]? with
  | none => IO.println s!"BADLINE line={n}"; return d
  | some ob =>
  match splitSemi post with
  | [envW, [usersW], [eventsW], [cmdsW], [npuW, lnsW, nextW, noMoreW, numberW, supW, stashW]] =>
    let parsed : Option (Env × Nat × List Event × List (Nat × Nat) × List Nat × List (Nat × Nat) × Int × Bool × Nat × Nat × List (Nat × Nat)) := do
      let users ← parseList usersW parseUser
      let (e, fired) ← parseEnv envW users
      let evs ← parseList eventsW parseEvent
      let cmds ← parseList cmdsW (parsePair ":")
      pure (e, fired, evs, cmds, ← parseIds npuW, ← parseLns lnsW, ← parseInt? nextW, ← parseBool? noMoreW,
            ← parseNat? numberW, ← parseNat? supW, ← parseList stashW (parsePair ":"))
    match parsed with
    | none => IO.println s!"BADLINE line={n}"; return d
    | some (e, fired, evs, cmds, npu, lns, next, noMore, number, sup, stash) =>
      let (ms, mev) := match kind with
        | .send => sendStep ob.cfg ob.st ty e
        | .tick => tickN ob.cfg e fired ob.st []
      let mut d := { d with steps := d.steps + 1 }
      -- the checkable's flag as the implementation has it before the request, against the model's (F sets, every request resets)
      match modelForce with
      | some mf =>
        if mf != e.force then
          IO.println s!"MISMATCH line={n} case={d.caseNo} op=force obj={k} impl={showBool e.force} model={showBool mf}"
          d := { d with mismatches := d.mismatches + 1 }
      | none => pure ()
      d := match kind with | .send => { d with sends := d.sends + 1 } | .tick => { d with ticks := d.ticks + fired }
      let ids := List.range 8
      let nm (b : Bool) : Bool := decide (ob.cfg.interval ≤ 0) && b
      let implT := (evs, cmds, sortNat npu, lnsDenot ids (lnsOf lns), clampNext e.now next, nm noMore, sup4 sup, stash)
      let modelT := (mev, cmdsOf mev, sortNat ms.npu, lnsDenot ids ms.lns, clampNext e.now ms.next, nm ms.noMore, ms.sup.toNat,
                     ms.stash.map fun p => (p.1.bit, if p.2 then 1 else 0))
      let agree := implT == modelT
      if !agree then
        let opn := match kind with | .send => "N" | .tick => "T"
        IO.println s!"MISMATCH line={n} case={d.caseNo} op={opn} obj={k} impl={showEvents evs};{showPairs ":" cmds "-" ","};{showIds (sortNat npu)};{showPairs "=" lns "_" "+"};{next};{showBool noMore};{number};{sup};{showPairs ":" stash "-" ","} model={showEvents mev};{showPairs ":" (cmdsOf mev) "-" ","};{showIds (sortNat ms.npu)};{showPairs "=" (lnsList ms.lns) "_" "+"};{ms.next};{showBool ms.noMore};{ms.number};{ms.sup.toNat};{showPairs ":" (ms.stash.map fun p => (p.1.bit, if p.2 then 1 else 0)) "-" ","}"
        d := { d with mismatches := d.mismatches + 1 }
      -- the specification on the implementation's own observations
      -- "this request was forced" is the specification's own derivation from the operations (Spec.lean reqForced), not the flag
      let eS : Env := match kind with | .send => { e with force := d.curSpecForce } | .tick => e
      let obs : C03.Obs := ⟨kind, eS, evs, sup / 32 % 2 == 1, match kind with | .send => some ty | .tick => none⟩
      let (bad, sp') := C03.specStep ob.cfg ob.sp obs
      let loose := C03.recipientsObsLoose ob.psLoose obs
      let looseRem := C03.reminderObsLoose ob.cfg ob.remLoose obs
      for cl in bad do
        -- F-C03b: the specification rejects, the weaker reading (incident ends only with a processed Recovery) accepts
        -- F-C03c: likewise for interval 0 (the weaker reading: any other type but Custom re-arms the reminder)
        let cls := if cl == .recoveryAckRecipients && loose.1.isNone then " class=recovery_request_dropped_while_disabled"
                   else if cl == .reminderInterval0 && looseRem.1.isNone then " class=interval0_rearmed_by_other_notification_type"
                   else ""
        let key := cl.name ++ cls
        if !d.caseFailed.contains key then
          IO.println s!"SPECFAIL line={n} case={d.caseNo} clause={cl.name}{cls}"
          d := { d with caseFailed := key :: d.caseFailed }
        d := { d with specfails := d.specfails + 1 }
      -- statistics
      for ev in evs do
        d := { d with events := d.events + 1 }
        if ev.passed then
          d := { d with deliveries := d.deliveries + ev.users.length }
          if !ev.users.isEmpty then d := bump d
          if ev.reminder then d := { d with reminders := d.reminders + 1 }
          if ev.ty == .recovery then d := { d with recoveries := d.recoveries + 1 }
          if ev.ty == .ack then d := { d with acks := d.acks + 1 }
          if ev.force then d := { d with forced := d.forced + 1 }
        else d := { d with filteredRecoveries := d.filteredRecoveries + 1 }
      if stash.length > ob.st.stash.length then d := { d with coldStashed := d.coldStashed + 1 }
      if stash.isEmpty && !ob.st.stash.isEmpty then d := { d with coldReplayed := d.coldReplayed + 1 }
      if sup != 0 && ob.st.sup.toNat == 0 then d := { d with stashed := d.stashed + 1 }
      if sup == 0 && ob.st.sup.toNat != 0 then d := { d with released := d.released + 1 }
      -- resynchronise on the implementation after a mismatch so that one divergence is reported once
      -- (the model keeps its own values where they differ harmlessly)
      let st' : C03.St := if agree then ms else
        { npu := npu, lns := lnsOf lns, next := next, noMore := noMore, number := number, sup := Sup.ofNat sup,
          stash := stash.filterMap fun p => (NType.ofBit? p.1).map fun ty => (ty, p.2 != 0) }
      return { d with objs := d.objs.set! k { ob with st := st', sp := sp', psLoose := loose.2, remLoose := looseRem.2 } }
  | _ => IO.println s!"BADLINE line={n}"; return d

/-- One request of the checkable (N, or q raised by the code): the model's `ckRequest` and the specification's bit. -/
def handleRequest (d : DSt) (n : Nat) (ty : NType) (post : List String) : IO DSt := do
  let r := C03.ckRequest d.ck
  let d1 := { d with curKind := .send, curTy := ty, curSpecForce := d.pending, pending := false, ck := r.1 }
  match post with
  | ["unseen", f0, f1] =>
    -- no notification object registered: nothing to see but the flag before / after
    match parseBool? f0, parseBool? f1 with
    | some b0, some b1 =>
      let mut d := { d1 with unseen := d.unseen + 1, steps := d.steps + 1 }
      if d.ck.attached then
        IO.println s!"MISMATCH line={n} case={d.caseNo} op=attached obj=0 impl=unseen model=attached"
        d := { d with mismatches := d.mismatches + 1 }
      if b0 != r.2 || b1 != r.1.force then
        IO.println s!"MISMATCH line={n} case={d.caseNo} op=force obj=0 impl={showBool b0}->{showBool b1} model={showBool r.2}->{showBool r.1.force}"
        d := { d with mismatches := d.mismatches + 1 }
      return d
    | _, _ => IO.println s!"BADLINE line={n}"; return d
  | _ => handleOp d1 n 0 .send ty post (some r.2)

def parseCfg (isHost : Bool) (ws : List String) : Option Cfg :=
  match ws with
  | iv :: tb :: te :: tf :: sf :: _ => do
    pure { isHost := isHost, interval := ← parseInt? iv, tbegin := ← parseOptInt tb, tend := ← parseOptInt te,
           typeFilter := ← parseNat? tf, stateFilter := ← parseNat? sf }
  | _ => none

def handle (d : DSt) (n : Nat) (line : String) : IO DSt := do
  let ws := words line
  match ws with
  | [] => return d
  | "C" :: k :: rest =>
    match (if k == "h" then some true else if k == "s" then some false else none) with
    | some isHost =>
      match parseCfg isHost rest with
      | some cfg =>
        return { d with objs := #[{ cfg := cfg }], isHost := isHost, caseNo := d.caseNo + 1, caseFailed := [], caseNontrivial := false,
                        ck := {}, pending := false, curSpecForce := false }
      | none => IO.println s!"BADLINE line={n}"; return d
    | none => IO.println s!"BADLINE line={n}"; return d
  | "O" :: rest =>
    match parseCfg d.isHost rest with
    | some cfg =>
      return { d with objs := d.objs.push { cfg := cfg }, multi := if d.objs.size == 1 then d.multi + 1 else d.multi }
    | none => IO.println s!"BADLINE line={n}"; return d
  | "N" :: rest =>
    let (pre, post) := splitBar rest
    match pre with
    | [tb, _dt] =>
      match (parseNat? tb) >>= NType.ofBit? with
      | some ty => handleRequest d n ty post
      | none => IO.println s!"BADLINE line={n}"; return d
    | _ => IO.println s!"BADLINE line={n}"; return d
  | "q" :: rest =>     -- a request raised by the code itself inside an X / Z operation
    let (pre, post) := splitBar rest
    match pre with
    | [tb] =>
      match (parseNat? tb) >>= NType.ofBit? with
      | some ty => handleRequest { d with requests := d.requests + 1 } n ty post
      | none => IO.println s!"BADLINE line={n}"; return d
    | _ => IO.println s!"BADLINE line={n}"; return d
  | "T" :: rest =>
    let (_, post) := splitBar rest
    if post == ["unseen"] then return d   -- no notification object exists: the timer has nothing to walk
    handleOp { d with curKind := .tick, curTy := .problem } n 0 .tick .problem post
  | "F" :: _ => return { d with ck := C03.ckSetForce d.ck, pending := true, forceSets := d.forceSets + 1 }
  | ["H", v, "|"] =>
    match parseBool? v with
    | some b => return { d with ck := { d.ck with attached := b } }
    | none => IO.println s!"BADLINE line={n}"; return d
  | "+" :: rest =>     -- the same operation as seen by a further notification object
    let (pre, post) := splitBar rest
    match pre with
    | [k] =>
      match parseNat? k with
      | some k => handleOp d n k d.curKind d.curTy post
      | none => IO.println s!"BADLINE line={n}"; return d
    | _ => IO.println s!"BADLINE line={n}"; return d
  | "z" :: rest =>     -- notification_number as the implementation has it (reset outside the modelled code)
    let (_, post) := splitBar rest
    match post.mapM parseNat? with
    | some nums =>
      let objs := (List.range d.objs.size).foldl (fun (a : Array ObjSt) i =>
        match a[i]?, nums[i]? with
        | some ob, some v => a.set! i { ob with st := { ob.st with number := v } }
        | _, _ => a) d.objs
      return { d with objs := objs }
    | none => IO.println s!"BADLINE line={n}"; return d
  | _ => return d   -- environment changes: visible to the model through the oracle inputs of the next operation

def main : IO Unit := do
  let stdin ← IO.getStdin
  let d ← foldLines stdin handle ({} : DSt)
  IO.println s!"STATS cases={d.caseNo} steps={d.steps} sends={d.sends} ticks={d.ticks} events={d.events} deliveries={d.deliveries} reminders={d.reminders} recoveries={d.recoveries} acks={d.acks} filtered_recoveries={d.filteredRecoveries} forced={d.forced} stashed={d.stashed} released={d.released} cold_stashed={d.coldStashed} cold_replayed={d.coldReplayed} multi_object_cases={d.multi} code_requests={d.requests} unseen_requests={d.unseen} force_sets={d.forceSets} nontrivial={d.nontrivial} mismatches={d.mismatches} specfails={d.specfails}"

/-
  vd_c01 — replays the harness's operation lines through the C01 model, compares the observations
  and evaluates the specification predicate on the implementation's own trace.

  Input lines (stdin):
    C <kind h|s> <max> <volatile 0|1> <flapping 0|1>            start of a case (fresh, pending object)
    R <state> <execStart> <now> <active> | <accepted> <state> <stype> <attempt> <lastHard> <ev>
  Output lines:
    MISMATCH line=<n> case=<k> impl=<...> model=<...>
    SPECFAIL line=<n> case=<k> clause=<name>
    BADLINE line=<n>
    STATS cases=<..> steps=<..> dropped=<..> ev_none=.. ev_soft=.. ev_hard=.. soft=.. hard=.. nontrivial=..
-/
import IcingaModel.Common.Proto
import IcingaModel.C01.Model
import IcingaModel.C01.Spec

open Icinga Icinga.C01 Icinga.Proto

structure DSt where
  cfg : Cfg := { kind := .service, max := 1, volatile := false }
  st : St := pending
  sp : SpecSt := specInit
  caseNo : Nat := 0
  steps : Nat := 0
  dropped : Nat := 0
  evNone : Nat := 0
  evSoft : Nat := 0
  evHard : Nat := 0
  softN : Nat := 0
  hardN : Nat := 0
  caseFailed : Bool := false
  caseHadHard : Bool := false     -- a case is non-trivial if it reached a hard problem state
  nontrivial : Nat := 0
  mismatches : Nat := 0
  specfails : Nat := 0

def showObs (o : Obs) : String :=
  s!"{showBool o.accepted},{o.state.toNat},{o.stype.toNat},{o.attempt},{o.lastHard.toNat},{o.ev.toNat}"

def parseObs (ws : List String) : Option Obs :=
  match ws with
  | [a, s, t, at_, lh, e] => do
    let a ← parseBool? a
    let s ← (parseNat? s) >>= SState.ofNat?
    let t ← (parseNat? t) >>= SType.ofNat?
    let at_ ← parseNat? at_
    let lh ← (parseNat? lh) >>= SState.ofNat?
    let e ← (parseNat? e) >>= Ev.ofNat?
    pure { accepted := a, state := s, stype := t, attempt := at_, lastHard := lh, ev := e }
  | _ => none

def handle (d : DSt) (n : Nat) (line : String) : IO DSt := do
  let ws := words line
  match ws with
  | [] => return d
  | "C" :: k :: mx :: vol :: _ =>
    match (if k == "h" then some Kind.host else if k == "s" then some Kind.service else none),
          parseNat? mx, parseBool? vol with
    | some k, some mx, some vol =>
      return { d with cfg := { kind := k, max := mx, volatile := vol }, st := pending, sp := specInit,
                      caseNo := d.caseNo + 1, caseFailed := false, caseHadHard := false }
    | _, _, _ => IO.println s!"BADLINE line={n}"; return d
  | "R" :: rest =>
    let (pre, post) := splitBar rest
    match pre, parseObs post with
    | [st, es, nw, _act], some io =>
      match (parseNat? st) >>= SState.ofNat?, parseInt? es, parseInt? nw with
      | some rs, some es, some nw =>
        let r : Res := { state := rs, execStart := es, now := nw }
        let p := step d.cfg d.st r
        let mo := obsOf p
        let mut d := { d with steps := d.steps + 1 }
        if mo != io then
          IO.println s!"MISMATCH line={n} case={d.caseNo} impl={showObs io} model={showObs mo}"
          d := { d with mismatches := d.mismatches + 1 }
        -- specification on the implementation's own observation
        if io.accepted then
          match specStep d.cfg d.sp rs io with
          | some cl =>
            if !d.caseFailed then
              IO.println s!"SPECFAIL line={n} case={d.caseNo} clause={cl.name}"
            d := { d with specfails := d.specfails + 1, caseFailed := true }
          | none => pure ()
          d := { d with sp := specNext d.cfg d.sp rs }
        else
          d := { d with dropped := d.dropped + 1 }
          if !mayDrop d.st.lastExec es then
            if !d.caseFailed then
              IO.println s!"SPECFAIL line={n} case={d.caseNo} clause={Clause.droppedAlthoughNotOlder.name}"
            d := { d with specfails := d.specfails + 1, caseFailed := true }
        -- histogram
        d := match io.ev with
          | .none => { d with evNone := d.evNone + 1 }
          | .soft => { d with evSoft := d.evSoft + 1 }
          | .hard => { d with evHard := d.evHard + 1 }
        d := match io.stype with
          | .soft => { d with softN := d.softN + 1 }
          | .hard => { d with hardN := d.hardN + 1 }
        if io.stype == .hard && !isOK d.cfg.kind io.state && !d.caseHadHard then
          d := { d with caseHadHard := true, nontrivial := d.nontrivial + 1 }
        -- follow the model (it is the oracle for the diff); on a mismatch resynchronise on the
        -- implementation so that one divergence is reported once
        let st' : St := if mo != io then
            { state := io.state, stype := io.stype, attempt := io.attempt, lastHard := io.lastHard,
              lastExec := if io.accepted then some es else d.st.lastExec }
          else p.1
        return { d with st := st' }
      | _, _, _ => IO.println s!"BADLINE line={n}"; return d
    | _, _ => IO.println s!"BADLINE line={n}"; return d
  | _ => IO.println s!"BADLINE line={n}"; return d

def main : IO Unit := do
  let stdin ← IO.getStdin
  let d ← foldLines stdin handle ({} : DSt)
  IO.println s!"STATS cases={d.caseNo} steps={d.steps} dropped={d.dropped} ev_none={d.evNone} ev_soft={d.evSoft} ev_hard={d.evHard} soft={d.softN} hard={d.hardN} nontrivial={d.nontrivial} mismatches={d.mismatches} specfails={d.specfails}"

/-
  vd_c01 — replays the harness's operation lines through the C01 model, compares the observations
  and evaluates the specification predicate on the implementation's own trace.

  Input lines (stdin):
    C <kind h|s> <max> <volatile 0|1> <flapping 0|1> [<topology>]   start of a case (fresh, pending object)
    S <state> <stype> <attempt> <lastHard> <prevHard> <exec> | <obs>  start state restored as from a state file
    R <state> <execStart> <now> <via> | <obs> [; <reachable> <acknowledged> <flapping> <inDowntime>]
    X <stateA> <stateB> <execStart> <now> | <accA> <accB> <state> <stype> <attempt> <lastHard> <hardA> <hardB>
                                                                     two results processed concurrently (last of a case)
    Y <stateA> <stateB> <execStart> <now> | <obs of A> ;; <obs of B> [; <env>]
                                                                     A is held after its new-check-result signal while B
                                                                     is processed; then A reports its state change
    P … / A … / D … / F … / U …                                      environment changes (parent result,
                                                                     acknowledgement, downtime, flags, authority): the property
                                                                     gives them no influence, the model ignores them
  <obs> = <accepted> <state> <stype> <attempt> <lastHard> <ev> <prevHard> <vaState> <vaType> <vaAttempt>
          <apiState> <apiLastState> <apiLastHard>
  Output lines:
    MISMATCH line=<n> case=<k> impl=<...> model=<...>
    SPECFAIL line=<n> case=<k> clause=<name>
    BADLINE line=<n>
    STATS cases=<..> steps=<..> dropped=<..> ev_none=.. ev_soft=.. ev_hard=.. soft=.. hard=.. nontrivial=.. …
-/
import IcingaModel.Common.Proto
import IcingaModel.C01.Model
import IcingaModel.C01.Spec

open Icinga Icinga.C01 Icinga.Proto

structure DSt where
  cfg : Cfg := { kind := .service, max := 1, volatile := false }
  st : St := pending
  sp : SpecSt := specInit
  h : HistSt := histInit
  caseNo : Nat := 0
  steps : Nat := 0
  dropped : Nat := 0
  evNone : Nat := 0
  evSoft : Nat := 0
  evHard : Nat := 0
  softN : Nat := 0
  hardN : Nat := 0
  caseFailed : Bool := false
  caseHadHard : Bool := false     -- a case is non-trivial if it reached a hard problem state
  nontrivial : Nat := 0
  mismatches : Nat := 0
  specfails : Nat := 0
  starts : Nat := 0               -- cases with a restored start state
  startsKnown : Nat := 0          -- … of which held to the whole property at once
  envOps : Nat := 0
  unreach : Nat := 0              -- results processed while the object was unreachable
  unreachSoft : Nat := 0          -- … that left it in a soft state (what an "unreachable ⇒ hard" shortcut would change)
  acked : Nat := 0
  flapping : Nat := 0
  inDowntime : Nat := 0
  viaApi : Nat := 0
  viaExtCmd : Nat := 0
  hardEvAfterHard : Nat := 0      -- hard events with a known previous hard state (previous_hard_state checked)
  closed : Bool := false          -- after a concurrent pair: what is read outside the object lock is not defined
  skipped : Nat := 0
  pairs : Nat := 0                -- concurrent pairs (X)
  pairsHard : Nat := 0            -- … that ended in a hard problem state
  overlap : Nat := 0              -- accepted results whose execution started before the previous result's execution ended
  lastEnd : Int := 0
  pausedCases : Nat := 0
  pausedEvents : Nat := 0         -- events reported by an object without authority
  paused : Bool := false
  overtaken : Nat := 0            -- Y operations
  overtakenDiff : Nat := 0        -- … in which the two results leave different state types

def showObs (o : Obs) : String :=
  s!"{showBool o.accepted},{o.state.toNat},{o.stype.toNat},{o.attempt},{o.lastHard.toNat},{o.ev.toNat},{o.prevHard},{o.vaState},{o.vaType},{o.vaAttempt},{o.apiState},{o.apiLastState},{o.apiLastHard}"

def showPair (o : PairObs) : String :=
  s!"{showBool o.accA},{showBool o.accB},{o.state.toNat},{o.stype.toNat},{o.attempt},{o.lastHard.toNat},{o.hardA},{o.hardB}"

def parseObs (ws : List String) : Option Obs :=
  match ws with
  | [a, s, t, at_, lh, e, ph, vs, vt, va, as, als, alh] => do
    let a ← parseBool? a
    let s ← (parseNat? s) >>= SState.ofNat?
    let t ← (parseNat? t) >>= SType.ofNat?
    let at_ ← parseNat? at_
    let lh ← (parseNat? lh) >>= SState.ofNat?
    let e ← (parseNat? e) >>= Ev.ofNat?
    let ph ← parseNat? ph
    let vs ← parseNat? vs
    let vt ← parseNat? vt
    let va ← parseNat? va
    let as ← parseNat? as
    let als ← parseNat? als
    let alh ← parseNat? alh
    pure { accepted := a, state := s, stype := t, attempt := at_, lastHard := lh, ev := e, prevHard := ph,
           vaState := vs, vaType := vt, vaAttempt := va, apiState := as, apiLastState := als, apiLastHard := alh }
  | _ => none

/-- Split the text after `|` at `;` into the observation and the environment flags. -/
def splitSemi (ws : List String) : List String × List String :=
  (ws.takeWhile (· ≠ ";"), (ws.dropWhile (· ≠ ";")).drop 1)

def stOfObs (o : Obs) (old : St) (lastExec : Option Int) : St :=
  { state := o.state, stype := o.stype, attempt := o.attempt, lastHard := o.lastHard,
    hist := o.lastHard.toNat * 100 + o.prevHard, lastState := old.state, lastExec := lastExec }

/-- `overtaken`: the line is the first half of a `Y` operation (same model, same specification; a wrong event is
    reported under the clause name of F-C01a). -/
def handleCore (overtaken : Bool) (d : DSt) (n : Nat) (line : String) : IO DSt := do
  let ws := words line
  match ws with
  | [] => return d
  | "C" :: k :: mx :: vol :: more =>
    match (if k == "h" then some Kind.host else if k == "s" then some Kind.service else none),
          parseNat? mx, parseBool? vol with
    | some k, some mx, some vol =>
      let paused := more.drop 2 == ["1"]
      return { d with cfg := { kind := k, max := mx, volatile := vol }, st := pending, sp := specInit, h := histInit,
                      caseNo := d.caseNo + 1, caseFailed := false, caseHadHard := false, closed := false, lastEnd := 0,
                      paused := paused, pausedCases := d.pausedCases + (if paused then 1 else 0) }
    | _, _, _ => IO.println s!"BADLINE line={n}"; return d
  | "S" :: rest =>
    let (pre, post) := splitBar rest
    match pre with
    | [st, ty, at_, lh, ph, ex] =>
      match (parseNat? st) >>= SState.ofNat?, (parseNat? ty) >>= SType.ofNat?, parseNat? at_,
            (parseNat? lh) >>= SState.ofNat?, parseNat? ph, parseInt? ex with
      | some st, some ty, some at_, some lh, some ph, some ex =>
        -- the hypotheses of `model_trace_meets_spec`: attempt ≥ 1, history word below 10000
        if at_ < 1 || ph > 99 then
          IO.println s!"BADLINE line={n}"; return d
        else
          let s0 : St := { state := st, stype := ty, attempt := at_, lastHard := lh, hist := lh.toNat * 100 + ph,
                           lastState := st, lastExec := some ex }
          let mut d := { d with st := s0, sp := specStart d.cfg s0, h := histStart d.cfg s0, starts := d.starts + 1 }
          if d.sp.everOk then d := { d with startsKnown := d.startsKnown + 1 }
          match parseObs post with
          | some io =>
            let mo := stObs d.cfg s0
            if mo != io then
              IO.println s!"MISMATCH line={n} case={d.caseNo} impl={showObs io} model={showObs mo}"
              d := { d with mismatches := d.mismatches + 1 }
            -- the specification reads the implementation's own observation of the start state
            if d.h.last.isSome then d := { d with h := { d.h with last := some io } }
          | none => IO.println s!"BADLINE line={n}"
          return d
      | _, _, _, _, _, _ => IO.println s!"BADLINE line={n}"; return d
    | _ => IO.println s!"BADLINE line={n}"; return d
  | "R" :: rest =>
    if d.closed then return { d with skipped := d.skipped + 1 }
    let (pre, post) := splitBar rest
    let (obsW, envW) := splitSemi post
    -- an optional fifth field (execution end) is the property's business only through the order of the starts
    match pre.take 4, parseObs obsW with
    | [st, es, nw, via], some io =>
      match (parseNat? st) >>= SState.ofNat?, parseInt? es, parseInt? nw with
      | some rs, some es, some nw =>
        let r : Res := { state := rs, execStart := es, now := nw }
        let p := step d.cfg d.st r
        let mo := obsOf d.cfg p
        let mut d := { d with steps := d.steps + 1 }
        if via == "2" then d := { d with viaApi := d.viaApi + 1 }
        if via == "3" then d := { d with viaExtCmd := d.viaExtCmd + 1 }
        if mo != io then
          IO.println s!"MISMATCH line={n} case={d.caseNo} impl={showObs io} model={showObs mo}"
          d := { d with mismatches := d.mismatches + 1 }
        -- the specification on the implementation's own observation
        if io.accepted && io.ev == .hard && d.h.hardAt.isSome then
          d := { d with hardEvAfterHard := d.hardEvAfterHard + 1 }
        let (cl, sp', h') := if overtaken then overtakenStep d.cfg d.sp d.h r io else fullStep d.cfg d.sp d.h r io
        match cl with
        | some cl =>
          if !d.caseFailed then
            IO.println s!"SPECFAIL line={n} case={d.caseNo} clause={cl.name}"
          d := { d with specfails := d.specfails + 1, caseFailed := true }
        | none => pure ()
        d := { d with sp := sp', h := h' }
        if !io.accepted then
          d := { d with dropped := d.dropped + 1 }
        if d.paused && io.ev != .none then d := { d with pausedEvents := d.pausedEvents + 1 }
        if io.accepted then
          let ee := ((pre.drop 4).head? >>= parseInt?).getD es
          if es < d.lastEnd then d := { d with overlap := d.overlap + 1 }
          d := { d with lastEnd := ee }
        -- histogram
        d := match io.ev with
          | .none => { d with evNone := d.evNone + 1 }
          | .soft => { d with evSoft := d.evSoft + 1 }
          | .hard => { d with evHard := d.evHard + 1 }
        d := match io.stype with
          | .soft => { d with softN := d.softN + 1 }
          | .hard => { d with hardN := d.hardN + 1 }
        if io.stype == .hard && !isOK d.cfg.kind io.state && !d.caseHadHard then
          d := { d with caseHadHard := true, nontrivial := d.nontrivial + 1 }
        match envW with
        | [re, ak, fl, dt] =>
          if re == "0" && io.accepted then
            d := { d with unreach := d.unreach + 1 }
            if io.stype == .soft then d := { d with unreachSoft := d.unreachSoft + 1 }
          if ak == "1" then d := { d with acked := d.acked + 1 }
          if fl == "1" then d := { d with flapping := d.flapping + 1 }
          if dt == "1" then d := { d with inDowntime := d.inDowntime + 1 }
        | _ => pure ()
        -- follow the model (it is the oracle for the diff); on a mismatch resynchronise on the
        -- implementation so that one divergence is reported once
        let st' : St := if mo != io then
            stOfObs io d.st (if io.accepted then some es else d.st.lastExec)
          else p.1
        return { d with st := st' }
      | _, _, _ => IO.println s!"BADLINE line={n}"; return d
    | _, _ => IO.println s!"BADLINE line={n}"; return d
  | "X" :: rest =>
    if d.closed then return { d with skipped := d.skipped + 1 }
    let (pre, post) := splitBar rest
    match pre, post with
    | [sa, sb, es, nw], [aa, ab, fs, ft, fa, fl, ha, hb] =>
      match (parseNat? sa) >>= SState.ofNat?, (parseNat? sb) >>= SState.ofNat?, parseInt? es, parseInt? nw,
            parseBool? aa, parseBool? ab, (parseNat? fs) >>= SState.ofNat?, (parseNat? ft) >>= SType.ofNat?,
            parseNat? fa, (parseNat? fl) >>= SState.ofNat?, parseNat? ha, parseNat? hb with
      | some sa, some sb, some es, some nw, some aa, some ab, some fs, some ft, some fa, some fl, some ha, some hb =>
        let po : PairObs := { accA := aa, accB := ab, state := fs, stype := ft, attempt := fa, lastHard := fl,
                              hardA := ha, hardB := hb }
        -- the model: A, then B (the order the harness forces on an implementation that serialises the calls)
        let p1 := step d.cfg d.st { state := sa, execStart := es, now := nw }
        let p2 := step d.cfg p1.1 { state := sb, execStart := es, now := nw }
        let flag (p : St × Ev × Bool) : Nat := if p.2.2 && p.2.1 == .hard then 1 else 0
        let mo : PairObs := { accA := p1.2.2, accB := p2.2.2, state := p2.1.state, stype := p2.1.stype,
                              attempt := p2.1.attempt, lastHard := p2.1.lastHard, hardA := flag p1, hardB := flag p2 }
        let mut d := { d with steps := d.steps + 2, pairs := d.pairs + 1, closed := true }
        if mo != po then
          IO.println s!"MISMATCH line={n} case={d.caseNo} impl={showPair po} model={showPair mo}"
          d := { d with mismatches := d.mismatches + 1 }
        if po.stype == .hard && !isOK d.cfg.kind po.state then d := { d with pairsHard := d.pairsHard + 1 }
        match pairStep d.cfg d.sp d.h.lastExec sa sb es po with
        | some cl =>
          if !d.caseFailed then
            IO.println s!"SPECFAIL line={n} case={d.caseNo} clause={cl.name}"
          d := { d with specfails := d.specfails + 1, caseFailed := true }
        | none => pure ()
        return d
      | _, _, _, _, _, _, _, _, _, _, _, _ => IO.println s!"BADLINE line={n}"; return d
    | _, _ => IO.println s!"BADLINE line={n}"; return d
  | op :: _ =>
    if op == "P" || op == "A" || op == "D" || op == "F" || op == "U" then
      return { d with envOps := d.envOps + 1 }
    else
      IO.println s!"BADLINE line={n}"; return d

def handle (d : DSt) (n : Nat) (line : String) : IO DSt := do
  match words line with
  | "Y" :: rest =>
    if d.closed then return { d with skipped := d.skipped + 1 }
    let (pre, post) := splitBar rest
    let obsA := post.takeWhile (· ≠ ";;")
    let restB := (post.dropWhile (· ≠ ";;")).drop 1
    match pre with
    | [sa, sb, es, nw] =>
      match (parseNat? sa) >>= SState.ofNat?, (parseNat? sb) >>= SState.ofNat?, parseInt? es, parseInt? nw with
      | some a, some b, some e, some w =>
        -- an overtaken result counts when it reached hard/soft differently from the overtaking one (the case in which
        -- a late re-read of the state type would show)
        let p1 := step d.cfg d.st { state := a, execStart := e, now := w }
        let p2 := step d.cfg p1.1 { state := b, execStart := e, now := w }
        let d := { d with overtaken := d.overtaken + 1,
                          overtakenDiff := d.overtakenDiff + (if p1.1.stype != p2.1.stype then 1 else 0) }
        let d ← handleCore true d n (" ".intercalate (["R", sa, es, nw, "1", "|"] ++ obsA))
        handleCore false d n (" ".intercalate (["R", sb, es, nw, "0", "|"] ++ restB))
      | _, _, _, _ => IO.println s!"BADLINE line={n}"; return d
    | _ => IO.println s!"BADLINE line={n}"; return d
  | _ => handleCore false d n line

def main : IO Unit := do
  let stdin ← IO.getStdin
  let d ← foldLines stdin handle ({} : DSt)
  IO.println s!"STATS cases={d.caseNo} steps={d.steps} dropped={d.dropped} ev_none={d.evNone} ev_soft={d.evSoft} ev_hard={d.evHard} soft={d.softN} hard={d.hardN} nontrivial={d.nontrivial} starts={d.starts} starts_known={d.startsKnown} envops={d.envOps} unreachable={d.unreach} unreachable_soft={d.unreachSoft} acked={d.acked} flapping={d.flapping} in_downtime={d.inDowntime} via_api={d.viaApi} via_extcmd={d.viaExtCmd} prev_hard_checked={d.hardEvAfterHard} pairs={d.pairs} pairs_hard={d.pairsHard} overlap={d.overlap} paused_cases={d.pausedCases} paused_events={d.pausedEvents} overtaken={d.overtaken} overtaken_diff={d.overtakenDiff} skipped={d.skipped} mismatches={d.mismatches} specfails={d.specfails}"
